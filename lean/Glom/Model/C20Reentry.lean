/-
  C20 — the per-call ERROR BOOKKEEPING of glom as heap state, and re-entrant calls that are
  handed the scope of the running call.

  What `_glom` keeps per scope map (glom/core.py): `CHILD_ERRORS` (a list OBJECT: the child
  scopes whose evaluation failed), `LAST_CHILD_SCOPE`, `CUR_ERROR`, `NO_PYFRAME` (set by
  `chain_child` on the previous link of a tuple chain), `UP`.  The error trace of a call is
  rendered from exactly these (`_unpack_stack`).

  * `_glom(target, spec, scope)`          → `enter` (new child map with a fresh list; the parent's
                                             `LAST_CHILD_SCOPE` is rebound) and, in its `except`
                                             handler, `onError` (append to the PARENT map's list,
                                             set `CUR_ERROR`, walk up while `NO_PYFRAME`).
  * `chain_child(scope)`                  → `chainChild` (marks the last child, empties ITS list
                                             in place, returns it).
  * `glom(t, spec)`                       → a root map under the default scope (`How.isolated`).
  * `Spec(spec).glom(t, scope=scope)` and `glom(t, spec, scope=scope)` with the scope of a
    running call                          → `flatCopy`: a new map holding what `dict(scope)` sees —
                                             the CALLER's `CHILD_ERRORS` list object and any
                                             `NO_PYFRAME` marker of its chain — except for the keys
                                             the function resets after the merge (`resets`,
                                             extracted from the source: `c20SpecGlomResets`,
                                             `c20GlomResets`).  `LAST_CHILD_SCOPE` / `CUR_ERROR` of
                                             the copy are dead (rebound before read / never read).
  * specs, as far as bookkeeping can see them → `RSpec`: a leaf that returns or raises, a spec
    with a scope of its own (dict, tuple, `Spec(…)`, `Coalesce`), children evaluated one after the
    other / as alternatives / as links of a tuple chain, and a custom spec whose `glomit` makes a
    re-entrant call, catches its failure, and then evaluates another child the ordinary way
    (`scope[glom](target, after, scope)`).
-/
namespace Glom.C20.Re

/-- specs are named by numbers (the driver keeps their reprs), so that `decide` can run the model -/
abbrev Label := Nat

/-- exceptions by identity: the one a leaf raised, the CoalesceError of a Coalesce, and the
    IndexError of `cur_scope.maps[1]` on a one-map ChainMap -/
inductive Err where
  | raised (id : Nat)
  | coalesce (l : Label)
  | indexError
  deriving DecidableEq, Repr

/-- which of the bookkeeping keys that matter a re-entrant evaluation resets after merging the
    scope it was handed (the other two, `LAST_CHILD_SCOPE` and `CUR_ERROR`, are dead in the copy) -/
structure Resets where
  childErrors : Bool      -- `scope[CHILD_ERRORS] = []`
  noPyframe : Bool        -- `scope.pop(NO_PYFRAME, None)`
  deriving DecidableEq, Repr

def Resets.ofKeys (ks : List String) : Resets := ⟨ks.contains "CHILD_ERRORS", ks.contains "NO_PYFRAME"⟩

structure BFrame where
  spec : Label
  up : Option Nat            -- `UP` / `maps[1]`: `none` for a root or a flattened copy (a one-map ChainMap)
  childErrors : Nat          -- address of the list object bound to `CHILD_ERRORS`
  lastChild : Option Nat
  curError : Option Err
  noPyframe : Bool
  deriving DecidableEq, Repr

structure BSt where
  frames : List BFrame
  lists : List (List Nat)    -- the heap of list objects; a failed-branch list holds scope addresses
  deriving DecidableEq, Repr

def modAt {α : Type} (l : List α) (i : Nat) (g : α → α) : List α :=
  match l[i]? with
  | some x => l.set i (g x)
  | none => l

def BSt.modFrame (st : BSt) (a : Nat) (g : BFrame → BFrame) : BSt := { st with frames := modAt st.frames a g }
def BSt.modList (st : BSt) (l : Nat) (g : List Nat → List Nat) : BSt := { st with lists := modAt st.lists l g }

/-- a new scope map with a fresh `CHILD_ERRORS: []` -/
def BSt.alloc (st : BSt) (spec : Label) (up : Option Nat) : BSt × Nat :=
  ({ frames := st.frames ++ [⟨spec, up, st.lists.length, none, none, false⟩], lists := st.lists ++ [[]] },
   st.frames.length)

/-- `_glom`: `scope = parent.new_child({…, CHILD_ERRORS: []}); pmap[LAST_CHILD_SCOPE] = scope` -/
def enter (st : BSt) (parent : Nat) (spec : Label) : BSt × Nat :=
  let r := st.alloc spec (some parent)
  (r.1.modFrame parent (fun f => { f with lastChild := some r.2 }), r.2)

/-- `cur.maps[1][CHILD_ERRORS].append(cur); cur.maps[0][CUR_ERROR] = e` for the frame `cur` whose
    parent map is `fu` -/
def record (st : BSt) (cur : Nat) (fu : BFrame) (e : Err) : BSt :=
  (st.modList fu.childErrors (· ++ [cur])).modFrame cur (fun f => { f with curError := some e })

/-- the `while NO_PYFRAME in cur_scope.maps[0]` loop of the handler; a marked scope without a
    parent map is the IndexError of `cur_scope.maps[1]` -/
def walk (e : Err) : Nat → BSt → Nat → BSt × Err
  | 0, st, _ => (st, e)
  | n + 1, st, cur =>
    match st.frames[cur]? with
    | none => (st, e)
    | some f =>
      if f.noPyframe then
        match f.up with
        | none => (st, .indexError)
        | some u =>
          match st.frames[u]? with
          | none => (st, .indexError)
          | some fu => walk e n (record st cur fu e) u
      else (st, e)

/-- the `except` handler of `_glom` for the scope `a`; returns the exception that propagates -/
def onError (st : BSt) (a : Nat) (e : Err) : BSt × Err :=
  match st.frames[a]? with
  | none => (st, e)
  | some f =>
    match f.up with
    | none => (st, e)
    | some p =>
      match st.frames[p]? with
      | none => (st, e)
      | some fp => let st1 := record st a fp e; walk e st1.frames.length st1 p

/-- `chain_child(scope)` -/
def chainChild (st : BSt) (a : Nat) : BSt × Nat :=
  match st.frames[a]? with
  | none => (st, a)
  | some f =>
    match f.lastChild with
    | none => (st, a)
    | some c =>
      match st.frames[c]? with
      | none => (st, a)
      | some fc =>
        match fc.up with
        | none => (st, a)        -- not reached: the last child was made by `_glom`
        | some _ => ((st.modFrame c (fun f => { f with noPyframe := true })).modList fc.childErrors (fun _ => []), c)

/-- `NO_PYFRAME in dict(scope)`: some map of the chain has the marker -/
def visibleNoPyframe : Nat → BSt → Nat → Bool
  | 0, _, _ => false
  | n + 1, st, a =>
    match st.frames[a]? with
    | none => false
    | some f => f.noPyframe || (match f.up with | some u => visibleNoPyframe n st u | none => false)

/-- the map a re-entrant evaluation starts from when it is handed the scope of `a`: the flattened
    copy, with the keys in `resets` dropped (`NO_PYFRAME`) or rebound to a fresh list (`CHILD_ERRORS`) -/
def flatCopy (st : BSt) (a : Nat) (resets : Resets) : BSt × Nat :=
  let nopy := !resets.noPyframe && visibleNoPyframe st.frames.length st a
  if resets.childErrors then
    ({ frames := st.frames ++ [⟨0, none, st.lists.length, none, none, nopy⟩],
       lists := st.lists ++ [[]] }, st.frames.length)
  else
    let shared := ((st.frames[a]?).map (·.childErrors)).getD st.lists.length
    ({ st with frames := st.frames ++ [⟨0, none, shared, none, none, nopy⟩] }, st.frames.length)

inductive How where
  | isolated                         -- `glom(t, inner)`
  | handed (resets : Resets)          -- `Spec(inner).glom(t, scope=scope)` / `glom(t, inner, scope=scope)`
  deriving DecidableEq, Repr

inductive RSpec where
  | pure (v : Nat)                                   -- a value without a scope of its own (a `default=`)
  | leaf (label : Label) (r : Except Err Nat)       -- a spec without children: returns or raises
  | sub (label : Label) (c : RSpec)                  -- a spec that evaluates `c` in its own scope (dict, tuple, Spec(…))
  | coal (label : Label) (c : RSpec)                 -- `Coalesce`: like `sub`, but a failure of `c` becomes its own error
  | both (x y : RSpec)                               -- two children of one scope, one after the other (dict values)
  | orElse (x y : RSpec)                             -- `x`, and `y` when `x` failed (alternatives of a Coalesce)
  | andThen (x y : RSpec)                            -- tuple chain: `x`, then `y` under `chain_child(scope)`
  | reent (label : Label) (how : How) (inner after : RSpec)
    -- a custom spec: `try: <inner call> except GlomError: pass; return scope[glom](target, after, scope)`

/-- the root map of a `glom()` call -/
def newRoot (st : BSt) : BSt × Nat := st.alloc 0 none

/-- the map the inner call of a re-entry made from scope `a` starts from -/
def start (st : BSt) (a : Nat) : How → BSt × Nat
  | .isolated => newRoot st
  | .handed resets => flatCopy st a resets

def eval : RSpec → BSt → Nat → BSt × Except Err Nat
  | .pure v, st, _ => (st, .ok v)
  | .leaf l r, st, p =>
    let s1 := enter st p l
    match r with
    | .ok v => (s1.1, .ok v)
    | .error e => let r := onError s1.1 s1.2 e; (r.1, .error r.2)
  | .sub l c, st, p =>
    let s1 := enter st p l
    match eval c s1.1 s1.2 with
    | (st2, .ok v) => (st2, .ok v)
    | (st2, .error e) => let r := onError st2 s1.2 e; (r.1, .error r.2)
  | .coal l c, st, p =>
    let s1 := enter st p l
    match eval c s1.1 s1.2 with
    | (st2, .ok v) => (st2, .ok v)
    | (st2, .error _) => let r := onError st2 s1.2 (.coalesce l); (r.1, .error r.2)
  | .both x y, st, p =>
    match eval x st p with
    | (st2, .error e) => (st2, .error e)
    | (st2, .ok _) => eval y st2 p
  | .orElse x y, st, p =>
    match eval x st p with
    | (st2, .ok v) => (st2, .ok v)
    | (st2, .error _) => eval y st2 p
  | .andThen x y, st, p =>
    match eval x st p with
    | (st2, .error e) => (st2, .error e)
    | (st2, .ok _) => let s3 := chainChild st2 p; eval y s3.1 s3.2
  | .reent l how inner after, st, p =>
    let s1 := enter st p l
    let s2 := start s1.1 s1.2 how
    let st3 := (eval inner s2.1 s2.2).1   -- `try: … except GlomError: pass`
    match eval after st3 s1.2 with
    | (st4, .ok v) => (st4, .ok v)
    | (st4, .error e) => let r := onError st4 s1.2 e; (r.1, .error r.2)

/-- what a spec evaluates to, whatever scope it is evaluated in -/
def denote : RSpec → Except Err Nat
  | .pure v => .ok v
  | .leaf _ r => r
  | .sub _ c => denote c
  | .coal l c =>
    match denote c with
    | .ok v => .ok v
    | .error _ => .error (.coalesce l)
  | .both x y =>
    match denote x with
    | .error e => .error e
    | .ok _ => denote y
  | .orElse x y =>
    match denote x with
    | .ok v => .ok v
    | .error _ => denote y
  | .andThen x y =>
    match denote x with
    | .error e => .error e
    | .ok _ => denote y
  | .reent _ _ _ after => denote after

/-- the error of an outcome (`Except` has no decidable equality) -/
def errOf : Except Err Nat → Option Err
  | .error e => some e
  | .ok _ => none

def How.covers : How → Bool
  | .isolated => true
  | .handed rs => rs.childErrors && rs.noPyframe

/-- every re-entry inside the spec resets the two keys that matter -/
def RSpec.covered : RSpec → Bool
  | .pure _ => true
  | .leaf _ _ => true
  | .sub _ c => c.covered
  | .coal _ c => c.covered
  | .both x y => x.covered && y.covered
  | .orElse x y => x.covered && y.covered
  | .andThen x y => x.covered && y.covered
  | .reent _ h i a => h.covers && i.covered && a.covered

/-! ### the trace skeleton rendered from the bookkeeping (`_unpack_stack`, `format_target_spec_trace`) -/

/-- `_unpack_stack(scope, only_errors=True)` before the push-down: (scope, error, branches) -/
def unpack : Nat → BSt → Nat → List (Nat × Option Err × List Nat)
  | 0, _, _ => []
  | n + 1, st, a =>
    match st.frames[a]? with
    | none => []
    | some f =>
      match f.lastChild with
      | none => [(a, f.curError, [])]
      | some child =>
        let bs := (st.lists[f.childErrors]?).getD []
        let branches := if bs == [child] then [] else bs
        let here := (a, f.curError, branches)
        if branches.contains child then [here]
        else match (st.frames[child]?).bind (·.curError) with
          | none => [here]
          | some _ => here :: unpack n st child

/-- `if cur[3] == nxt[3]: cur[3] = None` -/
def pushDown : List (Nat × Option Err × List Nat) → List (Nat × Option Err × List Nat)
  | x :: y :: r => (if x.2.1 == y.2.1 then (x.1, none, x.2.2) else x) :: pushDown (y :: r)
  | l => l

/-- `while len(stack) > 1 and stack[-1][3] is None: stack.pop()` -/
def trimTail : List (Nat × Option Err × List Nat) → List (Nat × Option Err × List Nat)
  | [] => []
  | [x] => [x]
  | x :: r => match trimTail r with
    | [y] => if y.2.1.isNone then [x] else [x, y]
    | r' => x :: r'

/-- a line of the rendered trace (Target lines are not modelled) -/
inductive Line where
  | spec (l : Label)          -- ` - Spec: …` / ` | Spec: …`
  | branching (l : Label)     -- ` + Spec: …`: the branches follow, one level deeper
  | error (e : Err)           -- the error a branch ended with
  deriving DecidableEq, Repr

/-- the lines of the trace with their depth -/
def render (root : Err) : Nat → BSt → Nat → Nat → List (Nat × Line)
  | 0, _, _, _ => []
  | n + 1, st, depth, a =>
    (trimTail (pushDown (unpack (st.frames.length + 1) st a))).flatMap fun (s, err, branches) =>
      let label := ((st.frames[s]?).map (·.spec)).getD 0
      (if branches.isEmpty then [(depth, Line.spec label)]
       else (depth, Line.branching label) :: branches.flatMap (render root n st (depth + 1))) ++
      (match err with
       | some e => if e == root then [] else [(depth, Line.error e)]
       | none => [])

inductive CallOut where
  | val (v : Nat)
  | err (e : Err) (trace : List (Nat × Line))
  deriving DecidableEq, Repr

/-- run a call: the root map of `glom()`, the spec under it, and — when it failed — the rendered
    trace skeleton of `err._finalize(scope[LAST_CHILD_SCOPE])` -/
def runCall (spec : RSpec) : CallOut :=
  let s0 := newRoot ⟨[], []⟩
  match eval spec s0.1 s0.2 with
  | (_, .ok v) => .val v
  | (st, .error e) => .err e (render e (st.frames.length + 1) st 0 (s0.2 + 1))

end Glom.C20.Re
