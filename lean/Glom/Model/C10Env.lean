import Glom.Model.C10
import Glom.Generated.ExcFacts
import Glom.Generated.RegFacts
import Glom.Generated.MatchFacts
/-
  The environment of C09/C10 instantiated with the facts regenerated from
  /repo on this run: exception MROs, the class table of the builtin value
  types, every raise/except site of glom/matching.py, the M comparison
  overload and dispatch tables, the & | ~ overload table.
-/
namespace Glom.C10
open Glom

def genEnv : Env :=
  { exc := Generated.excTable
    cls := ("Obj", ["Obj", "object"]) :: Generated.targetClassTable
    raises := Generated.matchRaises
    catches := Generated.matchCatches
    mRecorded := Generated.mRecorded
    mDispatch := Generated.mDispatch
    boolOps := Generated.boolOps }

end Glom.C10
