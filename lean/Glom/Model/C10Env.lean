import Glom.Model.C10
import Glom.Generated.ExcFacts
import Glom.Generated.RegFacts
import Glom.Generated.MatchFacts
/-
  The environment of C09/C10 instantiated with the facts regenerated from
  /repo on this run: exception MROs, the class table of the builtin value
  types, every raise/except site of glom/matching.py, the M comparison
  overload and dispatch tables, the & | ~ overload table.
-/
namespace Glom.C10
open Glom

/-- rows of the classes the harness defines (harness/props/c10.py: `Obj`, `World.cls`, `Color`):
    plain classes deriving from `object` — hence Hashable and nothing else among the stdlib
    ABCs.  (Validated like every row by the correspondence: the type atom × value table is
    part of the corpus.) -/
def userClassRows : ClassTable :=
  ["Obj", "Rec", "Tagged", "K0", "K1", "K2", "K3"].map (fun c => (c, [c, "object", "Hashable"])) ++
  [("Color", ["Color", "Enum", "object", "Hashable"]),
   -- a class object / a function object as a VALUE (`obj "type#int"`, `obj "function#is_str_3"`: the very
   -- object a `ty` / `pred` pattern node denotes, e.g. as a key of a target dict)
   ("type", ["type", "object", "Hashable", "Callable"]),
   ("function", ["function", "object", "Hashable", "Callable"])] ++
  -- user subclasses of the builtin containers and of str (they override nothing): the row of the
  -- builtin class — real MRO and virtual ABC bases — below the subclass itself
  [("MyDict", "dict"), ("MyList", "list"), ("MyTuple", "tuple"), ("MySet", "set"), ("MyFset", "frozenset"),
   ("MyStr", "str")].map (fun p => (p.1, p.1 :: ClassTable.mro Generated.abcClassTable p.2))

def genEnv : Env :=
  { exc := Generated.excTable
    cls := userClassRows ++ Generated.abcClassTable ++ Generated.targetClassTable
    raises := Generated.matchRaises
    catches := Generated.matchCatches
    mRecorded := Generated.mRecorded
    mDispatch := Generated.mDispatch
    boolOps := Generated.boolOps }

end Glom.C10
