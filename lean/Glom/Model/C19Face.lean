import Glom.Model.C19
/-
  C19 — code-shaped model of what `main(argv)` does BEFORE `mw_get_target`: face's parser
  (`face/parser.py` 24.0: `Parser.parse`, `_parse_flags`, `_parse_single_flag`, `_parse_flagfile`,
  `_resolve_flags`, `PosArgSpec.parse`; `face/command.py`: `Command.run`) run on the option
  table of glom's command.  The table is NOT written here: it is the value the extractor reads
  off the object `glom.cli.get_command()` builds (flag map with keys, `parse_as`, `multi`;
  positional-argument limits; flagfile and help flags) — `Table`, instantiated in
  Model/C19Env.lean.  The parser sees the outside world only through `PEnv` (`int()`, the
  content of a flagfile split by `shlex`, `abspath`): it never looks at a spec or a target.

  Mirrors:
    * `normalize_flag_name` (leading dashes dropped — all of them —, lower-cased when there were
      two or more, `-` → `_`);
    * `_parse_flags`: flags are read only up to the first argument that is empty, does not start
      with `-`, or is `-` / `--`; everything from there on is positional;
    * `_parse_single_flag`: `--flag=value` / `--flag value`; a flag whose `parse_as` is a constant
      takes no argument (`--scalar=` with an empty text is accepted); unknown flag, missing or
      unconvertible argument → ArgumentParseError;
    * `--flagfile PATH` (face adds it to every command): one flag per line, nested flagfiles,
      every file taken once (keyed by `abspath`);
    * `_resolve_flags`: a flag with `multi='error'` given twice → DuplicateFlag;
    * `--` ends the positional arguments; glom's command takes none after it;
    * more positional arguments than `max_count` → ArgumentArityError;
    * `Command.run`: an ArgumentParseError raised AFTER the flags were read shows the help text
      instead when `--help` / `-h` was among them; otherwise CommandLineError; `--help` → help
      text, `main` returns 0.
-/
namespace Glom.C19

structure FlagSpec where
  name : String
  kind : String          -- "str" | "int" | "const" (a flag without argument)
  multi : String         -- "error" | "extend" | "override"
  deriving DecidableEq, Repr

/-- the option table of the command (extracted from the object face builds) -/
structure Table where
  flags : List FlagSpec
  keys : List (String × String)      -- the flag map: normalised key (name or short char) → flag name
  posMax : Option Nat                -- `PosArgSpec.max_count`
  postPosargs : Bool                 -- does the command accept arguments after `--`
  flagfile : String                  -- name of the flagfile flag ("" = disabled)
  help : String                      -- name of the help flag ("" = none)
  deriving DecidableEq, Repr

inductive FVal where
  | str (s : String)
  | int (n : Int)
  | on                               -- a constant flag was present
  deriving DecidableEq, Repr

/-- what face's parser needs of the outside world: `int()`, reading a flagfile, `abspath` -/
structure PEnv where
  parseInt : String → Option Int
  flagfile : String → Except (Bool × String) (List (Except String (List String)))
  abspath : String → String

variable {T S R : Type}

/-- the part of the externals the parser sees (not the spec parsers, not the loaders, not glom) -/
def Ext.penv (X : Ext T S R) : PEnv := ⟨X.parseInt, X.flagfile, X.abspath⟩

/-- `normalize_flag_name` -/
def normalizeFlagName (arg : String) : String :=
  let cs := arg.toList
  let rest := cs.dropWhile (· == '-')
  let rest := if cs.length - rest.length > 1 then rest.map Char.toLower else rest
  String.ofList (rest.map (fun c => if c == '-' then '_' else c))

/-- split at the first occurrence of `sep`: what precedes it and — when it occurs — what follows -/
def splitFirst {α : Type} [BEq α] (sep : α) : List α → List α × Option (List α)
  | [] => ([], none)
  | x :: xs =>
    if x == sep then ([], some xs)
    else ((x :: (splitFirst sep xs).1), (splitFirst sep xs).2)

/-- `arg, arg_text = arg.split('=', maxsplit=1)` (no `=`: the argument itself, no text) -/
def splitEq (arg : String) : String × Option String :=
  match splitFirst '=' arg.toList with
  | (_, none) => (arg, none)
  | (a, some v) => (String.ofList a, some (String.ofList v))

def Table.lookup (tbl : Table) (arg : String) : Option FlagSpec :=
  match tbl.keys.find? (·.1 == normalizeFlagName arg) with
  | none => none
  | some k => tbl.flags.find? (·.name == k.2)

/-- a failure of the parser: an ArgumentParseError (→ CommandLineError, or the help text), or
    another exception (`shlex.split` on a flagfile line) that leaves `main` as it is -/
inductive PFail where
  | cli (e : CliErr)
  | exc (cls : String)
  deriving DecidableEq, Repr

/-- `parse_as(arg_text)` of a flag that takes an argument -/
def convArg (E : PEnv) (f : FlagSpec) (text : String) : Except PFail FVal :=
  if f.kind == "int" then
    match E.parseInt text with
    | some n => .ok (.int n)
    | none => .error (.cli .invalidFlagArg)
  else .ok (.str text)

/-- `_parse_single_flag(cmd_flag_map, args)` → (flag, value, `advance == 2`): the remaining
    arguments are `args[advance:]` -/
def parseSingleFlag (tbl : Table) (E : PEnv) (arg : String) (rest : List String) :
    Except PFail (FlagSpec × FVal × Bool) :=
  let (name, text) := splitEq arg
  match tbl.lookup name with
  | none => .error (.cli .unknownFlag)
  | some f =>
    if f.kind == "const" then
      if truthy text then .error (.cli .invalidFlagArg) else .ok (f, .on, false)
    else
      match text, rest with
      | some t, _ => (convArg E f t).map (fun v => (f, v, false))
      | none, v :: _ => (convArg E f v).map (fun v' => (f, v', true))
      | none, [] => .error (.cli .missingFlagArg)

/-- the flags read so far: name → value, in order, repetitions kept (face's OrderedMultiDict) -/
abbrev FlagMap := List (String × FVal)

/-- the flagfiles visited so far: absolute path → the flags it holds (face's `res_map`) -/
abbrev FFMap := List (String × FlagMap)

mutual
/-- `_parse_flagfile(cmd_flag_map, path, res_map)`.  `fuel` bounds nesting and lines together (a
    model bound; Python's is the recursion limit). -/
def parseFlagfile (tbl : Table) (E : PEnv) : Nat → String → FFMap → Except PFail FFMap
  | 0, _, _ => .error (.exc "RecursionError")
  | fuel + 1, path, res =>
    match E.flagfile path with
    -- `except (UnicodeError, EnvironmentError) as ee: raise ArgumentParseError(…)`; anything else escapes
    | .error (caught, c) => .error (if caught then .cli .flagfileUnreadable else .exc c)
    | .ok lines =>
      let key := E.abspath path
      if res.any (·.1 == key) then .ok res          -- `if path in res_map: return res_map`
      else
        -- `ret[path] = cur_file_res = OMD()`: the entry is created first, filled line by line
        flagfileLines tbl E fuel key lines [] (res ++ [(key, [])])
/-- `for lineno, line in enumerate(lines, 1): …` of `_parse_flagfile` -/
def flagfileLines (tbl : Table) (E : PEnv) :
    Nat → String → List (Except String (List String)) → FlagMap → FFMap → Except PFail FFMap
  | 0, _, _, _, _ => .error (.exc "RecursionError")
  | _ + 1, key, [], cur, res => .ok (res.map (fun e => if e.1 == key then (key, cur) else e))
  | fuel + 1, key, line :: more, cur, res =>
    match line with
    | .error c => .error (.exc c)                   -- `shlex.split` raised: no FaceException
    | .ok [] => flagfileLines tbl E fuel key more cur res      -- comment or empty line
    | .ok (a :: as) =>
      match parseSingleFlag tbl E a as with
      | .error e => .error e
      | .ok (f, v, adv) =>
        -- `if leftover_args: raise ArgumentParseError('excessive flags or arguments …')`
        if !(if adv then as.drop 1 else as).isEmpty then .error (.cli .flagfileExtraArgs)
        else
          let cur := cur ++ [(f.name, v)]
          if f.name == tbl.flagfile && tbl.flagfile != "" then
            match v with
            | .str p =>
              match parseFlagfile tbl E fuel p res with
              | .error e => .error e
              | .ok res' => flagfileLines tbl E fuel key more cur res'
            | _ => flagfileLines tbl E fuel key more cur res
          else flagfileLines tbl E fuel key more cur res
end

/-- the fuel handed to `parseFlagfile` for one `--flagfile` on the command line -/
def flagfileFuel : Nat := 4096

/-- one `--flagfile PATH` on the command line: the files it brings in that were not merged yet -/
def mergeFlagfile (tbl : Table) (E : PEnv) (f : FlagSpec) (v : FVal) (fm : FlagMap) (ff : FFMap)
    (seen : List String) : Except PFail (FlagMap × FFMap × List String) :=
  if f.name == tbl.flagfile && tbl.flagfile != "" then
    match v with
    | .str p =>
      match parseFlagfile tbl E flagfileFuel p ff with
      | .error e => .error e
      | .ok ff' =>
        let fresh := ff'.filter (fun e => !seen.contains e.1)
        .ok (fm ++ fresh.flatMap (·.2), ff', seen ++ fresh.map (·.1))
    | _ => .ok (fm, ff, seen)
  else .ok (fm, ff, seen)

/-- `_parse_flags`: flags are read while the next argument looks like one; → (flag map, the
    positional arguments).  `ff` / `seen`: the flagfiles visited / merged so far. -/
def parseFlags (tbl : Table) (E : PEnv) :
    List String → FlagMap → FFMap → List String → Except PFail (FlagMap × List String)
  | [], fm, _, _ => .ok (fm, [])
  | arg :: rest, fm, ff, seen =>
    -- `if not arg or arg[0] != '-' or arg == '-' or arg == '--': break`
    if arg.isEmpty || arg.front != '-' || arg == "-" || arg == "--" then .ok (fm, arg :: rest)
    else
      match parseSingleFlag tbl E arg rest with
      | .error e => .error e
      | .ok (f, v, adv) =>
        match mergeFlagfile tbl E f v (fm ++ [(f.name, v)]) ff seen with
        | .error e => .error e
        | .ok (fm', ff', seen') =>
          if adv then            -- `args[2:]`: the flag took the next argument as its value
            match rest with
            | _ :: rest' => parseFlags tbl E rest' fm' ff' seen'
            | [] => .ok (fm', [])
          else parseFlags tbl E rest fm' ff' seen'

/-- `_resolve_flags`: a flag whose `multi` is 'error' must not have two values -/
def duplicated (tbl : Table) (fm : FlagMap) : Bool :=
  tbl.flags.any (fun f => f.multi == "error" && (fm.filter (·.1 == f.name)).length > 1)

/-- the value a flag resolves to (`multi`: the only one / the last one); `none` = absent → `missing` -/
def flagVal (fm : FlagMap) (name : String) : Option FVal :=
  (fm.filter (·.1 == name)).getLast?.map (·.2)

def strVal (fm : FlagMap) (name : String) : Option String :=
  match flagVal fm name with
  | some (.str s) => some s
  | _ => none

def intVal (fm : FlagMap) (name : String) : Option Int :=
  match flagVal fm name with
  | some (.int n) => some n
  | _ => none

def onVal (fm : FlagMap) (name : String) : Bool :=
  match flagVal fm name with
  | some .on => true
  | _ => false

/-- `split(posargs, '--', 1)` when `'--' in posargs` -/
def splitDashDash (pos : List String) : List String × Option (List String) := splitFirst "--" pos

/-- positional-argument validation (`PosArgSpec.parse`, both specs) -/
def checkPosargs (tbl : Table) (pos : List String) : Except CliErr (List String) :=
  let (pos, post) := splitDashDash pos
  if !tbl.postPosargs && (post.getD []).length > 0 then .error .postPosargs
  else match tbl.posMax with
    | some m => if pos.length > m then .error .tooManyPosargs else .ok pos
    | none => .ok pos

inductive ParseRes where
  | ok (a : Argv)
  | help
  | fail (e : PFail)
  deriving DecidableEq, Repr

/-- the flags `mw_get_target` and `glom_cli` receive by name -/
def argvOf (fm : FlagMap) (pos : List String) : Argv :=
  { posargs := pos
    targetFile := strVal fm "target_file"
    targetFormat := strVal fm "target_format"
    specFile := strVal fm "spec_file"
    specFormat := strVal fm "spec_format"
    indent := intVal fm "indent"
    scalar := onVal fm "scalar"
    debug := onVal fm "debug"
    inspect := onVal fm "inspect" }

/-- `Command.run(argv)` up to the dispatch: `Parser.parse`, the help flag -/
def parseArgv (tbl : Table) (E : PEnv) (argv : List String) : ParseRes :=
  match argv with
  | [] => .fail (.cli .emptyArgv)
  | _ :: args =>
    match parseFlags tbl E args [] [] [] with
    | .error e => .fail e                      -- `cpr.flags` is still None: no help
    | .ok (fm, pos) =>
      let helpGiven := tbl.help != "" && fm.any (·.1 == tbl.help)
      let checked : Except CliErr (List String) :=
        if duplicated tbl fm then .error .duplicateFlag else checkPosargs tbl pos
      if helpGiven then .help
      else match checked with
        | .error e => .fail (.cli e)
        | .ok pos => .ok (argvOf fm pos)

/-- `main(argv)` -/
def cliMainArgv (tbl : Table) (F : Facts) (X : Ext T S R) (argv : List String) (w : World) : Outcome :=
  match parseArgv tbl X.penv argv with
  | .ok a => cliMain F X a w
  | .help => .exit 0 X.helpText
  | .fail (.cli e) => .cli e
  | .fail (.exc c) => .exc c

end Glom.C19
