import Glom.Py.Access
/-
  C01 — code-shaped model of path access.

  Mirrors glom/core.py:
    * `Path.from_text`      → `fromText`   (split on '.', `*`/`**` mapping under PATH_STAR)
    * `Path.__init__`       → `flatOfParts` (flattening into the flat `__ops__` tuple
                               `(T, op, arg, op, arg, …)`)
    * `_t_eval` main loop   → `tLoop`      (index `i` starts at 1, steps by 2, the
                               PathAccessError carries `i // 2`)
    * handler choice for 'P' through the default `get` registrations
      (generated table `defaultReg_get`), `PathAccessError(e, path, i // 2)`
      exactly for the exception classes each branch's `except` clause names
      (generated table `tDispatch`).
-/
namespace Glom.C01

open Glom

/-- what `_t_eval` can end with -/
inductive TErr where
  | pae (idx : Nat) (e : PyExc)      -- PathAccessError(e, path, idx)
  | raised (e : PyExc)               -- an exception no `except` clause of the branch names
  | unregistered                     -- UnregisteredTarget: no `get` handler
  | badSpec                          -- malformed ops tuple / unknown op
  deriving DecidableEq, Repr

structure TEnv where
  ct : ClassTable                              -- classes of target objects
  getReg : List (String × String)              -- registered `get` handlers
  dispatch : List (String × String × List String)  -- op → (kind, caught classes)
  excTable : ClassTable

/-- `get_handler('get', cur)`: exact type, else nearest registered ancestor.
    (For the default `get` registrations every virtual type maps to the same
    handler as `object`, so the nearest nominal ancestor decides; the full
    registry is the subject of C13.) -/
def getHandler (env : TEnv) (h : Heap) (cur : Val) : Option String :=
  (env.ct.mro (cur.clsName h)).findSome? (fun c =>
    match env.getReg.find? (·.1 == c) with
    | some (_, hn) => if hn == "False" then none else some hn
    | none => none)

def applyHandler (h : Heap) (hn : String) (cur arg : Val) : Except PyExc Val :=
  if hn == "getitem" then pyGetitem h cur arg
  else if hn == "_get_sequence_item" then pySeqGet h cur arg
  else if hn == "getattr" then pyGetattr h cur arg
  else .error (exc "NotImplementedError")

def dispatchOf (env : TEnv) (op : String) : Option (String × List String) :=
  (env.dispatch.find? (·.1 == op)).map (·.2)

/-- is exception `e` caught by an `except (c₁, …)` clause? -/
def caughtBy (env : TEnv) (caught : List String) (e : PyExc) : Bool :=
  caught.any (fun c => env.excTable.isSub e.cls c)

/-- one access step: `none` = no such branch in `_t_eval` -/
def accessOp (env : TEnv) (h : Heap) (op : String) (cur arg : Val) :
    Option (Except TErr (Except PyExc Val)) :=
  match dispatchOf env op with
  | some ("getattr", _) => some (.ok (pyGetattr h cur arg))
  | some ("getitem", _) => some (.ok (pyGetitem h cur arg))
  | some ("handler", _) =>
    match getHandler env h cur with
    | some hn => some (.ok (applyHandler h hn cur arg))
    | none => some (.error .unregistered)
  | _ => none

structure TOut where
  res : Except TErr Val
  touched : List (Nat × Val)  -- (part index, value accessed) for every access primitive that ran, in order
  deriving Repr

/-- the `while i < fetch_till` loop of `_t_eval` on the flat ops tuple -/
def tLoop (env : TEnv) (h : Heap) (flat : List Val) (i : Nat) (cur : Val) (tr : List (Nat × Val)) : TOut :=
  if _hlt : i < flat.length then
    match flat[i]?, flat[i+1]? with
    | some (.str op), some arg =>
      match accessOp env h op cur arg with
      | some (.ok (.ok v)) => tLoop env h flat (i + 2) v (tr ++ [(i / 2, cur)])
      | some (.ok (.error e)) =>
        match dispatchOf env op with
        | some (_, caught) =>
          if caughtBy env caught e then ⟨.error (.pae (i / 2) e), tr ++ [(i / 2, cur)]⟩
          else ⟨.error (.raised e), tr ++ [(i / 2, cur)]⟩
        | none => ⟨.error .badSpec, tr⟩
      | some (.error te) => ⟨.error te, tr⟩
      | none => ⟨.error .badSpec, tr⟩
    | _, _ => ⟨.error .badSpec, tr⟩
  else ⟨.ok cur, tr⟩
termination_by flat.length - i

/-- `_t_eval(target, _t, scope)` for a T-rooted ops tuple -/
def tEval (env : TEnv) (h : Heap) (flat : List Val) (target : Val) : TOut :=
  match flat with
  | .sent "T" :: _ => tLoop env h flat 1 target []
  | _ => ⟨.error .badSpec, []⟩

/-! ### building the flat tuple -/

/-- a part given to `Path(...)`: a plain value (→ `'P'`), or a T-rooted expression
    given by its own `(op, arg)` steps -/
inductive Part where
  | seg (v : Val)
  | t (steps : List (String × Val))
  deriving Repr

def flatOfSteps (steps : List (String × Val)) : List Val :=
  steps.flatMap (fun s => [Val.str s.1, s.2])

def stepsOfParts : List Part → List (String × Val)
  | [] => []
  | .seg v :: r => ("P", v) :: stepsOfParts r
  | .t st :: r => st ++ stepsOfParts r

/-- `Path(*parts).path_t.__ops__` -/
def flatOfParts (parts : List Part) : List Val :=
  Val.sent "T" :: flatOfSteps (stepsOfParts parts)

/-- `str.split('.')` on a character list -/
def splitDot : List Char → List (List Char)
  | [] => [[]]
  | c :: cs =>
    if c = '.' then [] :: splitDot cs
    else match splitDot cs with
      | [] => [[c]]          -- unreachable: splitDot never returns []
      | s :: ss => (c :: s) :: ss

/-- `Path.from_text(text)` with `PATH_STAR = True`: `*` / `**` become wildcard steps -/
def partsOfText (text : List Char) : List Part :=
  (splitDot text).map (fun seg =>
    if seg = ['*'] then Part.t [("x", Val.none)]
    else if seg = ['*', '*'] then Part.t [("X", Val.none)]
    else Part.seg (Val.str (String.ofList seg)))

def fromText (text : String) : List Val := flatOfParts (partsOfText text.toList)

end Glom.C01
