/-
  C19 — code-shaped model of glom/cli.py.

  Mirrors:
    * `mw_get_target`  → `getSpec`, `getTargetText`, `mwGetTarget` (spec source / target source
      selection and precedence — Python truthiness of the texts and file names —, the
      first-character test that turns a bare word into a path string, the
      `spec_format` / `target_format` → parser / loader tables EXTRACTED from the AST);
    * `mw_handle_target` → `handleTarget` (empty text → `{}` before the format is even looked at,
      loader errors of the classes the `except` around `load_func(target_text)` NAMES → UsageError,
      any other class leaves `main`);
    * the reads of the spec file, the target file and standard input (`_read_stdin`): a failing
      read whose class the enclosing `except` names → UsageError, any other class leaves `main`;
    * `glom_cli` → `glomCli` (`--debug` / `--inspect` wrap the spec in `Inspect(…)` with
      `breakpoint` / `post_mortem` only while standard input is open; GlomError → `Class: message`
      + return 1; `indent 0 → None`; `--scalar`);
    * `main` → `cliMain` on the parsed flags (`cmd.run(argv) or 0`; UsageError leaves `main` as the
      SystemExit subclass face raises); `main` on the RAW argument list is `cliMainArgv` of
      Model/C19Face.lean (face's parser for the extracted option table, then `cliMain`).

  The JSON / YAML / TOML parsers, `ast.literal_eval`, `repr`, `int()`, the library call
  `glom.glom` (and what it prints: `Inspect`'s echo), `Inspect(…)`, `json.dumps`, `is_scalar`,
  `print`'s `str()`, the help text and the file system are PARAMETERS (`Ext`): trusted, exercised
  by the correspondence only.
-/
namespace Glom.C19

/-- what the source fixes (regenerated on every run) -/
structure Facts where
  specBranches : List (String × String)   -- `spec_format == …` branches in order → kind of the parser each hands the spec text to
  reprBranches : List String              -- branches that apply the first-character test + `repr`
  firstChars : List Char                  -- the characters that mark a literal
  specDefault : String                    -- `missing=` of --spec-format
  targetLoaders : List (String × String)  -- target_format → kind of loader
  targetDefault : String                  -- `missing=` of --target-format
  indentDefault : Int                     -- `missing=` of --indent
  loadCatch : List (String × List String) -- target_format → classes named by the `except` around `load_func(target_text)`
  loaderRaises : List (String × String × List String)
                                          -- PROBE: loader kind, class it raised on a malformed text, that class's MRO (names)
  specReadCatch : List String             -- classes named by the `except` around the read of --spec-file
  targetReadCatch : List String           -- … around the read of --target-file
  stdinReadCatch : List String            -- … around `sys.stdin.read()` (both sites); [] = no handler
  deriving DecidableEq, Repr

inductive LibRes (R : Type) where
  | ok (r : R)
  | glomError (cls msg : String)          -- `except GlomError as ge`
  | other (cls : String)                  -- anything else propagates
  deriving DecidableEq

/-- the trusted externals -/
structure Ext (T S R : Type) where
  parse : String → String → Except String S    -- parser kind (python-literal / json / exec), text → spec | raised class
  load : String → String → Except String T     -- loader kind (json / yaml-safe / toml / python-literal), text → target | raised class
  strSpec : String → S                         -- a Python str used as a spec (a path)
  repr : String → String
  emptySpec : S                                -- `Path()`
  emptyTarget : T                              -- `{}`
  glom : T → S → LibRes R
  dumps : R → Option Int → Except String String   -- json.dumps(r, indent=…, sort_keys=True) | raised class
  isScalar : R → Bool
  str : R → String                             -- what `print(result, end='')` writes
  readFile : String → Option String            -- `open(p).read()` (text mode); `none` = it raised
  readErr : String → String                    -- the class `open(p).read()` raised (FileNotFoundError, IsADirectoryError, UnicodeDecodeError …)
  mro : String → List String                   -- names of the classes in the MRO of an exception class (Python's hierarchy)
  inspect : S → Bool → Bool → Bool → Bool → S  -- `Inspect(spec, echo=…, recursive=…, breakpoint=…, post_mortem=…)`
  printed : T → S → String                     -- what `glom.glom(target, spec)` itself writes to stdout (Inspect's echo; nothing otherwise)
  parseInt : String → Option Int               -- `int(text)`; `none` = it raised
  helpText : String                            -- what the help handler prints
  flagfile : String → Except (Bool × String) (List (Except String (List String)))
                                               -- `--flagfile PATH`: (is it a UnicodeError / EnvironmentError, the class the read raised) |
                                               -- per line: the class `shlex.split` raised | its tokens
  abspath : String → String                    -- `os.path.abspath`

structure Argv where
  posargs : List String
  targetFile : Option String
  targetFormat : Option String
  specFile : Option String
  specFormat : Option String
  indent : Option Int
  scalar : Bool
  debug : Bool := false
  inspect : Bool := false
  deriving DecidableEq, Repr

/-- what `sys.stdin` is: an open stream, a CLOSED stream (`sys.stdin.close()`; every operation on it
    raises ValueError), or ABSENT (`sys.stdin is None`: the process was started with fd 0 closed,
    `glom … <&-`; every attribute access raises AttributeError) -/
inductive StdinState where
  | open | closed | absent
  deriving DecidableEq, Repr

structure World where
  stdin : String                     -- the text an open standard input holds
  stdinTty : Bool                    -- `sys.stdin.isatty()` of an open standard input
  stdinErr : Option String           -- the class reading an OPEN stdin raises (undecodable bytes: UnicodeDecodeError); none = readable
  stdinState : StdinState := .open
  deriving DecidableEq, Repr

/-- `not sys.stdin.closed` where that expression has a value (open / closed) -/
def World.stdinOpen (w : World) : Bool := w.stdinState == .open

/-- `face.utils.isatty(sys.stdin)`: `stream.isatty()`, any exception (closed: ValueError, None:
    AttributeError) is `False` -/
def World.isatty (w : World) : Bool := w.stdinState == .open && w.stdinTty

/-- the class `sys.stdin.read()` raises: of the decoder for an open stream, ValueError for a closed
    one, AttributeError for `None.read`; `none` = it returns `w.stdin` -/
def World.readErr (w : World) : Option String :=
  match w.stdinState with
  | .open => w.stdinErr
  | .closed => some "ValueError"
  | .absent => some "AttributeError"

inductive Usage where
  | specBoth | specFileUnreadable | badSpecFormat
  | targetBoth | targetFileUnreadable | stdinUnreadable | badTargetFormat
  | loadError (cls : String)
  deriving DecidableEq, Repr

/-- why face rejected the command line (`ArgumentParseError` → `CommandLineError`) -/
inductive CliErr where
  | emptyArgv | unknownFlag | invalidFlagArg | missingFlagArg | duplicateFlag
  | tooManyPosargs | postPosargs
  | flagfileUnreadable | flagfileExtraArgs
  deriving DecidableEq, Repr

inductive Outcome where
  | exit (code : Nat) (stdout : String)
  | usage (u : Usage)                -- UsageError (a SystemExit with code 1, message on stderr)
  | cli (e : CliErr)                 -- CommandLineError raised by face for a malformed command line (SystemExit, code 1)
  | exc (cls : String)               -- another exception leaves `main`
  deriving DecidableEq, Repr

/-- the status of the process (`console_main`: `sys.exit(main(sys.argv) or 0)`; a SystemExit
    subclass carries its code, 1; an uncaught exception ends the interpreter with 1) -/
def Outcome.status : Outcome → Nat
  | .exit c _ => c
  | .usage _ => 1
  | .cli _ => 1
  | .exc _ => 1

/-- what is on standard output when the process ends (errors go to stderr) -/
def Outcome.stdout : Outcome → String
  | .exit _ s => s
  | _ => ""

/-- Python truthiness of `None` / a str -/
def truthy : Option String → Bool
  | some s => !s.isEmpty
  | none => false

/-- `spec_text, target_text = …` from the positional arguments -/
def posTexts (a : Argv) : Option String × Option String :=
  match a.posargs with
  | [s, t] => (some s, some t)
  | [s] => (some s, none)
  | _ => (none, none)

variable {T S R : Type}

/-- `except (A, B) as e:` catches an exception of class `c` iff a class of `c`'s MRO is named -/
def caughtBy (X : Ext T S R) (names : List String) (c : String) : Bool :=
  (X.mro c).any names.contains

/-- a failing read under `try: … except names as e: raise UsageError(…)` -/
def readFail (X : Ext T S R) (names : List String) (u : Usage) (c : String) : Outcome :=
  if caughtBy X names c then .usage u else .exc c

/-- an exception raised by a parser leaves `main` as it is -/
def liftExc (r : Except String S) : Except Outcome S :=
  match r with
  | .ok s => .ok s
  | .error c => .error (.exc c)

/-- the `spec_format == …` chain of `mw_get_target` -/
def parseSpec (F : Facts) (X : Ext T S R) (fmt text : String) : Except Outcome S :=
  match F.specBranches.find? (·.1 == fmt) with
  | none => .error (.usage .badSpecFormat)
  | some (_, parser) =>
    -- `if spec_text[0] not in ('"', "'", "[", "{", "("): spec_text = repr(spec_text)`
    let text' :=
      if F.reprBranches.contains fmt && !(F.firstChars.contains (text.front)) then X.repr text
      else text
    liftExc (X.parse parser text')

/-- the spec part of `mw_get_target` -/
def getSpec (F : Facts) (X : Ext T S R) (a : Argv) : Except Outcome S :=
  let specText := (posTexts a).1
  if truthy specText && truthy a.specFile then .error (.usage .specBoth)
  else
    let specText : Except Outcome (Option String) :=
      if truthy a.specFile then
        match X.readFile (a.specFile.getD "") with
        | some t => .ok (some t)
        | none => .error (readFail X F.specReadCatch .specFileUnreadable (X.readErr (a.specFile.getD "")))
      else .ok specText
    match specText with
    | .error o => .error o
    | .ok specText =>
      if !truthy specText then .ok X.emptySpec                 -- spec = Path()
      else parseSpec F X (a.specFormat.getD F.specDefault) (specText.getD "")

/-- `_read_stdin()` / `sys.stdin.read()` -/
def readStdin (F : Facts) (X : Ext T S R) (w : World) : Except Outcome (Option String) :=
  match w.readErr with
  | none => .ok (some w.stdin)
  | some c => .error (readFail X F.stdinReadCatch .stdinUnreadable c)

/-- the target-source part of `mw_get_target` -/
def getTargetText (F : Facts) (X : Ext T S R) (a : Argv) (w : World) : Except Outcome (Option String) :=
  let targetText := (posTexts a).2
  if truthy targetText && truthy a.targetFile then .error (.usage .targetBoth)
  else if targetText == some "-" || a.targetFile == some "-" then readStdin F X w
  else if truthy a.targetFile then
    match X.readFile (a.targetFile.getD "") with
    | some t => .ok (some t)
    | none => .error (readFail X F.targetReadCatch .targetFileUnreadable (X.readErr (a.targetFile.getD "")))
  else if !truthy targetText && !w.isatty then readStdin F X w
  else .ok targetText

/-- the classes the `except` around the loader names for this target format -/
def catchOf (F : Facts) (fmt : String) : List String :=
  match F.loadCatch.find? (·.1 == fmt) with
  | some p => p.2
  | none => []

/-- `try: target = load_func(target_text)  except names as e: raise UsageError('could not load
    target data, got: …')` -/
def liftLoad (X : Ext T S R) (names : List String) (r : Except String T) : Except Outcome T :=
  match r with
  | .ok t => .ok t
  | .error c => if caughtBy X names c then .error (.usage (.loadError c)) else .error (.exc c)

/-- `mw_handle_target` -/
def handleTarget (F : Facts) (X : Ext T S R) (text : Option String) (fmt : String) : Except Outcome T :=
  if !truthy text then .ok X.emptyTarget
  else
    match F.targetLoaders.find? (·.1 == fmt) with
    | none => .error (.usage .badTargetFormat)
    | some (_, loader) => liftLoad X (catchOf F fmt) (X.load loader (text.getD ""))

/-- `if debug or inspect: spec = Inspect(spec, echo=inspect, recursive=inspect,
    breakpoint=inspect and stdin_open, post_mortem=debug and stdin_open)` -/
def wrapSpec (X : Ext T S R) (stdinOpen : Bool) (spec : S) (debug inspect : Bool) : S :=
  if debug || inspect then X.inspect spec inspect inspect (inspect && stdinOpen) (debug && stdinOpen) else spec

/-- `glom_cli` -/
def glomCli (X : Ext T S R) (sk : StdinState) (target : T) (spec : S) (indent : Int)
    (debug inspect scalar : Bool) : Outcome :=
  -- `stdin_open = not sys.stdin.closed` is evaluated only under --debug / --inspect: `None.closed`
  if (debug || inspect) && sk == .absent then .exc "AttributeError" else
  let spec := wrapSpec X (sk == .open) spec debug inspect
  let pre := X.printed target spec        -- whatever the library call printed comes first
  match X.glom target spec with
  | .glomError cls msg => .exit 1 (pre ++ (cls ++ ": " ++ msg ++ "\n"))
  | .other cls => .exc cls
  | .ok r =>
    let indent' : Option Int := if indent == 0 then none else some indent
    if scalar && X.isScalar r then .exit 0 (pre ++ X.str r)
    else match X.dumps r indent' with
      | .ok s => .exit 0 (pre ++ (s ++ "\n"))
      | .error c => .exc c

/-- `next_(spec=spec, target=target)`: the handler runs once the middleware has both -/
def runWith (F : Facts) (X : Ext T S R) (a : Argv) (w : World) (spec : S) (target : Except Outcome T) : Outcome :=
  match target with
  | .error o => o
  | .ok t => glomCli X w.stdinState t spec (a.indent.getD F.indentDefault) a.debug a.inspect a.scalar

/-- `main(argv)` after face parsed the flags: middleware, then the handler -/
def cliMain (F : Facts) (X : Ext T S R) (a : Argv) (w : World) : Outcome :=
  match getSpec F X a with
  | .error o => o
  | .ok spec =>
    match getTargetText F X a w with
    | .error o => o
    | .ok text => runWith F X a w spec (handleTarget F X text (a.targetFormat.getD F.targetDefault))

/-! ### the extracted call graph -/

structure Graph where
  edges : List (String × String × String)   -- caller, callee, guard ("" = unconditional)
  deriving DecidableEq, Repr

/-- functions reachable from `roots` using only edges whose guard is not in `blocked` -/
def reach (g : Graph) (blocked : List String) : Nat → List String → List String
  | 0, seen => seen
  | fuel + 1, seen =>
    let next := g.edges.filterMap (fun e =>
      if seen.contains e.1 && !blocked.contains e.2.2 && !seen.contains e.2.1 then some e.2.1 else none)
    if next.isEmpty then seen else reach g blocked fuel (seen ++ next.eraseDups)

end Glom.C19
