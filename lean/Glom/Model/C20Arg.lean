import Glom.Model.C20
/-
  C20 — values in ARGUMENT position of a spec that several calls share.

  `S(acc=[])`, `Coalesce(…, default=[])`, `T.get(k, {})`, `Call(f, args=([],))`, `Assign(p, [])`,
  `Or(…, default=[])`, `Optional(k, default=[])` … hand the literal to `arg_val`, which evaluates it
  under `_ArgValuator().mode` (glom/core.py):

      result = spec
      if type(spec) in (list, dict):                    # can contain themselves
          if id(spec) in self.cache: return self.cache[id(spec)]
          result = self.cache[id(spec)] = type(spec)()
          … result.update / result.extend ([recur(val) for val in spec])
      if type(spec) in (tuple, set, frozenset):         # cannot contain themselves
          result = type(spec)([recur(val) for val in spec])
      return result

  where `recur(val)` is `scope[glom](target, val, scope)`: `_glom` evaluates a `T` / a spec object,
  and hands everything else to the same bound method again (child scopes inherit `MIN_MODE`), so one
  `_ArgValuator` — one cache — serves the whole argument.

  The literal lives INSIDE THE SPEC: an object all calls that use the spec share.  The model is an
  object heap (`Heap`; the spec's literals are the addresses that exist before any call runs),
  `argEval` = `_glom` under that mode (code-shaped: cache test, allocation of the empty container and
  cache store BEFORE the items are evaluated, in-place extend afterwards), `argVal` = `arg_val`
  (a fresh `_ArgValuator`), and calls (`Thread`) that bind the value of an argument, mutate the
  object they received (`S.acc.append(x)`), and read it, one operation at a time under any schedule.

  `fast = true` is the variant with a fast path for empty containers ("nothing inside to evaluate:
  return it as it is"), kept for the counter-example theorem: the literal becomes the per-call value.
-/
namespace Glom.C20.Arg

inductive Kind where
  | list | dict | set | tuple | frozenset
  deriving DecidableEq, Repr

/-- `type(spec) in (list, dict)`: the kinds that "can contain themselves" -/
def Kind.selfRef : Kind → Bool
  | .list | .dict => true
  | _ => false

/-- what stands in argument position: a leaf (a `T`, a spec object, a constant: whatever is not one
    of the five container types; evaluated per call) or a container object -/
inductive Val where
  | leaf (s : String)
  | ref (a : Nat)
  deriving DecidableEq, Repr

/-- a container object; the items of a dict are `k₁, v₁, k₂, v₂, …` (keys and values are both
    evaluated: `{recur(key): recur(val) …}`) -/
structure Obj where
  kind : Kind
  items : List Val
  deriving DecidableEq, Repr

abbrev Heap := List Obj

/-- the heap and `self.cache` of the `_ArgValuator` at work: `id(literal)` ↦ the container built for it -/
structure AV where
  heap : Heap
  cache : List (Nat × Nat)

/-- `[recur(val) for val in spec]`, left to right, each evaluation seeing the effects of the earlier ones -/
def evalItems (f : AV → Val → AV × Val) : AV → List Val → AV × List Val
  | st, [] => (st, [])
  | st, v :: r =>
    let s1 := f st v
    let s2 := evalItems f s1.1 r
    (s2.1, s1.2 :: s2.2)

/-- `result.extend(vs)` / `result.update(…)`: in place -/
def extendAt (h : Heap) (a : Nat) (vs : List Val) : Heap :=
  match h[a]? with
  | some o => h.set a { o with items := o.items ++ vs }
  | none => h

/-- `_glom` under `_ArgValuator.mode`; `ev` = what the call's target makes of a leaf -/
def argEvalX (fast : Bool) (ev : String → String) : Nat → AV → Val → AV × Val
  | 0, st, _ => (st, .leaf "<fuel>")
  | _ + 1, st, .leaf s => (st, .leaf (ev s))
  | n + 1, st, .ref a =>
    match st.heap[a]? with
    | none => (st, .leaf "<dangling>")
    | some o =>
      if fast && o.items.isEmpty then (st, .ref a)          -- the variant: `return result` (= spec)
      else if o.kind.selfRef then
        match dlookup a st.cache with
        | some r => (st, .ref r)                            -- `return self.cache[id(spec)]`
        | none =>
          let r := st.heap.length                           -- `result = self.cache[id(spec)] = type(spec)()`
          let s1 := evalItems (argEvalX fast ev n) ⟨st.heap ++ [⟨o.kind, []⟩], (a, r) :: st.cache⟩ o.items
          (⟨extendAt s1.1.heap r s1.2, s1.1.cache⟩, .ref r)
      else
        let s1 := evalItems (argEvalX fast ev n) st o.items
        (⟨s1.1.heap ++ [⟨o.kind, s1.2⟩], s1.1.cache⟩, .ref s1.1.heap.length)

abbrev argEval := argEvalX false

/-- `arg_val(target, arg, scope)`: `scope[MIN_MODE] = _ArgValuator().mode` — an empty cache per argument -/
def argValX (fast : Bool) (ev : String → String) (fuel : Nat) (h : Heap) (v : Val) : Heap × Val :=
  let r := argEvalX fast ev fuel ⟨h, []⟩ v
  (r.1.heap, r.2)

abbrev argVal := argValX false

/-! ### calls that use the value -/

/-- follow item indices from a value (`S.acc['k'][0]`: a dict value is item `2j+1`) -/
def locate (h : Heap) : Val → List Nat → Option Nat
  | .ref a, [] => some a
  | .leaf _, _ => none
  | .ref a, i :: p =>
    match h[a]? with
    | some o => (match o.items[i]? with
      | some v => locate h v p
      | none => none)
    | none => none

/-- `.append(x)` / `.add(x)` / `.setdefault(x, 1)` on a container -/
def pushObj (o : Obj) (x : String) : Obj :=
  match o.kind with
  | .list => { o with items := o.items ++ [.leaf x] }
  | .set => if o.items.contains (.leaf x) then o else { o with items := o.items ++ [.leaf x] }
  | .dict => if (evens o.items).contains (.leaf x) then o else { o with items := o.items ++ [.leaf x, .leaf "1"] }
  | _ => o
where
  evens : List Val → List Val
    | k :: _ :: r => k :: evens r
    | _ => []

def pushAt (h : Heap) (a : Nat) (x : String) : Heap :=
  match h[a]? with
  | some o => h.set a (pushObj o x)
  | none => h

def Kind.name : Kind → String
  | .list => "list" | .dict => "dict" | .set => "set" | .tuple => "tuple" | .frozenset => "frozenset"

/-- a set is observed up to order: its items (leaves: one token each) sorted -/
def canon (k : Kind) (toks : List String) : List String :=
  match k with
  | .set | .frozenset => toks.mergeSort (fun a b => decide (a ≤ b))
  | _ => toks

/-- a value as a call can observe it (no addresses): the token sequence of its tree,
    `kind(` … `)`; `...` where the fuel ends (a container that contains itself) -/
def tokens (h : Heap) : Nat → Val → List String
  | _, .leaf s => [s]
  | 0, .ref _ => ["..."]
  | n + 1, .ref a =>
    match h[a]? with
    | some o => (o.kind.name ++ "(") :: canon o.kind (o.items.flatMap (tokens h n)) ++ [")"]
    | none => ["..."]

inductive Op where
  | bind (lit : Val)                    -- `S(acc=lit)`, `Coalesce(…, default=lit)`, `T.get(k, lit)`, …: acc := arg_val(lit)
  | bindRaw (lit : Val)                 -- `S(v=Vars(acc=lit))`: `Vars.glomit` returns `ScopeVars(base, defaults)` — the
                                        -- default is NOT passed through `arg_val`: the call receives the literal itself
  | push (path : List Nat) (x : String) -- `S.acc….append(x)`: mutates the object the call received
  | read                                -- the call reads its value
  | yield                               -- a user callable (where the harness switches threads)
  deriving Repr

structure Thread where
  ev : String → String
  ops : List Op
  reg : Val := .leaf "None"
  out : List (List String) := []        -- what was read (`tokens`)

structure Sys where
  heap : Heap
  threads : List Thread

def Thread.step (fast : Bool) (fuel : Nat) (t : Thread) (h : Heap) : Thread × Heap :=
  match t.ops with
  | [] => (t, h)
  | .bind lit :: r =>
    let v := argValX fast t.ev fuel h lit
    ({ t with ops := r, reg := v.2 }, v.1)
  | .bindRaw lit :: r => ({ t with ops := r, reg := lit }, h)
  | .push p x :: r =>
    (match locate h t.reg p with
     | some a => ({ t with ops := r }, pushAt h a x)
     | none => ({ t with ops := r }, h))
  | .read :: r => ({ t with ops := r, out := t.out ++ [tokens h fuel t.reg] }, h)
  | .yield :: r => ({ t with ops := r }, h)

def Sys.step (fast : Bool) (fuel : Nat) (s : Sys) (i : Nat) : Sys :=
  match s.threads[i]? with
  | none => s
  | some t => let r := t.step fast fuel s.heap; { heap := r.2, threads := s.threads.set i r.1 }

/-- any schedule: one operation of thread `i` per entry -/
def Sys.run (fast : Bool) (fuel : Nat) (s : Sys) : List Nat → Sys
  | [] => s
  | i :: r => (s.step fast fuel i).run fast fuel r

/-- the harness's granularity: thread `i` runs until it has passed its next yield point or is done -/
def Sys.runToYield (fast : Bool) (fuel : Nat) (s : Sys) (i : Nat) : Nat → Sys
  | 0 => s
  | k + 1 =>
    match s.threads[i]? with
    | none => s
    | some t =>
      match t.ops with
      | [] => s
      | .yield :: _ => s.step fast fuel i
      | _ => (s.step fast fuel i).runToYield fast fuel i k

def Sys.runSegments (fast : Bool) (fuel : Nat) (s : Sys) (k : Nat) : List Nat → Sys
  | [] => s
  | i :: r => (s.runToYield fast fuel i k).runSegments fast fuel k r

end Glom.C20.Arg
