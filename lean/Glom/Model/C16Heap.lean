import Glom.Model.C16
/-
  C16 — the `while i < fetch_till` loop of `_t_eval` (glom/core.py) for subscription and the
  arithmetic operators, on a STORE of mutable cells: the items of the caller's target are
  objects with identity (lists, dicts, tuples holding references), and the loop computes

      cur = cur[arg]      — a reference that was already there (no allocation)
      cur = cur + arg     — `list.__add__` / `tuple.__add__`: a NEW object
      cur = cur * arg     — a NEW object
      cur = cur | arg     — `dict.__or__`: a NEW object
      cur = cur % arg     — immutable operands only

  i.e. it REBINDS `cur` (the statements are pinned by the facts obligation: `tArith`); no
  existing cell is ever written.  `Glom/Model/C16.lean` has the same loop on values
  (`TOp.apply`, `tEval`); `Glom/Lemmas/C16Heap.lean` proves that this one refines it and
  never writes an existing cell.  `tstepInPlace` is the loop with augmented assignment
  (`cur += arg`) — what the facts obligation excludes — for the counter-example only.
-/
namespace Glom.C16.Heap
open Glom.C16

/-- an element of a container / the current value of the loop: an immutable value held inline
    (None, bool, int, str; a literal nobody else refers to), or a reference to a cell -/
inductive Elem where
  | imm (v : V)
  | ref (a : Nat)
  deriving Repr, Inhabited

inductive Cell where
  | list (xs : List Elem)
  | tuple (xs : List Elem)
  | dict (es : List (V × Elem))
  deriving Repr, Inhabited

/-- address = index; allocation appends -/
abbrev Store := List Cell

/-- the value an element denotes, read off the store down to depth `n` -/
def derefE : Nat → Store → Elem → V
  | _, _, .imm v => v
  | 0, _, .ref _ => .none
  | n + 1, st, .ref a =>
    match st[a]? with
    | some (.list xs) => .list (xs.map (derefE n st))
    | some (.tuple xs) => .tuple (xs.map (derefE n st))
    | some (.dict es) => .dict (es.map (fun e => (e.1, derefE n st e.2)))
    | none => .none

def seqGetP {α : Type} (xs : List α) (i : Int) : Option α :=
  if (if i < 0 then i + (xs.length : Int) else i) < 0 then none
  else xs[(if i < 0 then i + (xs.length : Int) else i).toNat]?

def dgetE : List (V × Elem) → V → Option Elem
  | [], _ => none
  | (k', v) :: es, k => if keyEq k' k then some v else dgetE es k

def dsetE : List (V × Elem) → V → Elem → List (V × Elem)
  | [], k, v => [(k, v)]
  | (k', v') :: es, k, v => if keyEq k' k then (k', v) :: es else (k', v') :: dsetE es k v

/-- `d | m` for a literal `m`: d's entries, then m's (the values of `m` are inline) -/
def dupdateE (es : List (V × Elem)) (ps : List (V × V)) : List (V × Elem) :=
  ps.foldl (fun acc p => dsetE acc p.1 (.imm p.2)) es

def pae : Err := err "PathAccessError"

/-- one step of the loop: `cur = cur <op> arg` -/
def tstep (st : Store) (cur : Elem) (op : TOp) : Except Err (Store × Elem) :=
  match cur with
  | .imm v =>
    -- an immutable operand: the value-level step, the store is not involved
    match op.apply v with
    | .ok v' => .ok (st, .imm v')
    | .error e => .error e
  | .ref a =>
    match st[a]? with
    | some (.list xs) =>
      match op with
      | .item k =>
        match asInt k with
        | some i => match seqGetP xs i with
          | some e => .ok (st, e)
          | none => .error pae
        | none => .error pae
      | .add (.list ys) => .ok (st ++ [.list (xs ++ ys.map .imm)], .ref st.length)     -- a NEW list
      | .mul n => .ok (st ++ [.list (repeatList xs n)], .ref st.length)                -- a NEW list
      | _ => .error pae
    | some (.tuple xs) =>
      match op with
      | .item k =>
        match asInt k with
        | some i => match seqGetP xs i with
          | some e => .ok (st, e)
          | none => .error pae
        | none => .error pae
      | .add (.tuple ys) => .ok (st ++ [.tuple (xs ++ ys.map .imm)], .ref st.length)
      | .mul n => .ok (st ++ [.tuple (repeatList xs n)], .ref st.length)
      | _ => .error pae
    | some (.dict es) =>
      match op with
      | .item k =>
        match dgetE es k with
        | some e => .ok (st, e)
        | none => .error pae
      | .bor (.dict ps) => .ok (st ++ [.dict (dupdateE es ps)], .ref st.length)        -- a NEW dict
      | _ => .error pae
    | none => .error pae

/-- the loop over the operations of a T-expression -/
def tEvalH : Store → Elem → List TOp → Except Err (Store × Elem)
  | st, cur, [] => .ok (st, cur)
  | st, cur, op :: ops =>
    match tstep st cur op with
    | .ok (st', cur') => tEvalH st' cur' ops
    | .error e => .error e

/-- the loop as it would be with AUGMENTED assignment (`cur += arg`: `list.__iadd__` extends the
    operand in place and `cur` stays the same object) — not the code that exists -/
def tstepInPlace (st : Store) (cur : Elem) (op : TOp) : Except Err (Store × Elem) :=
  match cur, op with
  | .ref a, .add (.list ys) =>
    match st[a]? with
    | some (.list xs) => .ok (st.set a (.list (xs ++ ys.map .imm)), .ref a)
    | _ => tstep st cur op
  | _, _ => tstep st cur op

end Glom.C16.Heap
