import Glom.Model.C11Arg
/-
  C11 — one Assign object, two overlapping evaluations.

  The `missing` factory is user code: it may itself call `glom(other_target, <the same Assign
  object>)` before it returns the fresh container (a factory that loads / initialises another
  record with the same module-level spec).  `Assign.glomit` keeps nothing of an evaluation on the
  spec object (facts obligation `specSelfWrites = []`), so the nested evaluation is just another
  evaluation that happens in the middle of this one — between `arg_val` / the failing fetch of the
  parent and the construction of the absent tail.

  `assignAuxR` is `assignAux` with that hook in front of every factory call: `hook st` is the
  state the factory's own side effect leaves (the re-entrant call, on the state the outer call
  has reached); the factory object counts its calls (`St.calls`), so a hook can pick the call at
  which it fires.
-/
namespace Glom.C11
open Glom Glom.Mut

/-- `Assign(path, val, missing=factory).glomit(target, scope)` with a factory that first does
    `hook` (its side effect on the heap) and then returns a fresh object of its kind -/
def assignAuxR (env : MEnv) (hook : St → St) (sroot : Bool) (sref : Val) (kind : String) :
    Nat → St → Val → List Step → ValSpec → St × Except MErr Val
  | 0, st, _, _, _ => (st, .error .badSpec)
  | fuel + 1, st, target, orig, vs =>
    match orig.getLast? with
    | none => (st, .error .valueError)
    | some (op, arg) =>
      if !finalOk op then (st, .error .valueError) else
      match evalVal env st target vs with
      | (st, .error e) => (st, .error e)
      | (st, .ok val) =>
        let parent := orig.dropLast
        let destTarget := if sroot then sref else target
        match fetch env st.heap parent 0 destTarget with
        | .ok nest =>
          match applyForEach (stars parent) nest (assignOp env op arg val) st with
          | (st', .ok _) => (st', .ok target)
          | (st', .error e) => (st', .error e)
        | .error (.pae k e) =>
          let remaining := orig.drop (k + 1)
          match callFactory kind (hook st) with
          | (st1, .error e') => (st1, .error e')
          | (st1, .ok fresh) =>
            match assignAuxR env hook false sref kind fuel st1 fresh remaining (.val val) with
            | (st2, .error e') => (st2, .error e')
            | (st2, .ok val') =>
              match orig[k]? with
              | none => (st2, .error .badSpec)
              | some (op', arg') =>
                let path' := orig.take k
                match fetch env st2.heap path' 0 destTarget with
                | .error e' => (st2, .error e')
                | .ok nest' =>
                  match applyForEach (stars path') nest' (assignOp env op' arg' val') st2 with
                  | (st3, .ok _) => (st3, .ok target)
                  | (st3, .error e') => (st3, .error e')
        | .error e => (st, .error e)

/-- the factory's side effect: at its `at`-th call (counted over the life of the factory object) it
    evaluates the same spec on `target2` (`inner`: that evaluation, from the state it finds; its
    outcome — value or exception — is dropped by the factory) -/
def reenterHook (at_ : Nat) (inner : St → St × Except MErr Val) (st : St) : St :=
  if st.calls == at_ then (inner st).1 else st

/-- `glom(target, spec)` for one shared `spec = Assign(path, val, missing=factory)` whose factory
    re-enters `glom(target2, spec)` at its `at`-th call.  (The nested evaluation's own factory calls
    do not re-enter: the factory guards against recursion.) -/
def assignRe (env : MEnv) (kind : String) (fuel : Nat) (at_ : Nat) (target2 : Val) (h : Heap)
    (target : Val) (orig : List Step) (uv : UVal) : St × Except MErr Val :=
  let inner := fun st => assignFrom env false .none (.factory kind) fuel st target2 orig uv
  let hook := reenterHook at_ inner
  let st0 : St := { heap := h }
  match uv with
  | .vs v => assignAuxR env hook false .none kind (orig.length + 1) st0 target orig v
  | .lit v =>
    match orig.getLast? with
    | none => (st0, .error .valueError)
    | some (op, _) =>
      if !finalOk op then (st0, .error .valueError) else
      match argEval env target fuel st0 [] v with
      | (st1, _, .error e) => (st1, .error e)
      | (st1, _, .ok v') => assignAuxR env hook false .none kind (orig.length + 1) st1 target orig (.val v')

/-- two evaluations of the spec one after the other (what two overlapping evaluations on two records
    that share nothing must amount to): first on `target2` (outcome dropped), then on `target` -/
def assignSeq (env : MEnv) (kind : String) (fuel : Nat) (target2 : Val) (h : Heap)
    (target : Val) (orig : List Step) (uv : UVal) : St × Except MErr Val :=
  let st1 := (assignFrom env false .none (.factory kind) fuel { heap := h } target2 orig uv).1
  assignFrom env false .none (.factory kind) fuel st1 target orig uv

end Glom.C11
