/-
  C05 — the error bookkeeping of `_glom` / `chain_child` and the target-spec trace, code-shaped.

  Input: the evaluation as it really happened, as a properly nested list of events (every
  `scope[glom](target, spec, scope)` call entered / left, with the identity of the scope it was
  called with) — recorded on the real glom through `scope={glom.glom: tracer}`, or produced by
  `Glom/Spec/C05.lean` from an abstract evaluation tree.

  Mirrors glom/core.py:
    `_glom`            entry: new frame, `pmap[LAST_CHILD_SCOPE] = scope`;
                       exception: `scope.maps[1][CHILD_ERRORS].append(scope)`,
                       `scope.maps[0][CUR_ERROR] = e`, and the NO_PYFRAME walk up the UP chain
    `chain_child`      `nxt.maps[0][NO_PYFRAME] = True`, `del nxt.maps[0][CHILD_ERRORS][:]`
    `_unpack_stack`    (only_errors=True: the linear descent stops at a last child without CUR_ERROR)
    `format_target_spec_trace`, `_format_trace_value`
  Strings are lists of characters (Python code points).
-/
namespace Glom.C05

abbrev Str := List Char

structure Frame where
  spec : Str
  target : Str
  tid : Nat                       -- identity of the target object
  tlen : Option Nat               -- len(target); none: it has no __len__, or __len__ / len() raised (any Exception)
  slen : Option Nat := none       -- len(spec), if it has one
  up : Nat                        -- the frame it is a child of (index; 0 = glom()'s root scope)
  lastChild : Option Nat := none
  childErrors : List Nat := []
  curError : Option Nat := none
  noPy : Bool := false
  deriving Repr, Inhabited

inductive Ev where
  | enter (parent : Nat) (flagged : Bool) (spec target : Str) (tid : Nat) (tlen slen : Option Nat)
  | exitOk
  | exitErr (e : Nat)
  deriving Repr, Inhabited

structure RState where
  frames : Array Frame            -- index 0 is the root scope (a pseudo frame)
  stack : List Nat := []          -- open calls (innermost first)
  deriving Repr

def rootFrame : Frame := { spec := [], target := [], tid := 0, tlen := none, up := 0 }

def modFrame (fs : Array Frame) (i : Nat) (g : Frame → Frame) : Array Frame :=
  if h : i < fs.size then fs.set i (g fs[i]) else fs

/-- the NO_PYFRAME walk of `_glom`'s exception handler -/
def walkUp (e : Nat) : Nat → Nat → Array Frame → Array Frame
  | 0, _, fs => fs
  | fuel + 1, cur, fs =>
    match fs[cur]? with
    | some f =>
      if f.noPy then
        let fs1 := modFrame fs f.up (fun p => { p with childErrors := p.childErrors ++ [cur] })
        let fs2 := modFrame fs1 cur (fun c => { c with curError := some e })
        walkUp e fuel f.up fs2
      else fs
    | none => fs

def step (s : RState) : Ev → RState
  | .enter parent flagged spec target tid tlen slen =>
    -- a flagged parent was just handed on by chain_child: NO_PYFRAME set, its CHILD_ERRORS emptied
    let fs0 := if flagged then modFrame s.frames parent (fun p => { p with noPy := true, childErrors := [] })
               else s.frames
    let id := fs0.size
    let fs1 := fs0.push { spec, target, tid, tlen, slen, up := parent }
    let fs2 := modFrame fs1 parent (fun p => { p with lastChild := some id })
    { frames := fs2, stack := id :: s.stack }
  | .exitOk => { s with stack := s.stack.tail }
  | .exitErr e =>
    match s.stack with
    | [] => s
    | f :: rest =>
      let up := (s.frames[f]?.map (·.up)).getD 0
      let fs1 := modFrame s.frames up (fun p => { p with childErrors := p.childErrors ++ [f] })
      let fs2 := modFrame fs1 f (fun c => { c with curError := some e })
      let parentFlagged := (fs2[up]?.map (·.noPy)).getD false
      let fs3 := if parentFlagged then walkUp e fs2.size up fs2 else fs2
      { frames := fs3, stack := rest }

def replay (evs : List Ev) : Array Frame :=
  (evs.foldl step { frames := #[rootFrame] }).frames

/-! ### `_unpack_stack` -/

structure Row where
  frame : Nat
  error : Option Nat
  branches : List Nat
  deriving Repr, Inhabited

def unpackLoop (fs : Array Frame) : Nat → Nat → List Row → List Row
  | 0, _, acc => acc
  | fuel + 1, cur, acc =>
    match fs[cur]? with
    | none => acc
    | some f =>
      match f.lastChild with
      | none => acc ++ [⟨cur, f.curError, []⟩]                 -- the `while … else` clause
      | some child =>
        let branches := if f.childErrors == [child] then [] else f.childErrors
        let acc' := acc ++ [⟨cur, f.curError, branches⟩]
        if branches.contains child then acc'
        -- `if only_errors and CUR_ERROR not in child.maps[0]: break`: the last child returned normally
        else if (fs[child]?.bind (·.curError)).isNone then acc'
        else unpackLoop fs fuel child acc'

/-- "push errors down": an error shared with the next row is shown only there -/
def pushDown : List Row → List Row
  | a :: b :: rest => (if a.error == b.error then { a with error := none } else a) :: pushDown (b :: rest)
  | l => l

/-- on the reversed stack: drop rows without an error, leaving at least one row -/
def dropNoneKeepOne : List Row → List Row
  | [] => []
  | [x] => [x]
  | x :: r => if x.error.isNone then dropNoneKeepOne r else x :: r

/-- trim to the last error, leaving at least one row -/
def trimTail (rows : List Row) : List Row := (dropNoneKeepOne rows.reverse).reverse

def unpack (fs : Array Frame) (start : Nat) : List Row :=
  trimTail (pushDown (unpackLoop fs fs.size start []))

/-! ### formatting -/

def natStr (n : Nat) : Str := (toString n).toList

/-- Python `s[:k]` for an integer `k` that may be negative -/
def pySliceTo (s : Str) (k : Int) : Str :=
  if k ≥ 0 then s.take k.toNat else s.take (s.length - (-k).toNat)

/-- `_format_trace_value` on an already computed `bbrepr` string; `vlen = none`: `len(value)` raised (the
    `except Exception` around it covers every exception class: TypeError of an object without `__len__`,
    OverflowError / ValueError of `len()` itself, anything a user `__len__` raises) -/
def formatValue (s : Str) (vlen : Option Nat) (maxlen : Int) : Str :=
  if (s.length : Int) > maxlen then
    let suffix : Str := match vlen with
      | some n => "... (len=".toList ++ natStr n ++ ")".toList
      | none => "...".toList
    pySliceTo s (maxlen - suffix.length) ++ suffix
  else s

def indentOf (depth : Nat) : Str := ' ' :: List.replicate depth '|'

def tickOf (depth : Nat) : Str := if depth == 0 then "- ".toList else "| ".toList

/-- `remark(s, m)`: replace the character at position depth+1 -/
def remark (depth : Nat) (s : Str) (m : Char) : Str := s.take (depth + 1) ++ m :: s.drop (depth + 2)

def setHead (l : List Str) (g : Str → Str) : List Str :=
  match l with
  | [] => []
  | x :: r => g x :: r

def setLast (l : List Str) (g : Str → Str) : List Str :=
  match l.reverse with
  | [] => []
  | x :: r => (g x :: r).reverse

def joinLines (ls : List Str) : Str :=
  match ls with
  | [] => []
  | [x] => x
  | x :: r => x ++ '\n' :: joinLines r

def traceLine (depth : Nat) (width : Nat) (lbl : Str) (t : Str) (v : Str) (vlen : Option Nat) : Str :=
  let pre := indentOf depth ++ t ++ lbl ++ ": ".toList
  pre ++ formatValue v vlen ((width : Int) - pre.length)

/-- the loop over the unpacked rows; `recur b prev last` formats branch `b` one level deeper -/
def fmtRows (fs : Array Frame) (errText : Nat → Str) (rootError : Nat) (width depth : Nat) (lastBranch : Bool)
    (recur : Nat → Option Nat → Bool → Str) : List Row → Option Nat → List Str → Bool → List Str × Bool
  | [], _, segs, lle => (segs, lle)
  | r :: rest, prev, segs, _ =>
    match fs[r.frame]? with
    | none => fmtRows fs errText rootError width depth lastBranch recur rest prev segs false
    | some f =>
      let tick := tickOf depth
      let segs1 := if prev != some f.tid then segs ++ [traceLine depth width "Target".toList tick f.target f.tlen]
                   else segs
      let prev' := some f.tid
      let segs2 :=
        match r.branches.reverse with
        | [] => segs1 ++ [traceLine depth width "Spec".toList tick f.spec f.slen]
        | lastB :: revInit =>
          segs1 ++ [traceLine depth width "Spec".toList "+ ".toList f.spec f.slen] ++
            revInit.reverse.map (fun b => recur b prev' false) ++ [recur lastB prev' lastBranch]
      match r.error with
      | some e =>
        if e != rootError then
          fmtRows fs errText rootError width depth lastBranch recur rest prev'
            (segs2 ++ [indentOf depth ++ tick ++ errText e]) true
        else fmtRows fs errText rootError width depth lastBranch recur rest prev' segs2 false
      | none => fmtRows fs errText rootError width depth lastBranch recur rest prev' segs2 false

/-- `format_target_spec_trace(scope, root_error, width, depth, prev_target, last_branch)`;
    `errText e` is `traceback.format_exception_only` of error `e` -/
def formatTrace (fs : Array Frame) (errText : Nat → Str) (rootError : Nat) (width : Nat) :
    Nat → Nat → Nat → Option Nat → Bool → Str
  | 0, _, _, _, _ => []
  | fuel + 1, start, depth, prevTarget, lastBranch =>
    let recur := fun b prev lb => formatTrace fs errText rootError width fuel b (depth + 1) prev lb
    let (segs, lastLineError) :=
      fmtRows fs errText rootError width depth lastBranch recur (unpack fs start) prevTarget [] false
    if depth == 0 then joinLines segs
    else
      -- `\` on the first line, `X` on the last segment of a failed branch
      let segs1 := setHead segs (fun s => remark depth s '\\')
      joinLines (if !lastBranch || lastLineError then setLast segs1 (fun s => remark depth s 'X') else segs1)

/-- the whole target-spec trace of an evaluation that failed with `rootError` -/
def traceText (evs : List Ev) (errText : Nat → Str) (rootError : Nat) (width : Nat) : String :=
  let fs := replay evs
  String.ofList (formatTrace fs errText rootError width (fs.size + 2) 1 0 none true)

/-- what `GlomError.__str__` puts before the trace -/
def msgHeader : Str :=
  "error raised while processing, details below.\n Target-spec trace (most recent last):\n".toList

/-- `GlomError.__str__` of a finalized error, up to the Python traceback lines: the header, the
    trace rendered at the default width, a newline (the traceback lines `_tb_lines` follow) -/
def messageHead (evs : List Ev) (errText : Nat → Str) (rootError : Nat) (width : Nat) : Str :=
  msgHeader ++ (traceText evs errText rootError width).toList ++ ['\n']

end Glom.C05
