import Glom.Model.C01
import Glom.Generated.TFacts
import Glom.Generated.ExcFacts
import Glom.Generated.RegFacts
/-
  The environment of C01 instantiated with the facts regenerated from /repo:
  `_t_eval`'s branch table, the exception MROs, the default `get` registrations
  and the class table of the builtin target types (extended per case with the
  user classes the harness created).
-/
namespace Glom.C01
open Glom

def genEnv (userClasses : ClassTable) : TEnv :=
  { ct := userClasses ++ Generated.targetClassTable
    getReg := Generated.defaultReg_get
    dispatch := Generated.tDispatch
    excTable := Generated.excTable }

end Glom.C01
