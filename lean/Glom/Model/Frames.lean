import Glom.Model.Interp
/-
  The scope as glom builds it: a ChainMap of frames.

  `maps[0]` is the head of the list.  `_glom` pushes a frame that copies MODE
  and MIN_MODE from the parent's head frame; `scope[k] = v` and
  `scope.update(…)` write the head frame; reads go down the chain;
  `chain_child` hands the finished child's scope to the next link after
  resetting its MODE / MIN_MODE to the owner's (the repair of defect F4).
-/
namespace Glom.Interp

structure Frame where
  vars : List (String × V) := []           -- user bindings (string keys)
  refs : List (String × Spec) := []        -- (Ref, name) entries
  mode : Option Mode := Option.none        -- the MODE entry, if this frame has one
  arg : Option Bool := Option.none         -- the MIN_MODE entry (true = argument mode)
  deriving Repr, Inhabited

abbrev Frames := List Frame

namespace Frames

/-- ChainMap lookup: the first frame that has the key -/
def lookup : Frames → String → Option V
  | [], _ => Option.none
  | f :: rest, k => match attrGet f.vars k with
    | some v => some v
    | Option.none => lookup rest k

def lookupRef : Frames → String → Option Spec
  | [], _ => Option.none
  | f :: rest, k => match f.refs.find? (·.1 == k) with
    | some (_, s) => some s
    | Option.none => lookupRef rest k

def mode : Frames → Mode
  | [] => .auto
  | f :: rest => match f.mode with
    | some m => m
    | Option.none => mode rest

def argMode : Frames → Bool
  | [] => false
  | f :: rest => match f.arg with
    | some b => b
    | Option.none => argMode rest

/-- write into `maps[0]` -/
def modHead (fs : Frames) (g : Frame → Frame) : Frames :=
  match fs with
  | [] => [g {}]
  | f :: rest => g f :: rest

/-- `scope.new_child({MODE: pmap[MODE], MIN_MODE: pmap[MIN_MODE], …})` -/
def child (fs : Frames) : Frames :=
  { mode := some (mode fs), arg := some (argMode fs) } :: fs

def bind (fs : Frames) (k : String) (v : V) : Frames :=
  modHead fs (fun f => { f with vars := attrSet f.vars k v })

def bindRef (fs : Frames) (k : String) (s : Spec) : Frames :=
  modHead fs (fun f => { f with refs := (k, s) :: f.refs.filter (·.1 != k) })

def setMode (fs : Frames) (m : Mode) : Frames := modHead fs (fun f => { f with mode := some m })

def setArgMode (fs : Frames) (b : Bool) : Frames := modHead fs (fun f => { f with arg := some b })

/-- `chain_child(scope)` when the scope has a last child: that child's scope, with MODE and
    MIN_MODE reset to `scope[MODE]` / `scope[MIN_MODE]` -/
def chain (owner lastChild : Frames) : Frames :=
  modHead lastChild (fun f => { f with mode := some (mode owner), arg := some (argMode owner) })

end Frames

instance : ScopeAlg Frames where
  child := Frames.child
  lookup := Frames.lookup
  bind := Frames.bind
  lookupRef := Frames.lookupRef
  bindRef := Frames.bindRef
  mode := Frames.mode
  setMode := Frames.setMode
  argMode := Frames.argMode
  setArgMode := Frames.setArgMode
  chain := Frames.chain

/-- the root scope `glom()` builds: default scope entries, MODE = AUTO, MIN_MODE = None,
    a fresh `globals` ScopeVars, then the caller's `scope=` mapping copied in -/
def rootScope (st : St) (callerScope : List (String × V)) : Frames × St :=
  let gid := st.gvars.length
  let f : Frame := { vars := callerScope.foldl (fun acc kv => attrSet acc kv.1 kv.2) [("globals", V.vars gid)]
                     mode := some .auto, arg := some false }
  ([f], { st with gvars := st.gvars ++ [[]] })

/-- what `glom()` returns: the value (the scope is dropped) or the error -/
def topResult {σ} (o : St × Except Err (V × σ)) : St × Except Err V :=
  match o with
  | (st', .ok r) => (st', .ok r.1)
  | (st', .error e) => (st', .error e)

/-- `glom(target, spec, scope=callerScope)`: value or error, and the state that survives -/
def glomTop (p : Prims) (fuel : Nat) (spec : Spec) (target : V) (callerScope : List (String × V))
    (st : St) : St × Except Err V :=
  let (root, st0) := rootScope st callerScope
  topResult (interp p fuel spec target root st0)

end Glom.Interp
