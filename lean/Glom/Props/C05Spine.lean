import Glom.Lemmas.C05Spine
/-
  C05 — Error messages carry a faithful target-spec trace down to the failing spec:
  the structural theorems about whole evaluations.

  Domain: every *evaluation tree* (`Tree`, Spec/C05Tree.lean: call nodes with sub-evaluations made
  with the node's own scope or through `chain_child`, outcomes returned / raised error id) that is
  well formed (`Tree.wf`):
    * `chainOk`  — a chained step continues from a sub-evaluation that returned;
    * `onePath`  — the root error's identity is the outcome of calls along one propagation path
                   only (root call → last sub-evaluation → … → the call that raised it).
  The driver checks on every recorded real evaluation that the recorded events are `events t` of
  such a tree (`inDomain`), which ties these theorems to the implementation.

  Proved here, for every such tree, by induction (no size bound):
    c05_frames            the frame store after `replay (events t)`: every frame's `up`,
                          `lastChild`, `childErrors`, `curError`, `noPy` (`frameAt`), including the
                          NO_PYFRAME walk (an error leaving a chained step is recorded on every
                          frame of the chain up to the first unflagged one);
    c05_unpack_rows       the rows of `_unpack_stack`'s loop from any frame (`rowsAt`);
    c05_reference_spine   the reference `spine` of Spec/C05 is the root call followed by `spineK`;
    c05_spine_from        the rows of `unpack … h` for every start `h` on the path of the root error
                          (the root call, and the branch shown last wherever the linear descent
                          stops): they follow the path of the error — see the statement;
    c05_spine             the same for the root call, against `callsOf` / `spine`;
    c05_first_row         clause (a);
    c05_rows_show_errors  every row of the loop after the first shows an error (the repaired
                          `_unpack_stack`, glom effa985, does not descend into a last child that
                          returned normally);
    c05_last_row          clause (c): the last row is a call that raised and shows its own error —
                          with `c05_spine`: the innermost call that raised the root error, or its
                          only (caught) failed branch shown linearly below it, or the row at which
                          the descent stops to show branches, the last of which really raised;
    c05_last_row_only_error   … the row that shows the root error, when no other error was raised;
    c05_last_row_counterexample   the loop BEFORE the repair (`unpackLoopOld`) listed a call that
                          returned normally below the call that raised (`glom({}, Not(Not('x')))`);
    c05_branches          clause (d): the branches of a row are the CHILD_ERRORS of its frame (by
                          `c05_frames`: the heads of the chain segments in which a step raised),
                          unless that is the single LAST_CHILD_SCOPE (then the rows continue into it);
    c05_branches_unchained  … which are exactly the sub-evaluations that raised when none of them is
                          chained;
    c05_frames_needs_chainOk, c05_spine_needs_onePath   the hypotheses cannot be dropped.
  Not proved: the lift from rows to the rendered text (the clauses of `checkC05` on `formatTrace`'s
  output are validated per recorded evaluation by the driver, character-exact against glom); the
  relation of `failedHeads` to the reference `failedBranches` over `callsOf` beyond
  `c05_branches_unchained` (by definition `failedHeads` lists, for every direct sub-evaluation that
  raised, the head of its chain segment).
-/
set_option linter.unusedSimpArgs false
namespace Glom.Props.C05
open Glom.C05

/-! ### 2. the frame store -/

/-- **The frame store after a whole evaluation**: frame 0 is glom()'s root scope, whose only child
    (and only failed child) is the root call; the frame of every call `j ≥ 1` is `frameAt`:
    its parent `up` is the previous step for a chained step and the enclosing call otherwise; a call
    that was continued by a chained step is flagged, points to that step, has forgotten its own
    branches, and carries the error of the chain's last step if that raised (the NO_PYFRAME walk);
    any other call points to the head of its last chain segment, lists the heads of the segments
    in which a step raised, and carries its own outcome. -/
theorem c05_frames (t : Tree) (h : chainOk true t.root = true) :
    (replay (events t)).size = 1 + t.root.size ∧
    (replay (events t))[0]? = some { rootFrame with lastChild := some 1, childErrors := [1] } ∧
    ∀ j, 1 ≤ j → (replay (events t))[j]? = frameAt 0 none 1 t.root j := by
  have key := runKids t.root 0 [] 1 { frames := #[rootFrame] } rfl (by omega)
    (by simp [noPyOf, rootFrame]) trivial (by simp) (by simpa using h)
  simp only [List.head?_nil] at key
  obtain ⟨_, hsz, hf⟩ := key
  rw [replay_eq_run, events]
  refine ⟨hsz, ?_, ?_⟩
  · rw [hf 0]
    simp [oldUpd, pUpd, lastHead, failedHeads, Tree.root, rootFrame]
  · intro j hj
    rw [hf j, if_pos hj]

/-! ### the rows of `_unpack_stack` -/

/-- **`_unpack_stack` from any call `j`** of the evaluation: its loop produces `rowsAt`, then the
    errors are pushed down and the tail without errors is trimmed. -/
theorem c05_unpack_rows (t : Tree) (h : chainOk true t.root = true) (j : Nat) (hj : 1 ≤ j)
    (hj2 : j < 1 + t.root.size) :
    unpack (replay (events t)) j = trimTail (pushDown (rowsAt 1 t.root j)) := by
  obtain ⟨hsz, _, hf⟩ := c05_frames t h
  unfold unpack
  rw [unpackLoop_rowsAt (replay (events t)) t.root 0 none 1 (fun j h1 _ => hf j h1) j hj hj2 _ (by omega) []]
  simp

/-! ### the reference notions of Spec/C05 on a tree -/

/-- the calls the root error propagated through (reference `spine` over `callsOf`) are the root
    call and, below it, the last sub-evaluation as long as its outcome is the root error -/
theorem c05_reference_spine (t : Tree) (h : onePath t.err t.kids = true) :
    (spine (callsOf (events t)) t.err).map (·.idx) = 1 :: spineK t.err 2 t.kids :=
  spine_events t h

/-! ### 3. the main theorem -/

/-- **The rows follow the path of the root error.**  Let `h` be a frame on the path of the root
    error `e` (`startOK`: the root call `1`; a step of a chain that ends in a call with outcome `e`
    whose enclosing calls have outcome `e`; in particular the branch `h'` below), and `sp` the calls
    with outcome `e` from `h`'s sibling list downwards (`spineAt`; for `h = 1` the whole reference
    spine, see `c05_spine`).  Then `unpack … h = A ++ B` where
      * `A` is not empty; only its last row shows an error, and that error is `e`;
      * the frames of the first `k ≥ 1` calls of `sp` occur among the frames of `A` in evaluation
        order, and the last row of `A` is the `k`-th of them; every other row of `A` has no
        branches and its frame is flagged NO_PYFRAME: it is a completed earlier step of a chain
        (a call that was continued by a chained step; the chain's last step is the next of these
        calls) — these are the only extra rows before the call that raised;
      * no row of `B` shows `e`; `B` are rows *below* the call that raised `e`, and `B ≠ []` only
        if that call's row shows no branches: its only failed sub-evaluation segment is its last
        one, which it caught, and `_unpack_stack` shows a single failed branch linearly.  Every row
        of `B` showed an error before push-down (`c05_rows_show_errors`), the last one still does,
        and it is that call's own outcome (`c05_last_row`): never a call that returned normally;
      * either all of `sp` has been listed (`k = sp.length`: the last row of `A` is the call that
        raised `e`), or the descent stopped at a call that shows its failed branches, `B = []`, and
        the LAST of these branches is a frame `h'` that again is on the path of the error, with the
        rest of `sp` below it: the theorem applies to `unpack … h'`, which is what
        `format_target_spec_trace` renders for that branch (as the last branch).  After a failed branch is abandoned the
        rows therefore follow the branch that really raised. -/
theorem c05_spine_from (t : Tree) (hwf : t.wf = true) (h : Nat) (hs : startOK t.err 1 t.root h = true) :
    ∃ (A B : List Row) (k : Nat),
      unpack (replay (events t)) h = A ++ B ∧ A ≠ [] ∧
      (∀ r, r ∈ A.dropLast → r.error = none) ∧ A.getLast?.map (·.error) = some (some t.err) ∧
      (∀ r, r ∈ B → r.error ≠ some t.err) ∧
      (∀ b, B.getLast? = some b → ∃ x, b.error = some x ∧ x ≠ t.err ∧ x ∈ errsOf t.root) ∧
      1 ≤ k ∧ k ≤ (spineAt t.err 1 t.root h).length ∧
      List.Sublist ((spineAt t.err 1 t.root h).take k) (A.map (·.frame)) ∧
      A.getLast?.map (·.frame) = (spineAt t.err 1 t.root h)[k - 1]? ∧
      (∀ r, r ∈ A → r.frame ∈ (spineAt t.err 1 t.root h).take k ∨
        (r.branches = [] ∧ (replay (events t))[r.frame]?.map (·.noPy) = some true)) ∧
      (B ≠ [] → ∃ last, A.getLast? = some last ∧ last.branches = []) ∧
      (k = (spineAt t.err 1 t.root h).length ∨
        (B = [] ∧ ∃ last h', A.getLast? = some last ∧ last.branches.getLast? = some h' ∧
          startOK t.err 1 t.root h' = true ∧
          spineAt t.err 1 t.root h' = (spineAt t.err 1 t.root h).drop k)) := by
  simp only [Tree.wf, Bool.and_eq_true] at hwf
  obtain ⟨hc, ho⟩ := hwf
  have hr := startOK_range t.err t.root 1 h hs
  have hop : onePath t.err t.root = true := by simpa [Tree.root, onePath] using ho
  obtain ⟨A, B, k, h1, h2, h3, h4, h5, h6, h7, h8, hx, hy, h9⟩ := rowsAt_spine t.err t.root 1 h hop hs
  rw [c05_unpack_rows t hc h hr.1 hr.2, h1, trim_pushDown_run t.err A B h2 h3 h4]
  obtain ⟨hB1, _⟩ := below_rows t.err B h4
  have hlast : (clearErr A).getLast? = A.getLast? := clearErr_getLast A
  have hAl : ∃ a, A.getLast? = some a ∧ a.error = some t.err := by
    refine ⟨A.getLast h2, List.getLast?_eq_some_getLast h2, h3 _ (List.getLast_mem h2)⟩
  obtain ⟨a, ha1, ha2⟩ := hAl
  refine ⟨clearErr A, stripNone (pushDown B), k, rfl, clearErr_ne_nil A h2, clearErr_dropLast A, ?_, hB1, ?_, h5, h6,
    ?_, ?_, ?_, ?_, ?_⟩
  · rw [hlast, ha1]; simp [ha2]
  · intro b hb
    obtain ⟨x, hx'⟩ := stripNone_getLast _ b hb
    have hbm : b ∈ stripNone (pushDown B) := List.mem_of_getLast? hb
    have hbm2 : b ∈ pushDown B := (stripNone_prefix _).subset hbm
    obtain ⟨r', hm', _, _, h3'⟩ := pushDown_mem B b hbm2
    have hre : r'.error = some x := by
      rcases h3' with h3' | h3'
      · rw [hx'] at h3'; simp at h3'
      · rw [← h3', hx']
    refine ⟨x, hx', ?_, ?_⟩
    · intro hxe; subst hxe; exact h4 r' hm' hre
    · exact rowsAt_error_mem t.root 1 h r' (by rw [h1]; exact List.mem_append_right _ hm') x hre
  · rw [clearErr_frames]; exact h7
  · rw [hlast]; exact h8
  · intro r hr
    have hfr := clearErr_frames A
    have hbr := clearErr_branches A
    obtain ⟨idx, hidx, rfl⟩ := List.mem_iff_getElem.mp hr
    have hlen : (clearErr A).length = A.length := by
      have := congrArg List.length hfr; simpa using this
    have hf : (clearErr A)[idx].frame = (A[idx]'(by omega)).frame := by
      have := congrArg (fun l => l[idx]?) hfr
      simp [List.getElem?_map, hidx, (by omega : idx < A.length)] at this
      exact this
    have hb : (clearErr A)[idx].branches = (A[idx]'(by omega)).branches := by
      have := congrArg (fun l => l[idx]?) hbr
      simp [List.getElem?_map, hidx, (by omega : idx < A.length)] at this
      exact this
    rw [hf, hb]
    rcases hx _ (List.getElem_mem (l := A) (by omega : idx < A.length)) with hx1 | hx1
    · exact Or.inl hx1
    · refine Or.inr ⟨hx1.1, ?_⟩
      have hrg := isStep_range t.root 1 _ hx1.2
      rw [(c05_frames t hc).2.2 _ hrg.1]
      exact frameAt_noPy t.root 0 none 1 _ hx1.2
  · intro hB'
    have hBne : B ≠ [] := by
      intro h0; subst h0; exact hB' (by simp [pushDown, stripNone])
    obtain ⟨last, hl1, hl2⟩ := hy hBne
    exact ⟨last, by rw [hlast]; exact hl1, hl2⟩
  · rcases h9 with h9 | ⟨hB, last, h', hl, hm, hn⟩
    · exact Or.inl h9
    · refine Or.inr ⟨?_, last, h', by rw [hlast]; exact hl, hm, hn.1, hn.2⟩
      subst hB
      simp [pushDown, stripNone]

/-- **c05_spine** — the main theorem for the whole trace, against the reference notions of
    Spec/C05: with `sp` the calls the root error propagated through (`spine (callsOf evs) e`),
    `unpack (replay evs) 1 = A ++ B` as in `c05_spine_from` (with `h = 1`). -/
theorem c05_spine (t : Tree) (hwf : t.wf = true) :
    ∃ (A B : List Row) (k : Nat),
      unpack (replay (events t)) 1 = A ++ B ∧ A ≠ [] ∧
      (∀ r, r ∈ A.dropLast → r.error = none) ∧ A.getLast?.map (·.error) = some (some t.err) ∧
      (∀ r, r ∈ B → r.error ≠ some t.err) ∧
      (∀ b, B.getLast? = some b → ∃ x, b.error = some x ∧ x ≠ t.err ∧ x ∈ errsOf t.root) ∧
      1 ≤ k ∧ k ≤ (spine (callsOf (events t)) t.err).length ∧
      List.Sublist (((spine (callsOf (events t)) t.err).map (·.idx)).take k) (A.map (·.frame)) ∧
      A.getLast?.map (·.frame) = ((spine (callsOf (events t)) t.err).map (·.idx))[k - 1]? ∧
      (∀ r, r ∈ A → r.frame ∈ ((spine (callsOf (events t)) t.err).map (·.idx)).take k ∨
        (r.branches = [] ∧ (replay (events t))[r.frame]?.map (·.noPy) = some true)) ∧
      (B ≠ [] → ∃ last, A.getLast? = some last ∧ last.branches = []) ∧
      (k = (spine (callsOf (events t)) t.err).length ∨
        (B = [] ∧ ∃ last h', A.getLast? = some last ∧ last.branches.getLast? = some h' ∧
          startOK t.err 1 t.root h' = true ∧
          spineAt t.err 1 t.root h' = ((spine (callsOf (events t)) t.err).map (·.idx)).drop k)) := by
  have ho : onePath t.err t.kids = true := by
    simp only [Tree.wf, Bool.and_eq_true] at hwf; exact hwf.2
  have hsp : (spine (callsOf (events t)) t.err).map (·.idx) = spineAt t.err 1 t.root 1 := by
    rw [c05_reference_spine t ho]
    simp [spineAt, Tree.root, spineK]
  have hlen : (spine (callsOf (events t)) t.err).length = (spineAt t.err 1 t.root 1).length := by
    rw [← hsp]; simp
  rw [hsp, hlen]
  exact c05_spine_from t hwf 1 (by simp [startOK, Tree.root, segRes, Kids.startsChained])

/-- **(a) the first row is the root call** -/
theorem c05_first_row (t : Tree) (hwf : t.wf = true) :
    (unpack (replay (events t)) 1).head?.map (·.frame) = some 1 ∧
    (callsOf (events t)).head?.map (·.idx) = some 1 := by
  constructor
  · simp only [Tree.wf, Bool.and_eq_true] at hwf
    rw [c05_unpack_rows t hwf.1 1 (by omega) (by simp [Tree.root, Kids.size]; omega)]
    have hne : rowsAt 1 t.root 1 ≠ [] ∧ (rowsAt 1 t.root 1).head?.map (·.frame) = some 1 := by
      simp only [rowsAt, Tree.root, if_true, Kids.startsChained, Bool.false_eq_true, if_false]
      cases lastHead none (1 + 1) t.kids <;> simp
    have hpd : (pushDown (rowsAt 1 t.root 1)).map (·.frame) = (rowsAt 1 t.root 1).map (·.frame) := pushDown_frames _
    have hpre : stripNone (pushDown (rowsAt 1 t.root 1)) <+: pushDown (rowsAt 1 t.root 1) := stripNone_prefix _
    -- trimming keeps a non-empty prefix
    generalize hl : pushDown (rowsAt 1 t.root 1) = l at hpd
    have hlne : l ≠ [] := by
      intro h0; rw [h0] at hpd; simp at hpd; exact hne.1 hpd
    have htrim : trimTail l ≠ [] ∧ ∃ dropped, l = trimTail l ++ dropped := by
      unfold trimTail
      have key : ∀ (l : List Row), l ≠ [] → dropNoneKeepOne l ≠ [] ∧ ∃ pre, l = pre ++ dropNoneKeepOne l := by
        intro l
        induction l with
        | nil => intro h; exact absurd rfl h
        | cons x r ih =>
          intro _
          cases r with
          | nil => exact ⟨by simp [dropNoneKeepOne], [], by simp [dropNoneKeepOne]⟩
          | cons y r' =>
            simp only [dropNoneKeepOne]
            split
            · obtain ⟨h1, pre, h2⟩ := ih (by simp)
              exact ⟨h1, x :: pre, by rw [List.cons_append, ← h2]⟩
            · exact ⟨by simp, [], by simp⟩
      obtain ⟨h1, pre, h2⟩ := key l.reverse (by simpa using hlne)
      refine ⟨by simpa using h1, pre.reverse, ?_⟩
      have := congrArg List.reverse h2
      simpa using this
    obtain ⟨h1, dropped, h2⟩ := htrim
    have hhead : (trimTail l).head? = l.head? := by
      cases htl : trimTail l with
      | nil => exact absurd htl h1
      | cons x r => rw [h2, htl]; simp
    rw [hhead]
    have : l.head?.map (·.frame) = (l.map (·.frame)).head? := by cases l <;> simp
    rw [this, hpd]
    have : ((rowsAt 1 t.root 1).map (·.frame)).head? = (rowsAt 1 t.root 1).head?.map (·.frame) := by
      cases rowsAt 1 t.root 1 <;> simp
    rw [this, hne.2]
  · rw [callsOf_events]; simp [callsK, Tree.root]


/-! ### (d) branches -/

/-- **(d) the branches of a row are the CHILD_ERRORS of its frame**, unless that is just the
    frame's LAST_CHILD_SCOPE (a single failed branch is shown linearly: the rows continue into it).
    For every frame store and every start. -/
theorem c05_branches (fs : Array Frame) (start : Nat) (r : Row) (hr : r ∈ unpack fs start) :
    r.branches = branchesOf fs r.frame :=
  unpack_branches fs start r hr

/-- … and by `c05_frames` the CHILD_ERRORS of a call that was not handed on by `chain_child` (every
    call of the spine is one) are `failedHeads` of its sub-evaluations: the head of every chain
    segment in which a step raised (the segments started after the last `chain_child` of an
    enclosing chain: `chain_child` empties the list of the frame it hands on).  When none of the
    sub-evaluations is chained (Coalesce, Or, And, dict and list specs …) these are exactly the
    sub-evaluations that raised, in evaluation order: -/
theorem c05_branches_unchained (K : Kids) (h : Nat) (prev : Option Nat) (n : Nat) (hn : noChain K = true) :
    failedHeads h prev n K = failedKids n K :=
  failedHeads_unchained K h prev n hn

/-! ### (c) the last row -/

/-- **every row after the first shows an error** (before errors are pushed down): the loop of the
    repaired `_unpack_stack` descends into a LAST_CHILD_SCOPE only if it has a CUR_ERROR, i.e. by
    `c05_frames` only into a call that raised or a completed step of a chain that raised. -/
theorem c05_rows_show_errors (t : Tree) (j : Nat) (r : Row) (hr : r ∈ (rowsAt 1 t.root j).tail) : r.error ≠ none :=
  rowsAt_tail_error t.root 1 j r hr

/-- **(c) the last row is a call that raised, and it shows that call's own error**: never a call
    that returned normally (in particular not a completed chain step).  Together with `c05_spine`:
    the rows end at the innermost call that raised the root error (`B = []`, `k = sp.length`), or
    with the only failed branch of that call, which it caught, shown linearly below it (`B ≠ []`,
    then the call's row shows no branches), or at a call that shows its branches, the last of which
    is the branch that really raised (`k < sp.length`). -/
theorem c05_last_row (t : Tree) (hc : chainOk true t.root = true) :
    ∃ last c, (unpack (replay (events t)) 1).getLast? = some last ∧
      c ∈ callsOf (events t) ∧ c.idx = last.frame ∧ c.result = last.error ∧ last.error ≠ none := by
  have hsz : 1 < 1 + t.root.size := by simp [Tree.root, Kids.size]; omega
  rw [c05_unpack_rows t hc 1 (by omega) hsz, callsOf_events]
  have hne : rowsAt 1 t.root 1 ≠ [] := rowsAt_first_ne_nil 1 false t.info t.kids (some t.err) .nil
  have hhead := rowsAt_head_error t.root 1 1 t.err (by simp [segResAt, segRes, Tree.root, Kids.startsChained])
  obtain ⟨r, hr⟩ : ∃ r, (rowsAt 1 t.root 1).getLast? = some r := ⟨_, List.getLast?_eq_some_getLast hne⟩
  have hre : r.error ≠ none := by
    cases hl : rowsAt 1 t.root 1 with
    | nil => exact absurd hl hne
    | cons a l =>
      rw [hl] at hr hhead
      rcases getLast?_cons_cases a l r hr with ⟨_, h1⟩ | ⟨_, h1⟩
      · subst h1; simp at hhead; simp [hhead]
      · exact rowsAt_tail_error t.root 1 1 r (by rw [hl]; exact List.mem_of_getLast? h1)
  obtain ⟨c, hcm, h1, h2⟩ := rowsAt_last t.root none 1 1 r hr hre
  have hpl : (pushDown (rowsAt 1 t.root 1)).getLast? = some r := by rw [pushDown_getLast]; exact hr
  rw [trimTail_of_last _ r hpl hre]
  exact ⟨r, c, hpl, hcm, h1, h2, hre⟩

/-! ### the loop before the repair (glom commit effa985~1) -/

/-- `_unpack_stack`'s loop as it was: without the stop at a last child that returned normally -/
def unpackLoopOld (fs : Array Frame) : Nat → Nat → List Row → List Row
  | 0, _, acc => acc
  | fuel + 1, cur, acc =>
    match fs[cur]? with
    | none => acc
    | some f =>
      match f.lastChild with
      | none => acc ++ [⟨cur, f.curError, []⟩]
      | some child =>
        let branches := if f.childErrors == [child] then [] else f.childErrors
        let acc' := acc ++ [⟨cur, f.curError, branches⟩]
        if branches.contains child then acc' else unpackLoopOld fs fuel child acc'

def unpackOld (fs : Array Frame) (start : Nat) : List Row :=
  trimTail (pushDown (unpackLoopOld fs fs.size start []))

/-- **(c), partial**: when no other error than the root error was raised during the evaluation
    (no caught failure anywhere), the last row of the trace is the row that shows the root error,
    and it is a call the root error propagated through. -/
theorem c05_last_row_only_error (t : Tree) (hwf : t.wf = true) (honly : ∀ x, x ∈ errsOf t.root → x = t.err) :
    (unpack (replay (events t)) 1).getLast?.map (·.error) = some (some t.err) ∧
    ∃ f, (unpack (replay (events t)) 1).getLast?.map (·.frame) = some f ∧
      f ∈ (spine (callsOf (events t)) t.err).map (·.idx) := by
  obtain ⟨A, B, k, h1, h2, _, h4, _, h6, h7, h8, _, h10, _, _, _⟩ := c05_spine t hwf
  have hB : B = [] := by
    cases hb : B.getLast? with
    | none => simpa using hb
    | some b =>
      obtain ⟨x, _, hne, hmem⟩ := h6 b hb
      exact absurd (honly x hmem) hne
  subst hB
  rw [h1, List.append_nil]
  refine ⟨h4, ?_⟩
  have hk : k - 1 < ((spine (callsOf (events t)) t.err).map (·.idx)).length := by simp; omega
  refine ⟨((spine (callsOf (events t)) t.err).map (·.idx))[k - 1], ?_, List.getElem_mem _⟩
  rw [h10, List.getElem?_eq_getElem hk]

/-- `glom({}, Not(Not('x')))`: the inner `Not` catches the error of `'x'` and returns, the outer
    `Not` then raises the root error — as recorded on the real glom (frames: 1 `Not(Not('x'))`,
    2 `Not('x')`, 3 `'x'` (raises 1, caught), 4 its inner evaluation of `'x'`; root error 2) -/
def notNotTree : Tree :=
  ⟨⟨"Not(Not('x'))".toList, "{}".toList, 1, some 0, none⟩,
   .cons false ⟨"Not('x')".toList, "{}".toList, 1, some 0, none⟩
     (.cons false ⟨"'x'".toList, "{}".toList, 1, some 0, some 1⟩
       (.cons false ⟨"'x'".toList, "{}".toList, 1, some 0, some 1⟩ .nil none .nil) (some 1) .nil)
     none .nil,
   2⟩

/-- **Before the repair clause (c) failed**: in a well-formed tree the rows of the old loop went on
    *below* the call that raised the root error — into its last sub-evaluation, which returned
    normally (row 2, `Not('x')`) — and ended with a caught error (call 3 with error 1; the root
    error 2 was raised by call 1, the only call it propagated through).  The repaired loop stops
    at call 1. -/
theorem c05_last_row_counterexample :
    notNotTree.wf = true ∧
    (spine (callsOf (events notNotTree)) notNotTree.err).map (·.idx) = [1] ∧
    unpackOld (replay (events notNotTree)) 1 = [⟨1, some 2, []⟩, ⟨2, none, []⟩, ⟨3, some 1, []⟩] ∧
    ((callsOf (events notNotTree)).filter (fun c => c.idx == 2)).map (·.result) = [none] ∧
    unpack (replay (events notNotTree)) 1 = [⟨1, some 2, []⟩] := by
  decide

/-! ### the hypotheses are needed -/

/-- a chained step that continues from a sub-evaluation that raised (error 1, caught) -/
def chainAfterRaise : Tree :=
  ⟨⟨[], [], 0, none, none⟩,
   .cons false ⟨[], [], 0, none, none⟩ .nil (some 1) (.cons true ⟨[], [], 0, none, none⟩ .nil none .nil), 9⟩

/-- **without `chainOk`** the frame store is not `frameAt`: the frame that raised and was then
    handed on by `chain_child` keeps its own CUR_ERROR (`frameAt` says: the outcome of the chain) -/
theorem c05_frames_needs_chainOk :
    chainOk true chainAfterRaise.root = false ∧
    ((replay (events chainAfterRaise))[2]?.map (·.curError)) = some (some 1) ∧
    ((frameAt 0 none 1 chainAfterRaise.root 2).map (·.curError)) = some none := by
  decide

/-- a call that catches the error 9 of its first sub-evaluation, evaluates another one, and then
    raises the *same* error object 9 again -/
def reRaise : Tree :=
  ⟨⟨[], [], 0, none, none⟩,
   .cons false ⟨[], [], 0, none, none⟩ .nil (some 9) (.cons false ⟨[], [], 0, none, none⟩ .nil none .nil), 9⟩

/-- **without `onePath`** the reference spine is not a path through last sub-evaluations: the
    caught call 2 has the root error as its outcome, but the rows never show it as part of the path
    (`unpack` lists the root call only, with call 2 as a failed branch) -/
theorem c05_spine_needs_onePath :
    onePath reRaise.err reRaise.kids = false ∧
    (spine (callsOf (events reRaise)) reRaise.err).map (·.idx) = [1, 2] ∧
    1 :: spineK reRaise.err 2 reRaise.kids = [1] ∧
    unpack (replay (events reRaise)) 1 = [⟨1, some 9, [2]⟩] := by
  decide

/-! ### non-vacuity: concrete evaluation trees -/

private def ii (s t : String) : Info := ⟨s.toList, t.toList, 0, none, none⟩

/-- `glom({'a': 1}, ('a', Coalesce('x', ('b', 'c'))))`: a tuple whose second step is a Coalesce with
    two failing branches, the second of which is a tuple that fails at its second step; the Coalesce
    raises the root error 3 -/
def exTree : Tree :=
  ⟨ii "('a', Coalesce('x', ('b', 'c')))" "{'a': 1}",
   .cons false (ii "'a'" "{'a': 1}") .nil none
     (.cons true (ii "Coalesce('x', ('b', 'c'))" "1")
       (.cons false (ii "'x'" "1") .nil (some 1)
         (.cons false (ii "('b', 'c')" "1")
           (.cons false (ii "'b'" "1") .nil none (.cons true (ii "'c'" "1") .nil (some 2) .nil))
           (some 2) .nil))
       (some 3) .nil),
   3⟩

example : exTree.wf = true := by decide
example : startOK exTree.err 1 exTree.root 1 = true := by decide
example : treeOf (events exTree) = some exTree := by decide
/-- the reference spine: the root tuple and the Coalesce -/
example : (spine (callsOf (events exTree)) exTree.err).map (·.idx) = [1, 3] := by decide
/-- `c05_frames` on it: the completed first step (frame 2) is flagged, points to the Coalesce and
    carries its error; the Coalesce (frame 3) lists its two failed branches -/
example : ((replay (events exTree))[2]?.map (fun f => (f.lastChild, f.childErrors, f.curError, f.noPy))) =
    some (some 3, [3], some 3, true) := by decide
example : ((replay (events exTree))[3]?.map (fun f => (f.lastChild, f.childErrors, f.curError, f.noPy))) =
    some (some 5, [4, 5], some 3, false) := by decide
/-- `c05_spine` on it: `A` = the three rows, `k = 2`: root call, the completed step 'a' (no
    branches), the Coalesce, which raised (all of the spine is listed) and shows its two branches -/
example : unpack (replay (events exTree)) 1 = [⟨1, none, []⟩, ⟨2, none, []⟩, ⟨3, some 3, [4, 5]⟩] := by decide
/-- the second branch is rendered from its own frame: the tuple, its completed step, the failing step -/
example : unpack (replay (events exTree)) 5 = [⟨5, none, []⟩, ⟨6, none, []⟩, ⟨7, some 2, []⟩] := by decide

/-- `glom({}, Or('x', ('y', 'z')))`-like: the first branch fails and is abandoned, the second (a
    tuple failing at its first step) raises the root error 2, which `Or` lets through -/
def orTree : Tree :=
  ⟨ii "Or('x', ('y', 'z'))" "{}",
   .cons false (ii "'x'" "{}") .nil (some 1)
     (.cons false (ii "('y', 'z')" "{}") (.cons false (ii "'y'" "{}") .nil (some 2) .nil) (some 2) .nil),
   2⟩

example : orTree.wf = true := by decide
example : (spine (callsOf (events orTree)) orTree.err).map (·.idx) = [1, 3, 4] := by decide
/-- the linear descent stops at the root call (`k = 1 < 3`), which shows both branches; the branch
    that really raised (frame 3) is again a start, with the rest of the spine below it -/
example : unpack (replay (events orTree)) 1 = [⟨1, some 2, [2, 3]⟩] := by decide
example : startOK orTree.err 1 orTree.root 3 = true ∧ spineAt orTree.err 1 orTree.root 3 = [3, 4] := by decide
example : unpack (replay (events orTree)) 3 = [⟨3, none, []⟩, ⟨4, some 2, []⟩] := by decide
/-- `glom({}, Coalesce('x'))`: the only branch fails and is caught, the Coalesce raises the root
    error 2: `B ≠ []` — the caught branch is shown linearly below the call that raised (whose row
    has no branches), and the last row is a call that raised (its own error 1) -/
def oneBranchTree : Tree :=
  ⟨ii "Coalesce('x')" "{}", .cons false (ii "'x'" "{}") .nil (some 1) .nil, 2⟩

example : oneBranchTree.wf = true := by decide
example : unpack (replay (events oneBranchTree)) 1 = [⟨1, some 2, []⟩, ⟨2, some 1, []⟩] := by decide

/-- `c05_last_row_only_error`'s hypothesis is satisfiable: a linear failure, the only error -/
example : ∀ x, x ∈ errsOf (Tree.root ⟨ii "'a.b'" "{}", .cons false (ii "T['a']['b']" "{}") .nil (some 1) .nil, 1⟩) → x = 1 := by
  decide

end Glom.Props.C05
