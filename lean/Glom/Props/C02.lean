import Glom.Lemmas.C02
import Glom.Lemmas.C02Heap
import Glom.Model.C02Env
import Glom.Model.C02Heap
/-
  C02 — T expressions replay exactly the recorded operations on the target.

  Property theorems only; helper lemmas are in `Glom/Lemmas/C02.lean`.
  Every theorem is for *all* value types `V`, all state types `S`, all primitive
  semantics `prim` (Python's own meaning of getattr / subscription / arithmetic /
  calling — including what a call does to the state — is a parameter: the
  theorems are about glom's record-and-replay logic), all targets, all start
  states, all expressions of any length and any nesting of T / Spec(T) / list /
  tuple / dict arguments, and all fact tables satisfying the decidable predicate
  `WF`; `c02_facts_wf` discharges `WF` for the tables regenerated from /repo on
  this run.  Both sides of every equation are pairs (outcome, state left): the
  theorems also say that the target object is changed in exactly the way the
  chain applied directly changes it — also when the evaluation ends with an error.

  Hypotheses, each with a satisfying example below:
    * `WF F`             the extracted tables are well formed (facts obligation)
    * `record … = some o` the expression can be written: every operation used has
                          an overload on TType
    * `PlainCallee prim` (only `c02_replay`, the statement against PLAIN Python) the
                          `arg_val` pass of `Call.glomit` over the already evaluated
                          callee returns it, i.e. the callee is not a glom spec object
                          stored in the target's data (a callable is a literal in
                          argument mode).  Forced: `c02_callee_eval_counterexample` is
                          the concrete input without it.  `c02_replay_reval` needs no such
                          hypothesis: it states what glom does for EVERY callee — the
                          callee is passed through `arg_val` first (a stored `T` / `Spec`
                          object is evaluated against the target), then the arguments,
                          then the call.  The ARGUMENTS of a call need no hypothesis:
                          since /repo commit db9b8f7 they are evaluated exactly once
                          and reach the callee as they are
                          (`c02_call_by_reference`, `c02_args_evaluated_once`;
                          `c02_second_pass_counterexample` keeps the old code shape).
-/
namespace Glom.Props.C02
open Glom Glom.C02

/-- **Facts obligation** (re-checked on every run against the regenerated
    tables).  *No recorded operation is dropped*: every op character recorded by
    a TType overload has a branch in `_t_eval`; that branch performs the
    operation the overload's dunder denotes (`__floordiv__` ↦ `//`, `__pow__` ↦
    `**`, …); the attribute / item / arithmetic branches turn the documented
    exception classes into PathAccessErrors — the `except` clause of the arithmetic
    branch covers TypeError, ZeroDivisionError, OverflowError and ValueError (the class
    or a base class of it, on the exception table extracted from Python), and a class is
    listed only for a handler that converts UNCONDITIONALLY (whole body
    `pae = PathAccessError(e, Path(_t), i // 2)`; see
    `c02_conditional_handler_counterexample`) — and the call branch catches nothing;
    all fifteen operations of the property are overloaded; every
    PathAccessError is built with `i // 2`; PathAccessError is a GlomError. -/
theorem c02_facts_wf : WF genFacts = true := by decide

/-- `c02_facts_wf`, spelled out per recorded operation. -/
theorem c02_no_dropped_op (d c : String) (h : charOf genFacts d = some c) :
    ∃ kind ks caught, meaning d = some kind ∧ dispatchOf genFacts c = some (ks, caught) ∧
      Kind.ofString ks = kind ∧ caughtOfKind genFacts kind = caught :=
  recorded_wf c02_facts_wf h

/-- **Replay, for every callee.**  Evaluating the recorded object with `_t_eval` (flat tuple,
    index stepping by 2, branch table, `arg_val` on every argument inside the loop, the
    recorded `(args, kwargs)` of a call handed unevaluated to `Call`, which passes the callee
    through `arg_val`, evaluates the arguments once and calls) started in any state `s` yields
    exactly what applying the chain of operations to the target object in state `s` yields,
    where the callee of a call is first passed through `arg_val` (`prim.revalFunc`: a
    callable / any plain object is returned as it is, a glom spec object found in the target's
    data is evaluated against the target) — the same value *and the same state afterwards*;
    or the first failing operation, as PathAccessError(position) when the branch's `except`
    clause names its class and unchanged otherwise; or the failure of the first failing
    argument / callee evaluation — again with the same state left behind.  No hypothesis on
    the primitives at all. -/
theorem c02_replay_reval {V S : Type} (F : Facts) (hwf : WF F = true) (prim : Prim V S)
    (e : E V) (o : C02.Obj V)
    (hrec : record F prim.none e = some o) (target : V) (s : S) :
    tEval F prim o target s = outS F (refEval prim prim.revalFunc e target s) := by
  unfold tEval refEval
  rw [argVal_record F hwf prim target e o hrec]
  simp only [outRun, outS]
  cases h : refArg prim prim.revalFunc target e s with
  | mk x s1 =>
    cases x with
    | error e => rfl
    | ok av => cases av <;> rfl

/-- **Replay** against plain Python (`plainRV`: a call calls the object the chain reached):
    when the callee of a recorded call is not a glom spec object stored in the target
    (`PlainCallee`), `_t_eval` on the recorded object yields exactly what the same chain of
    attribute, item, call and arithmetic operations yields when applied directly to the
    target — value / first failure and state left. -/
theorem c02_replay {V S : Type} (F : Facts) (hwf : WF F = true) (prim : Prim V S)
    (hcallee : PlainCallee prim) (e : E V) (o : C02.Obj V)
    (hrec : record F prim.none e = some o) (target : V) (s : S) :
    tEval F prim o target s = outS F (refEval prim plainRV e target s) := by
  rw [c02_replay_reval F hwf prim e o hrec target s, plainCallee_eq hcallee]

/-- **Every other argument is passed through literally.**  A literal argument that is an
    instance `v` of a SUBCLASS of a builtin container (namedtuple, defaultdict, OrderedDict,
    Counter, a user's list type — whatever it contains, `T` objects included) reaches the
    operation as the very object `v`: `arg_val` returns `v` itself, evaluates none of its
    members, builds nothing (`prim.rebuild` / `mkList` … are not consulted) and leaves the
    state as it is — because the type tests of `_ArgValuator.mode` are exact
    (`argModeOk`, part of the facts obligation). -/
theorem c02_literal_by_reference {V S : Type} (F : Facts) (hwf : WF F = true) (prim : Prim V S)
    (target : V) (base : String) (v : V) (items : List (E V)) (o : C02.Obj V)
    (hrec : record F prim.none (.sub base v items) = some o) (s : S) :
    argVal F prim target o s = (.ok (.val v), s) ∧
    refArg prim plainRV target (.sub base v items) s = (.ok (.val v), s) := by
  constructor
  · rw [argVal_record F hwf prim target _ o hrec]
    simp only [outRun, outS, refArg, outOf]
  · simp only [refArg]

/-- The executable instance the correspondence driver runs (values with object identity in a
    heap, `Glom/Model/C02Heap.lean`): `arg_val` over a callee that is neither a glom spec
    object nor an exact builtin container — a function, a bound method, an attribute object,
    an instance of a container subclass — returns it and leaves the heap as it is, at every
    nesting depth.  (For the other callees `c02_replay_reval` says what happens.) -/
theorem c02_heap_callee_plain (F : Facts) (hwf : WF F = true) (n : Nat) (s : HS) (target f : Val)
    (hplain : isSpecLike s f = false) :
    (hPrim F n).revalFunc s target f = (.ok f, s) :=
  hReval_plain F (argMode_wf hwf).1 n s target f hplain

/-- `c02_replay_reval` for the executable kernel the driver runs on the tables of this run: heap
    values with identity (any object graph at the start: sharing, cycles), subscription with
    slices, properties / `__getattr__` / descriptors of the probe classes, dict views, str
    methods, sets, every operator — and spec objects as callees, at every nesting depth `n`. -/
theorem c02_replay_heap (n : Nat) (e : E Val) (o : C02.Obj Val)
    (hrec : record genFacts (hPrim genFacts n).none e = some o) (target : Val) (s : HS) :
    tEval genFacts (hPrim genFacts n) o target s =
      outS genFacts (refEval (hPrim genFacts n) (hPrim genFacts n).revalFunc e target s) :=
  c02_replay_reval genFacts c02_facts_wf (hPrim genFacts n) e o hrec target s

/-- **Which failures are PathAccessErrors.**  A failing attribute / item /
    arithmetic operation number `k` raising a documented class surfaces as
    PathAccessError with `part_idx = k`; a failing call keeps the called
    function's exception (DESIGN §6.1). -/
theorem c02_error_classes (F : Facts) (hwf : WF F = true) (k : Nat) (kind : Kind) (e : PyExc) :
    (documented kind e = true → errOf F (.opFail k kind e) = .pae k e) ∧
    (kind = .call → errOf F (.opFail k kind e) = .raised e) :=
  errOf_opFail hwf k kind e

/-- **Arguments are evaluated against the original target object in its current
    state.**  For a chain `pre` followed by one operation `d` (not a call) with ANY argument
    expression `a` — a nested T expression, a literal, a list / dict holding T expressions, an
    instance of a container subclass —: first `pre` is applied to the target in state
    `s`, giving `cur` and leaving state `s1`; then `a` is evaluated on the
    TARGET (not on `cur`) *in state `s1`* (not in `s`: it sees what `pre` did to
    the target), leaving `s2`; then `d` is applied to `cur` with that value in
    state `s2`, as operation number `pre.length`. -/
theorem c02_args_from_root {V S : Type} (F : Facts) (hwf : WF F = true) (prim : Prim V S)
    (pre : List (String × E V)) (a : E V) (d : String)
    (hd : arglessDunders.contains d = false) (hnc : meaning d ≠ some .call) (o : C02.Obj V)
    (hrec : record F prim.none (.texpr (pre ++ [(d, a)])) = some o) (target : V)
    (s : S) :
    tEval F prim o target s = outS F
      (match refEval prim prim.revalFunc (.texpr pre) target s with
       | (.error e, s1) => (.error e, s1)
       | (.ok cur, s1) =>
         match refEval prim prim.revalFunc a target s1 with
         | (.error e, s2) => (.error e, s2)
         | (.ok av, s2) =>
           match meaning d with
           | none => (.error .unsupported, s2)
           | some kind =>
             match pyApply prim kind s2 cur (.val av) with
             | none => (.error .unsupported, s2)
             | some (.ok v, s3) => (.ok v, s3)
             | some (.error e, s3) => (.error (.opFail pre.length kind e), s3)) := by
  rw [c02_replay_reval F hwf prim _ o hrec target s]
  congr 1
  simp only [refEval_texpr, List.map_append, List.map_cons, List.map_nil, foldSteps_append]
  cases h1 : foldSteps prim (fun s f => prim.revalFunc s target f)
      (pre.map (refStep prim prim.revalFunc target)) 0 s target with
  | mk x s1 =>
    cases x with
    | error e => rfl
    | ok cur =>
      have hcal : calleeOf (meaning d) (fun s f => prim.revalFunc s target f) s1 cur = (.ok cur, s1) := by
        simp only [calleeOf]
        have : (meaning d == some Kind.call) = false := by
          cases hm : meaning d with
          | none => rfl
          | some k =>
            rw [hm] at hnc
            cases k <;> first | (exact absurd rfl hnc) | rfl
        simp [this]
      simp only [refStep, hd, Bool.false_eq_true, if_false, foldSteps, List.length_map,
        Nat.zero_add, hcal]
      unfold refEval
      cases h2 : refArg prim prim.revalFunc target a s1 with
      | mk y s2 =>
        cases y with
        | error e => rfl
        | ok av =>
          cases av with
          | val w =>
            simp only
            cases meaning d with
            | none => rfl
            | some kind =>
              simp only
              cases h3 : pyApply prim kind s2 cur (.val w) with
              | none => rfl
              | some r =>
                obtain ⟨r, s3⟩ := r
                cases r <;> rfl
          | call as ks =>
            simp only
            cases hm : meaning d with
            | none => rfl
            | some kind =>
              have hk : kind ≠ .call := fun h => hnc (by rw [hm, h])
              cases kind <;> first | (exact absurd rfl hk) | rfl

/-- **… and a literal instance of a container subclass IS the operand.**  `c02_args_from_root`
    for an argument that is the object `v`, an instance of a subclass of `base`: the operation
    `d` is applied to `cur` and the very object `v`, in the state `pre` left — nothing is
    evaluated, built or changed in between. -/
theorem c02_subclass_literal_operand {V S : Type} (F : Facts) (hwf : WF F = true) (prim : Prim V S)
    (pre : List (String × E V)) (base : String) (v : V) (items : List (E V)) (d : String)
    (hd : arglessDunders.contains d = false) (hnc : meaning d ≠ some .call) (o : C02.Obj V)
    (hrec : record F prim.none (.texpr (pre ++ [(d, .sub base v items)])) = some o) (target : V)
    (s : S) :
    tEval F prim o target s = outS F
      (match refEval prim prim.revalFunc (.texpr pre) target s with
       | (.error e, s1) => (.error e, s1)
       | (.ok cur, s1) =>
         match meaning d with
         | none => (.error .unsupported, s1)
         | some kind =>
           match pyApply prim kind s1 cur (.val v) with
           | none => (.error .unsupported, s1)
           | some (.ok w, s2) => (.ok w, s2)
           | some (.error e, s2) => (.error (.opFail pre.length kind e), s2)) := by
  rw [c02_args_from_root F hwf prim pre (.sub base v items) d hd hnc o hrec target s]
  congr 1
  cases h1 : refEval prim prim.revalFunc (.texpr pre) target s with
  | mk x s1 =>
    cases x with
    | error e => rfl
    | ok cur => simp only [refEval, refArg]

/-- **A call: the callee first, then the arguments, then the call.**  For a chain `pre`
    followed by a call with arguments `args`, `kwargs`: `pre` is applied to the target (value
    `cur`, state `s1`); then the callee is passed through `arg_val` (`prim.revalFunc`, in state
    `s1`: a spec object found in the target's data is evaluated against the target; a failure
    there ends the evaluation BEFORE any argument is evaluated, with that failure; state `s2`);
    then the arguments are evaluated left to right and the keyword arguments after them, each
    against the target, from state `s2` on; then the resulting callee is called with the very
    objects they evaluated to, as operation number `pre.length`. -/
theorem c02_call_order {V S : Type} (F : Facts) (hwf : WF F = true) (prim : Prim V S)
    (pre : List (String × E V)) (args : List (E V)) (kwargs : List (String × E V)) (o : C02.Obj V)
    (hrec : record F prim.none (.texpr (pre ++ [("__call__", .cargs args kwargs)])) = some o)
    (target : V) (s : S) :
    tEval F prim o target s = outS F
      (match refEval prim prim.revalFunc (.texpr pre) target s with
       | (.error e, s1) => (.error e, s1)
       | (.ok cur, s1) =>
         match prim.revalFunc s1 target cur with
         | (.error e, s2) => (.error (.callee e), s2)
         | (.ok f, s2) =>
           match refArg prim prim.revalFunc target (.cargs args kwargs) s2 with
           | (.error e, s3) => (.error e, s3)
           | (.ok (.val _), s3) => (.error .unsupported, s3)
           | (.ok (.call as ks), s3) =>
             match prim.call s3 f as ks with
             | (.ok v, s4) => (.ok v, s4)
             | (.error e, s4) => (.error (.opFail pre.length .call e), s4)) := by
  rw [c02_replay_reval F hwf prim _ o hrec target s]
  congr 1
  simp only [refEval_texpr, List.map_append, List.map_cons, List.map_nil, foldSteps_append]
  cases h1 : foldSteps prim (fun s f => prim.revalFunc s target f)
      (pre.map (refStep prim prim.revalFunc target)) 0 s target with
  | mk x s1 =>
    cases x with
    | error e => rfl
    | ok cur =>
      have hm : meaning "__call__" = some .call := by decide
      have hargless : arglessDunders.contains "__call__" = false := by decide
      simp only [refStep, hargless, Bool.false_eq_true, if_false, foldSteps, List.length_map,
        Nat.zero_add, hm, calleeOf, beq_self_eq_true, if_true]
      cases h2 : prim.revalFunc s1 target cur with
      | mk rf s2 =>
        cases rf with
        | error e => rfl
        | ok f =>
          simp only
          cases h3 : refArg prim prim.revalFunc target (.cargs args kwargs) s2 with
          | mk y s3 =>
            cases y with
            | error e => rfl
            | ok av =>
              cases av with
              | val w => rfl
              | call as ks =>
                simp only [pyApply]
                cases h4 : prim.call s3 f as ks with
                | mk r s4 => cases r <;> rfl

/-- **Checker theorem** — the form in which the property is also evaluated on
    the implementation's observation by the correspondence driver: the outcome
    and the target object afterwards, as an observer sees them (`view`: any
    function of the state left and a value; the driver's is "the object graph reachable
    from the value, the target and the literal objects of the expression, addresses
    renumbered in first-visit order").  The reference is the chain applied with the callee
    of every call passed through `arg_val` first (`prim.revalFunc`; under `PlainCallee`
    that is plain Python, `c02_replay`). -/
theorem c02_model_checks {V S W : Type} [BEq W] [ReflBEq W] (view : View V S W) (F : Facts)
    (hwf : WF F = true) (prim : Prim V S) (e : E V) (o : C02.Obj V)
    (hrec : record F prim.none e = some o) (target : V) (s : S)
    (hsup : ∀ re, (refEval prim prim.revalFunc e target s).1 = .error re → re.isUnsupported = false) :
    checkC02 view prim prim.revalFunc e target s (observeS F view target (tEval F prim o target s)) = true := by
  rw [c02_replay_reval F hwf prim e o hrec target s]
  unfold checkC02 observeS
  generalize refEval prim prim.revalFunc e target s = rs at hsup ⊢
  obtain ⟨r, s1⟩ := rs
  simp only [outS, BEq.rfl, Bool.and_true]
  have hflag : (F.exc.mro "PathAccessError").contains "GlomError" = true := by
    simp only [WF, Bool.and_eq_true] at hwf; exact hwf.2
  have hflag' : "GlomError" ∈ F.exc.mro "PathAccessError" := by simpa using hflag
  cases r with
  | ok v => simp [viewRes, outOf, observe, checkObs]
  | error re =>
    have hs := hsup re rfl
    cases re with
    | unsupported => simp [RefErr.isUnsupported] at hs
    | raised x => simp [viewRes, outOf, errOf, observe, checkObs]
    | callee ce =>
      cases ce with
      | unsupported => simp [RefErr.isUnsupported] at hs
      | pae k x => simp [viewRes, outOf, errOf, observe, checkObs, hflag']
      | raised x => simp [viewRes, outOf, errOf, observe, checkObs]
    | opFail k kind x =>
      obtain ⟨hdoc, hcall⟩ := kindsOk_of_wf hwf kind
      simp only [viewRes, outOf, errOf]
      split
      · rename_i hc
        have hne : kind ≠ .call := by
          intro h; rw [hcall h] at hc; simp [caughtBy] at hc
        simp [observe, checkObs, hne, hflag']
      · rename_i hc
        have hnd : documented kind x = false := by
          cases hdc : documented kind x with
          | false => rfl
          | true =>
            simp only [documented, List.contains_eq_mem, decide_eq_true_eq] at hdc
            exact absurd (hdoc _ hdc) hc
        simp [observe, checkObs, hnd]

end Glom.Props.C02

namespace Glom.C02.Examples
open Glom Glom.C02 Glom.Props.C02

/-! ### non-vacuity: concrete inputs meet every hypothesis; counter-examples without them -/

/-- toy values: numbers; a glom `T` object stored as *data* inside the target (it is
    also the one callable: the identity function of one argument); a stack object (its
    content is the state) and its bound method `pop` -/
inductive TV where
  | n (k : Int)
  | tobj
  | stack
  | popm
  | idf
  deriving DecidableEq, Repr

instance : ReflBEq TV := ⟨by intro a; cases a <;> simp [BEq.beq]⟩

/-- toy primitives on the state `List Int` (the content of the object `stack`):
    `stack.pop` is the bound method `popm`, calling it removes and returns the
    last element; `stack[0]` is the last element *now*; `cur[1]`, `cur[2]` are
    the object `tobj`; calling `tobj` or the identity function `idf` with one argument
    returns that argument; nothing else is callable; `//` and `+` on numbers; `-x`.
    `reval` is the `arg_val` pass of `Call.glomit` over the callee. -/
def toyPrim (reval : TV → TV → TV) : Prim TV (List Int) :=
  { none := .n 0
    getattr := fun s cur _ => match cur with
      | .stack => (.ok .popm, s)
      | _ => (.error ⟨"AttributeError"⟩, s)
    getitem := fun s cur a => match cur, a with
      | .stack, .n 0 => (match s.getLast? with
        | some x => (.ok (.n x), s)
        | none => (.error ⟨"IndexError"⟩, s))
      | _, .n 1 => (.ok .tobj, s) | _, .n 2 => (.ok .tobj, s)
      | _, _ => (.error ⟨"KeyError"⟩, s)
    call := fun s f args _ => match f, args with
      | .popm, [] => (match s.getLast? with
        | some x => (.ok (.n x), s.dropLast)
        | none => (.error ⟨"IndexError"⟩, s))
      | .tobj, [a] => (.ok a, s)
      | .idf, [a] => (.ok a, s)
      | _, _ => (.error ⟨"TypeError"⟩, s)
    bin := fun b s x y => match b, x, y with
      | .floordiv, .n a, .n c =>
        if c = 0 then (.error ⟨"ZeroDivisionError"⟩, s) else (.ok (.n (Int.fdiv a c)), s)
      | .add, .n a, .n c => (.ok (.n (a + c)), s)
      | _, _, _ => (.error ⟨"TypeError"⟩, s)
    un := fun _ s x => match x with
      | .n a => (.ok (.n (-a)), s)
      | _ => (.error ⟨"TypeError"⟩, s)
    mkList := fun s _ => (.n 0, s)
    mkTuple := fun s _ => (.n 0, s)
    hashKey := fun s _ => (.ok (), s)
    mkDict := fun s _ => (.ok (.n 0), s)
    mkSet := fun s _ _ => (.ok (.n 0), s)
    rebuild := fun s _ _ _ => (.ok (.n 99), s)      -- `type(v)(items)`: another object
    revalFunc := fun s t f => (.ok (reval t f), s) }

/-- plain data: `arg_val` returns an evaluated callee as it is -/
def plain : TV → TV → TV := fun _ v => v
/-- data containing `T` objects: `arg_val` evaluates them against the target -/
def leaky : TV → TV → TV := fun t v => match v with | .tobj => t | v => v

theorem plain_ok : PlainCallee (toyPrim plain) := fun _ _ _ => rfl

/-- `(T // 2) + (-T)` -/
def exE : E TV :=
  .texpr [("__floordiv__", .lit (.n 2)), ("__add__", .texpr [("__neg__", .lit (.n 0))])]

def exO : C02.Obj TV :=
  .tt [.root "T", .opc "#", .lit (.n 2), .opc "+", .tt [.root "T", .opc "_", .lit (.n 0)]]

theorem ex_record : record genFacts (toyPrim plain).none exE = some exO := by
  simp [exE, exO, toyPrim, record_texpr, recStep, charOf, genFacts, Generated.tRecorded,
    arglessDunders, allSome, flatOfCells, record]

/-- applied directly to 7: `7 // 2 + -7 = -4` (the nested `-T` sees the target 7, not 3) -/
theorem ex_ref : refEval (toyPrim plain) plainRV exE (.n 7) [] = (.ok (.n (-4)), []) := by
  simp [exE, refEval_texpr, refStep, calleeOf, plainRV, arglessDunders, meaning, meaningTable, foldSteps, pyApply,
    toyPrim, refArg]

example : (refEval (toyPrim plain) plainRV exE (.n 7) []).1 ≠ .error .unsupported := by
  rw [ex_ref]; simp

/-- hence, by `c02_replay`, so does the model on the recorded object -/
example : tEval genFacts (toyPrim plain) exO (.n 7) [] = (.ok (.n (-4)), []) := by
  rw [c02_replay genFacts c02_facts_wf (toyPrim plain) plain_ok exE exO ex_record, ex_ref]
  rfl

/-- a failing operation: `(T // 0)` is operation 0 raising ZeroDivisionError -/
example : refEval (toyPrim plain) plainRV (.texpr [("__floordiv__", .lit (.n 0))]) (.n 7) []
    = (.error (.opFail 0 (.bin .floordiv) ⟨"ZeroDivisionError"⟩), []) := by
  simp [refEval_texpr, refStep, calleeOf, plainRV, arglessDunders, meaning, meaningTable, foldSteps, pyApply,
    toyPrim, refArg]

/-! #### a call that changes the target: `T.pop() + T[0]` on the stack `[10, 20, 30]` -/

def popE : E TV :=
  .texpr [("__getattr__", .lit (.n 0)), ("__call__", .cargs [] []),
          ("__add__", .texpr [("__getitem__", .lit (.n 0))])]

def popCells : List (String × C02.Obj TV) :=
  [(".", .lit (.n 0)), ("(", .cargs [] []),
   ("+", .tt (.root "T" :: flatOfCells [("[", .lit (.n 0))]))]

def popO : C02.Obj TV := .tt (.root "T" :: flatOfCells popCells)

/-- the evaluation order of the seeded change C02-s2 — `t_args = [arg_val(target, arg, scope)
    for arg in t_path[2::2]]` in front of the loop: all arguments first (in the start state),
    then the operations -/
def applyAll {V S} (F : Facts) (prim : Prim V S) (target : V) :
    List String → List (AV V) → Nat → S → V → Except Err V × S
  | c :: cs, av :: avs, k, s, cur =>
    match stepOp F prim target k c s cur (fun s' => (.ok av, s')) with
    | (.ok v, s1) => applyAll F prim target cs avs (k + 1) s1 v
    | (.error e, s1) => (.error e, s1)
  | _, _, _, s, cur => (.ok cur, s)

def tEvalHoisted {V S} (F : Facts) (prim : Prim V S) (cells : List (String × C02.Obj V))
    (target : V) (s : S) : Except Err V × S :=
  match seqRun (cells.map (fun c => argVal F prim target c.2)) s with
  | (.error e, s1) => (.error e, s1)
  | (.ok avs, s1) => applyAll F prim target (cells.map (·.1)) avs 0 s1 target

/-! #### the same argument OBJECT used by two operations: `a = T[0]; T[0] + a + T.pop() + a` -/

/-- the evaluation order of the seeded change C02-s10 — `_t_eval` keeps the value of a nested T
    argument by the IDENTITY of the T object the first time it is evaluated: a step is
    `(op char, which object its argument is, that object)` -/
def applyMemo {V S} (F : Facts) (prim : Prim V S) (target : V) :
    List (String × Nat × C02.Obj V) → List (Nat × AV V) → Nat → S → V → Except Err V × S
  | (c, id, a) :: rest, memo, k, s, cur =>
    match memo.find? (·.1 == id) with
    | some (_, av) =>
      match stepOp F prim target k c s cur (fun s' => (.ok av, s')) with
      | (.ok v, s1) => applyMemo F prim target rest memo (k + 1) s1 v
      | (.error e, s1) => (.error e, s1)
    | none =>
      match argVal F prim target a s with
      | (.error e, s1) => (.error e, s1)
      | (.ok av, s1) =>
        match stepOp F prim target k c s1 cur (fun s' => (.ok av, s')) with
        | (.ok v, s2) => applyMemo F prim target rest ((id, av) :: memo) (k + 1) s2 v
        | (.error e, s2) => (.error e, s2)
  | [], _, _, s, cur => (.ok cur, s)

def memoA : C02.Obj TV := .tt (.root "T" :: flatOfCells [("[", .lit (.n 0))])
def memoPop : C02.Obj TV := .tt (.root "T" :: flatOfCells [(".", .lit (.n 0)), ("(", .cargs [] [])])

/-- `T[0] + a + T.pop() + a` with `a = T[0]` ONE object (number 1) -/
def memoSteps : List (String × Nat × C02.Obj TV) :=
  [("[", 0, .lit (.n 0)), ("+", 1, memoA), ("+", 2, memoPop), ("+", 1, memoA)]

def memoE : E TV :=
  .texpr [("__getitem__", .lit (.n 0)), ("__add__", .texpr [("__getitem__", .lit (.n 0))]),
          ("__add__", .texpr [("__getattr__", .lit (.n 0)), ("__call__", .cargs [] [])]),
          ("__add__", .texpr [("__getitem__", .lit (.n 0))])]

def memoO : C02.Obj TV := .tt (.root "T" :: flatOfCells (memoSteps.map (fun st => (st.1, st.2.2))))

/-! #### without `WF`: the tables of the tree before commit e2222c4 (no branch for `'#'`)
    make `_t_eval` skip the recorded floor division without any error -/

def droppedFacts : Facts :=
  { genFacts with dispatch := genFacts.dispatch.filter (fun en => en.1 != "#") }

/-! #### a handler that converts under a condition only: the tables the extractor emits for the
    seeded change C02-s7 (`except ZeroDivisionError as e: if arg != 0: raise` in front of the
    converting clause) do not list what that handler — and the clause it shadows — names -/

def condFacts : Facts :=
  { genFacts with dispatch := genFacts.dispatch.map (fun en =>
      match Kind.ofString en.2.1 with
      | .bin _ | .un _ => (en.1, en.2.1, [])
      | _ => en) }

/-! #### the heap instance: which callees `arg_val` leaves alone -/

/-- a heap with an instance of a list subclass (0), a stored `T['f']` object (1, 2) and a dict (3) -/
def hs1 : HS :=
  { heap := [.list "Column" [.int 1], .inst "TType" [("ops", .ref 2)],
             .tuple "tuple" [.sent "T", .str "[", .str "f"],
             .dict "dict" [(.str "f", .fn "ident"), (.str "g", .ref 1)]] }

/-- the hypothesis of `c02_heap_callee_plain` holds for a function and for an instance of a
    container subclass, and fails for a stored T object and for an exact dict -/
example : isSpecLike hs1 (.fn "ident") = false ∧ isSpecLike hs1 (.ref 0) = false ∧
    isSpecLike hs1 (.ref 1) = true ∧ isSpecLike hs1 (.ref 3) = true := by decide

/-- `meaning d ≠ some .call` (hypothesis of `c02_args_from_root`) -/
example : meaning "__add__" ≠ some .call := by decide

/-! #### the type tests of `_ArgValuator.mode` as `isinstance` tests (the seeded change C02-s9):
    the tables the extractor emits for `isinstance(spec, (list, dict))` / `isinstance(spec, (tuple,
    set, frozenset))` -/

def instFacts : Facts :=
  { genFacts with argExact := [], argInst := rebuiltTypes }

/-- `T[1](col)`: the identity function called with a literal `col` (the object `stack`) that is
    an instance of a subclass of `list` -/
def subE : E TV :=
  .texpr [("__getitem__", .lit (.n 1)), ("__call__", .cargs [.sub "list" .stack []] [])]

def subO : C02.Obj TV :=
  .tt (.root "T" :: flatOfCells [("[", .lit (.n 1)), ("(", .cargs [.sub "list" .stack []] [])])

/-! #### `T[1](T[2])` on a target whose items are `T` objects (`tobj`, also the identity
    function): a stored `T` object as argument, and as callee -/

def dblE : E TV :=
  .texpr [("__getitem__", .lit (.n 1)),
          ("__call__", .cargs [.texpr [("__getitem__", .lit (.n 2))]] [])]

def dblO : C02.Obj TV :=
  .tt (.root "T" :: flatOfCells [("[", .lit (.n 1)),
    ("(", .cargs [.tt (.root "T" :: flatOfCells [("[", .lit (.n 2))])] [])])

/-- the code shape before /repo commit db9b8f7: the arguments of a call were evaluated
    by the loop, then the evaluated callee and every evaluated argument went through
    `arg_val` a second time (`reval`) inside `Call.glomit` -/
def callTwice {V S} (prim : Prim V S) (reval : V → V → V) (target : V) (s : S) (cur : V)
    (ev : Run S Err (AV V)) : Except Err V × S :=
  match ev s with
  | (.error e, s1) => (.error e, s1)
  | (.ok (.call args kwargs), s1) =>
    (liftExc (prim.call s1 (reval target cur) (args.map (reval target))
      (kwargs.map (fun p => (p.1, reval target p.2)))).1,
     (prim.call s1 (reval target cur) (args.map (reval target))
      (kwargs.map (fun p => (p.1, reval target p.2)))).2)
  | (.ok (.val _), s1) => (.error .unsupported, s1)

/-! #### the identity function called with the target: `T[1](T)` on the stack object -/

def idE : E TV := .texpr [("__getitem__", .lit (.n 1)), ("__call__", .cargs [.texpr []] [])]

def idO : C02.Obj TV :=
  .tt (.root "T" :: flatOfCells [("[", .lit (.n 1)), ("(", .cargs [.tt [.root "T"]] [])])

theorem dbl_record (reval : TV → TV → TV) :
    record genFacts (toyPrim reval).none dblE = some dblO := by
  simp [dblE, dblO, toyPrim, record_texpr, recStep, charOf, genFacts, Generated.tRecorded,
    arglessDunders, allSome, flatOfCells, record]

theorem dbl_ref (reval : TV → TV → TV) :
    refEval (toyPrim reval) plainRV dblE (.n 7) [] = (.ok .tobj, []) := by
  simp [dblE, refEval_texpr, refStep, calleeOf, plainRV, arglessDunders, meaning, meaningTable, foldSteps, pyApply,
    toyPrim, refArg, refVals, refValRun, refVal1, seqRun]

end Glom.C02.Examples

namespace Glom.Props.C02
open Glom Glom.C02 Glom.C02.Examples

/-- **The state is threaded through the replay.**  `T.pop() + T[0]` on the stack
    `[10, 20, 30]`: the chain applied directly pops 30 and then reads the last
    element *of what is left* (20): 50, leaving `[10, 20]`; so does the model of
    `_t_eval`.  Evaluating all arguments in front of the loop (the seeded change
    C02-s2) reads `T[0]` before the pop: 60.  Real glom:
    `glom({'l': [10, 20, 30]}, T['l'].pop() + T['l'][-1]) == 50`. -/
theorem c02_hoisted_args_counterexample :
    record genFacts (toyPrim plain).none popE = some popO ∧
    refEval (toyPrim plain) plainRV popE .stack [10, 20, 30] = (.ok (.n 50), [10, 20]) ∧
    tEval genFacts (toyPrim plain) popO .stack [10, 20, 30] = (.ok (.n 50), [10, 20]) ∧
    tEvalHoisted genFacts (toyPrim plain) popCells .stack [10, 20, 30]
      = (.ok (.n 60), [10, 20]) := by
  have hrec : record genFacts (toyPrim plain).none popE = some popO := by
    simp [popE, popO, popCells, toyPrim, record_texpr, recStep, charOf, genFacts,
      Generated.tRecorded, arglessDunders, allSome, flatOfCells, record]
  have href : refEval (toyPrim plain) plainRV popE .stack [10, 20, 30] = (.ok (.n 50), [10, 20]) := by
    simp [popE, refEval_texpr, refStep, calleeOf, plainRV, arglessDunders, meaning, meaningTable, foldSteps, pyApply,
      toyPrim, refArg, refVals, seqRun]
  refine ⟨hrec, href, ?_, ?_⟩
  · rw [c02_replay genFacts c02_facts_wf (toyPrim plain) plain_ok popE popO hrec, href]
    rfl
  · simp only [tEvalHoisted, popCells, List.map, seqRun, argVal_tt_T]
    simp [argVal_lit, argVal_cargs, seqRun, stepsEval, valsOf, applyAll, stepOp, Generated.tArgValExempt,
      applyBranch, dispatchOf, genFacts, Generated.tDispatch, Kind.ofString, kindNames, guarded,
      guardE, toyPrim, plain]

/-- **An argument object used twice is evaluated twice.**  `a = T[0]; T[0] + a + T.pop() + a` on
    the stack `[10, 20, 30]` (`stack[0]` is the last element now): the chain applied directly
    gives 30 + 30 + 30 + 20 = 110 — the second use of `a` reads the stack after the pop —, and so
    does the model of `_t_eval`, which runs `arg_val` on the argument slot of EVERY step.  Keeping
    the value of the argument object from its first evaluation (the seeded change C02-s10,
    `applyMemo`) gives 120.  Real glom: `a = T['l'][-1]`;
    `glom({'l': [10, 20, 30]}, T['l'][-1] + a + T['l'].pop() + a) == 110`. -/
theorem c02_arg_memo_counterexample :
    record genFacts (toyPrim plain).none memoE = some memoO ∧
    refEval (toyPrim plain) plainRV memoE .stack [10, 20, 30] = (.ok (.n 110), [10, 20]) ∧
    tEval genFacts (toyPrim plain) memoO .stack [10, 20, 30] = (.ok (.n 110), [10, 20]) ∧
    applyMemo genFacts (toyPrim plain) .stack memoSteps [] 0 [10, 20, 30] .stack
      = (.ok (.n 120), [10, 20]) := by
  have hrec : record genFacts (toyPrim plain).none memoE = some memoO := by
    simp [memoE, memoO, memoSteps, memoA, memoPop, toyPrim, record_texpr, recStep, charOf, genFacts,
      Generated.tRecorded, arglessDunders, allSome, flatOfCells, record]
  have href : refEval (toyPrim plain) plainRV memoE .stack [10, 20, 30] = (.ok (.n 110), [10, 20]) := by
    simp [memoE, refEval_texpr, refStep, calleeOf, plainRV, arglessDunders, meaning, meaningTable,
      foldSteps, pyApply, toyPrim, refArg, refVals, seqRun]
  refine ⟨hrec, href, ?_, ?_⟩
  · rw [c02_replay genFacts c02_facts_wf (toyPrim plain) plain_ok memoE memoO hrec, href]
    rfl
  · simp only [memoSteps, memoA, memoPop, applyMemo, List.find?, argVal_tt_T]
    simp [argVal_lit, argVal_cargs, seqRun, stepsEval, valsOf, stepOp, Generated.tArgValExempt,
      applyBranch, dispatchOf, genFacts, Generated.tDispatch, Kind.ofString, kindNames, guarded,
      guardE, toyPrim, plain]

/-- Without `WF` the conclusion of `c02_replay` fails: with the branch table of the tree
    before commit e2222c4 the expression `T // 2` is recorded as `'#'`, the model of
    `_t_eval` returns the target 7 unchanged (no error), the chain applied directly gives 3. -/
theorem c02_wf_counterexample :
    WF droppedFacts = false ∧
    record droppedFacts (toyPrim plain).none (.texpr [("__floordiv__", .lit (.n 2))])
      = some (.tt [.root "T", .opc "#", .lit (.n 2)]) ∧
    tEval droppedFacts (toyPrim plain) (.tt [.root "T", .opc "#", .lit (.n 2)]) (.n 7) []
      = (.ok (.n 7), []) ∧
    refEval (toyPrim plain) plainRV (.texpr [("__floordiv__", .lit (.n 2))]) (.n 7) []
      = (.ok (.n 3), []) := by
  refine ⟨by decide, ?_, ?_, ?_⟩
  · simp [toyPrim, record_texpr, recStep, charOf, droppedFacts, genFacts, Generated.tRecorded,
      arglessDunders, allSome, flatOfCells, record]
  · have h : (C02.Obj.tt [.root "T", .opc "#", .lit (TV.n 2)]) =
        .tt (.root "T" :: flatOfCells [("#", .lit (.n 2))]) := by simp [flatOfCells]
    rw [h]
    simp [tEval, argVal_tt_T, stepsEval, argVal_lit, stepOp, Generated.tArgValExempt, applyBranch, dispatchOf,
      droppedFacts, genFacts, Generated.tDispatch]
  · simp [refEval_texpr, refStep, calleeOf, plainRV, arglessDunders, meaning, meaningTable, foldSteps, pyApply,
      toyPrim, refArg]

/-- **Every failing arithmetic step is a PathAccessError — unconditionally.**  The facts
    obligation demands that the `except` clause of the arithmetic branch covers TypeError,
    ZeroDivisionError, OverflowError and ValueError (by the class itself or a base class,
    decided on the exception table extracted from Python) with a handler whose whole body
    builds the PathAccessError.  With the tables of a tree in which that conversion is
    conditional (the extractor does not list such a handler: `condFacts`) `WF` fails, the
    model of `_t_eval` lets the ZeroDivisionError of `T // 0` escape as it is, while the
    property (and the model on the tables of /repo) reports PathAccessError at position 0.
    Real glom with the seeded change C02-s7: `glom(0, T ** -1)` raises a wrapped
    ZeroDivisionError instead of `PathAccessError(…, 0)`. -/
theorem c02_conditional_handler_counterexample :
    WF condFacts = false ∧
    tEval condFacts (toyPrim plain) (.tt [.root "T", .opc "#", .lit (.n 0)]) (.n 7) []
      = (.error (.raised ⟨"ZeroDivisionError"⟩), []) ∧
    tEval genFacts (toyPrim plain) (.tt [.root "T", .opc "#", .lit (.n 0)]) (.n 7) []
      = (.error (.pae 0 ⟨"ZeroDivisionError"⟩), []) ∧
    errOf genFacts (.opFail 0 (.bin .floordiv) ⟨"ZeroDivisionError"⟩)
      = .pae 0 ⟨"ZeroDivisionError"⟩ := by
  have h : (C02.Obj.tt [.root "T", .opc "#", .lit (TV.n 0)]) =
      .tt (.root "T" :: flatOfCells [("#", .lit (.n 0))]) := by simp [flatOfCells]
  have hrec : record genFacts (toyPrim plain).none (.texpr [("__floordiv__", .lit (.n 0))])
      = some (.tt [.root "T", .opc "#", .lit (.n 0)]) := by
    simp [toyPrim, record_texpr, recStep, charOf, genFacts, Generated.tRecorded, arglessDunders,
      allSome, flatOfCells, record]
  have href : refEval (toyPrim plain) plainRV (.texpr [("__floordiv__", .lit (.n 0))]) (.n 7) []
      = (.error (.opFail 0 (.bin .floordiv) ⟨"ZeroDivisionError"⟩), []) := by
    simp [refEval_texpr, refStep, calleeOf, plainRV, arglessDunders, meaning, meaningTable, foldSteps, pyApply,
      toyPrim, refArg]
  have herr := (c02_error_classes genFacts c02_facts_wf 0 (.bin .floordiv) ⟨"ZeroDivisionError"⟩).1
    (by decide)
  refine ⟨by decide, ?_, ?_, herr⟩
  · rw [h]
    simp [tEval, argVal_tt_T, stepsEval, argVal_lit, stepOp, Generated.tArgValExempt, applyBranch,
      dispatchOf, condFacts, genFacts, Generated.tDispatch, Kind.ofString, kindNames, guarded,
      guardE, toyPrim, caughtBy]
  · rw [c02_replay genFacts c02_facts_wf (toyPrim plain) plain_ok _ _ hrec, href]
    simp only [outS, outOf, herr]

/-- **The arguments of a recorded call are evaluated exactly once.**  `T[1](T[2])`
    on a target whose item 2 is a `T` object: the callee (the identity function)
    receives — and returns — the stored object itself, as `target[1](target[2])`
    does.  Real glom (since /repo commit db9b8f7):
    `glom({'f': ident, 'a': T['b'], 'b': 5}, T['f'](T['a']))` is the object `T['b']`. -/
theorem c02_args_evaluated_once :
    record genFacts (toyPrim plain).none dblE = some dblO ∧
    refEval (toyPrim plain) plainRV dblE (.n 7) [] = (.ok .tobj, []) ∧
    tEval genFacts (toyPrim plain) dblO (.n 7) [] = (.ok .tobj, []) := by
  refine ⟨dbl_record plain, dbl_ref plain, ?_⟩
  rw [c02_replay genFacts c02_facts_wf (toyPrim plain) plain_ok dblE dblO (dbl_record plain),
    dbl_ref plain]
  rfl

/-- The code shape before commit db9b8f7 (`callTwice`: the loop evaluates the
    arguments, `Call.glomit` passes callee and arguments through `arg_val` again) does
    NOT replay a call of the identity function with a stored `T` object as argument:
    the second pass evaluates the stored object, the function receives the *target* 7.  (Then real glom gave
    `glom({'f': ident, 'a': T['b'], 'b': 5}, T['f'](T['a'])) == 5`, and a list
    argument reached the callee as a rebuilt copy.) -/
theorem c02_second_pass_counterexample :
    callTwice (toyPrim plain) leaky (.n 7) [] .idf (fun s => (.ok (.call [.tobj] []), s))
      = (.ok (.n 7), []) ∧
    pyApply (toyPrim plain) .call [] .idf (.call [.tobj] []) = some (.ok .tobj, []) := by
  constructor <;> simp [callTwice, pyApply, toyPrim, leaky, liftExc]

/-- Without `PlainCallee` the conclusion of `c02_replay` fails: when the CALLEE
    itself is a `T` object stored in the target, `Call.glomit`'s `r(self.func)`
    evaluates it (here to the target 7, which is not callable), whereas the chain
    applied directly calls the stored object.  (Reading: targets are plain data as
    far as callees are concerned; recorded in the harness' ASSUMPTIONS.) -/
theorem c02_callee_eval_counterexample :
    record genFacts (toyPrim leaky).none dblE = some dblO ∧
    refEval (toyPrim leaky) plainRV dblE (.n 7) [] = (.ok .tobj, []) ∧
    tEval genFacts (toyPrim leaky) dblO (.n 7) [] = (.error (.raised ⟨"TypeError"⟩), []) ∧
    -- what `c02_replay_reval` says instead: the callee is evaluated first (to the target 7)
    outS genFacts (refEval (toyPrim leaky) (toyPrim leaky).revalFunc dblE (.n 7) [])
      = (.error (.raised ⟨"TypeError"⟩), []) := by
  refine ⟨dbl_record leaky, dbl_ref leaky, ?_, ?_⟩
  rotate_left
  · rw [← c02_replay_reval genFacts c02_facts_wf (toyPrim leaky) dblE dblO (dbl_record leaky)]
    simp only [dblO]
    simp [tEval, argVal_tt_T, stepsEval, argVal_lit, argVal_cargs, valsOf, valOfRun, valOfRes, asVal,
      seqRun, stepOp, Generated.tArgValExempt, applyBranch, dispatchOf, genFacts, Generated.tDispatch,
      Kind.ofString, kindNames, guarded, guardE, toyPrim, leaky, caughtBy]
  simp only [dblO]
  simp [tEval, argVal_tt_T, stepsEval, argVal_lit, argVal_cargs, valsOf, valOfRun, valOfRes, asVal,
    seqRun, stepOp, Generated.tArgValExempt, applyBranch, dispatchOf, genFacts, Generated.tDispatch,
    Kind.ofString, kindNames, guarded, guardE, toyPrim, leaky, caughtBy]

/-- **A literal container-subclass instance is passed by reference — because the type tests of
    `_ArgValuator.mode` are exact.**  `T[1](col)` where `col` is an instance of a subclass of
    `list` and `target[1]` the identity function: the chain applied directly returns `col`
    itself, and so does the model of `_t_eval` on the tables of /repo.  With the tables of a
    tree whose tests are `isinstance` tests (`instFacts`, the seeded change C02-s9) `WF` fails
    and the model rebuilds the argument with `type(col)(…)`: the callee receives ANOTHER object
    (real glom with that change: `glom({'f': ident}, T['f'](col)) is not col`, a namedtuple
    argument raises TypeError out of glom, a defaultdict loses its `default_factory`). -/
theorem c02_isinstance_counterexample :
    WF instFacts = false ∧
    record genFacts (toyPrim plain).none subE = some subO ∧
    record instFacts (toyPrim plain).none subE = some subO ∧
    refEval (toyPrim plain) plainRV subE (.n 7) [] = (.ok .stack, []) ∧
    tEval genFacts (toyPrim plain) subO (.n 7) [] = (.ok .stack, []) ∧
    tEval instFacts (toyPrim plain) subO (.n 7) [] = (.ok (.n 99), []) := by
  have hrec : record genFacts (toyPrim plain).none subE = some subO := by
    simp [subE, subO, toyPrim, record_texpr, recStep, charOf, genFacts, Generated.tRecorded,
      arglessDunders, allSome, flatOfCells, record]
  have href : refEval (toyPrim plain) plainRV subE (.n 7) [] = (.ok .stack, []) := by
    simp [subE, refEval_texpr, refStep, calleeOf, plainRV, arglessDunders, meaning, meaningTable,
      foldSteps, pyApply, toyPrim, refArg, refVals, refValRun, refVal1, seqRun]
  refine ⟨by decide, hrec, ?_, href, ?_, ?_⟩
  · simp [subE, subO, toyPrim, record_texpr, recStep, charOf, instFacts, genFacts, Generated.tRecorded,
      arglessDunders, allSome, flatOfCells, record]
  · rw [c02_replay genFacts c02_facts_wf (toyPrim plain) plain_ok subE subO hrec, href]
    rfl
  · simp only [subO]
    simp [tEval, argVal_tt_T, stepsEval, argVal_lit, argVal_cargs, argVal, valsOf, valOfRun, valOfRes,
      asVal, seqRun, stepOp, Generated.tArgValExempt, applyBranch, dispatchOf, instFacts, genFacts,
      Generated.tDispatch, rebuiltTypes, Kind.ofString, kindNames, guarded, guardE, toyPrim,
      plain, liftExc]

/-- **Call arguments are passed by reference.**  The identity function called with
    the target returns the target object itself — in the model of `_t_eval` as in
    the chain applied directly.  Real glom (since commit db9b8f7):
    `t = {'f': ident, 'l': [1]}`; `glom(t, T['f'](T['l'])) is t['l']`, and
    `glom(t, T['f'](T['l']).append(2))` makes `t['l'] == [1, 2]`. -/
theorem c02_call_by_reference :
    record genFacts (toyPrim plain).none idE = some idO ∧
    refEval (toyPrim plain) plainRV idE .stack [1] = (.ok .stack, [1]) ∧
    tEval genFacts (toyPrim plain) idO .stack [1] = (.ok .stack, [1]) := by
  have hrec : record genFacts (toyPrim plain).none idE = some idO := by
    simp [idE, idO, toyPrim, record_texpr, recStep, charOf, genFacts, Generated.tRecorded,
      arglessDunders, allSome, flatOfCells, record]
  have href : refEval (toyPrim plain) plainRV idE .stack [1] = (.ok .stack, [1]) := by
    simp [idE, refEval_texpr, refStep, calleeOf, plainRV, arglessDunders, meaning, meaningTable, foldSteps, pyApply,
      toyPrim, refArg, refVals, refValRun, refVal1, seqRun]
  refine ⟨hrec, href, ?_⟩
  rw [c02_replay genFacts c02_facts_wf (toyPrim plain) plain_ok idE idO hrec, href]
  rfl

end Glom.Props.C02
