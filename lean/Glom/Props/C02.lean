import Glom.Lemmas.C02
import Glom.Model.C02Env
import Glom.Model.C02Heap
/-
  C02 — T expressions replay exactly the recorded operations on the target.

  Property theorems only; helper lemmas are in `Glom/Lemmas/C02.lean`.
  Every theorem is for *all* value types `V`, all state types `S`, all primitive
  semantics `prim` (Python's own meaning of getattr / subscription / arithmetic /
  calling — including what a call does to the state — is a parameter: the
  theorems are about glom's record-and-replay logic), all targets, all start
  states, all expressions of any length and any nesting of T / Spec(T) / list /
  tuple / dict arguments, and all fact tables satisfying the decidable predicate
  `WF`; `c02_facts_wf` discharges `WF` for the tables regenerated from /repo on
  this run.  Both sides of every equation are pairs (outcome, state left): the
  theorems also say that the target object is changed in exactly the way the
  chain applied directly changes it — also when the evaluation ends with an error.

  Hypotheses, each with a satisfying example below:
    * `WF F`             the extracted tables are well formed (facts obligation)
    * `record … = some o` the expression can be written: every operation used has
                          an overload on TType
    * `PlainCallee prim` the `arg_val` pass of `Call.glomit` over the already evaluated
                          callee returns it, i.e. the callee is not a glom spec object
                          stored in the target's data (a callable is a literal in
                          argument mode).  Forced by the proof;
                          `c02_callee_eval_counterexample` is the concrete input
                          without it.  The ARGUMENTS of a call need no hypothesis:
                          since /repo commit db9b8f7 they are evaluated exactly once
                          and reach the callee as they are
                          (`c02_call_by_reference`, `c02_args_evaluated_once`;
                          `c02_second_pass_counterexample` keeps the old code shape).
-/
namespace Glom.Props.C02
open Glom Glom.C02

/-- **Facts obligation** (re-checked on every run against the regenerated
    tables).  *No recorded operation is dropped*: every op character recorded by
    a TType overload has a branch in `_t_eval`; that branch performs the
    operation the overload's dunder denotes (`__floordiv__` ↦ `//`, `__pow__` ↦
    `**`, …); the attribute / item / arithmetic branches turn the documented
    exception classes into PathAccessErrors — the `except` clause of the arithmetic
    branch covers TypeError, ZeroDivisionError, OverflowError and ValueError (the class
    or a base class of it, on the exception table extracted from Python), and a class is
    listed only for a handler that converts UNCONDITIONALLY (whole body
    `pae = PathAccessError(e, Path(_t), i // 2)`; see
    `c02_conditional_handler_counterexample`) — and the call branch catches nothing;
    all fifteen operations of the property are overloaded; every
    PathAccessError is built with `i // 2`; PathAccessError is a GlomError. -/
theorem c02_facts_wf : WF genFacts = true := by decide

/-- `c02_facts_wf`, spelled out per recorded operation. -/
theorem c02_no_dropped_op (d c : String) (h : charOf genFacts d = some c) :
    ∃ kind ks caught, meaning d = some kind ∧ dispatchOf genFacts c = some (ks, caught) ∧
      Kind.ofString ks = kind ∧ caughtOfKind genFacts kind = caught :=
  recorded_wf c02_facts_wf h

/-- **Replay.**  Evaluating the recorded object with `_t_eval` (flat tuple, index
    stepping by 2, branch table, `arg_val` on every argument inside the loop,
    the recorded `(args, kwargs)` of a call handed unevaluated to `Call`, which
    evaluates them once) started in any state `s` yields exactly what
    applying the chain of operations directly to the target object in state `s`
    yields — the same value *and the same state afterwards*; or the first failing
    operation, as PathAccessError(position) when the branch's `except` clause
    names its class and unchanged otherwise; or the failure of the first failing
    argument — again with the same state left behind. -/
theorem c02_replay {V S : Type} (F : Facts) (hwf : WF F = true) (prim : Prim V S)
    (hcallee : PlainCallee prim) (e : E V) (o : C02.Obj V)
    (hrec : record F prim.none e = some o) (target : V) (s : S) :
    tEval F prim o target s = outS F (refEval prim e target s) := by
  unfold tEval refEval
  rw [argVal_record F hwf prim hcallee target e o hrec]
  simp only [outRun, outS]
  cases h : refArg prim target e s with
  | mk x s1 =>
    cases x with
    | error e => rfl
    | ok av => cases av <;> rfl

/-- The executable instance the correspondence driver runs (values with object
    identity in a heap, `Glom/Model/C02Heap.lean`) meets the hypothesis `PlainCallee`
    (the harness never uses a stored glom spec object as callee). -/
theorem c02_driver_instance_plain : PlainCallee hPrim := fun _ _ _ => rfl

/-- **Which failures are PathAccessErrors.**  A failing attribute / item /
    arithmetic operation number `k` raising a documented class surfaces as
    PathAccessError with `part_idx = k`; a failing call keeps the called
    function's exception (DESIGN §6.1). -/
theorem c02_error_classes (F : Facts) (hwf : WF F = true) (k : Nat) (kind : Kind) (e : PyExc) :
    (documented kind e = true → errOf F (.opFail k kind e) = .pae k e) ∧
    (kind = .call → errOf F (.opFail k kind e) = .raised e) :=
  errOf_opFail hwf k kind e

/-- **Arguments are evaluated against the original target object in its current
    state.**  For a chain `pre` followed by one operation `d` whose argument is
    itself a T expression `inner`: first `pre` is applied to the target in state
    `s`, giving `cur` and leaving state `s1`; then `inner` is evaluated on the
    TARGET (not on `cur`) *in state `s1`* (not in `s`: it sees what `pre` did to
    the target), leaving `s2`; then `d` is applied to `cur` with that value in
    state `s2`, as operation number `pre.length`. -/
theorem c02_args_from_root {V S : Type} (F : Facts) (hwf : WF F = true) (prim : Prim V S)
    (hcallee : PlainCallee prim) (pre inner : List (String × E V)) (d : String)
    (hd : arglessDunders.contains d = false) (o : C02.Obj V)
    (hrec : record F prim.none (.texpr (pre ++ [(d, .texpr inner)])) = some o) (target : V)
    (s : S) :
    tEval F prim o target s = outS F
      (match refEval prim (.texpr pre) target s with
       | (.error e, s1) => (.error e, s1)
       | (.ok cur, s1) =>
         match refEval prim (.texpr inner) target s1 with
         | (.error e, s2) => (.error e, s2)
         | (.ok a, s2) =>
           match meaning d with
           | none => (.error .unsupported, s2)
           | some kind =>
             match pyApply prim kind s2 cur (.val a) with
             | none => (.error .unsupported, s2)
             | some (.ok v, s3) => (.ok v, s3)
             | some (.error e, s3) => (.error (.opFail pre.length kind e), s3)) := by
  rw [c02_replay F hwf prim hcallee _ o hrec target s]
  congr 1
  simp only [refEval_texpr, List.map_append, List.map_cons, List.map_nil, foldSteps_append]
  cases h1 : foldSteps prim (pre.map (refStep prim target)) 0 s target with
  | mk x s1 =>
    cases x with
    | error e => rfl
    | ok cur =>
      simp only [refStep, hd, Bool.false_eq_true, if_false, foldSteps, List.length_map,
        Nat.zero_add]
      rw [refArg_texpr]
      cases h2 : foldSteps prim (inner.map (refStep prim target)) 0 s1 target with
      | mk y s2 =>
        cases y with
        | error e => rfl
        | ok a =>
          simp only
          cases meaning d with
          | none => rfl
          | some kind =>
            simp only
            cases h3 : pyApply prim kind s2 cur (.val a) with
            | none => rfl
            | some r =>
              obtain ⟨r, s3⟩ := r
              cases r <;> rfl

/-- **Checker theorem** — the form in which the property is also evaluated on
    the implementation's observation by the correspondence driver: the outcome
    and the target object afterwards, as an observer sees them (`view`: any
    function of the state left and a value; the driver's is "the tree the value
    denotes in the heap"). -/
theorem c02_model_checks {V S W : Type} [BEq W] [ReflBEq W] (view : View V S W) (F : Facts)
    (hwf : WF F = true) (prim : Prim V S) (hcallee : PlainCallee prim) (e : E V) (o : C02.Obj V)
    (hrec : record F prim.none e = some o) (target : V) (s : S)
    (hsup : (refEval prim e target s).1 ≠ .error .unsupported) :
    checkC02 view prim e target s (observeS F view target (tEval F prim o target s)) = true := by
  rw [c02_replay F hwf prim hcallee e o hrec target s]
  unfold checkC02 observeS
  generalize refEval prim e target s = rs at hsup ⊢
  obtain ⟨r, s1⟩ := rs
  simp only [outS, BEq.rfl, Bool.and_true]
  cases r with
  | ok v => simp [viewRes, outOf, observe, checkObs]
  | error re =>
    cases re with
    | unsupported => exact absurd rfl hsup
    | raised x => simp [viewRes, outOf, errOf, observe, checkObs]
    | opFail k kind x =>
      obtain ⟨hdoc, hcall⟩ := kindsOk_of_wf hwf kind
      have hflag : (F.exc.mro "PathAccessError").contains "GlomError" = true := by
        simp only [WF, Bool.and_eq_true] at hwf; exact hwf.2
      have hflag' : "GlomError" ∈ F.exc.mro "PathAccessError" := by simpa using hflag
      simp only [viewRes, outOf, errOf]
      split
      · rename_i hc
        have hne : kind ≠ .call := by
          intro h; rw [hcall h] at hc; simp [caughtBy] at hc
        simp [observe, checkObs, hne, hflag']
      · rename_i hc
        have hnd : documented kind x = false := by
          cases hdc : documented kind x with
          | false => rfl
          | true =>
            simp only [documented, List.contains_eq_mem, decide_eq_true_eq] at hdc
            exact absurd (hdoc _ hdc) hc
        simp [observe, checkObs, hnd]

end Glom.Props.C02

namespace Glom.C02.Examples
open Glom Glom.C02 Glom.Props.C02

/-! ### non-vacuity: concrete inputs meet every hypothesis; counter-examples without them -/

/-- toy values: numbers; a glom `T` object stored as *data* inside the target (it is
    also the one callable: the identity function of one argument); a stack object (its
    content is the state) and its bound method `pop` -/
inductive TV where
  | n (k : Int)
  | tobj
  | stack
  | popm
  | idf
  deriving DecidableEq, Repr

instance : ReflBEq TV := ⟨by intro a; cases a <;> simp [BEq.beq]⟩

/-- toy primitives on the state `List Int` (the content of the object `stack`):
    `stack.pop` is the bound method `popm`, calling it removes and returns the
    last element; `stack[0]` is the last element *now*; `cur[1]`, `cur[2]` are
    the object `tobj`; calling `tobj` or the identity function `idf` with one argument
    returns that argument; nothing else is callable; `//` and `+` on numbers; `-x`.
    `reval` is the `arg_val` pass of `Call.glomit` over the callee. -/
def toyPrim (reval : TV → TV → TV) : Prim TV (List Int) :=
  { none := .n 0
    getattr := fun s cur _ => match cur with
      | .stack => (.ok .popm, s)
      | _ => (.error ⟨"AttributeError"⟩, s)
    getitem := fun s cur a => match cur, a with
      | .stack, .n 0 => (match s.getLast? with
        | some x => (.ok (.n x), s)
        | none => (.error ⟨"IndexError"⟩, s))
      | _, .n 1 => (.ok .tobj, s) | _, .n 2 => (.ok .tobj, s)
      | _, _ => (.error ⟨"KeyError"⟩, s)
    call := fun s f args _ => match f, args with
      | .popm, [] => (match s.getLast? with
        | some x => (.ok (.n x), s.dropLast)
        | none => (.error ⟨"IndexError"⟩, s))
      | .tobj, [a] => (.ok a, s)
      | .idf, [a] => (.ok a, s)
      | _, _ => (.error ⟨"TypeError"⟩, s)
    bin := fun b s x y => match b, x, y with
      | .floordiv, .n a, .n c =>
        if c = 0 then (.error ⟨"ZeroDivisionError"⟩, s) else (.ok (.n (Int.fdiv a c)), s)
      | .add, .n a, .n c => (.ok (.n (a + c)), s)
      | _, _, _ => (.error ⟨"TypeError"⟩, s)
    un := fun _ s x => match x with
      | .n a => (.ok (.n (-a)), s)
      | _ => (.error ⟨"TypeError"⟩, s)
    mkList := fun s _ => (.n 0, s)
    mkTuple := fun s _ => (.n 0, s)
    hashKey := fun s _ => (.ok (), s)
    mkDict := fun s _ => (.ok (.n 0), s)
    revalFunc := fun s t f => (reval t f, s) }

/-- plain data: `arg_val` returns an evaluated callee as it is -/
def plain : TV → TV → TV := fun _ v => v
/-- data containing `T` objects: `arg_val` evaluates them against the target -/
def leaky : TV → TV → TV := fun t v => match v with | .tobj => t | v => v

theorem plain_ok : PlainCallee (toyPrim plain) := fun _ _ _ => rfl

/-- `(T // 2) + (-T)` -/
def exE : E TV :=
  .texpr [("__floordiv__", .lit (.n 2)), ("__add__", .texpr [("__neg__", .lit (.n 0))])]

def exO : C02.Obj TV :=
  .tt [.root "T", .opc "#", .lit (.n 2), .opc "+", .tt [.root "T", .opc "_", .lit (.n 0)]]

theorem ex_record : record genFacts (toyPrim plain).none exE = some exO := by
  simp [exE, exO, toyPrim, record_texpr, recStep, charOf, genFacts, Generated.tRecorded,
    arglessDunders, allSome, flatOfCells, record]

/-- applied directly to 7: `7 // 2 + -7 = -4` (the nested `-T` sees the target 7, not 3) -/
theorem ex_ref : refEval (toyPrim plain) exE (.n 7) [] = (.ok (.n (-4)), []) := by
  simp [exE, refEval_texpr, refStep, arglessDunders, meaning, meaningTable, foldSteps, pyApply,
    toyPrim, refArg]

example : (refEval (toyPrim plain) exE (.n 7) []).1 ≠ .error .unsupported := by
  rw [ex_ref]; simp

/-- hence, by `c02_replay`, so does the model on the recorded object -/
example : tEval genFacts (toyPrim plain) exO (.n 7) [] = (.ok (.n (-4)), []) := by
  rw [c02_replay genFacts c02_facts_wf (toyPrim plain) plain_ok exE exO ex_record, ex_ref]
  rfl

/-- a failing operation: `(T // 0)` is operation 0 raising ZeroDivisionError -/
example : refEval (toyPrim plain) (.texpr [("__floordiv__", .lit (.n 0))]) (.n 7) []
    = (.error (.opFail 0 (.bin .floordiv) ⟨"ZeroDivisionError"⟩), []) := by
  simp [refEval_texpr, refStep, arglessDunders, meaning, meaningTable, foldSteps, pyApply,
    toyPrim, refArg]

/-! #### a call that changes the target: `T.pop() + T[0]` on the stack `[10, 20, 30]` -/

def popE : E TV :=
  .texpr [("__getattr__", .lit (.n 0)), ("__call__", .cargs [] []),
          ("__add__", .texpr [("__getitem__", .lit (.n 0))])]

def popCells : List (String × C02.Obj TV) :=
  [(".", .lit (.n 0)), ("(", .cargs [] []),
   ("+", .tt (.root "T" :: flatOfCells [("[", .lit (.n 0))]))]

def popO : C02.Obj TV := .tt (.root "T" :: flatOfCells popCells)

/-- the evaluation order of the seeded change C02-s2 — `t_args = [arg_val(target, arg, scope)
    for arg in t_path[2::2]]` in front of the loop: all arguments first (in the start state),
    then the operations -/
def applyAll {V S} (F : Facts) (prim : Prim V S) (target : V) :
    List String → List (AV V) → Nat → S → V → Except Err V × S
  | c :: cs, av :: avs, k, s, cur =>
    match stepOp F prim target k c s cur (fun s' => (.ok av, s')) with
    | (.ok v, s1) => applyAll F prim target cs avs (k + 1) s1 v
    | (.error e, s1) => (.error e, s1)
  | _, _, _, s, cur => (.ok cur, s)

def tEvalHoisted {V S} (F : Facts) (prim : Prim V S) (cells : List (String × C02.Obj V))
    (target : V) (s : S) : Except Err V × S :=
  match seqRun (cells.map (fun c => argVal F prim target c.2)) s with
  | (.error e, s1) => (.error e, s1)
  | (.ok avs, s1) => applyAll F prim target (cells.map (·.1)) avs 0 s1 target

/-! #### without `WF`: the tables of the tree before commit e2222c4 (no branch for `'#'`)
    make `_t_eval` skip the recorded floor division without any error -/

def droppedFacts : Facts :=
  { genFacts with dispatch := genFacts.dispatch.filter (fun en => en.1 != "#") }

/-! #### a handler that converts under a condition only: the tables the extractor emits for the
    seeded change C02-s7 (`except ZeroDivisionError as e: if arg != 0: raise` in front of the
    converting clause) do not list what that handler — and the clause it shadows — names -/

def condFacts : Facts :=
  { genFacts with dispatch := genFacts.dispatch.map (fun en =>
      match Kind.ofString en.2.1 with
      | .bin _ | .un _ => (en.1, en.2.1, [])
      | _ => en) }

/-! #### `T[1](T[2])` on a target whose items are `T` objects (`tobj`, also the identity
    function): a stored `T` object as argument, and as callee -/

def dblE : E TV :=
  .texpr [("__getitem__", .lit (.n 1)),
          ("__call__", .cargs [.texpr [("__getitem__", .lit (.n 2))]] [])]

def dblO : C02.Obj TV :=
  .tt (.root "T" :: flatOfCells [("[", .lit (.n 1)),
    ("(", .cargs [.tt (.root "T" :: flatOfCells [("[", .lit (.n 2))])] [])])

/-- the code shape before /repo commit db9b8f7: the arguments of a call were evaluated
    by the loop, then the evaluated callee and every evaluated argument went through
    `arg_val` a second time (`reval`) inside `Call.glomit` -/
def callTwice {V S} (prim : Prim V S) (reval : V → V → V) (target : V) (s : S) (cur : V)
    (ev : Run S Err (AV V)) : Except Err V × S :=
  match ev s with
  | (.error e, s1) => (.error e, s1)
  | (.ok (.call args kwargs), s1) =>
    (liftExc (prim.call s1 (reval target cur) (args.map (reval target))
      (kwargs.map (fun p => (p.1, reval target p.2)))).1,
     (prim.call s1 (reval target cur) (args.map (reval target))
      (kwargs.map (fun p => (p.1, reval target p.2)))).2)
  | (.ok (.val _), s1) => (.error .unsupported, s1)

/-! #### the identity function called with the target: `T[1](T)` on the stack object -/

def idE : E TV := .texpr [("__getitem__", .lit (.n 1)), ("__call__", .cargs [.texpr []] [])]

def idO : C02.Obj TV :=
  .tt (.root "T" :: flatOfCells [("[", .lit (.n 1)), ("(", .cargs [.tt [.root "T"]] [])])

theorem dbl_record (reval : TV → TV → TV) :
    record genFacts (toyPrim reval).none dblE = some dblO := by
  simp [dblE, dblO, toyPrim, record_texpr, recStep, charOf, genFacts, Generated.tRecorded,
    arglessDunders, allSome, flatOfCells, record]

theorem dbl_ref (reval : TV → TV → TV) :
    refEval (toyPrim reval) dblE (.n 7) [] = (.ok .tobj, []) := by
  simp [dblE, refEval_texpr, refStep, arglessDunders, meaning, meaningTable, foldSteps, pyApply,
    toyPrim, refArg, refVals, refValRun, refVal1, seqRun]

end Glom.C02.Examples

namespace Glom.Props.C02
open Glom Glom.C02 Glom.C02.Examples

/-- **The state is threaded through the replay.**  `T.pop() + T[0]` on the stack
    `[10, 20, 30]`: the chain applied directly pops 30 and then reads the last
    element *of what is left* (20): 50, leaving `[10, 20]`; so does the model of
    `_t_eval`.  Evaluating all arguments in front of the loop (the seeded change
    C02-s2) reads `T[0]` before the pop: 60.  Real glom:
    `glom({'l': [10, 20, 30]}, T['l'].pop() + T['l'][-1]) == 50`. -/
theorem c02_hoisted_args_counterexample :
    record genFacts (toyPrim plain).none popE = some popO ∧
    refEval (toyPrim plain) popE .stack [10, 20, 30] = (.ok (.n 50), [10, 20]) ∧
    tEval genFacts (toyPrim plain) popO .stack [10, 20, 30] = (.ok (.n 50), [10, 20]) ∧
    tEvalHoisted genFacts (toyPrim plain) popCells .stack [10, 20, 30]
      = (.ok (.n 60), [10, 20]) := by
  have hrec : record genFacts (toyPrim plain).none popE = some popO := by
    simp [popE, popO, popCells, toyPrim, record_texpr, recStep, charOf, genFacts,
      Generated.tRecorded, arglessDunders, allSome, flatOfCells, record]
  have href : refEval (toyPrim plain) popE .stack [10, 20, 30] = (.ok (.n 50), [10, 20]) := by
    simp [popE, refEval_texpr, refStep, arglessDunders, meaning, meaningTable, foldSteps, pyApply,
      toyPrim, refArg, refVals, seqRun]
  refine ⟨hrec, href, ?_, ?_⟩
  · rw [c02_replay genFacts c02_facts_wf (toyPrim plain) plain_ok popE popO hrec, href]
    rfl
  · simp only [tEvalHoisted, popCells, List.map, seqRun, argVal_tt_T]
    simp [argVal_lit, argVal_cargs, seqRun, stepsEval, valsOf, applyAll, stepOp, Generated.tArgValExempt,
      applyBranch, dispatchOf, genFacts, Generated.tDispatch, Kind.ofString, kindNames, guarded,
      guardE, toyPrim, plain]

/-- Without `WF` the conclusion of `c02_replay` fails: with the branch table of the tree
    before commit e2222c4 the expression `T // 2` is recorded as `'#'`, the model of
    `_t_eval` returns the target 7 unchanged (no error), the chain applied directly gives 3. -/
theorem c02_wf_counterexample :
    WF droppedFacts = false ∧
    record droppedFacts (toyPrim plain).none (.texpr [("__floordiv__", .lit (.n 2))])
      = some (.tt [.root "T", .opc "#", .lit (.n 2)]) ∧
    tEval droppedFacts (toyPrim plain) (.tt [.root "T", .opc "#", .lit (.n 2)]) (.n 7) []
      = (.ok (.n 7), []) ∧
    refEval (toyPrim plain) (.texpr [("__floordiv__", .lit (.n 2))]) (.n 7) []
      = (.ok (.n 3), []) := by
  refine ⟨by decide, ?_, ?_, ?_⟩
  · simp [toyPrim, record_texpr, recStep, charOf, droppedFacts, genFacts, Generated.tRecorded,
      arglessDunders, allSome, flatOfCells, record]
  · have h : (C02.Obj.tt [.root "T", .opc "#", .lit (TV.n 2)]) =
        .tt (.root "T" :: flatOfCells [("#", .lit (.n 2))]) := by simp [flatOfCells]
    rw [h]
    simp [tEval, argVal_tt_T, stepsEval, argVal_lit, stepOp, Generated.tArgValExempt, applyBranch, dispatchOf,
      droppedFacts, genFacts, Generated.tDispatch]
  · simp [refEval_texpr, refStep, arglessDunders, meaning, meaningTable, foldSteps, pyApply,
      toyPrim, refArg]

/-- **Every failing arithmetic step is a PathAccessError — unconditionally.**  The facts
    obligation demands that the `except` clause of the arithmetic branch covers TypeError,
    ZeroDivisionError, OverflowError and ValueError (by the class itself or a base class,
    decided on the exception table extracted from Python) with a handler whose whole body
    builds the PathAccessError.  With the tables of a tree in which that conversion is
    conditional (the extractor does not list such a handler: `condFacts`) `WF` fails, the
    model of `_t_eval` lets the ZeroDivisionError of `T // 0` escape as it is, while the
    property (and the model on the tables of /repo) reports PathAccessError at position 0.
    Real glom with the seeded change C02-s7: `glom(0, T ** -1)` raises a wrapped
    ZeroDivisionError instead of `PathAccessError(…, 0)`. -/
theorem c02_conditional_handler_counterexample :
    WF condFacts = false ∧
    tEval condFacts (toyPrim plain) (.tt [.root "T", .opc "#", .lit (.n 0)]) (.n 7) []
      = (.error (.raised ⟨"ZeroDivisionError"⟩), []) ∧
    tEval genFacts (toyPrim plain) (.tt [.root "T", .opc "#", .lit (.n 0)]) (.n 7) []
      = (.error (.pae 0 ⟨"ZeroDivisionError"⟩), []) ∧
    errOf genFacts (.opFail 0 (.bin .floordiv) ⟨"ZeroDivisionError"⟩)
      = .pae 0 ⟨"ZeroDivisionError"⟩ := by
  have h : (C02.Obj.tt [.root "T", .opc "#", .lit (TV.n 0)]) =
      .tt (.root "T" :: flatOfCells [("#", .lit (.n 0))]) := by simp [flatOfCells]
  have hrec : record genFacts (toyPrim plain).none (.texpr [("__floordiv__", .lit (.n 0))])
      = some (.tt [.root "T", .opc "#", .lit (.n 0)]) := by
    simp [toyPrim, record_texpr, recStep, charOf, genFacts, Generated.tRecorded, arglessDunders,
      allSome, flatOfCells, record]
  have href : refEval (toyPrim plain) (.texpr [("__floordiv__", .lit (.n 0))]) (.n 7) []
      = (.error (.opFail 0 (.bin .floordiv) ⟨"ZeroDivisionError"⟩), []) := by
    simp [refEval_texpr, refStep, arglessDunders, meaning, meaningTable, foldSteps, pyApply,
      toyPrim, refArg]
  have herr := (c02_error_classes genFacts c02_facts_wf 0 (.bin .floordiv) ⟨"ZeroDivisionError"⟩).1
    (by decide)
  refine ⟨by decide, ?_, ?_, herr⟩
  · rw [h]
    simp [tEval, argVal_tt_T, stepsEval, argVal_lit, stepOp, Generated.tArgValExempt, applyBranch,
      dispatchOf, condFacts, genFacts, Generated.tDispatch, Kind.ofString, kindNames, guarded,
      guardE, toyPrim, caughtBy]
  · rw [c02_replay genFacts c02_facts_wf (toyPrim plain) plain_ok _ _ hrec, href]
    simp only [outS, outOf, herr]

/-- **The arguments of a recorded call are evaluated exactly once.**  `T[1](T[2])`
    on a target whose item 2 is a `T` object: the callee (the identity function)
    receives — and returns — the stored object itself, as `target[1](target[2])`
    does.  Real glom (since /repo commit db9b8f7):
    `glom({'f': ident, 'a': T['b'], 'b': 5}, T['f'](T['a']))` is the object `T['b']`. -/
theorem c02_args_evaluated_once :
    record genFacts (toyPrim plain).none dblE = some dblO ∧
    refEval (toyPrim plain) dblE (.n 7) [] = (.ok .tobj, []) ∧
    tEval genFacts (toyPrim plain) dblO (.n 7) [] = (.ok .tobj, []) := by
  refine ⟨dbl_record plain, dbl_ref plain, ?_⟩
  rw [c02_replay genFacts c02_facts_wf (toyPrim plain) plain_ok dblE dblO (dbl_record plain),
    dbl_ref plain]
  rfl

/-- The code shape before commit db9b8f7 (`callTwice`: the loop evaluates the
    arguments, `Call.glomit` passes callee and arguments through `arg_val` again) does
    NOT replay a call of the identity function with a stored `T` object as argument:
    the second pass evaluates the stored object, the function receives the *target* 7.  (Then real glom gave
    `glom({'f': ident, 'a': T['b'], 'b': 5}, T['f'](T['a'])) == 5`, and a list
    argument reached the callee as a rebuilt copy.) -/
theorem c02_second_pass_counterexample :
    callTwice (toyPrim plain) leaky (.n 7) [] .idf (fun s => (.ok (.call [.tobj] []), s))
      = (.ok (.n 7), []) ∧
    pyApply (toyPrim plain) .call [] .idf (.call [.tobj] []) = some (.ok .tobj, []) := by
  constructor <;> simp [callTwice, pyApply, toyPrim, leaky, liftExc]

/-- Without `PlainCallee` the conclusion of `c02_replay` fails: when the CALLEE
    itself is a `T` object stored in the target, `Call.glomit`'s `r(self.func)`
    evaluates it (here to the target 7, which is not callable), whereas the chain
    applied directly calls the stored object.  (Reading: targets are plain data as
    far as callees are concerned; recorded in the harness' ASSUMPTIONS.) -/
theorem c02_callee_eval_counterexample :
    record genFacts (toyPrim leaky).none dblE = some dblO ∧
    refEval (toyPrim leaky) dblE (.n 7) [] = (.ok .tobj, []) ∧
    tEval genFacts (toyPrim leaky) dblO (.n 7) [] = (.error (.raised ⟨"TypeError"⟩), []) := by
  refine ⟨dbl_record leaky, dbl_ref leaky, ?_⟩
  simp only [dblO]
  simp [tEval, argVal_tt_T, stepsEval, argVal_lit, argVal_cargs, valsOf, valOfRun, valOfRes, asVal,
    seqRun, stepOp, Generated.tArgValExempt, applyBranch, dispatchOf, genFacts, Generated.tDispatch,
    Kind.ofString, kindNames, guarded, guardE, toyPrim, leaky, caughtBy]

/-- **Call arguments are passed by reference.**  The identity function called with
    the target returns the target object itself — in the model of `_t_eval` as in
    the chain applied directly.  Real glom (since commit db9b8f7):
    `t = {'f': ident, 'l': [1]}`; `glom(t, T['f'](T['l'])) is t['l']`, and
    `glom(t, T['f'](T['l']).append(2))` makes `t['l'] == [1, 2]`. -/
theorem c02_call_by_reference :
    record genFacts (toyPrim plain).none idE = some idO ∧
    refEval (toyPrim plain) idE .stack [1] = (.ok .stack, [1]) ∧
    tEval genFacts (toyPrim plain) idO .stack [1] = (.ok .stack, [1]) := by
  have hrec : record genFacts (toyPrim plain).none idE = some idO := by
    simp [idE, idO, toyPrim, record_texpr, recStep, charOf, genFacts, Generated.tRecorded,
      arglessDunders, allSome, flatOfCells, record]
  have href : refEval (toyPrim plain) idE .stack [1] = (.ok .stack, [1]) := by
    simp [idE, refEval_texpr, refStep, arglessDunders, meaning, meaningTable, foldSteps, pyApply,
      toyPrim, refArg, refVals, refValRun, refVal1, seqRun]
  refine ⟨hrec, href, ?_⟩
  rw [c02_replay genFacts c02_facts_wf (toyPrim plain) plain_ok idE idO hrec, href]
  rfl

end Glom.Props.C02
