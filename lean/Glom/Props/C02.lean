import Glom.Lemmas.C02
import Glom.Model.C02Env
/-
  C02 — T expressions replay exactly the recorded operations on the target.

  Property theorems only; helper lemmas are in `Glom/Lemmas/C02.lean`.
  Every theorem is for *all* value types `V`, all primitive semantics `prim`
  (Python's own meaning of getattr / subscription / arithmetic / calling is a
  parameter: the theorems are about glom's record-and-replay logic), all
  targets, all expressions of any length and any nesting of T / Spec(T) / list /
  tuple / dict arguments, and all fact tables satisfying the decidable predicate
  `WF`; `c02_facts_wf` discharges `WF` for the tables regenerated from /repo on
  this run.

  Hypotheses, each with a satisfying example below:
    * `WF F`             the extracted tables are well formed (facts obligation)
    * `record … = some o` the expression can be written: every operation used has
                          an overload on TType
    * `hplain`           `arg_val` applied to an already evaluated value returns
                          it, i.e. the target's data contains no glom spec objects.
                          Forced by the proof: `Call.glomit` passes the function and
                          every (already evaluated) argument through `arg_val` a
                          second time; `c02_double_eval_counterexample` is the
                          concrete input without it.
-/
namespace Glom.Props.C02
open Glom Glom.C02

/-- **Facts obligation** (re-checked on every run against the regenerated
    tables).  *No recorded operation is dropped*: every op character recorded by
    a TType overload has a branch in `_t_eval`; that branch performs the
    operation the overload's dunder denotes (`__floordiv__` ↦ `//`, `__pow__` ↦
    `**`, …); the attribute / item / arithmetic branches turn the documented
    exception classes into PathAccessErrors and the call branch catches nothing;
    all fifteen operations of the property are overloaded; every
    PathAccessError is built with `i // 2`; PathAccessError is a GlomError. -/
theorem c02_facts_wf : WF genFacts = true := by decide

/-- `c02_facts_wf`, spelled out per recorded operation. -/
theorem c02_no_dropped_op (d c : String) (h : charOf genFacts d = some c) :
    ∃ kind ks caught, meaning d = some kind ∧ dispatchOf genFacts c = some (ks, caught) ∧
      Kind.ofString ks = kind ∧ caughtOfKind genFacts kind = caught :=
  recorded_wf c02_facts_wf h

/-- **Replay.**  Evaluating the recorded object with `_t_eval` (flat tuple, index
    stepping by 2, branch table, `arg_val` on every argument, calls routed through
    `Call`) yields exactly what applying the chain of operations directly to the
    target yields — the same value; or the first failing operation, as
    PathAccessError(position) when the branch's `except` clause names its class
    and unchanged otherwise; or the failure of the first failing argument. -/
theorem c02_replay {V : Type} (F : Facts) (hwf : WF F = true) (prim : Prim V)
    (hplain : ∀ t v, prim.reval t v = v) (e : E V) (o : C02.Obj V)
    (hrec : record F prim.none e = some o) (target : V) :
    tEval F prim o target = outOf F (refEval prim e target) := by
  unfold tEval refEval
  rw [argVal_record F hwf prim hplain target e o hrec]
  cases refArg prim target e with
  | error e => rfl
  | ok av => cases av <;> rfl

/-- **Which failures are PathAccessErrors.**  A failing attribute / item /
    arithmetic operation number `k` raising a documented class surfaces as
    PathAccessError with `part_idx = k`; a failing call keeps the called
    function's exception (DESIGN §6.1). -/
theorem c02_error_classes (F : Facts) (hwf : WF F = true) (k : Nat) (kind : Kind) (e : PyExc) :
    (documented kind e = true → errOf F (.opFail k kind e) = .pae k e) ∧
    (kind = .call → errOf F (.opFail k kind e) = .raised e) :=
  errOf_opFail hwf k kind e

/-- **Arguments are evaluated against the original target.**  For a chain
    `pre` followed by one operation `d` whose argument is itself a T expression
    `inner`: first `pre` is applied to the target giving `cur`; then `inner` is
    evaluated on the TARGET (not on `cur`); then `d` is applied to `cur` with
    that value, as operation number `pre.length`. -/
theorem c02_args_from_root {V : Type} (F : Facts) (hwf : WF F = true) (prim : Prim V)
    (hplain : ∀ t v, prim.reval t v = v) (pre inner : List (String × E V)) (d : String)
    (hd : arglessDunders.contains d = false) (o : C02.Obj V)
    (hrec : record F prim.none (.texpr (pre ++ [(d, .texpr inner)])) = some o) (target : V) :
    tEval F prim o target = outOf F
      (match refEval prim (.texpr pre) target with
       | .error e => .error e
       | .ok cur =>
         match refEval prim (.texpr inner) target with
         | .error e => .error e
         | .ok a =>
           match meaning d with
           | none => .error .unsupported
           | some kind =>
             match pyApply prim kind cur (.val a) with
             | none => .error .unsupported
             | some (.ok v) => .ok v
             | some (.error e) => .error (.opFail pre.length kind e)) := by
  rw [c02_replay F hwf prim hplain _ o hrec target]
  congr 1
  simp only [refEval_texpr, List.map_append, List.map_cons, List.map_nil, foldSteps_append]
  cases foldSteps prim (pre.map (refStep prim target)) 0 target with
  | error e => rfl
  | ok cur =>
    simp only [refStep, hd, Bool.false_eq_true, if_false, foldSteps, List.length_map,
      Nat.zero_add]
    rw [refArg_texpr]
    cases foldSteps prim (inner.map (refStep prim target)) 0 target with
    | error e => rfl
    | ok a =>
      simp only
      cases meaning d with
      | none => rfl
      | some kind =>
        simp only
        cases pyApply prim kind cur (.val a) with
        | none => rfl
        | some r => cases r <;> rfl

/-- **Checker theorem** — the form in which the property is also evaluated on
    the implementation's observation by the correspondence driver. -/
theorem c02_model_checks {V : Type} [BEq V] [ReflBEq V] (F : Facts) (hwf : WF F = true)
    (prim : Prim V) (hplain : ∀ t v, prim.reval t v = v) (e : E V) (o : C02.Obj V)
    (hrec : record F prim.none e = some o) (target : V)
    (hsup : refEval prim e target ≠ .error .unsupported) :
    checkC02 prim e target (observe F (tEval F prim o target)) = true := by
  rw [c02_replay F hwf prim hplain e o hrec target]
  unfold checkC02
  cases hr : refEval prim e target with
  | ok v => simp [outOf, observe, checkObs]
  | error re =>
    cases re with
    | unsupported => exact absurd hr hsup
    | raised x => simp [outOf, errOf, observe, checkObs]
    | opFail k kind x =>
      obtain ⟨hdoc, hcall⟩ := kindsOk_of_wf hwf kind
      have hflag : (F.exc.mro "PathAccessError").contains "GlomError" = true := by
        simp only [WF, Bool.and_eq_true] at hwf; exact hwf.2
      have hflag' : "GlomError" ∈ F.exc.mro "PathAccessError" := by simpa using hflag
      simp only [outOf, errOf]
      split
      · rename_i hc
        have hne : kind ≠ .call := by
          intro h; rw [hcall h] at hc; simp [caughtBy] at hc
        simp [observe, checkObs, hne, hflag']
      · rename_i hc
        have hnd : documented kind x = false := by
          cases hdc : documented kind x with
          | false => rfl
          | true =>
            simp only [documented, List.contains_eq_mem, decide_eq_true_eq] at hdc
            exact absurd (hdoc _ hdc) hc
        simp [observe, checkObs, hnd]

end Glom.Props.C02

namespace Glom.C02.Examples
open Glom Glom.C02 Glom.Props.C02

/-! ### non-vacuity: concrete inputs meet every hypothesis; counter-examples without them -/

/-- toy values: numbers, and a glom `T` object stored as *data* inside the target -/
inductive TV where
  | n (k : Int)
  | tobj
  deriving DecidableEq, Repr

instance : ReflBEq TV := ⟨by intro a; cases a <;> simp [BEq.beq]⟩

/-- toy primitives: `cur[1]`, `cur[2]` are the object `tobj`; every callable is the
    identity function of one argument; `//` and `+` on numbers; `-x`.
    `reval` is the second `arg_val` pass of `Call.glomit`. -/
def toyPrim (reval : TV → TV → TV) : Prim TV :=
  { none := .n 0
    getattr := fun _ _ => .error ⟨"AttributeError"⟩
    getitem := fun _ a => match a with
      | .n 1 => .ok .tobj | .n 2 => .ok .tobj | _ => .error ⟨"KeyError"⟩
    call := fun _ args _ => match args with | [a] => .ok a | _ => .error ⟨"TypeError"⟩
    bin := fun b x y => match b, x, y with
      | .floordiv, .n a, .n c =>
        if c = 0 then .error ⟨"ZeroDivisionError"⟩ else .ok (.n (Int.fdiv a c))
      | .add, .n a, .n c => .ok (.n (a + c))
      | _, _, _ => .error ⟨"TypeError"⟩
    un := fun _ x => match x with | .n a => .ok (.n (-a)) | _ => .error ⟨"TypeError"⟩
    mkList := fun _ => .n 0
    mkTuple := fun _ => .n 0
    mkDict := fun _ => .ok (.n 0)
    reval := reval }

/-- plain data: the second `arg_val` pass returns its argument -/
def plain : TV → TV → TV := fun _ v => v
/-- data containing `T` objects: the second pass evaluates them against the target -/
def leaky : TV → TV → TV := fun t v => match v with | .tobj => t | v => v

example : ∀ t v, (toyPrim plain).reval t v = v := fun _ _ => rfl

/-- `(T // 2) + (-T)` -/
def exE : E TV :=
  .texpr [("__floordiv__", .lit (.n 2)), ("__add__", .texpr [("__neg__", .lit (.n 0))])]

def exO : C02.Obj TV :=
  .tt [.root "T", .opc "#", .lit (.n 2), .opc "+", .tt [.root "T", .opc "_", .lit (.n 0)]]

theorem ex_record : record genFacts (toyPrim plain).none exE = some exO := by
  simp [exE, exO, toyPrim, record_texpr, recStep, charOf, genFacts, Generated.tRecorded,
    arglessDunders, allSome, flatOfCells, record]

/-- applied directly to 7: `7 // 2 + -7 = -4` (the nested `-T` sees the target 7, not 3) -/
theorem ex_ref : refEval (toyPrim plain) exE (.n 7) = .ok (.n (-4)) := by
  simp [exE, refEval_texpr, refStep, arglessDunders, meaning, meaningTable, foldSteps, pyApply,
    toyPrim, refArg_texpr, refArg]

example : refEval (toyPrim plain) exE (.n 7) ≠ .error .unsupported := by rw [ex_ref]; simp

/-- hence, by `c02_replay`, so does the model on the recorded object -/
example : tEval genFacts (toyPrim plain) exO (.n 7) = .ok (.n (-4)) := by
  rw [c02_replay genFacts c02_facts_wf (toyPrim plain) (fun _ _ => rfl) exE exO ex_record, ex_ref]
  rfl

/-- a failing operation: `(T // 0)` is operation 0 raising ZeroDivisionError -/
example : refEval (toyPrim plain) (.texpr [("__floordiv__", .lit (.n 0))]) (.n 7)
    = .error (.opFail 0 (.bin .floordiv) ⟨"ZeroDivisionError"⟩) := by
  simp [refEval_texpr, refStep, arglessDunders, meaning, meaningTable, foldSteps, pyApply,
    toyPrim, refArg]

/-! #### without `WF`: the tables of the tree before commit e2222c4 (no branch for `'#'`)
    make `_t_eval` skip the recorded floor division without any error -/

def droppedFacts : Facts :=
  { genFacts with dispatch := genFacts.dispatch.filter (fun en => en.1 != "#") }

/-! #### without `hplain`: `T[1](T[2])` on a target whose items are `T` objects -/

def dblE : E TV :=
  .texpr [("__getitem__", .lit (.n 1)),
          ("__call__", .cargs [.texpr [("__getitem__", .lit (.n 2))]] [])]

def dblO : C02.Obj TV :=
  .tt [.root "T", .opc "[", .lit (.n 1), .opc "(",
       .cargs [.tt [.root "T", .opc "[", .lit (.n 2)]] []]

end Glom.C02.Examples

namespace Glom.Props.C02
open Glom Glom.C02 Glom.C02.Examples

/-- Without `WF` the conclusion of `c02_replay` fails: with the branch table of the tree
    before commit e2222c4 the expression `T // 2` is recorded as `'#'`, the model of
    `_t_eval` returns the target 7 unchanged (no error), the chain applied directly gives 3. -/
theorem c02_wf_counterexample :
    WF droppedFacts = false ∧
    record droppedFacts (toyPrim plain).none (.texpr [("__floordiv__", .lit (.n 2))])
      = some (.tt [.root "T", .opc "#", .lit (.n 2)]) ∧
    tEval droppedFacts (toyPrim plain) (.tt [.root "T", .opc "#", .lit (.n 2)]) (.n 7)
      = .ok (.n 7) ∧
    refEval (toyPrim plain) (.texpr [("__floordiv__", .lit (.n 2))]) (.n 7) = .ok (.n 3) := by
  refine ⟨by decide, ?_, ?_, ?_⟩
  · simp [toyPrim, record_texpr, recStep, charOf, droppedFacts, genFacts, Generated.tRecorded,
      arglessDunders, allSome, flatOfCells, record]
  · have h : (C02.Obj.tt [.root "T", .opc "#", .lit (TV.n 2)]) =
        .tt (.root "T" :: flatOfCells [("#", .lit (.n 2))]) := by simp [flatOfCells]
    rw [h]
    simp [tEval, argVal_tt_T, stepsEval, argVal, applyBranch, dispatchOf, droppedFacts, genFacts,
      Generated.tDispatch]
  · simp [refEval_texpr, refStep, arglessDunders, meaning, meaningTable, foldSteps, pyApply,
      toyPrim, refArg]

/-- Applying the chain directly gives `target[1](target[2])`, the stored object;
    `_t_eval` gives the *target*: `Call.glomit` evaluated the stored `T` object a
    second time.  Real glom: `glom({'f': ident, 'a': T['b'], 'b': 5}, T['f'](T['a'])) == 5`
    whereas `target['f'](target['a'])` is the object `T['b']`.  (Reading: the
    property is about targets made of plain data; recorded in the harness' ASSUMPTIONS.) -/
theorem c02_double_eval_counterexample :
    record genFacts (toyPrim leaky).none dblE = some dblO ∧
    refEval (toyPrim leaky) dblE (.n 7) = .ok .tobj ∧
    tEval genFacts (toyPrim leaky) dblO (.n 7) = .ok (.n 7) := by
  refine ⟨?_, ?_, ?_⟩
  · simp [dblE, dblO, toyPrim, record_texpr, recStep, charOf, genFacts, Generated.tRecorded,
      arglessDunders, allSome, flatOfCells, record]
  · simp [dblE, refEval_texpr, refStep, arglessDunders, meaning, meaningTable, foldSteps, pyApply,
      toyPrim, refArg_texpr, refArg, refVals, refVal1, seqAll]
  · have h : dblO = .tt (.root "T" :: flatOfCells [("[", .lit (.n 1)),
        ("(", .cargs [.tt (.root "T" :: flatOfCells [("[", .lit (.n 2))])] [])]) := by
      simp [dblO, flatOfCells]
    rw [h]
    simp [tEval, argVal_tt_T, stepsEval, argVal, valsOf, valOfRes, asVal, seqAll, applyBranch,
      dispatchOf, genFacts, Generated.tDispatch, Kind.ofString, kindNames, guarded, toyPrim, leaky]

end Glom.Props.C02
