import Glom.Lemmas.C02
import Glom.Model.C02Env
/-
  C02 — T expressions replay exactly the recorded operations on the target.

  Property theorems only; helper lemmas are in `Glom/Lemmas/C02.lean`.
  Every theorem is for *all* value types `V`, all primitive semantics `prim`
  (Python's own meaning of getattr / subscription / arithmetic / calling is a
  parameter: the theorems are about glom's record-and-replay logic), all
  targets, all expressions of any length and any nesting of T / Spec(T) / list /
  tuple / dict arguments, and all fact tables satisfying the decidable predicate
  `WF`; `c02_facts_wf` discharges `WF` for the tables regenerated from /repo on
  this run.

  Hypotheses, each with a satisfying example below:
    * `WF F`             the extracted tables are well formed (facts obligation)
    * `record … = some o` the expression can be written: every operation used has
                          an overload on TType
    * `hplain`           `arg_val` applied to an already evaluated value returns
                          it, i.e. the target's data contains no glom spec objects.
                          Forced by the proof: `Call.glomit` passes the function and
                          every (already evaluated) argument through `arg_val` a
                          second time; `c02_double_eval_counterexample` is the
                          concrete input without it.
-/
namespace Glom.Props.C02
open Glom Glom.C02

/-- **Facts obligation** (re-checked on every run against the regenerated
    tables).  *No recorded operation is dropped*: every op character recorded by
    a TType overload has a branch in `_t_eval`; that branch performs the
    operation the overload's dunder denotes (`__floordiv__` ↦ `//`, `__pow__` ↦
    `**`, …); the attribute / item / arithmetic branches turn the documented
    exception classes into PathAccessErrors and the call branch catches nothing;
    all fifteen operations of the property are overloaded; every
    PathAccessError is built with `i // 2`; PathAccessError is a GlomError. -/
theorem c02_facts_wf : WF genFacts = true := by decide

/-- `c02_facts_wf`, spelled out per recorded operation. -/
theorem c02_no_dropped_op (d c : String) (h : charOf genFacts d = some c) :
    ∃ kind ks caught, meaning d = some kind ∧ dispatchOf genFacts c = some (ks, caught) ∧
      Kind.ofString ks = kind ∧ caughtOfKind genFacts kind = caught :=
  recorded_wf c02_facts_wf h

/-- **Replay.**  Evaluating the recorded object with `_t_eval` (flat tuple, index
    stepping by 2, branch table, `arg_val` on every argument, calls routed through
    `Call`) yields exactly what applying the chain of operations directly to the
    target yields — the same value; or the first failing operation, as
    PathAccessError(position) when the branch's `except` clause names its class
    and unchanged otherwise; or the failure of the first failing argument. -/
theorem c02_replay {V : Type} (F : Facts) (hwf : WF F = true) (prim : Prim V)
    (hplain : ∀ t v, prim.reval t v = v) (e : E V) (o : C02.Obj V)
    (hrec : record F prim.none e = some o) (target : V) :
    tEval F prim o target = outOf F (refEval prim e target) := by
  unfold tEval refEval
  rw [argVal_record F hwf prim hplain target e o hrec]
  cases refArg prim target e with
  | error e => rfl
  | ok av => cases av <;> rfl

/-- **Which failures are PathAccessErrors.**  A failing attribute / item /
    arithmetic operation number `k` raising a documented class surfaces as
    PathAccessError with `part_idx = k`; a failing call keeps the called
    function's exception (DESIGN §6.1). -/
theorem c02_error_classes (F : Facts) (hwf : WF F = true) (k : Nat) (kind : Kind) (e : PyExc) :
    (documented kind e = true → errOf F (.opFail k kind e) = .pae k e) ∧
    (kind = .call → errOf F (.opFail k kind e) = .raised e) :=
  errOf_opFail hwf k kind e

/-- **Arguments are evaluated against the original target.**  For a chain
    `pre` followed by one operation `d` whose argument is itself a T expression
    `inner`: first `pre` is applied to the target giving `cur`; then `inner` is
    evaluated on the TARGET (not on `cur`); then `d` is applied to `cur` with
    that value, as operation number `pre.length`. -/
theorem c02_args_from_root {V : Type} (F : Facts) (hwf : WF F = true) (prim : Prim V)
    (hplain : ∀ t v, prim.reval t v = v) (pre inner : List (String × E V)) (d : String)
    (hd : arglessDunders.contains d = false) (o : C02.Obj V)
    (hrec : record F prim.none (.texpr (pre ++ [(d, .texpr inner)])) = some o) (target : V) :
    tEval F prim o target = outOf F
      (match refEval prim (.texpr pre) target with
       | .error e => .error e
       | .ok cur =>
         match refEval prim (.texpr inner) target with
         | .error e => .error e
         | .ok a =>
           match meaning d with
           | none => .error .unsupported
           | some kind =>
             match pyApply prim kind cur (.val a) with
             | none => .error .unsupported
             | some (.ok v) => .ok v
             | some (.error e) => .error (.opFail pre.length kind e)) := by
  rw [c02_replay F hwf prim hplain _ o hrec target]
  congr 1
  simp only [refEval_texpr, List.map_append, List.map_cons, List.map_nil, foldSteps_append]
  cases foldSteps prim (pre.map (refStep prim target)) 0 target with
  | error e => rfl
  | ok cur =>
    simp only [refStep, hd, Bool.false_eq_true, if_false, foldSteps, List.length_map,
      Nat.zero_add]
    rw [refArg_texpr]
    cases foldSteps prim (inner.map (refStep prim target)) 0 target with
    | error e => rfl
    | ok a =>
      simp only
      cases meaning d with
      | none => rfl
      | some kind =>
        simp only
        cases pyApply prim kind cur (.val a) with
        | none => rfl
        | some r => cases r <;> rfl

/-- **Checker theorem** — the form in which the property is also evaluated on
    the implementation's observation by the correspondence driver. -/
theorem c02_model_checks {V : Type} [BEq V] [ReflBEq V] (F : Facts) (hwf : WF F = true)
    (prim : Prim V) (hplain : ∀ t v, prim.reval t v = v) (e : E V) (o : C02.Obj V)
    (hrec : record F prim.none e = some o) (target : V)
    (hsup : refEval prim e target ≠ .error .unsupported) :
    checkC02 prim e target (observe F (tEval F prim o target)) = true := by
  rw [c02_replay F hwf prim hplain e o hrec target]
  unfold checkC02
  cases hr : refEval prim e target with
  | ok v => simp [outOf, observe, checkObs]
  | error re =>
    cases re with
    | unsupported => exact absurd hr hsup
    | raised x => simp [outOf, errOf, observe, checkObs]
    | opFail k kind x =>
      obtain ⟨hdoc, hcall⟩ := kindsOk_of_wf hwf kind
      have hflag : (F.exc.mro "PathAccessError").contains "GlomError" = true := by
        simp only [WF, Bool.and_eq_true] at hwf; exact hwf.2
      have hflag' : "GlomError" ∈ F.exc.mro "PathAccessError" := by simpa using hflag
      simp only [outOf, errOf]
      split
      · rename_i hc
        have hne : kind ≠ .call := by
          intro h; rw [hcall h] at hc; simp [caughtBy] at hc
        simp [observe, checkObs, hne, hflag']
      · rename_i hc
        have hnd : documented kind x = false := by
          cases hdc : documented kind x with
          | false => rfl
          | true =>
            simp only [documented, List.contains_eq_mem, decide_eq_true_eq] at hdc
            exact absurd (hdoc _ hdc) hc
        simp [observe, checkObs, hnd]

end Glom.Props.C02
