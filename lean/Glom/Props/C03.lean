import Glom.Lemmas.C07
import Glom.Lemmas.C03
import Glom.Model.Frames
/-
  C03 — Auto-mode restructuring is compositional in its sub-specs.

  Property theorems only.  They are stated for the loops of the code-shaped
  interpreter (`_handle_dict`, `_handle_list`, `_handle_tuple`, `Coalesce.glomit`,
  written with accumulators and early exits as in the Python) and hold for
  *every* evaluator `rec` of the sub-specs, every scope representation, every
  target and every list length: the output is a function of the sub-specs'
  outputs only.
-/
set_option linter.unusedSectionVars false
namespace Glom.Props.C03
open Glom.Interp ScopeAlg

variable {σ : Type} [ScopeAlg σ]

/-- the evaluator is a pure function `f` of the target on sub-spec `s` (whatever the scope/state) -/
def PureOn (rec : Rec σ) (s : Spec) (f : V → V) : Prop :=
  ∀ t (sc : σ) st, ∃ c, rec s t sc st = (st, .ok (f t, c))

/-- reference: map `f` over the items in order, STOP ends the list, SKIP omits the item -/
def listRef (f : V → V) : List V → List V
  | [] => []
  | x :: xs => match f x with
    | .stop => []
    | .skip => listRef f xs
    | v => v :: listRef f xs

theorem listLoop_eq_ref (rec : Rec σ) (sub : Spec) (f : V → V) (h : PureOn rec sub f) (sc : σ) :
    ∀ (items acc : List V) (st : St), listLoop rec sub sc items acc st = (st, .ok (acc ++ listRef f items)) := by
  intro items
  induction items with
  | nil => intro acc st; simp [listLoop, listRef, M.pure_apply]
  | cons x xs ih =>
    intro acc st
    obtain ⟨c, hc⟩ := h x sc st
    simp only [listLoop, M.bind_apply, hc, listRef]
    cases hf : f x <;> simp [ih, M.pure_apply]

/-- **A list spec maps its sub-spec over the target's iteration, in order**; a sub-result of SKIP
    omits the entry and STOP ends the list. -/
theorem c03_list (rec : Rec σ) (sub : Spec) (f : V → V) (h : PureOn rec sub f) (sc : σ) (items : List V) (st : St) :
    listLoop rec sub sc items [] st = (st, .ok (listRef f items)) := by
  simpa using listLoop_eq_ref rec sub f h sc items [] st

/-- reference for a dict spec with literal keys: the same keys in the same order holding the
    sub-results, entries whose sub-result is SKIP omitted (a repeated key keeps its first position) -/
def dictRef (p : Prims) (t : V) : List (V × (V → V)) → List (V × V) → List (V × V)
  | [], acc => acc
  | (k, f) :: rest, acc => match f t with
    | .skip => dictRef p t rest acc
    | v => dictRef p t rest (dictSet p acc k v)

/-- **A dict spec yields a dict with the same keys in the same order holding the sub-results.** -/
theorem c03_dict (p : Prims) (rec : Rec σ) (t : V) (sc : σ) :
    ∀ (es : List (Spec × Spec)) (fs : List (V × (V → V))) (acc : List (V × V)) (st : St),
      es.length = fs.length →
      (∀ i (hi : i < es.length) (hj : i < fs.length), es[i].1.isComputedKey = false ∧
          reify es[i].1 = some fs[i].1 ∧ PureOn rec es[i].2 fs[i].2) →
      dictLoop p rec t sc es acc st = (st, .ok (dictRef p t fs acc)) := by
  intro es
  induction es with
  | nil => intro fs acc st hl _; cases fs <;> simp_all [dictLoop, dictRef, M.pure_apply]
  | cons e rest ih =>
    obtain ⟨field, sub⟩ := e
    intro fs acc st hl hall
    cases fs with
    | nil => simp at hl
    | cons kf frest =>
      obtain ⟨k, f⟩ := kf
      have h0 := hall 0 (by simp) (by simp)
      simp only [List.getElem_cons_zero] at h0
      obtain ⟨hck, hre, hpure⟩ := h0
      have hrest := fun acc' => ih frest acc' st (by simpa using hl) (by
        intro i hi hj
        have := hall (i + 1) (by simp; omega) (by simp; omega)
        simpa using this)
      obtain ⟨c, hc⟩ := hpure t sc st
      simp only [dictLoop, M.bind_apply, hc, dictRef, hck, hre]
      cases hf : f t <;> simp [hrest]

/-- **A tuple feeds each step's result to the next**: one step of `_handle_tuple`. -/
theorem c03_tuple_step (rec : Rec σ) (a : Spec) (rest : List Spec) (t : V) (cur : σ) (last : Option σ) :
    tupleLoop rec (a :: rest) t cur last =
      (do let r ← rec a t (nextScope cur last)
          match r.1 with
          | .skip => tupleLoop rec rest t (nextScope cur last) (some r.2)
          | .stop => pure t
          | nxt => tupleLoop rec rest nxt (nextScope cur last) (some r.2)) := rfl

/-- **`glom(t, (a, b))` equals `glom(glom(t, a), b)`** when `a`'s result `v` is neither SKIP nor
    STOP: the tuple's value is whatever `b` yields on `v` (in the scope chained after `a`). -/
theorem c03_chain (rec : Rec σ) (a b : Spec) (t v : V) (cur ca : σ) (st st1 : St)
    (ha : rec a t cur st = (st1, .ok (v, ca))) (hv : v ≠ .skip ∧ v ≠ .stop) :
    tupleLoop rec [a, b] t cur Option.none st =
      (match rec b v (chain cur ca) st1 with
       | (st2, .ok (w, _)) => (st2, .ok (match w with | .skip => v | .stop => v | w => w))
       | (st2, .error e) => (st2, .error e)) := by
  obtain ⟨h1, h2⟩ := hv
  cases v <;> first
    | exact absurd rfl h1
    | exact absurd rfl h2
    | (simp only [tupleLoop, nextScope, M.bind_apply, ha]
       rcases hb : rec b _ (chain cur ca) st1 with ⟨st2, r⟩
       cases r with
       | error e => rfl
       | ok wc => obtain ⟨w, c2⟩ := wc; cases w <;> rfl)

/-- **Pipe(a, b, …) is the tuple (a, b, …)**: both run `_handle_tuple` on their own scope. -/
theorem c03_pipe_eq_tuple (p : Prims) (rec : Rec σ) (xs : List Spec) (t : V) (sc : σ) :
    glomit p rec (.pipe xs) t sc = (do let v ← autoFn p rec (.tuple xs) t sc; pure (v, sc)) := rfl

/-- **Coalesce: the first non-skipped success wins and later alternatives are not evaluated** —
    the outcome does not mention (or run) anything after the winning alternative. -/
theorem c03_coalesce_first_wins (p : Prims) (rec : Rec σ) (t : V) (sc : σ) (sk : Skip) (se : List String)
    (s : Spec) (later : List Spec) (st st1 st2 : St) (v : V) (c : σ)
    (hs : rec s t sc st = (st1, .ok (v, c))) (hk : skipFunc p sk v st1 = (st2, .ok false)) :
    coalesceLoop p rec t sc sk se (s :: later) st = (st2, .ok (some v)) := by
  simp only [coalesceLoop, M.bind_apply, M.attempt, hs, hk]
  rfl

/-- … an alternative that raises an exception matching `skip_exc` (or yields a skipped value) is
    passed over, anything else propagates. -/
theorem c03_coalesce_skips (p : Prims) (rec : Rec σ) (t : V) (sc : σ) (sk : Skip) (se : List String)
    (s : Spec) (later : List Spec) (st st1 : St) (e : Err) (hs : rec s t sc st = (st1, .error e)) :
    coalesceLoop p rec t sc sk se (s :: later) st =
      if caught p se e then coalesceLoop p rec t sc sk se later st1 else (st1, .error e) := by
  simp only [coalesceLoop, M.bind_apply, M.attempt, hs]
  split <;> rfl

/-- **Val, Spec, callables**: `Val(v)` is `v`; `Spec(s)` is `s`; a callable receives the current
    target (and is logged once). -/
theorem c03_val_spec_callable (p : Prims) (rec : Rec σ) (t v : V) (sc : σ) (s : Spec) (n k : String) :
    glomit p rec (.val v) t sc = pure (v, sc) ∧
    glomit p rec (.specW s []) t sc = (do let r ← rec s t sc; pure (r.1, sc)) ∧
    autoFn p rec (.fn n k) t sc = callFn p n k [t] [] := ⟨rfl, rfl, rfl⟩

/-- **Each container evaluates its sub-specs at its own scope**: the output is determined by the
    evaluator's behaviour on the sub-specs alone (see `c07_siblings_isolated`). -/
theorem c03_determined_by_subspecs (p : Prims) (rec1 rec2 : Rec σ) (t : V) (sc : σ) (h : AgreeAt rec1 rec2 sc) :
    (∀ es acc, dictLoop p rec1 t sc es acc = dictLoop p rec2 t sc es acc) ∧
    (∀ sub items acc, listLoop rec1 sub sc items acc = listLoop rec2 sub sc items acc) :=
  ⟨dictLoop_congr p t sc h, fun sub => listLoop_congr sub sc h⟩

/-- **Call combines its parts as documented**: `func`, `args`, `kwargs` are evaluated once each, in
    that order, in argument position (containers rebuilt, T / Spec leaves replaced by their values,
    callables kept); then the function is called once with the unpacked arguments. -/
theorem c03_call_combines (p : Prims) (rec : Rec σ) (func args kwargs : Spec) (t : V) (sc : σ) :
    glomit p rec (.call func args kwargs) t sc =
      (do let f ← argVal rec t func sc
          let a ← argVal rec t args sc
          let kw ← argVal rec t kwargs sc
          match f, kw with
          | .fn n k, .dict _ kws =>
            match starItems [a] with
            | some as => do
              let v ← callFn p n k as (strKeyed kws)
              pure (v, sc)
            | Option.none => M.fail (match a with | .set .. => "Unsupported" | _ => "TypeError")
          | _, _ => M.fail "TypeError") := rfl

/-- **Inspect is transparent**: debugging aside, `Inspect(s)` (no callbacks; what it echoes is not
    part of the result) evaluates `s` once, in its own scope, and yields its value or its exception —
    it is `Spec(s)`. -/
theorem c03_inspect_transparent (p : Prims) (rec : Rec σ) (s : Spec) (t : V) (sc : σ) :
    glomit p rec (.inspect s Option.none Option.none) t sc = glomit p rec (.specW s []) t sc := by
  apply M.ext; intro st
  simp only [glomit, callOpt, M.bind_apply, M.pure_apply, M.attempt, List.foldl_nil]
  rcases rec s t sc st with ⟨st1, r⟩
  cases r <;> rfl

/-- **Inspect's callbacks**: `breakpoint` is called once, without arguments, before the wrapped spec;
    when the wrapped spec raises, `post_mortem` is called once and the exception is re-raised (unless
    `post_mortem` itself raises); when it succeeds `post_mortem` is not called. -/
theorem c03_inspect_callbacks (p : Prims) (rec : Rec σ) (s : Spec) (bp pm : Option (String × String)) (t : V)
    (sc : σ) (st st0 st1 : St) (hbp : callOpt p bp st = (st0, .ok ())) :
    (∀ v c, rec s t sc st0 = (st1, .ok (v, c)) →
      glomit p rec (.inspect s bp pm) t sc st = (st1, .ok (v, sc))) ∧
    (∀ e, rec s t sc st0 = (st1, .error e) →
      glomit p rec (.inspect s bp pm) t sc st =
        (match callOpt p pm st1 with
         | (st2, .ok _) => (st2, .error e)
         | (st2, .error e') => (st2, .error e'))) := by
  constructor
  · intro v c h
    simp only [glomit, M.bind_apply, hbp, M.attempt, h, M.pure_apply]
  · intro e h
    simp only [glomit, M.bind_apply, hbp, M.attempt, h]
    rcases callOpt p pm st1 with ⟨st2, r⟩
    cases r <;> rfl

/-! ### nested chains: STOP ends the chain it occurs in, and only that one -/

/-- reference for a chain of pure steps: each result feeds the next step, SKIP omits the step,
    STOP ends the chain with the value reached so far -/
def chainRef : List (V → V) → V → V
  | [], t => t
  | f :: fs, t => match f t with
    | .skip => chainRef fs t
    | .stop => t
    | v => chainRef fs v

def isSentinel : V → Bool
  | .skip | .stop => true
  | _ => false

/-- **A tuple / Pipe of pure steps is `chainRef`** (any length, SKIP / STOP at any position). -/
theorem c03_chain_ref (rec : Rec σ) :
    ∀ (steps : List Spec) (fs : List (V → V)) (t : V) (cur : σ) (last : Option σ) (st : St),
      steps.length = fs.length →
      (∀ i (hi : i < steps.length) (hj : i < fs.length), PureOn rec steps[i] fs[i]) →
      tupleLoop rec steps t cur last st = (st, .ok (chainRef fs t)) := by
  intro steps
  induction steps with
  | nil => intro fs t cur last st hl _; cases fs <;> simp_all [tupleLoop, chainRef, M.pure_apply]
  | cons a rest ih =>
    intro fs t cur last st hl hall
    cases fs with
    | nil => simp at hl
    | cons f frest =>
      have h0 := hall 0 (by simp) (by simp)
      simp only [List.getElem_cons_zero] at h0
      obtain ⟨c, hc⟩ := h0 t (nextScope cur last) st
      have hrest := fun t' l => ih frest t' (nextScope cur last) l st (by simpa using hl) (by
        intro i hi hj
        have := hall (i + 1) (by simp; omega) (by simp; omega)
        simpa using this)
      simp only [tupleLoop, M.bind_apply, hc, chainRef]
      cases hf : f t <;> simp [hrest, M.pure_apply]

/-- the result of a chain is never a sentinel (unless its input was one): STOP and SKIP are
    consumed by the chain they occur in -/
theorem chainRef_not_sentinel : ∀ (fs : List (V → V)) (t : V), isSentinel t = false →
    isSentinel (chainRef fs t) = false := by
  intro fs
  induction fs with
  | nil => intro t h; simpa [chainRef] using h
  | cons f fs ih =>
    intro t h
    simp only [chainRef]
    cases hf : f t <;> simp only <;> first | exact h | exact ih _ h | exact ih _ (by simp [isSentinel])

/-- **A chain nested in a chain**: `glom(t, ((a₁, …, aₙ), b₁, …))` is `glom(glom(t, (a₁, …, aₙ)), (b₁, …))`
    — also when some `aᵢ` returned STOP: the inner chain ends there, its value goes on to the outer
    steps.  (Inlining the inner steps into the outer chain is *not* equivalent: see the example below.) -/
theorem c03_nested_chain (fs gs : List (V → V)) (t : V) (ht : isSentinel t = false) :
    chainRef (chainRef fs :: gs) t = chainRef gs (chainRef fs t) := by
  have h := chainRef_not_sentinel fs t ht
  simp only [chainRef]
  cases hv : chainRef fs t <;> simp_all [isSentinel]

/-- … at the level of the interpreter's loop: an inner chain `a` that the evaluator computes as
    `chainRef fs` (by `c03_chain_ref` one level down) hands its value to the remaining outer steps. -/
theorem c03_nested_chain_loop (rec : Rec σ) (a : Spec) (rest : List Spec) (fs : List (V → V)) (t : V)
    (cur : σ) (last : Option σ) (st : St) (ha : PureOn rec a (chainRef fs)) (ht : isSentinel t = false) :
    ∃ c, tupleLoop rec (a :: rest) t cur last st =
      tupleLoop rec rest (chainRef fs t) (nextScope cur last) (some c) st := by
  obtain ⟨c, hc⟩ := ha t (nextScope cur last) st
  refine ⟨c, ?_⟩
  have h := chainRef_not_sentinel fs t ht
  simp only [tupleLoop, M.bind_apply, hc]
  cases hv : chainRef fs t <;> simp_all [isSentinel]

/-! ### evaluators with effects: each sub-spec is evaluated once, left to right

The laws above are relative to a *pure* evaluator of the sub-specs (`PureOn`).  The following ones
drop that: the sub-specs may log calls (instrumented callables), write `S.globals` / `Vars`, and
raise.  `EvalOn rec m a s g` says that on sub-spec `s` the evaluator computes the state-threading
function `g : V → M V` at every scope whose mode is `m` and whose argument flag is `a` (the
interpreter itself satisfies this for, e.g., a callable in AUTO mode: see the examples); the loops
of the interpreter are then the accumulator-free references `listRefM` / `dictRefM` / `chainRefM`
of `Glom/Spec/C03.lean`, which run `g` exactly once per item / entry / step, in order, threading
the state, and stop at the first exception with the state reached so far. -/

/-- a pure evaluator is a special case (in every mode) -/
theorem c03_pureOn_evalOn (rec : Rec σ) (s : Spec) (f : V → V) (h : PureOn rec s f) (m : Mode) (a : Bool) :
    EvalOn rec m a s (fun t => pure (f t)) := by
  intro t sc _ _
  apply M.ext; intro st
  obtain ⟨c, hc⟩ := h t sc st
  rw [M.bind_apply, hc]

/-- **A list spec over an effectful sub-spec**: the sub-spec runs once per item, in order, the state
    (call log, ScopeVars) threaded through; SKIP omits the item, STOP ends the list — nothing after
    it runs —, an exception ends the evaluation with the state reached so far. -/
theorem c03_list_stateful (rec : Rec σ) (sub : Spec) (g : V → M V) (sc : σ)
    (h : EvalOn rec (mode sc) (argMode sc) sub g) :
    ∀ (items acc : List V),
      listLoop rec sub sc items acc = (do let r ← listRefM g items; pure (acc ++ r)) := by
  intro items
  induction items with
  | nil => intro acc; apply M.ext; intro st; simp [listLoop, listRefM, M.bind_apply, M.pure_apply]
  | cons x xs ih =>
    intro acc
    apply M.ext; intro st
    have hg := evalOn_apply h x sc rfl rfl st
    simp only [listLoop, listRefM, M.bind_apply]
    rcases hr : rec sub x sc st with ⟨st1, r1⟩
    rw [hr] at hg
    cases r1 with
    | error e => simp only [hg]
    | ok vc =>
      obtain ⟨v, c⟩ := vc
      simp only [hg]
      cases v <;> simp [ih, M.bind_apply, M.pure_apply] <;>
        (rcases listRefM g xs st1 with ⟨st2, r2⟩; cases r2 <;> simp)

/-- **A dict spec over effectful value specs** (literal keys): every value spec runs once, in the
    order of the spec, on the same target; a SKIP result omits the entry. -/
theorem c03_dict_stateful (p : Prims) (rec : Rec σ) (t : V) (sc : σ) :
    ∀ (es : List (Spec × Spec)) (gs : List (V × (V → M V))) (acc : List (V × V)),
      es.length = gs.length →
      (∀ i (hi : i < es.length) (hj : i < gs.length), es[i].1.isComputedKey = false ∧
          reify es[i].1 = some gs[i].1 ∧ EvalOn rec (mode sc) (argMode sc) es[i].2 gs[i].2) →
      dictLoop p rec t sc es acc = dictRefM p t gs acc := by
  intro es
  induction es with
  | nil => intro gs acc hl _; cases gs <;> simp_all [dictLoop, dictRefM]
  | cons e rest ih =>
    obtain ⟨field, sub⟩ := e
    intro gs acc hl hall
    cases gs with
    | nil => simp at hl
    | cons kg grest =>
      obtain ⟨k, g⟩ := kg
      have h0 := hall 0 (by simp) (by simp)
      simp only [List.getElem_cons_zero] at h0
      obtain ⟨hck, hre, hev⟩ := h0
      have hrest := fun acc' => ih grest acc' (by simpa using hl) (by
        intro i hi hj
        have := hall (i + 1) (by simp; omega) (by simp; omega)
        simpa using this)
      apply M.ext; intro st
      have hg := evalOn_apply hev t sc rfl rfl st
      simp only [dictLoop, dictRefM, M.bind_apply, hck, hre]
      rcases hr : rec sub t sc st with ⟨st1, r1⟩
      rw [hr] at hg
      cases r1 with
      | error e => simp only [hg]
      | ok vc =>
        obtain ⟨v, c⟩ := vc
        simp only [hg]
        cases v <;> simp [hrest]

/-- **A tuple / Pipe over effectful steps**: the steps run once each, in order, each on the result
    of the previous one; SKIP keeps the target, STOP ends the chain — the later steps do not run.
    (Every step is handed a scope with the owner's mode and argument flag.) -/
theorem c03_chain_stateful [LawfulScope σ] (rec : Rec σ) (m : Mode) (a : Bool) :
    ∀ (steps : List Spec) (gs : List (V → M V)) (t : V) (cur : σ) (last : Option σ),
      mode cur = m → argMode cur = a →
      steps.length = gs.length →
      (∀ i (hi : i < steps.length) (hj : i < gs.length), EvalOn rec m a steps[i] gs[i]) →
      tupleLoop rec steps t cur last = chainRefM gs t := by
  intro steps
  induction steps with
  | nil => intro gs t cur last _ _ hl _; cases gs <;> simp_all [tupleLoop, chainRefM]
  | cons s0 rest ih =>
    intro gs t cur last hm ha hl hall
    cases gs with
    | nil => simp at hl
    | cons g grest =>
      have h0 := hall 0 (by simp) (by simp)
      simp only [List.getElem_cons_zero] at h0
      have hm' : mode (nextScope cur last) = m := by rw [nextScope_mode, hm]
      have ha' : argMode (nextScope cur last) = a := by rw [nextScope_argMode, ha]
      have hrest := fun t' l => ih grest t' (nextScope cur last) l hm' ha' (by simpa using hl) (by
        intro i hi hj
        have := hall (i + 1) (by simp; omega) (by simp; omega)
        simpa using this)
      apply M.ext; intro st
      have hg := evalOn_apply h0 t (nextScope cur last) hm' ha' st
      simp only [tupleLoop, chainRefM, M.bind_apply]
      rcases hr : rec s0 t (nextScope cur last) st with ⟨st1, r1⟩
      rw [hr] at hg
      cases r1 with
      | error e => simp only [hg]
      | ok vc =>
        obtain ⟨v, c⟩ := vc
        simp only [hg]
        cases v <;> simp [hrest, M.pure_apply]

/-- **Coalesce over effectful alternatives**: the alternatives run in order, each once; one that
    raises an exception in `skip_exc`, or yields a skipped value, is passed over *keeping the state
    it left* (its calls stay in the log); any other exception propagates; the first non-skipped
    success wins and no later alternative runs. -/
theorem c03_coalesce_stateful (p : Prims) (rec : Rec σ) (t : V) (sc : σ) (sk : Skip) (se : List String) :
    ∀ (subs : List Spec) (gs : List (V → M V)),
      subs.length = gs.length →
      (∀ i (hi : i < subs.length) (hj : i < gs.length), EvalOn rec (mode sc) (argMode sc) subs[i] gs[i]) →
      coalesceLoop p rec t sc sk se subs = coalesceRefM p sk se gs t := by
  intro subs
  induction subs with
  | nil => intro gs hl _; cases gs <;> simp_all [coalesceLoop, coalesceRefM]
  | cons s rest ih =>
    intro gs hl hall
    cases gs with
    | nil => simp at hl
    | cons g grest =>
      have h0 := hall 0 (by simp) (by simp)
      simp only [List.getElem_cons_zero] at h0
      have hrest := ih grest (by simpa using hl) (by
        intro i hi hj
        have := hall (i + 1) (by simp; omega) (by simp; omega)
        simpa using this)
      apply M.ext; intro st
      have hg := evalOn_apply h0 t sc rfl rfl st
      simp only [coalesceLoop, coalesceRefM, M.bind_apply, M.attempt]
      rcases hr : rec s t sc st with ⟨st1, r1⟩
      rw [hr] at hg
      cases r1 with
      | error e => simp only [hg, hrest]
      | ok vc =>
        obtain ⟨v, c⟩ := vc
        simp only [hg, hrest]

/-- the interpreter itself: in AUTO mode (not in argument position) a callable is an effectful
    sub-spec — the call is logged, then Python's part runs on the current target -/
theorem c03_callable_evalOn [LawfulScope σ] (p : Prims) (fuel : Nat) (n k : String) :
    EvalOn (σ := σ) (interp p (fuel + 1)) .auto false (.fn n k) (fun t => callFn p n k [t] []) := by
  intro t sc hm ha
  simp only [interp, Spec.isSpecLike, Bool.false_eq_true, if_false, LawfulScope.argMode_child,
    LawfulScope.mode_child, hm, ha, autoFn]
  simp

/-- at scope `sc` the evaluator logs `L t` and yields `f t` on sub-spec `s` (e.g. an instrumented callable) -/
def LoggedOn (rec : Rec σ) (s : Spec) (f : V → V) (L : V → List Ev) (sc : σ) : Prop :=
  ∀ t st, ∃ c, rec s t sc st = ({ st with log := st.log ++ L t }, .ok (f t, c))

/-- **The call log of a list spec**: the sub-spec's log entries of the items, in the order of the
    iteration, each item once, up to and including the first item that yields STOP — and the
    value is `listRef`.  (Observation named by the property: order and count of the calls.) -/
theorem c03_list_call_log (rec : Rec σ) (sub : Spec) (f : V → V) (L : V → List Ev) (sc : σ)
    (h : LoggedOn rec sub f L sc) :
    ∀ (items acc : List V) (st : St),
      listLoop rec sub sc items acc st =
        ({ st with log := st.log ++ (evaluatedItems f items).flatMap L }, .ok (acc ++ listRef f items)) := by
  intro items
  induction items with
  | nil => intro acc st; simp [listLoop, listRef, evaluatedItems, M.pure_apply]
  | cons x xs ih =>
    intro acc st
    obtain ⟨c, hc⟩ := h x st
    simp only [listLoop, M.bind_apply, hc, listRef, evaluatedItems]
    cases hf : f x <;> simp [ih, M.pure_apply, List.append_assoc]

/-- the interpreter itself satisfies `LoggedOn` for an instrumented callable whose Python part
    succeeds: in AUTO mode it logs one call with the current target and yields the function's value -/
theorem c03_callable_loggedOn [LawfulScope σ] (p : Prims) (fuel : Nat) (n k : String) (f : V → V)
    (hf : ∀ t, p.applyFn k [t] [] = .ok (f t)) (sc : σ) (hm : mode sc = .auto) (ha : argMode sc = false) :
    LoggedOn (interp p (fuel + 1)) (.fn n k) f (fun t => [.call n [t]]) sc := by
  intro t st
  refine ⟨child sc, ?_⟩
  simp only [interp, Spec.isSpecLike, Bool.false_eq_true, if_false, LawfulScope.argMode_child,
    LawfulScope.mode_child, hm, ha, autoFn, callFn, M.bind_apply, M.logEv, M.lift, hf, M.pure_apply]

/-- **Coalesce with `skip_exc=()`** passes over no exception: an error of an alternative
    propagates (with the state it left) and the later alternatives are not evaluated. -/
theorem c03_coalesce_no_skip_exc (p : Prims) (rec : Rec σ) (t : V) (sc : σ) (sk : Skip)
    (s : Spec) (later : List Spec) (st st1 : St) (e : Err) (hs : rec s t sc st = (st1, .error e)) :
    coalesceLoop p rec t sc sk [] (s :: later) st = (st1, .error e) := by
  rw [c03_coalesce_skips p rec t sc sk [] s later st st1 e hs]
  simp [caught]

/-- **Coalesce with `skip=()`** (and without `skip`) skips no value: the first alternative that
    does not raise wins, whatever it yields — `None`, `0`, `''` included. -/
theorem c03_coalesce_skip_nothing (p : Prims) (rec : Rec σ) (t : V) (sc : σ) (se : List String)
    (s : Spec) (later : List Spec) (st st1 : St) (v : V) (c : σ) (hs : rec s t sc st = (st1, .ok (v, c))) :
    coalesceLoop p rec t sc (.anyOf []) se (s :: later) st = (st1, .ok (some v)) ∧
    coalesceLoop p rec t sc .never se (s :: later) st = (st1, .ok (some v)) :=
  ⟨c03_coalesce_first_wins p rec t sc _ se s later st st1 st1 v c hs rfl,
   c03_coalesce_first_wins p rec t sc _ se s later st st1 st1 v c hs rfl⟩

/-! ### non-vacuity -/
example : listRef (fun v => match v with | .int 2 => .skip | .int 4 => .stop | v => v)
    [.int 1, .int 2, .int 3, .int 4, .int 5] = [.int 1, .int 3] := by rfl

/-- a STOP inside the inner chain: the outer step still runs on the inner chain's value; the
    inlined chain would have stopped altogether -/
example :
    let stopper : V → V := fun _ => .stop
    let wrap : V → V := fun v => .list [v]
    chainRef [chainRef [stopper], wrap] (.int 1) = .list [.int 1] ∧
    chainRef [stopper, wrap] (.int 1) = .int 1 := by
  constructor <;> rfl

/-- effectful sub-spec, concretely: `glom([1, 2, 3], [f])` with an instrumented `f` that returns STOP
    on 2 — the interpreter's loop logs `f(1)`, `f(2)` (not `f(3)`) and yields `[1]` -/
private def stopAt2 : Prims :=
  { trivPrims with applyFn := fun _ args _ => match args with
      | [.int 2] => .ok .stop
      | [v] => .ok v
      | _ => .error ⟨"TypeError"⟩ }

example :
    let root : Frames := [{ mode := some .auto, arg := some false }]
    let out := listLoop (interp (σ := Frames) stopAt2 2) (.fn "f" "k") root [.int 1, .int 2, .int 3] [] {}
    out.2 = .ok [.int 1] ∧ out.1.log.length = 2 := by
  constructor <;> rfl

example : evaluatedItems (fun v => match v with | .int 2 => .stop | v => v) [.int 1, .int 2, .int 3] =
    [.int 1, .int 2] := by rfl

-- chainRefM with an effectful step that raises: the later step does not run, the state is kept
example :
    let boom : V → M V := fun _ => do M.logEv (.call "boom" []); M.fail "ValueError"
    let never : V → M V := fun v => do M.logEv (.call "never" []); pure v
    ((chainRefM [boom, never] (.int 1) {}).1.log.length = 1) := by rfl

end Glom.Props.C03
