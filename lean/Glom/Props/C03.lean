import Glom.Lemmas.C07
import Glom.Model.Frames
/-
  C03 — Auto-mode restructuring is compositional in its sub-specs.

  Property theorems only.  They are stated for the loops of the code-shaped
  interpreter (`_handle_dict`, `_handle_list`, `_handle_tuple`, `Coalesce.glomit`,
  written with accumulators and early exits as in the Python) and hold for
  *every* evaluator `rec` of the sub-specs, every scope representation, every
  target and every list length: the output is a function of the sub-specs'
  outputs only.
-/
set_option linter.unusedSectionVars false
namespace Glom.Props.C03
open Glom.Interp ScopeAlg

variable {σ : Type} [ScopeAlg σ]

/-- the evaluator is a pure function `f` of the target on sub-spec `s` (whatever the scope/state) -/
def PureOn (rec : Rec σ) (s : Spec) (f : V → V) : Prop :=
  ∀ t (sc : σ) st, ∃ c, rec s t sc st = (st, .ok (f t, c))

/-- reference: map `f` over the items in order, STOP ends the list, SKIP omits the item -/
def listRef (f : V → V) : List V → List V
  | [] => []
  | x :: xs => match f x with
    | .stop => []
    | .skip => listRef f xs
    | v => v :: listRef f xs

theorem listLoop_eq_ref (rec : Rec σ) (sub : Spec) (f : V → V) (h : PureOn rec sub f) (sc : σ) :
    ∀ (items acc : List V) (st : St), listLoop rec sub sc items acc st = (st, .ok (acc ++ listRef f items)) := by
  intro items
  induction items with
  | nil => intro acc st; simp [listLoop, listRef, M.pure_apply]
  | cons x xs ih =>
    intro acc st
    obtain ⟨c, hc⟩ := h x sc st
    simp only [listLoop, M.bind_apply, hc, listRef]
    cases hf : f x <;> simp [ih, M.pure_apply]

/-- **A list spec maps its sub-spec over the target's iteration, in order**; a sub-result of SKIP
    omits the entry and STOP ends the list. -/
theorem c03_list (rec : Rec σ) (sub : Spec) (f : V → V) (h : PureOn rec sub f) (sc : σ) (items : List V) (st : St) :
    listLoop rec sub sc items [] st = (st, .ok (listRef f items)) := by
  simpa using listLoop_eq_ref rec sub f h sc items [] st

/-- reference for a dict spec with literal keys: the same keys in the same order holding the
    sub-results, entries whose sub-result is SKIP omitted (a repeated key keeps its first position) -/
def dictRef (p : Prims) (t : V) : List (V × (V → V)) → List (V × V) → List (V × V)
  | [], acc => acc
  | (k, f) :: rest, acc => match f t with
    | .skip => dictRef p t rest acc
    | v => dictRef p t rest (dictSet p acc k v)

/-- **A dict spec yields a dict with the same keys in the same order holding the sub-results.** -/
theorem c03_dict (p : Prims) (rec : Rec σ) (t : V) (sc : σ) :
    ∀ (es : List (Spec × Spec)) (fs : List (V × (V → V))) (acc : List (V × V)) (st : St),
      es.length = fs.length →
      (∀ i (hi : i < es.length) (hj : i < fs.length), es[i].1.isComputedKey = false ∧
          reify es[i].1 = some fs[i].1 ∧ PureOn rec es[i].2 fs[i].2) →
      dictLoop p rec t sc es acc st = (st, .ok (dictRef p t fs acc)) := by
  intro es
  induction es with
  | nil => intro fs acc st hl _; cases fs <;> simp_all [dictLoop, dictRef, M.pure_apply]
  | cons e rest ih =>
    obtain ⟨field, sub⟩ := e
    intro fs acc st hl hall
    cases fs with
    | nil => simp at hl
    | cons kf frest =>
      obtain ⟨k, f⟩ := kf
      have h0 := hall 0 (by simp) (by simp)
      simp only [List.getElem_cons_zero] at h0
      obtain ⟨hck, hre, hpure⟩ := h0
      have hrest := fun acc' => ih frest acc' st (by simpa using hl) (by
        intro i hi hj
        have := hall (i + 1) (by simp; omega) (by simp; omega)
        simpa using this)
      obtain ⟨c, hc⟩ := hpure t sc st
      simp only [dictLoop, M.bind_apply, hc, dictRef, hck, hre]
      cases hf : f t <;> simp [hrest]

/-- **A tuple feeds each step's result to the next**: one step of `_handle_tuple`. -/
theorem c03_tuple_step (rec : Rec σ) (a : Spec) (rest : List Spec) (t : V) (cur : σ) (last : Option σ) :
    tupleLoop rec (a :: rest) t cur last =
      (do let r ← rec a t (nextScope cur last)
          match r.1 with
          | .skip => tupleLoop rec rest t (nextScope cur last) (some r.2)
          | .stop => pure t
          | nxt => tupleLoop rec rest nxt (nextScope cur last) (some r.2)) := rfl

/-- **`glom(t, (a, b))` equals `glom(glom(t, a), b)`** when `a`'s result `v` is neither SKIP nor
    STOP: the tuple's value is whatever `b` yields on `v` (in the scope chained after `a`). -/
theorem c03_chain (rec : Rec σ) (a b : Spec) (t v : V) (cur ca : σ) (st st1 : St)
    (ha : rec a t cur st = (st1, .ok (v, ca))) (hv : v ≠ .skip ∧ v ≠ .stop) :
    tupleLoop rec [a, b] t cur Option.none st =
      (match rec b v (chain cur ca) st1 with
       | (st2, .ok (w, _)) => (st2, .ok (match w with | .skip => v | .stop => v | w => w))
       | (st2, .error e) => (st2, .error e)) := by
  obtain ⟨h1, h2⟩ := hv
  cases v <;> first
    | exact absurd rfl h1
    | exact absurd rfl h2
    | (simp only [tupleLoop, nextScope, M.bind_apply, ha]
       rcases hb : rec b _ (chain cur ca) st1 with ⟨st2, r⟩
       cases r with
       | error e => rfl
       | ok wc => obtain ⟨w, c2⟩ := wc; cases w <;> rfl)

/-- **Pipe(a, b, …) is the tuple (a, b, …)**: both run `_handle_tuple` on their own scope. -/
theorem c03_pipe_eq_tuple (p : Prims) (rec : Rec σ) (xs : List Spec) (t : V) (sc : σ) :
    glomit p rec (.pipe xs) t sc = (do let v ← autoFn p rec (.tuple xs) t sc; pure (v, sc)) := rfl

/-- **Coalesce: the first non-skipped success wins and later alternatives are not evaluated** —
    the outcome does not mention (or run) anything after the winning alternative. -/
theorem c03_coalesce_first_wins (p : Prims) (rec : Rec σ) (t : V) (sc : σ) (sk : Skip) (se : List String)
    (s : Spec) (later : List Spec) (st st1 st2 : St) (v : V) (c : σ)
    (hs : rec s t sc st = (st1, .ok (v, c))) (hk : skipFunc p sk v st1 = (st2, .ok false)) :
    coalesceLoop p rec t sc sk se (s :: later) st = (st2, .ok (some v)) := by
  simp only [coalesceLoop, M.bind_apply, M.attempt, hs, hk]
  rfl

/-- … an alternative that raises an exception matching `skip_exc` (or yields a skipped value) is
    passed over, anything else propagates. -/
theorem c03_coalesce_skips (p : Prims) (rec : Rec σ) (t : V) (sc : σ) (sk : Skip) (se : List String)
    (s : Spec) (later : List Spec) (st st1 : St) (e : Err) (hs : rec s t sc st = (st1, .error e)) :
    coalesceLoop p rec t sc sk se (s :: later) st =
      if caught p se e then coalesceLoop p rec t sc sk se later st1 else (st1, .error e) := by
  simp only [coalesceLoop, M.bind_apply, M.attempt, hs]
  split <;> rfl

/-- **Val, Spec, callables**: `Val(v)` is `v`; `Spec(s)` is `s`; a callable receives the current
    target (and is logged once). -/
theorem c03_val_spec_callable (p : Prims) (rec : Rec σ) (t v : V) (sc : σ) (s : Spec) (n k : String) :
    glomit p rec (.val v) t sc = pure (v, sc) ∧
    glomit p rec (.specW s []) t sc = (do let r ← rec s t sc; pure (r.1, sc)) ∧
    autoFn p rec (.fn n k) t sc = callFn p n k [t] [] := ⟨rfl, rfl, rfl⟩

/-- **Each container evaluates its sub-specs at its own scope**: the output is determined by the
    evaluator's behaviour on the sub-specs alone (see `c07_siblings_isolated`). -/
theorem c03_determined_by_subspecs (p : Prims) (rec1 rec2 : Rec σ) (t : V) (sc : σ) (h : AgreeAt rec1 rec2 sc) :
    (∀ es acc, dictLoop p rec1 t sc es acc = dictLoop p rec2 t sc es acc) ∧
    (∀ sub items acc, listLoop rec1 sub sc items acc = listLoop rec2 sub sc items acc) :=
  ⟨dictLoop_congr p t sc h, fun sub => listLoop_congr sub sc h⟩

/-! ### nested chains: STOP ends the chain it occurs in, and only that one -/

/-- reference for a chain of pure steps: each result feeds the next step, SKIP omits the step,
    STOP ends the chain with the value reached so far -/
def chainRef : List (V → V) → V → V
  | [], t => t
  | f :: fs, t => match f t with
    | .skip => chainRef fs t
    | .stop => t
    | v => chainRef fs v

def isSentinel : V → Bool
  | .skip | .stop => true
  | _ => false

/-- **A tuple / Pipe of pure steps is `chainRef`** (any length, SKIP / STOP at any position). -/
theorem c03_chain_ref (rec : Rec σ) :
    ∀ (steps : List Spec) (fs : List (V → V)) (t : V) (cur : σ) (last : Option σ) (st : St),
      steps.length = fs.length →
      (∀ i (hi : i < steps.length) (hj : i < fs.length), PureOn rec steps[i] fs[i]) →
      tupleLoop rec steps t cur last st = (st, .ok (chainRef fs t)) := by
  intro steps
  induction steps with
  | nil => intro fs t cur last st hl _; cases fs <;> simp_all [tupleLoop, chainRef, M.pure_apply]
  | cons a rest ih =>
    intro fs t cur last st hl hall
    cases fs with
    | nil => simp at hl
    | cons f frest =>
      have h0 := hall 0 (by simp) (by simp)
      simp only [List.getElem_cons_zero] at h0
      obtain ⟨c, hc⟩ := h0 t (nextScope cur last) st
      have hrest := fun t' l => ih frest t' (nextScope cur last) l st (by simpa using hl) (by
        intro i hi hj
        have := hall (i + 1) (by simp; omega) (by simp; omega)
        simpa using this)
      simp only [tupleLoop, M.bind_apply, hc, chainRef]
      cases hf : f t <;> simp [hrest, M.pure_apply]

/-- the result of a chain is never a sentinel (unless its input was one): STOP and SKIP are
    consumed by the chain they occur in -/
theorem chainRef_not_sentinel : ∀ (fs : List (V → V)) (t : V), isSentinel t = false →
    isSentinel (chainRef fs t) = false := by
  intro fs
  induction fs with
  | nil => intro t h; simpa [chainRef] using h
  | cons f fs ih =>
    intro t h
    simp only [chainRef]
    cases hf : f t <;> simp only <;> first | exact h | exact ih _ h | exact ih _ (by simp [isSentinel])

/-- **A chain nested in a chain**: `glom(t, ((a₁, …, aₙ), b₁, …))` is `glom(glom(t, (a₁, …, aₙ)), (b₁, …))`
    — also when some `aᵢ` returned STOP: the inner chain ends there, its value goes on to the outer
    steps.  (Inlining the inner steps into the outer chain is *not* equivalent: see the example below.) -/
theorem c03_nested_chain (fs gs : List (V → V)) (t : V) (ht : isSentinel t = false) :
    chainRef (chainRef fs :: gs) t = chainRef gs (chainRef fs t) := by
  have h := chainRef_not_sentinel fs t ht
  simp only [chainRef]
  cases hv : chainRef fs t <;> simp_all [isSentinel]

/-- … at the level of the interpreter's loop: an inner chain `a` that the evaluator computes as
    `chainRef fs` (by `c03_chain_ref` one level down) hands its value to the remaining outer steps. -/
theorem c03_nested_chain_loop (rec : Rec σ) (a : Spec) (rest : List Spec) (fs : List (V → V)) (t : V)
    (cur : σ) (last : Option σ) (st : St) (ha : PureOn rec a (chainRef fs)) (ht : isSentinel t = false) :
    ∃ c, tupleLoop rec (a :: rest) t cur last st =
      tupleLoop rec rest (chainRef fs t) (nextScope cur last) (some c) st := by
  obtain ⟨c, hc⟩ := ha t (nextScope cur last) st
  refine ⟨c, ?_⟩
  have h := chainRef_not_sentinel fs t ht
  simp only [tupleLoop, M.bind_apply, hc]
  cases hv : chainRef fs t <;> simp_all [isSentinel]

/-! ### non-vacuity -/
example : listRef (fun v => match v with | .int 2 => .skip | .int 4 => .stop | v => v)
    [.int 1, .int 2, .int 3, .int 4, .int 5] = [.int 1, .int 3] := by rfl

/-- a STOP inside the inner chain: the outer step still runs on the inner chain's value; the
    inlined chain would have stopped altogether -/
example :
    let stopper : V → V := fun _ => .stop
    let wrap : V → V := fun v => .list [v]
    chainRef [chainRef [stopper], wrap] (.int 1) = .list [.int 1] ∧
    chainRef [stopper, wrap] (.int 1) = .int 1 := by
  constructor <;> rfl

end Glom.Props.C03
