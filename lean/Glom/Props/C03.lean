import Glom.Lemmas.C07
import Glom.Model.Frames
/-
  C03 — Auto-mode restructuring is compositional in its sub-specs.

  Property theorems only.  They are stated for the loops of the code-shaped
  interpreter (`_handle_dict`, `_handle_list`, `_handle_tuple`, `Coalesce.glomit`,
  written with accumulators and early exits as in the Python) and hold for
  *every* evaluator `rec` of the sub-specs, every scope representation, every
  target and every list length: the output is a function of the sub-specs'
  outputs only.
-/
set_option linter.unusedSectionVars false
namespace Glom.Props.C03
open Glom.Interp ScopeAlg

variable {σ : Type} [ScopeAlg σ]

/-- the evaluator is a pure function `f` of the target on sub-spec `s` (whatever the scope/state) -/
def PureOn (rec : Rec σ) (s : Spec) (f : V → V) : Prop :=
  ∀ t (sc : σ) st, ∃ c, rec s t sc st = (st, .ok (f t, c))

/-- reference: map `f` over the items in order, STOP ends the list, SKIP omits the item -/
def listRef (f : V → V) : List V → List V
  | [] => []
  | x :: xs => match f x with
    | .stop => []
    | .skip => listRef f xs
    | v => v :: listRef f xs

theorem listLoop_eq_ref (rec : Rec σ) (sub : Spec) (f : V → V) (h : PureOn rec sub f) (sc : σ) :
    ∀ (items acc : List V) (st : St), listLoop rec sub sc items acc st = (st, .ok (acc ++ listRef f items)) := by
  intro items
  induction items with
  | nil => intro acc st; simp [listLoop, listRef, M.pure_apply]
  | cons x xs ih =>
    intro acc st
    obtain ⟨c, hc⟩ := h x sc st
    simp only [listLoop, M.bind_apply, hc, listRef]
    cases hf : f x <;> simp [ih, M.pure_apply]

/-- **A list spec maps its sub-spec over the target's iteration, in order**; a sub-result of SKIP
    omits the entry and STOP ends the list. -/
theorem c03_list (rec : Rec σ) (sub : Spec) (f : V → V) (h : PureOn rec sub f) (sc : σ) (items : List V) (st : St) :
    listLoop rec sub sc items [] st = (st, .ok (listRef f items)) := by
  simpa using listLoop_eq_ref rec sub f h sc items [] st

/-- reference for a dict spec with literal keys: the same keys in the same order holding the
    sub-results, entries whose sub-result is SKIP omitted (a repeated key keeps its first position) -/
def dictRef (p : Prims) (t : V) : List (V × (V → V)) → List (V × V) → List (V × V)
  | [], acc => acc
  | (k, f) :: rest, acc => match f t with
    | .skip => dictRef p t rest acc
    | v => dictRef p t rest (dictSet p acc k v)

/-- **A dict spec yields a dict with the same keys in the same order holding the sub-results.** -/
theorem c03_dict (p : Prims) (rec : Rec σ) (t : V) (sc : σ) :
    ∀ (es : List (Spec × Spec)) (fs : List (V × (V → V))) (acc : List (V × V)) (st : St),
      es.length = fs.length →
      (∀ i (hi : i < es.length) (hj : i < fs.length), es[i].1.isComputedKey = false ∧
          reify es[i].1 = some fs[i].1 ∧ PureOn rec es[i].2 fs[i].2) →
      dictLoop p rec t sc es acc st = (st, .ok (dictRef p t fs acc)) := by
  intro es
  induction es with
  | nil => intro fs acc st hl _; cases fs <;> simp_all [dictLoop, dictRef, M.pure_apply]
  | cons e rest ih =>
    obtain ⟨field, sub⟩ := e
    intro fs acc st hl hall
    cases fs with
    | nil => simp at hl
    | cons kf frest =>
      obtain ⟨k, f⟩ := kf
      have h0 := hall 0 (by simp) (by simp)
      simp only [List.getElem_cons_zero] at h0
      obtain ⟨hck, hre, hpure⟩ := h0
      have hrest := fun acc' => ih frest acc' st (by simpa using hl) (by
        intro i hi hj
        have := hall (i + 1) (by simp; omega) (by simp; omega)
        simpa using this)
      obtain ⟨c, hc⟩ := hpure t sc st
      simp only [dictLoop, M.bind_apply, hc, dictRef, hck, hre]
      cases hf : f t <;> simp [hrest]

/-- **A tuple feeds each step's result to the next**: one step of `_handle_tuple`. -/
theorem c03_tuple_step (rec : Rec σ) (a : Spec) (rest : List Spec) (t : V) (cur : σ) (last : Option σ) :
    tupleLoop rec (a :: rest) t cur last =
      (do let r ← rec a t (nextScope cur last)
          match r.1 with
          | .skip => tupleLoop rec rest t (nextScope cur last) (some r.2)
          | .stop => pure t
          | nxt => tupleLoop rec rest nxt (nextScope cur last) (some r.2)) := rfl

/-- **`glom(t, (a, b))` equals `glom(glom(t, a), b)`** when `a`'s result `v` is neither SKIP nor
    STOP: the tuple's value is whatever `b` yields on `v` (in the scope chained after `a`). -/
theorem c03_chain (rec : Rec σ) (a b : Spec) (t v : V) (cur ca : σ) (st st1 : St)
    (ha : rec a t cur st = (st1, .ok (v, ca))) (hv : v ≠ .skip ∧ v ≠ .stop) :
    tupleLoop rec [a, b] t cur Option.none st =
      (match rec b v (chain cur ca) st1 with
       | (st2, .ok (w, _)) => (st2, .ok (match w with | .skip => v | .stop => v | w => w))
       | (st2, .error e) => (st2, .error e)) := by
  obtain ⟨h1, h2⟩ := hv
  cases v <;> first
    | exact absurd rfl h1
    | exact absurd rfl h2
    | (simp only [tupleLoop, nextScope, M.bind_apply, ha]
       rcases hb : rec b _ (chain cur ca) st1 with ⟨st2, r⟩
       cases r with
       | error e => rfl
       | ok wc => obtain ⟨w, c2⟩ := wc; cases w <;> rfl)

/-- **Pipe(a, b, …) is the tuple (a, b, …)**: both run `_handle_tuple` on their own scope. -/
theorem c03_pipe_eq_tuple (p : Prims) (rec : Rec σ) (xs : List Spec) (t : V) (sc : σ) :
    glomit p rec (.pipe xs) t sc = (do let v ← autoFn p rec (.tuple xs) t sc; pure (v, sc)) := rfl

/-- **Coalesce: the first non-skipped success wins and later alternatives are not evaluated** —
    the outcome does not mention (or run) anything after the winning alternative. -/
theorem c03_coalesce_first_wins (p : Prims) (rec : Rec σ) (t : V) (sc : σ) (sk : Skip) (se : List String)
    (s : Spec) (later : List Spec) (st st1 st2 : St) (v : V) (c : σ)
    (hs : rec s t sc st = (st1, .ok (v, c))) (hk : skipFunc p sk v st1 = (st2, .ok false)) :
    coalesceLoop p rec t sc sk se (s :: later) st = (st2, .ok (some v)) := by
  simp only [coalesceLoop, M.bind_apply, M.attempt, hs, hk]
  rfl

/-- … an alternative that raises an exception matching `skip_exc` (or yields a skipped value) is
    passed over, anything else propagates. -/
theorem c03_coalesce_skips (p : Prims) (rec : Rec σ) (t : V) (sc : σ) (sk : Skip) (se : List String)
    (s : Spec) (later : List Spec) (st st1 : St) (e : Err) (hs : rec s t sc st = (st1, .error e)) :
    coalesceLoop p rec t sc sk se (s :: later) st =
      if caught p se e then coalesceLoop p rec t sc sk se later st1 else (st1, .error e) := by
  simp only [coalesceLoop, M.bind_apply, M.attempt, hs]
  split <;> rfl

/-- **Val, Spec, callables**: `Val(v)` is `v`; `Spec(s)` is `s`; a callable receives the current
    target (and is logged once). -/
theorem c03_val_spec_callable (p : Prims) (rec : Rec σ) (t v : V) (sc : σ) (s : Spec) (n k : String) :
    glomit p rec (.val v) t sc = pure (v, sc) ∧
    glomit p rec (.specW s []) t sc = (do let r ← rec s t sc; pure (r.1, sc)) ∧
    autoFn p rec (.fn n k) t sc = callFn p n k [t] [] := ⟨rfl, rfl, rfl⟩

/-- **Each container evaluates its sub-specs at its own scope**: the output is determined by the
    evaluator's behaviour on the sub-specs alone (see `c07_siblings_isolated`). -/
theorem c03_determined_by_subspecs (p : Prims) (rec1 rec2 : Rec σ) (t : V) (sc : σ) (h : AgreeAt rec1 rec2 sc) :
    (∀ es acc, dictLoop p rec1 t sc es acc = dictLoop p rec2 t sc es acc) ∧
    (∀ sub items acc, listLoop rec1 sub sc items acc = listLoop rec2 sub sc items acc) :=
  ⟨dictLoop_congr p t sc h, fun sub => listLoop_congr sub sc h⟩

/-! ### non-vacuity -/
example : listRef (fun v => match v with | .int 2 => .skip | .int 4 => .stop | v => v)
    [.int 1, .int 2, .int 3, .int 4, .int 5] = [.int 1, .int 3] := by rfl

end Glom.Props.C03
