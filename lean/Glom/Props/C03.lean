import Glom.Lemmas.C07
import Glom.Lemmas.C03
import Glom.Lemmas.C03Compose
import Glom.Lemmas.C03Pure
import Glom.Model.Frames
import Glom.Spec.InterpFacts
/-
  C03 — Auto-mode restructuring is compositional in its sub-specs.

  Property theorems only.  They are stated for the loops of the code-shaped
  interpreter (`_handle_dict`, `_handle_list`, `_handle_tuple`, `Coalesce.glomit`,
  written with accumulators and early exits as in the Python) and hold for
  *every* evaluator `rec` of the sub-specs, every scope representation, every
  target and every list length: the output is a function of the sub-specs'
  outputs only.
-/
set_option linter.unusedSectionVars false
namespace Glom.Props.C03
open Glom.Interp ScopeAlg

/-- **facts obligation**: the decision logic of the interpreter core extracted from /repo on this
    run has the shape the model mirrors (`Glom/Spec/InterpFacts.lean`) -/
theorem c03_facts_wf : c03FactsWF = true := by decide

variable {σ : Type} [ScopeAlg σ]

/-- **A list spec maps its sub-spec over the target's iteration, in order**; a sub-result of SKIP
    omits the entry and STOP ends the list. -/
theorem c03_list (rec : Rec σ) (sub : Spec) (f : V → V) (h : PureOn rec sub f) (sc : σ) (items : List V) (st : St) :
    listLoop rec sub sc items [] st = (st, .ok (listRef f items)) := by
  simpa using listLoop_eq_ref rec sub f h sc items [] st

/-- **A dict spec yields a dict with the same keys in the same order holding the sub-results.** -/
theorem c03_dict (p : Prims) (rec : Rec σ) (t : V) (sc : σ) :
    ∀ (es : List (Spec × Spec)) (fs : List (V × (V → V))) (acc : List (V × V)) (st : St),
      es.length = fs.length →
      (∀ i (hi : i < es.length) (hj : i < fs.length), es[i].1.isComputedKey = false ∧
          reify es[i].1 = some fs[i].1 ∧ PureOn rec es[i].2 fs[i].2) →
      dictLoop p rec t sc es acc st = (st, .ok (dictRef p t fs acc)) := by
  intro es
  induction es with
  | nil => intro fs acc st hl _; cases fs <;> simp_all [dictLoop, dictRef, M.pure_apply]
  | cons e rest ih =>
    obtain ⟨field, sub⟩ := e
    intro fs acc st hl hall
    cases fs with
    | nil => simp at hl
    | cons kf frest =>
      obtain ⟨k, f⟩ := kf
      have h0 := hall 0 (by simp) (by simp)
      simp only [List.getElem_cons_zero] at h0
      obtain ⟨hck, hre, hpure⟩ := h0
      have hrest := fun acc' => ih frest acc' st (by simpa using hl) (by
        intro i hi hj
        have := hall (i + 1) (by simp; omega) (by simp; omega)
        simpa using this)
      obtain ⟨c, hc⟩ := hpure t sc st
      simp only [dictLoop, M.bind_apply, hc, dictRef, hck, hre]
      cases hf : f t <;> simp [hrest]

/-- **`glom(t, (a, b))` equals `glom(glom(t, a), b)`** when `a`'s result `v` is neither SKIP nor
    STOP: the tuple's value is whatever `b` yields on `v` (in the scope chained after `a`). -/
theorem c03_chain (rec : Rec σ) (a b : Spec) (t v : V) (cur ca : σ) (st st1 : St)
    (ha : rec a t cur st = (st1, .ok (v, ca))) (hv : v ≠ .skip ∧ v ≠ .stop) :
    tupleLoop rec [a, b] t cur Option.none st =
      (match rec b v (chain cur ca) st1 with
       | (st2, .ok (w, _)) => (st2, .ok (match w with | .skip => v | .stop => v | w => w))
       | (st2, .error e) => (st2, .error e)) := by
  obtain ⟨h1, h2⟩ := hv
  cases v <;> first
    | exact absurd rfl h1
    | exact absurd rfl h2
    | (simp only [tupleLoop, nextScope, M.bind_apply, ha]
       rcases hb : rec b _ (chain cur ca) st1 with ⟨st2, r⟩
       cases r with
       | error e => rfl
       | ok wc => obtain ⟨w, c2⟩ := wc; cases w <;> rfl)

/-- **Coalesce: the first non-skipped success wins and later alternatives are not evaluated** —
    the outcome does not mention (or run) anything after the winning alternative. -/
theorem c03_coalesce_first_wins (p : Prims) (rec : Rec σ) (t : V) (sc : σ) (sk : Skip) (se : List String)
    (s : Spec) (later : List Spec) (st st1 st2 : St) (v : V) (c : σ)
    (hs : rec s t sc st = (st1, .ok (v, c))) (hk : skipFunc p sk v st1 = (st2, .ok false)) :
    coalesceLoop p rec t sc sk se (s :: later) st = (st2, .ok (some v)) := by
  simp only [coalesceLoop, M.bind_apply, M.attempt, hs, hk]
  rfl

/-- … an alternative that raises an exception matching `skip_exc` (or yields a skipped value) is
    passed over, anything else propagates. -/
theorem c03_coalesce_skips (p : Prims) (rec : Rec σ) (t : V) (sc : σ) (sk : Skip) (se : List String)
    (s : Spec) (later : List Spec) (st st1 : St) (e : Err) (hs : rec s t sc st = (st1, .error e)) :
    coalesceLoop p rec t sc sk se (s :: later) st =
      if caught p se e then coalesceLoop p rec t sc sk se later st1 else (st1, .error e) := by
  simp only [coalesceLoop, M.bind_apply, M.attempt, hs]
  split <;> rfl

/-- **Each container evaluates its sub-specs at its own scope**: the output is determined by the
    evaluator's behaviour on the sub-specs alone (see `c07_siblings_isolated`). -/
theorem c03_determined_by_subspecs (p : Prims) (rec1 rec2 : Rec σ) (t : V) (sc : σ) (h : AgreeAt rec1 rec2 sc) :
    (∀ es acc, dictLoop p rec1 t sc es acc = dictLoop p rec2 t sc es acc) ∧
    (∀ sub items acc, listLoop rec1 sub sc items acc = listLoop rec2 sub sc items acc) :=
  ⟨dictLoop_congr p t sc h, fun sub => listLoop_congr sub sc h⟩

/-- **Inspect is transparent**: debugging aside, `Inspect(s)` (no callbacks; what it echoes is not
    part of the result) evaluates `s` once, in its own scope, and yields its value or its exception —
    it is `Spec(s)`. -/
theorem c03_inspect_transparent (p : Prims) (rec : Rec σ) (s : Spec) (t : V) (sc : σ) :
    glomit p rec (.inspect s Option.none Option.none) t sc = glomit p rec (.specW s []) t sc := by
  apply M.ext; intro st
  simp only [glomit, callOpt, M.bind_apply, M.pure_apply, M.attempt, List.foldl_nil]
  rcases rec s t sc st with ⟨st1, r⟩
  cases r with
  | ok x => rfl
  | error e => simp only; split <;> rfl

/-- **Inspect's callbacks**: `breakpoint` is called once, without arguments, before the wrapped spec;
    when the wrapped spec raises, `post_mortem` is called once and the exception is re-raised (unless
    `post_mortem` itself raises); when it succeeds `post_mortem` is not called.  (The model's own
    "outside the modelled domain" markers are not exceptions of the program.) -/
theorem c03_inspect_callbacks (p : Prims) (rec : Rec σ) (s : Spec) (bp pm : Option (String × String)) (t : V)
    (sc : σ) (st st0 st1 : St) (hbp : callOpt p bp st = (st0, .ok ())) :
    (∀ v c, rec s t sc st0 = (st1, .ok (v, c)) →
      glomit p rec (.inspect s bp pm) t sc st = (st1, .ok (v, sc))) ∧
    (∀ e, rec s t sc st0 = (st1, .error e) → e.cls ≠ "Unsupported" → e.cls ≠ "OutOfFuel" →
      glomit p rec (.inspect s bp pm) t sc st =
        (match callOpt p pm st1 with
         | (st2, .ok _) => (st2, .error e)
         | (st2, .error e') => (st2, .error e'))) := by
  constructor
  · intro v c h
    simp only [glomit, M.bind_apply, hbp, M.attempt, h, M.pure_apply]
  · intro e h h1 h2
    have hc : (e.cls == "Unsupported" || e.cls == "OutOfFuel") = false := by simp [h1, h2]
    simp only [glomit, M.bind_apply, hbp, M.attempt, h, hc, Bool.false_eq_true, if_false]
    rcases callOpt p pm st1 with ⟨st2, r⟩
    cases r <;> rfl

/-! ### nested chains: STOP ends the chain it occurs in, and only that one -/

/-- **A tuple / Pipe of pure steps is `chainRef`** (any length, SKIP / STOP at any position). -/
theorem c03_chain_ref (rec : Rec σ) :
    ∀ (steps : List Spec) (fs : List (V → V)) (t : V) (cur : σ) (last : Option σ) (st : St),
      steps.length = fs.length →
      (∀ i (hi : i < steps.length) (hj : i < fs.length), PureOn rec steps[i] fs[i]) →
      tupleLoop rec steps t cur last st = (st, .ok (chainRef fs t)) := by
  intro steps
  induction steps with
  | nil => intro fs t cur last st hl _; cases fs <;> simp_all [tupleLoop, chainRef, M.pure_apply]
  | cons a rest ih =>
    intro fs t cur last st hl hall
    cases fs with
    | nil => simp at hl
    | cons f frest =>
      have h0 := hall 0 (by simp) (by simp)
      simp only [List.getElem_cons_zero] at h0
      obtain ⟨c, hc⟩ := h0 t (nextScope cur last) st
      have hrest := fun t' l => ih frest t' (nextScope cur last) l st (by simpa using hl) (by
        intro i hi hj
        have := hall (i + 1) (by simp; omega) (by simp; omega)
        simpa using this)
      simp only [tupleLoop, M.bind_apply, hc, chainRef]
      cases hf : f t <;> simp [hrest, M.pure_apply]

/-- **A chain nested in a chain**: `glom(t, ((a₁, …, aₙ), b₁, …))` is `glom(glom(t, (a₁, …, aₙ)), (b₁, …))`
    — also when some `aᵢ` returned STOP: the inner chain ends there, its value goes on to the outer
    steps.  (Inlining the inner steps into the outer chain is *not* equivalent: see the example below.) -/
theorem c03_nested_chain (fs gs : List (V → V)) (t : V) (ht : isSentinel t = false) :
    chainRef (chainRef fs :: gs) t = chainRef gs (chainRef fs t) := by
  have h := chainRef_not_sentinel fs t ht
  simp only [chainRef]
  cases hv : chainRef fs t <;> simp_all [isSentinel]

/-- … at the level of the interpreter's loop: an inner chain `a` that the evaluator computes as
    `chainRef fs` (by `c03_chain_ref` one level down) hands its value to the remaining outer steps. -/
theorem c03_nested_chain_loop (rec : Rec σ) (a : Spec) (rest : List Spec) (fs : List (V → V)) (t : V)
    (cur : σ) (last : Option σ) (st : St) (ha : PureOn rec a (chainRef fs)) (ht : isSentinel t = false) :
    ∃ c, tupleLoop rec (a :: rest) t cur last st =
      tupleLoop rec rest (chainRef fs t) (nextScope cur last) (some c) st := by
  obtain ⟨c, hc⟩ := ha t (nextScope cur last) st
  refine ⟨c, ?_⟩
  have h := chainRef_not_sentinel fs t ht
  simp only [tupleLoop, M.bind_apply, hc]
  cases hv : chainRef fs t <;> simp_all [isSentinel]

/-! ### evaluators with effects: each sub-spec is evaluated once, left to right

The laws above are relative to a *pure* evaluator of the sub-specs (`PureOn`).  The following ones
drop that: the sub-specs may log calls (instrumented callables), write `S.globals` / `Vars`, and
raise.  `EvalOn rec m a s g` says that on sub-spec `s` the evaluator computes the state-threading
function `g : V → M V` at every scope whose mode is `m` and whose argument flag is `a` (the
interpreter itself satisfies this for, e.g., a callable in AUTO mode: see the examples); the loops
of the interpreter are then the accumulator-free references `listRefM` / `dictRefM` / `chainRefM`
of `Glom/Spec/C03.lean`, which run `g` exactly once per item / entry / step, in order, threading
the state, and stop at the first exception with the state reached so far. -/

/-- **A list spec over an effectful sub-spec**: the sub-spec runs once per item, in order, the state
    (call log, ScopeVars) threaded through; SKIP omits the item, STOP ends the list — nothing after
    it runs —, an exception ends the evaluation with the state reached so far. -/
theorem c03_list_stateful (rec : Rec σ) (sub : Spec) (g : V → M V) (sc : σ)
    (h : EvalOn rec (mode sc) (argMode sc) sub g) :
    ∀ (items acc : List V),
      listLoop rec sub sc items acc = (do let r ← listRefM g items; pure (acc ++ r)) := by
  intro items
  induction items with
  | nil => intro acc; apply M.ext; intro st; simp [listLoop, listRefM, M.bind_apply, M.pure_apply]
  | cons x xs ih =>
    intro acc
    apply M.ext; intro st
    have hg := evalOn_apply h x sc rfl rfl st
    simp only [listLoop, listRefM, M.bind_apply]
    rcases hr : rec sub x sc st with ⟨st1, r1⟩
    rw [hr] at hg
    cases r1 with
    | error e => simp only [hg]
    | ok vc =>
      obtain ⟨v, c⟩ := vc
      simp only [hg]
      cases v <;> simp [ih, M.bind_apply, M.pure_apply] <;>
        (rcases listRefM g xs st1 with ⟨st2, r2⟩; cases r2 <;> simp)

/-- **A dict spec over effectful value specs** (literal keys): every value spec runs once, in the
    order of the spec, on the same target; a SKIP result omits the entry. -/
theorem c03_dict_stateful (p : Prims) (rec : Rec σ) (t : V) (sc : σ) :
    ∀ (es : List (Spec × Spec)) (gs : List (V × (V → M V))) (acc : List (V × V)),
      es.length = gs.length →
      (∀ i (hi : i < es.length) (hj : i < gs.length), es[i].1.isComputedKey = false ∧
          reify es[i].1 = some gs[i].1 ∧ EvalOn rec (mode sc) (argMode sc) es[i].2 gs[i].2) →
      dictLoop p rec t sc es acc = dictRefM p t gs acc := by
  intro es
  induction es with
  | nil => intro gs acc hl _; cases gs <;> simp_all [dictLoop, dictRefM]
  | cons e rest ih =>
    obtain ⟨field, sub⟩ := e
    intro gs acc hl hall
    cases gs with
    | nil => simp at hl
    | cons kg grest =>
      obtain ⟨k, g⟩ := kg
      have h0 := hall 0 (by simp) (by simp)
      simp only [List.getElem_cons_zero] at h0
      obtain ⟨hck, hre, hev⟩ := h0
      have hrest := fun acc' => ih grest acc' (by simpa using hl) (by
        intro i hi hj
        have := hall (i + 1) (by simp; omega) (by simp; omega)
        simpa using this)
      apply M.ext; intro st
      have hg := evalOn_apply hev t sc rfl rfl st
      simp only [dictLoop, dictRefM, M.bind_apply, hck, hre]
      rcases hr : rec sub t sc st with ⟨st1, r1⟩
      rw [hr] at hg
      cases r1 with
      | error e => simp only [hg]
      | ok vc =>
        obtain ⟨v, c⟩ := vc
        simp only [hg]
        cases v <;> simp [hrest]

/-- **A tuple / Pipe over effectful steps**: the steps run once each, in order, each on the result
    of the previous one; SKIP keeps the target, STOP ends the chain — the later steps do not run.
    (Every step is handed a scope with the owner's mode and argument flag.) -/
theorem c03_chain_stateful [LawfulScope σ] (rec : Rec σ) (m : Mode) (a : Bool) :
    ∀ (steps : List Spec) (gs : List (V → M V)) (t : V) (cur : σ) (last : Option σ),
      mode cur = m → argMode cur = a →
      steps.length = gs.length →
      (∀ i (hi : i < steps.length) (hj : i < gs.length), EvalOn rec m a steps[i] gs[i]) →
      tupleLoop rec steps t cur last = chainRefM gs t := by
  intro steps
  induction steps with
  | nil => intro gs t cur last _ _ hl _; cases gs <;> simp_all [tupleLoop, chainRefM]
  | cons s0 rest ih =>
    intro gs t cur last hm ha hl hall
    cases gs with
    | nil => simp at hl
    | cons g grest =>
      have h0 := hall 0 (by simp) (by simp)
      simp only [List.getElem_cons_zero] at h0
      have hm' : mode (nextScope cur last) = m := by rw [nextScope_mode, hm]
      have ha' : argMode (nextScope cur last) = a := by rw [nextScope_argMode, ha]
      have hrest := fun t' l => ih grest t' (nextScope cur last) l hm' ha' (by simpa using hl) (by
        intro i hi hj
        have := hall (i + 1) (by simp; omega) (by simp; omega)
        simpa using this)
      apply M.ext; intro st
      have hg := evalOn_apply h0 t (nextScope cur last) hm' ha' st
      simp only [tupleLoop, chainRefM, M.bind_apply]
      rcases hr : rec s0 t (nextScope cur last) st with ⟨st1, r1⟩
      rw [hr] at hg
      cases r1 with
      | error e => simp only [hg]
      | ok vc =>
        obtain ⟨v, c⟩ := vc
        simp only [hg]
        cases v <;> simp [hrest, M.pure_apply]

/-- **Coalesce over effectful alternatives**: the alternatives run in order, each once; one that
    raises an exception in `skip_exc`, or yields a skipped value, is passed over *keeping the state
    it left* (its calls stay in the log); any other exception propagates; the first non-skipped
    success wins and no later alternative runs. -/
theorem c03_coalesce_stateful (p : Prims) (rec : Rec σ) (t : V) (sc : σ) (sk : Skip) (se : List String) :
    ∀ (subs : List Spec) (gs : List (V → M V)),
      subs.length = gs.length →
      (∀ i (hi : i < subs.length) (hj : i < gs.length), EvalOn rec (mode sc) (argMode sc) subs[i] gs[i]) →
      coalesceLoop p rec t sc sk se subs = coalesceRefM p sk se gs t := by
  intro subs
  induction subs with
  | nil => intro gs hl _; cases gs <;> simp_all [coalesceLoop, coalesceRefM]
  | cons s rest ih =>
    intro gs hl hall
    cases gs with
    | nil => simp at hl
    | cons g grest =>
      have h0 := hall 0 (by simp) (by simp)
      simp only [List.getElem_cons_zero] at h0
      have hrest := ih grest (by simpa using hl) (by
        intro i hi hj
        have := hall (i + 1) (by simp; omega) (by simp; omega)
        simpa using this)
      apply M.ext; intro st
      have hg := evalOn_apply h0 t sc rfl rfl st
      simp only [coalesceLoop, coalesceRefM, M.bind_apply, M.attempt]
      rcases hr : rec s t sc st with ⟨st1, r1⟩
      rw [hr] at hg
      cases r1 with
      | error e => simp only [hg, hrest]
      | ok vc =>
        obtain ⟨v, c⟩ := vc
        simp only [hg, hrest]
        rfl

/-- the interpreter itself: in AUTO mode (not in argument position) a callable is an effectful
    sub-spec — the call is logged, then Python's part runs on the current target -/
theorem c03_callable_evalOn [LawfulScope σ] (p : Prims) (fuel : Nat) (n k : String) :
    EvalOn (σ := σ) (interp p (fuel + 1)) .auto false (.fn n k) (fun t => callFn p n k [t] []) := by
  intro t sc hm ha
  simp only [interp, Spec.isSpecLike, Bool.false_eq_true, if_false, LawfulScope.argMode_child,
    LawfulScope.mode_child, hm, ha, autoFn]
  simp

/-- **The call log of a list spec**: the sub-spec's log entries of the items, in the order of the
    iteration, each item once, up to and including the first item that yields STOP — and the
    value is `listRef`.  (Observation named by the property: order and count of the calls.) -/
theorem c03_list_call_log (rec : Rec σ) (sub : Spec) (f : V → V) (L : V → List Ev) (sc : σ)
    (h : LoggedOn rec sub f L sc) :
    ∀ (items acc : List V) (st : St),
      listLoop rec sub sc items acc st =
        ({ st with log := st.log ++ (evaluatedItems f items).flatMap L }, .ok (acc ++ listRef f items)) := by
  intro items
  induction items with
  | nil => intro acc st; simp [listLoop, listRef, evaluatedItems, M.pure_apply]
  | cons x xs ih =>
    intro acc st
    obtain ⟨c, hc⟩ := h x st
    simp only [listLoop, M.bind_apply, hc, listRef, evaluatedItems]
    cases hf : f x <;> simp [ih, M.pure_apply, List.append_assoc]

/-- the interpreter itself satisfies `LoggedOn` for an instrumented callable whose Python part
    succeeds: in AUTO mode it logs one call with the current target and yields the function's value -/
theorem c03_callable_loggedOn [LawfulScope σ] (p : Prims) (fuel : Nat) (n k : String) (f : V → V)
    (hf : ∀ t, p.applyFn k [t] [] = .ok (f t)) (sc : σ) (hm : mode sc = .auto) (ha : argMode sc = false) :
    LoggedOn (interp p (fuel + 1)) (.fn n k) f (fun t => [.call n [t]]) sc := by
  intro t st
  refine ⟨child sc, ?_⟩
  simp only [interp, Spec.isSpecLike, Bool.false_eq_true, if_false, LawfulScope.argMode_child,
    LawfulScope.mode_child, hm, ha, autoFn, callFn, M.bind_apply, M.logEv, M.lift, hf, M.pure_apply]

/-- **Coalesce with `skip_exc=()`** passes over no exception: an error of an alternative
    propagates (with the state it left) and the later alternatives are not evaluated. -/
theorem c03_coalesce_no_skip_exc (p : Prims) (rec : Rec σ) (t : V) (sc : σ) (sk : Skip)
    (s : Spec) (later : List Spec) (st st1 : St) (e : Err) (hs : rec s t sc st = (st1, .error e)) :
    coalesceLoop p rec t sc sk [] (s :: later) st = (st1, .error e) := by
  rw [c03_coalesce_skips p rec t sc sk [] s later st st1 e hs]
  simp [caught]

/-- **Coalesce with `skip=()`** (and without `skip`) skips no value: the first alternative that
    does not raise wins, whatever it yields — `None`, `0`, `''` included. -/
theorem c03_coalesce_skip_nothing (p : Prims) (rec : Rec σ) (t : V) (sc : σ) (se : List String)
    (s : Spec) (later : List Spec) (st st1 : St) (v : V) (c : σ) (hs : rec s t sc st = (st1, .ok (v, c))) :
    coalesceLoop p rec t sc (.anyOf []) se (s :: later) st = (st1, .ok (some v)) ∧
    coalesceLoop p rec t sc .never se (s :: later) st = (st1, .ok (some v)) :=
  ⟨c03_coalesce_first_wins p rec t sc _ se s later st st1 st1 v c hs rfl,
   c03_coalesce_first_wins p rec t sc _ se s later st st1 st1 v c hs rfl⟩

/-! ### arbitrary nestings, and the checker theorem

`LogPure p n s f`: from fuel `n` on, the interpreter evaluates `s` — at every lawful scope in AUTO
mode outside argument position, from every state — to the outcome `f t` (value or exception, and
the events appended to the log), changing nothing else.  Instrumented callables, Val, T, paths
are such leaves (`c03_leaf_*`).  `Comp` assembles specs of any depth and width from such leaves
with tuple, Pipe, dict (literal and computed keys), list, Val, Spec, Auto; `c03_composition` shows
that the interpreter evaluates the assembled spec to the outcome folded from the leaves' outcome
functions by `chainF` / `dictF` / `listF` — "the output … is determined only by the outputs of its
sub-specs", for arbitrary nestings in one theorem — and `c03_model_checks` that the model's
observation passes the checker the driver evaluates on the implementation (`checkC03`: the outcome
recomputed from *separately observed* leaf outcomes). -/

/-- **Compositionality for arbitrary nestings**: the interpreter evaluates a spec assembled from
    log-pure leaves to the outcome folded from the leaves' outcomes — value / exception *and* call
    log (each leaf once, left to right) — whatever the scope shows and whatever the state. -/
theorem c03_composition (p : Prims) (N : Nat) (h : Nat) (s : Spec) (f : V → Outcome) (hc : Comp p N h s f) :
    LogPure p (N + h) s f := by
  induction hc with
  | leaf s f _ hl => exact hl
  | up h s f _ ih => exact logPure_mono p _ _ s f ih (by omega)
  | tuple h xfs _ ih =>
    intro τ _ _ fuel hf
    obtain ⟨fuel', rfl⟩ : ∃ k, fuel = k + 1 := ⟨fuel - 1, by omega⟩
    refine (interp_tuple_pure p fuel' _ _ (by simp) ?_).1
    intro i hi hj
    simp only [List.length_map] at hi
    simp only [List.getElem_map]
    exact ih _ (List.getElem_mem hi) τ fuel' (by omega)
  | pipe h xfs _ ih =>
    intro τ _ _ fuel hf
    obtain ⟨fuel', rfl⟩ : ∃ k, fuel = k + 1 := ⟨fuel - 1, by omega⟩
    refine (interp_tuple_pure p fuel' _ _ (by simp) ?_).2
    intro i hi hj
    simp only [List.length_map] at hi
    simp only [List.getElem_map]
    exact ih _ (List.getElem_mem hi) τ fuel' (by omega)
  | list h sub rest f _ ih =>
    intro τ _ _ fuel hf
    obtain ⟨fuel', rfl⟩ : ∃ k, fuel = k + 1 := ⟨fuel - 1, by omega⟩
    exact interp_list_pure p fuel' sub rest f (ih τ fuel' (by omega))
  | dict h o eds _ _ hck hlit ihv ihk =>
    intro τ _ _ fuel hf
    obtain ⟨fuel', rfl⟩ : ∃ k, fuel = k + 1 := ⟨fuel - 1, by omega⟩
    refine interp_dict_pure p fuel' o _ _ (by simp) ?_
    intro i hi hj
    simp only [List.length_map] at hi
    simp only [List.getElem_map, EntryOK]
    have hmem := List.getElem_mem hi
    refine ⟨ihv _ hmem τ fuel' (by omega), ?_⟩
    cases hkf : eds[i].2.2.1 with
    | none => exact hlit _ hmem hkf
    | some g => exact ⟨hck _ hmem g hkf, ihk _ hmem g hkf τ fuel' (by omega)⟩
  | val v =>
    intro τ _ _ fuel hf
    obtain ⟨fuel', rfl⟩ : ∃ k, fuel = k + 1 := ⟨fuel - 1, by omega⟩
    exact interp_val_pure p fuel' v
  | specW h s f _ ih =>
    intro τ _ _ fuel hf
    obtain ⟨fuel', rfl⟩ : ∃ k, fuel = k + 1 := ⟨fuel - 1, by omega⟩
    exact (interp_specW_pure p fuel' s f (ih τ fuel' (by omega))).1
  | auto h s f _ ih =>
    intro τ _ _ fuel hf
    obtain ⟨fuel', rfl⟩ : ∃ k, fuel = k + 1 := ⟨fuel - 1, by omega⟩
    exact (interp_specW_pure p fuel' s f (ih τ fuel' (by omega))).2

/-- **Checker theorem**: on every spec assembled from log-pure leaves — any depth, any width, SKIP /
    STOP / exceptions anywhere — the model's observation of the whole spec passes `checkC03` with the
    leaves observed by separate top-level calls of the model (the form the driver evaluates on the
    implementation's observations). -/
theorem c03_model_checks (p : Prims) (eqO : Outcome → Outcome → Bool) (heq : ∀ o, eqO o o = true)
    (N h : Nat) (spec : Spec) (f : V → Outcome) (hc : Comp p N h spec f)
    (F F' cf : Nat) (hF : N ≤ F) (hF' : N + h ≤ F') (hcf : h + 1 ≤ cf) (t : V) :
    checkC03 p eqO (modelLeaf p F) cf spec t (observeTop p F' spec t) = true := by
  simp only [checkC03, composeRef_of_comp p N F hF h spec f hc cf hcf [] t,
    observeTop_of_logPure p (N + h) F' spec f (c03_composition p N h spec f hc) hF' t, heq]

/-- leaves: an instrumented callable, `Val`, `T` -/
theorem c03_leaf_callable (p : Prims) (n k : String) :
    LogPure p 1 (.fn n k) (fun t => (p.applyFn k [t] [], [.call n [t]])) := by
  intro τ _ _ fuel hf t sc st hm ha
  obtain ⟨fuel', rfl⟩ : ∃ k, fuel = k + 1 := ⟨fuel - 1, by omega⟩
  refine ⟨child sc, ?_⟩
  simp only [interp, Spec.isSpecLike, Bool.false_eq_true, if_false, LawfulScope.argMode_child,
    LawfulScope.mode_child, hm, ha, autoFn, callFn, M.bind_apply, M.logEv, M.lift, addLog]
  cases p.applyFn k [t] [] <;> rfl

theorem c03_leaf_t (p : Prims) (steps : List (String × V)) :
    LogPure p 1 (.t steps) (fun t => (p.tEval steps t, [])) := by
  intro τ _ _ fuel hf t sc st hm ha
  obtain ⟨fuel', rfl⟩ : ∃ k, fuel = k + 1 := ⟨fuel - 1, by omega⟩
  refine ⟨setArgMode (child sc) false, ?_⟩
  simp only [interp, Spec.isSpecLike, if_true, glomit, M.bind_apply, M.lift, addLog_nil]
  cases p.tEval steps t <;> rfl

/-- **`glom(t, (a, b))` equals `glom(glom(t, a), b)`** — two separate top-level calls — for specs
    assembled from log-pure leaves (in particular: no scope binder or reader, see the counter-example
    below), when `a`'s result is neither SKIP nor STOP: same value or exception, and the call log of
    the tuple is `a`'s followed by `b`'s (a SKIP / STOP result of `b` leaves `a`'s result). -/
theorem c03_two_calls (p : Prims) (N h : Nat) (a b : Spec) (fa fb : V → Outcome)
    (ha : Comp p N h a fa) (hb : Comp p N h b fb) (F : Nat) (hF : N + (h + 1) ≤ F) (t v : V)
    (hv : (observeTop p F a t).1 = .ok v) (hns : isSentinel v = false) :
    (observeTop p F (.tuple [a, b]) t).1 =
      (match (observeTop p F b v).1 with
       | .ok .skip => .ok v          -- the tuple keeps `a`'s result when `b` yields SKIP / STOP
       | .ok .stop => .ok v
       | r => r) ∧
    (observeTop p F (.tuple [a, b]) t).2 = (observeTop p F a t).2 ++ (observeTop p F b v).2 := by
  have hA := observeTop_of_logPure p (N + h) F a fa (c03_composition p N h a fa ha) (by omega)
  have hB := observeTop_of_logPure p (N + h) F b fb (c03_composition p N h b fb hb) (by omega)
  have hT := observeTop_of_logPure p (N + (h + 1)) F _ _
    (c03_composition p N (h + 1) _ _ (Comp.tuple h [(a, fa), (b, fb)] (by
      intro xf hxf
      simp only [List.mem_cons, List.not_mem_nil, or_false] at hxf
      rcases hxf with rfl | rfl
      · exact ha
      · exact hb))) hF t
  simp only [List.map_cons, List.map_nil] at hT
  rw [hT, hA t, hB v]
  rw [hA t] at hv
  simp only [chainF]
  rcases hfa : fa t with ⟨r, l⟩
  rw [hfa] at hv
  simp only at hv
  subst hv
  rcases hfb : fb v with ⟨r2, l2⟩
  cases v <;> simp_all [isSentinel, Outcome.after] <;>
    (cases r2 with
     | error e => simp
     | ok w => cases w <;> simp)

/-- **A dict spec yields a dict of the same type** (dict / OrderedDict) with, for literal keys, the
    keys of the spec in the order of the spec (`dictF`: `dictSet` appends in spec order; a SKIP value
    omits the entry; a computed key is evaluated after its value). -/
theorem c03_dict_same_type (p : Prims) (o : Bool) (t : V) (ds : List (V × Option (V → Outcome) × (V → Outcome)))
    (v : V) (h : (dictF p o t ds []).1 = .ok v) : ∃ kvs, v = .dict o kvs :=
  dictF_is_dict p o t ds [] v h

/-! ### non-vacuity -/
example : listRef (fun v => match v with | .int 2 => .skip | .int 4 => .stop | v => v)
    [.int 1, .int 2, .int 3, .int 4, .int 5] = [.int 1, .int 3] := by rfl

/-- a STOP inside the inner chain: the outer step still runs on the inner chain's value; the
    inlined chain would have stopped altogether -/
example :
    let stopper : V → V := fun _ => .stop
    let wrap : V → V := fun v => .list [v]
    chainRef [chainRef [stopper], wrap] (.int 1) = .list [.int 1] ∧
    chainRef [stopper, wrap] (.int 1) = .int 1 := by
  constructor <;> rfl

/-- effectful sub-spec, concretely: `glom([1, 2, 3], [f])` with an instrumented `f` that returns STOP
    on 2 — the interpreter's loop logs `f(1)`, `f(2)` (not `f(3)`) and yields `[1]` -/
private def stopAt2 : Prims :=
  { trivPrims with applyFn := fun _ args _ => match args with
      | [.int 2] => .ok .stop
      | [v] => .ok v
      | _ => .error ⟨"TypeError"⟩ }

example :
    let root : Frames := [{ mode := some .auto, arg := some false }]
    let out := listLoop (interp (σ := Frames) stopAt2 2) (.fn "f" "k") root [.int 1, .int 2, .int 3] [] {}
    out.2 = .ok [.int 1] ∧ out.1.log.length = 2 := by
  constructor <;> rfl

example : evaluatedItems (fun v => match v with | .int 2 => .stop | v => v) [.int 1, .int 2, .int 3] =
    [.int 1, .int 2] := by rfl

-- chainRefM with an effectful step that raises: the later step does not run, the state is kept
example :
    let boom : V → M V := fun _ => do M.logEv (.call "boom" []); M.fail "ValueError"
    let never : V → M V := fun v => do M.logEv (.call "never" []); pure v
    ((chainRefM [boom, never] (.int 1) {}).1.log.length = 1) := by rfl

/-- `Comp` is inhabited by nested specs: `(f, [g])` over instrumented callables -/
example (p : Prims) : ∃ fn, Comp p 1 2 (.tuple [.fn "f" "k", .list [.fn "g" "k2"]]) fn :=
  ⟨_, Comp.tuple 1 [(.fn "f" "k", _), (.list [.fn "g" "k2"], _)] (by
    intro xf hxf
    simp only [List.mem_cons, List.not_mem_nil, or_false] at hxf
    rcases hxf with rfl | rfl
    · exact Comp.up 0 _ _ (Comp.leaf _ _ rfl (c03_leaf_callable p "f" "k"))
    · exact Comp.list 0 _ [] _ (Comp.leaf _ _ rfl (c03_leaf_callable p "g" "k2")))⟩

/-- the binder-free hypothesis of `c03_two_calls` is forced: `glom(1, (Ref('r', T), Ref('r')))` is 1,
    while the second step alone, as a separate call on the first step's result, raises -/
example :
    isOkInt (glomTop trivPrims 8 (.tuple [.ref "r" (some (.t [])), .ref "r" Option.none]) (.int 1) [] {}) 1 = true ∧
    isErr (glomTop trivPrims 8 (.ref "r" Option.none) (.int 1) [] {}) "KeyError" = true := by
  constructor <;> decide

end Glom.Props.C03
