import Glom.Lemmas.C13
import Glom.Model.C13Env
/-
  C13 — handlers are chosen by nearest registered type, immediately and in isolation.

  Property theorems only; helper lemmas are in `Glom/Lemmas/C13.lean`.  The model
  (`Glom/Model/C13.lean`) mirrors `TargetRegistry` literally (exact table, ordered type tree with
  the re-parenting insertion loop, memo, auto-discovery map); the reference semantics
  (`Glom/Spec/C13.lean`) knows only a handler table and, per op, the *set* of covering types.

  `issubclass` / `isinstance` are abstract relations (`Hier.sub`, `Hier.inst`), not derived from the
  MRO.  Every theorem is for all hierarchies satisfying `SubFacts` (transitivity and antisymmetry of
  `issubclass`, `isinstance` closed under `issubclass`; no reflexivity) — only `c13_nearest_nominal`
  and `c13_covers_subclasses` also need `MroFacts` (`isinstance` contains the MRO, monotone
  linearisation) —, all registries reachable by any history (`Rel`), all types and ops — no bound
  on the number of classes, registrations or lookups.  `subFacts_of_table` / `hierFacts_of_table`
  (Lemmas) derive the hypotheses from the decidable checks the driver evaluates on the tables of
  every case (`subOK`; a case failing it is skipped, one failing only `mroOK` is not).
-/
namespace Glom.Props.C13
open Glom Glom.C13

/-- **Facts obligation** (re-checked on every run against the tables regenerated from /repo):
    the code has the decision shape the model mirrors — `__init__` builds fresh state, registers
    the builtin ops, then the default types; on every returning path of `register` / `register_op`
    that wrote a table or a tree the memo is reset; `_get_matching_types` collects the deepest match
    of every branch and `_get_closest_type` drops strict superclasses and takes the MRO-minimum
    (symbolic summary, modulo local names / lambda-vs-def / order of independent statements);
    `register` and `register_op` validate first and write afterwards (path-sensitive, helpers
    followed: on no path does a write to `_op_type_map` / `_op_type_tree` / `_type_cache` precede a
    `raise`; the only earlier write is the `setdefault` of an empty per-op table); `get_handler` raises
    for a failed lookup *before* the memo write (`c13MemoStoresOnlySuccess`: what is stored under
    `raise_exc=False` may be `False`) and answers a memo hit through the same `is False and raise_exc`
    guard (`c13MemoHitRaises`, 8b51f6e); `register_op` walks the known types as a list in
    registration order, not as a set (`c13KnownTypesOrdered`, 165f0ee);
    `_register_fuzzy_type` only creates a node that does not exist; `Glommer.__init__` builds its
    own registry and copies the ops of the registry it is created from; `register()` /
    `Glommer.register` delegate to their registry;
    the extracted registration sequences build the registries the property takes as given
    (`setupOK` against `pinnedSetup`); glom's two duck types and the auto-discovery functions of the
    builtin ops answer what they are meant to on the builtin types (`duckOK`, `autoOK`) — and
    `isinstance` / `issubclass` / `__mro__` on the builtin target types and glom's two duck types are
    coherent. -/
theorem c13_facts_wf : shapeOK = true ∧ tableOK builtinTab = true := by decide

/-- hence the hierarchy of the builtin target types satisfies the hypotheses of every theorem
    below -/
theorem c13_builtin_hier : HierFacts builtinHier :=
  hierFacts_of_table builtinTab c13_facts_wf.2

/-- **Invariants of every history** (induction over the list of operations): whatever sequence of
    `register` / `register_op` / lookups is applied to whatever registries (module registry,
    Glommers, bare registries), each registry still corresponds to the reference registry with
    the same history: same handler table; every op's type tree satisfies `tree_inv` (each key is a
    superclass of the keys below it), has distinct, pairwise unrelated sibling keys, and contains
    *exactly* the types registered as covering (`tree_complete`); every tree node has a handler;
    the memo holds only current answers. -/
theorem c13_invariants (H : Hier) (hH : SubFacts H) (S : Setup) (orders : List (List Ty))
    (kinds : List RegKind) (acts : List Action) :
    All2 (Rel H) (finalWorld H (kinds.map (mkReg H S orders)) acts)
      (acts.foldl (refStep H) (kinds.map (refMk H S orders))) :=
  finalWorld_rel hH acts (All2.map _ _ (rel_mk hH S orders) kinds)

/-- the tree part of `Rel`, spelled out -/
theorem c13_tree_inv_complete (H : Hier) (r : Reg) (ρ : RefReg) (h : Rel H r ρ) (op : Op) :
    TreeInv H (r.tree op) ∧ GoodF H (r.tree op) ∧
    (∀ x, x ∈ ρ.coverOf op ↔ x ∈ (r.tree op).nodes) ∧
    (∀ x ∈ (r.tree op).nodes, (odGet x (r.map op)).isSome = true) :=
  ⟨(h.tree op).1, (h.tree op).2.1, (h.tree op).2.2, h.subMap op⟩

/-- **An exact registration beats any ancestor**: a type that is registered for the op (exact or
    not) is served by its own handler, whatever else is registered and whatever the memo holds. -/
theorem c13_exact_wins (H : Hier) (hH : SubFacts H) (r : Reg) (ρ : RefReg) (h : Rel H r ρ)
    (op : Op) (t : Ty) (hd : Handler) (hreg : odGet t (r.map op) = some hd) (re : Bool) :
    (getHandler H r op t re).2.handler = some hd := by
  rw [getHandler_handler hH h]
  unfold resolve
  have hne : (r.map op).isEmpty = false := by
    cases hm : r.map op with
    | nil => rw [hm] at hreg; simp [odGet] at hreg
    | cons a l => rfl
  simp [hne, hreg]

/-- **Nearest registered type.**  For a type that is not itself registered, `_get_closest_type`
    returns a type the reference allows (`allowed`: the nearest base class in MRO order if no
    matching covering type lies strictly below it, else a minimal matching covering type), and
    returns `None` only when no covering type matches. -/
theorem c13_nearest (H : Hier) (hH : SubFacts H) (r : Reg) (ρ : RefReg) (h : Rel H r ρ)
    (op : Op) (t : Ty) :
    match closest H t (r.tree op) with
    | none => allowed H (ρ.coverOf op) t = []
    | some c => c ∈ allowed H (ρ.coverOf op) t :=
  closest_allowed H hH t (r.tree op) (ρ.coverOf op) (h.tree op).1 (h.tree op).2.2

/-- **A more specific registered type is never overridden by a less specific one**: no covering
    type the object is an instance of is a strict subclass of the chosen type. -/
theorem c13_never_less_specific (H : Hier) (hH : SubFacts H) (r : Reg) (ρ : RefReg) (h : Rel H r ρ)
    (op : Op) (t c : Ty) (hc : closest H t (r.tree op) = some c) :
    c ∈ ρ.coverOf op ∧ H.inst t c = true ∧
    ∀ d ∈ ρ.coverOf op, H.inst t d = true → d ≠ c → H.sub d c = false := by
  have := (pickMin_some hc).1
  have hmin := (dropSupers_matching_iff H hH t (r.tree op) (ρ.coverOf op) (h.tree op).1 (h.tree op).2.2 c).1 this
  obtain ⟨ha, hno⟩ := (mem_minimal H _ c).1 hmin
  obtain ⟨hcov, hinst⟩ := (mem_applicable H _ t c).1 ha
  exact ⟨hcov, hinst, fun d hd hi hne => hno d ((mem_applicable H _ t d).2 ⟨hd, hi⟩) hne⟩

/-- **The nearest base class wins** whenever no matching covering type lies strictly below it:
    `n` is the first class of the object's MRO that covers. -/
theorem c13_nearest_base (H : Hier) (hH : SubFacts H) (r : Reg) (ρ : RefReg) (h : Rel H r ρ)
    (op : Op) (t n : Ty)
    (hn : firstNominal H t (applicable H (ρ.coverOf op) t) = some n)
    (hmin : ∀ d ∈ ρ.coverOf op, H.inst t d = true → d ≠ n → H.sub d n = false) :
    closest H t (r.tree op) = some n := by
  have hnapp : n ∈ applicable H (ρ.coverOf op) t := by simpa using (find?_first hn).2.1
  have hnmin : n ∈ minimal H (applicable H (ρ.coverOf op) t) :=
    (mem_minimal H _ n).2 ⟨hnapp, fun d hd hne =>
      hmin d ((mem_applicable H _ t d).1 hd).1 ((mem_applicable H _ t d).1 hd).2 hne⟩
  have hal : allowed H (ρ.coverOf op) t = [n] := by
    have : (minimal H (applicable H (ρ.coverOf op) t)).contains n = true := by simpa using hnmin
    simp only [allowed, hn, this, if_true]
  have := c13_nearest H hH r ρ h op t
  cases hc : closest H t (r.tree op) with
  | none => rw [hc] at this; simp only at this; rw [hal] at this; simp at this
  | some c => rw [hc] at this; simp only at this; rw [hal] at this; simp at this; rw [this]

/-- in particular when every matching covering type is a real base class (no virtual / duck
    match): the first covering class of the MRO -/
theorem c13_nearest_nominal (H : Hier) (hH : HierFacts H) (r : Reg) (ρ : RefReg) (h : Rel H r ρ)
    (op : Op) (t n : Ty)
    (hnom : ∀ x ∈ applicable H (ρ.coverOf op) t, x ∈ H.mro t)
    (hn : firstNominal H t (applicable H (ρ.coverOf op) t) = some n) :
    closest H t (r.tree op) = some n := by
  have hal := allowed_nominal H hH (ρ.coverOf op) t n hnom hn
  have := c13_nearest H hH.toSubFacts r ρ h op t
  cases hc : closest H t (r.tree op) with
  | none => rw [hc] at this; simp only at this; rw [hal] at this; simp at this
  | some c => rw [hc] at this; simp only at this; rw [hal] at this; simp at this; rw [this]

/-- **A type registered without `exact=True` covers instances of all its subclasses**: if a class
    of the object's MRO covers, the lookup finds a type. -/
theorem c13_covers_subclasses (H : Hier) (hH : HierFacts H) (r : Reg) (ρ : RefReg) (h : Rel H r ρ)
    (op : Op) (t c : Ty) (hc : c ∈ ρ.coverOf op) (hm : c ∈ H.mro t) :
    ∃ c', closest H t (r.tree op) = some c' := by
  have hcn : c ∈ (r.tree op).nodes := ((h.tree op).2.2 c).1 hc
  obtain ⟨e, he, _⟩ := matching_complete H hH.toSubFacts t (r.tree op) (h.tree op).1 c hcn (hH.mro_inst t c hm)
  cases hcl : closest H t (r.tree op) with
  | some c' => exact ⟨c', rfl⟩
  | none =>
    exfalso
    have hdrop : dropSupers H (matching H t (r.tree op)) = [] := pickMin_none hcl
    have hne : matching H t (r.tree op) ≠ [] := by
      intro e'; rw [e'] at he; simp at he
    obtain ⟨m, hm, hmin⟩ := dropSupers_ne_nil H hH.toSubFacts _ hne
    have : m ∈ dropSupers H (matching H t (r.tree op)) := (mem_dropSupers H _ m).2 ⟨hm, hmin⟩
    rw [hdrop] at this; simp at this

/-- **The choice does not depend on registration order within an inheritance chain.**
    (1) Which types cover after a list of `register` calls is the same for every permutation of
    the list. -/
theorem c13_cover_order_independent (H : Hier) (ρ : RefReg)
    (regs₁ regs₂ : List (Ty × Bool × List (Op × Handler))) (hp : regs₁.Perm regs₂) (op : Op) (x : Ty) :
    x ∈ (refRegisterAll H ρ regs₁).coverOf op ↔ x ∈ (refRegisterAll H ρ regs₂).coverOf op := by
  rw [refRegisterAll_cover, refRegisterAll_cover]
  constructor
  · rintro (h | ⟨g, hg, h⟩)
    · exact Or.inl h
    · exact Or.inr ⟨g, hp.mem_iff.1 hg, h⟩
  · rintro (h | ⟨g, hg, h⟩)
    · exact Or.inl h
    · exact Or.inr ⟨g, hp.mem_iff.2 hg, h⟩

/-- (2) Two registries — reached by *any* two histories — whose covering sets for the op agree
    choose the same type whenever the reference allows exactly one (`allowed_nominal`: always the
    case when every match is a real base class, i.e. within an inheritance chain). -/
theorem c13_order_independent_chain (H : Hier) (hH : SubFacts H) (r₁ r₂ : Reg) (ρ₁ ρ₂ : RefReg)
    (h₁ : Rel H r₁ ρ₁) (h₂ : Rel H r₂ ρ₂) (op : Op) (t n : Ty)
    (hc : ∀ x, x ∈ ρ₁.coverOf op ↔ x ∈ ρ₂.coverOf op)
    (hn : allowed H (ρ₁.coverOf op) t = [n]) :
    closest H t (r₁.tree op) = some n ∧ closest H t (r₂.tree op) = some n := by
  have a₁ := c13_nearest H hH r₁ ρ₁ h₁ op t
  have a₂ := c13_nearest H hH r₂ ρ₂ h₂ op t
  have hcong := mem_allowed_congr H t hc
  constructor
  · cases hcl : closest H t (r₁.tree op) with
    | none => rw [hcl] at a₁; simp only at a₁; rw [hn] at a₁; simp at a₁
    | some c => rw [hcl] at a₁; simp only at a₁; rw [hn] at a₁; simp at a₁; rw [a₁]
  · cases hcl : closest H t (r₂.tree op) with
    | none =>
      rw [hcl] at a₂; simp only at a₂
      have : n ∈ allowed H (ρ₂.coverOf op) t := (hcong n).1 (by rw [hn]; simp)
      rw [a₂] at this; simp at this
    | some c =>
      rw [hcl] at a₂; simp only at a₂
      have := (hcong c).2 a₂
      rw [hn] at this; simp at this; rw [this]

/-- **The memo never changes an answer, for any interleaving of lookups** — the answer *in full*:
    which handler, and whether "no handler" comes as a raised UnregisteredTarget or as a returned
    `False`.  What a lookup yields after a history `pre` is what it yields after the same history with
    every earlier lookup deleted (in particular an earlier `raise_exc=False` lookup of the same type
    cannot turn the UnregisteredTarget of a raising lookup into a returned `False`: that is the
    repair 8b51f6e; counter-example for the code before it below). -/
theorem c13_lookup_pure (H : Hier) (hH : SubFacts H) (S : Setup) (orders : List (List Ty))
    (kinds : List RegKind) (pre : List Action) (i : Nat) (op : Op) (t : Ty) (re : Bool) :
    (step H (finalWorld H (kinds.map (mkReg H S orders)) pre) (.lookup i op t re)).2 =
    (step H (finalWorld H (kinds.map (mkReg H S orders)) (pre.filter (fun a => !a.isLookup)))
      (.lookup i op t re)).2 := by
  have hrel₁ := c13_invariants H hH S orders kinds pre
  have hrel₂ := c13_invariants H hH S orders kinds (pre.filter (fun a => !a.isLookup))
  rw [refStep_dropLookups] at hrel₂
  have heq := finalWorld_dropLookups H pre (All2.refl_eqC (kinds.map (mkReg H S orders)))
  simp only [step]
  obtain ⟨e1, e2⟩ := heq.get i
  cases h1 : (finalWorld H (kinds.map (mkReg H S orders)) pre)[i]? with
  | none => rw [e2 h1]
  | some r =>
    obtain ⟨r', hr', hrr⟩ := e1 r h1
    obtain ⟨ρ, hρ, hR⟩ := (hrel₁.get i).1 r h1
    obtain ⟨ρ', hρ', hR'⟩ := (hrel₂.get i).1 r' hr'
    rw [hr']
    simp only
    have a₁ := getHandler_answer hH hR op t re
    have a₂ := getHandler_answer hH hR' op t re
    rw [hrr.resolve] at a₁
    rw [← a₂] at a₁
    exact congrArg some (Option.some.inj a₁)

/-- **The answer of a lookup in full**: on every reachable registry it is `answerOf` of the
    un-memoised lookup — the handler, or, when there is none, UnregisteredTarget exactly when
    `raise_exc` is true and a returned `False` exactly when it is false — whatever the memo holds. -/
theorem c13_answer_in_full (H : Hier) (hH : SubFacts H) (r : Reg) (ρ : RefReg) (h : Rel H r ρ)
    (op : Op) (t : Ty) (re : Bool) :
    ∃ hd, resolve H r op t = some hd ∧ hd ∈ refAnswers H ρ op t ∧
      (getHandler H r op t re).2 = (if hd.isNone && re then Answer.unregistered else Answer.ret hd) := by
  obtain ⟨hd, hres, hacc, hans, _⟩ := getHandlerV_answer hH h false op t re
  rw [getHandlerV_false] at hans
  exact ⟨hd, hres, hacc, hans⟩

/-- a lookup changes nothing but the memo -/
theorem c13_lookup_state (H : Hier) (r : Reg) (op : Op) (t : Ty) (re : Bool) :
    (getHandler H r op t re).1.typeMap = r.typeMap ∧
    (getHandler H r op t re).1.typeTree = r.typeTree ∧
    (getHandler H r op t re).1.autoMap = r.autoMap :=
  getHandler_eqC H r op t re

/-- **A `register()` call takes effect for the very next lookup**, whatever the memo held:
    the handler given for `op` is what the next lookup of the registered type returns. -/
theorem c13_immediate (H : Hier) (r : Reg) (t : Ty) (e : Bool) (kw : List (Op × Handler))
    (op : Op) (hd : Handler) (hk : odGet op kw = some hd) (re : Bool) :
    (getHandler H (register H r t e kw) op t re).2 =
      if hd.isNone && re then Answer.unregistered else Answer.ret hd := by
  have hop : op ∈ opsOf (r.autoMap.map (·.1)) kw := by
    unfold opsOf
    rw [List.mem_eraseDups]
    exact List.mem_append_left _ (List.mem_map.2 ⟨(op, hd), odGet_some_mem hk, rfl⟩)
  have hval := setHandlers_value t (pickHandler H r.typeMap r.autoMap t kw)
    (opsOf (r.autoMap.map (·.1)) kw) [] r.typeMap (fun _ h => by simp at h) op (Or.inr hop)
  have hpick : pickHandler H r.typeMap r.autoMap t kw op = hd := by simp [pickHandler, hk]
  rw [hpick] at hval
  have hmap : odGet t ((register H r t e kw).map op) = some hd := by
    simpa [Glom.C13.register, Reg.map, newOpMap] using hval
  have hne : ((register H r t e kw).map op).isEmpty = false := by
    cases hm : (register H r t e kw).map op with
    | nil => rw [hm] at hmap; simp [odGet] at hmap
    | cons a l => rfl
  have hres : resolve H (register H r t e kw) op t = some hd := by
    unfold resolve; simp [hne, hmap]
  have hcache : (register H r t e kw).cache = [] := rfl
  unfold getHandler
  rw [hcache]
  simp only [odGet, hres]
  by_cases hn : (hd.isNone && re) = true
  · simp [hn]
  · simp [hn]

/-- **`register_op()` takes effect for the very next lookup** as well: a known type without a
    handler for the op is served by the auto-discovered one, whatever the memo held (in
    particular after a lookup that failed because nobody had registered the op yet). -/
theorem c13_immediate_op (H : Hier) (r : Reg) (op : Op) (auto : String) (e : Bool) (order : List Ty)
    (t : Ty) (ht : t ∈ order) (hno : odGet t (r.map op) = none) (re : Bool) :
    (getHandler H (registerOp H r op auto e order) op t re).2 =
      if (H.auto auto t).isNone && re then Answer.unregistered else Answer.ret (H.auto auto t) := by
  have hval := fillAuto_value H auto t order (r.map op)
  rw [hno] at hval
  simp only [ht, if_true] at hval
  have hmap : odGet t ((registerOp H r op auto e order).map op) = some (H.auto auto t) := by
    simpa [Glom.C13.registerOp, Reg.map, odGet_odSet_same] using hval
  have hne : ((registerOp H r op auto e order).map op).isEmpty = false := by
    cases hm : (registerOp H r op auto e order).map op with
    | nil => rw [hm] at hmap; simp [odGet] at hmap
    | cons a l => rfl
  have hres : resolve H (registerOp H r op auto e order) op t = some (H.auto auto t) := by
    unfold resolve; simp [hne, hmap]
  have hcache : (registerOp H r op auto e order).cache = [] := rfl
  unfold getHandler
  rw [hcache]
  simp only [odGet, hres]
  by_cases hn : ((H.auto auto t).isNone && re) = true
  · simp [hn]
  · simp [hn]

/-- **A registration erases every trace of the lookups before it** — successful or failed,
    memoised or not, under either memo policy (`sm = false`: the code that exists; `sm = true`: failed
    lookups are memoised too): the registry after `lookups; register(…)` *is* the registry after
    `register(…)` alone.  (With `c13_immediate` / `c13_immediate_op`: a lookup that failed before
    the registration that makes it succeed cannot keep failing.)  This is where the memo reset at
    the end of `register` and `register_op` is needed — see the counter-example below. -/
theorem c13_registration_forgets_lookups (H : Hier) (sm : Bool) (r : Reg) (ls : List (Op × Ty × Bool)) :
    (∀ t e kw, registerChecked H (lookupsOn sm H r ls) t e kw =
        ((registerChecked H r t e kw).2.elim (registerChecked H r t e kw).1 (fun _ => lookupsOn sm H r ls),
         (registerChecked H r t e kw).2)) ∧
    (∀ t e kw, register H (lookupsOn sm H r ls) t e kw = register H r t e kw) ∧
    (∀ op a e ord, registerOp H (lookupsOn sm H r ls) op a e ord = registerOp H r op a e ord) := by
  have hq := lookupsOn_eqC sm H ls r
  refine ⟨?_, fun t e kw => register_eq_of_eqC hq H t e kw,
    fun op a e ord => registerOp_eq_of_eqC hq H op a e ord⟩
  intro t e kw
  unfold registerChecked
  rw [hq.1, hq.2.2]
  cases firstInvalid (newOpMap H r.typeMap r.autoMap t kw) with
  | some op => rfl
  | none => simp [Option.elim, register_eq_of_eqC hq H t e kw]

/-- **Either memo policy answers like the un-memoised lookup** on every registry reachable by a
    history (`Rel`): memoising failed lookups as well would be harmless *because* every
    registration resets the memo. -/
theorem c13_memo_policy_irrelevant (H : Hier) (hH : SubFacts H) (r : Reg) (ρ : RefReg) (h : Rel H r ρ)
    (sm : Bool) (op : Op) (t : Ty) (re : Bool) :
    (getHandlerV sm H r op t re).2.handler = resolve H r op t ∧
    answerOk (refAnswers H ρ op t) re (getHandlerV sm H r op t re).2 = true ∧
    Rel H (getHandlerV sm H r op t re).1 ρ :=
  ⟨(rel_getHandlerV hH h sm op t re).2.2, (rel_getHandlerV hH h sm op t re).2.1,
   (rel_getHandlerV hH h sm op t re).1⟩

/-- the code that exists is the policy `false` (extracted fact `c13MemoStoresOnlySuccess`) -/
theorem c13_getHandler_policy (H : Hier) (r : Reg) (op : Op) (t : Ty) (re : Bool) :
    getHandlerV false H r op t re = getHandler H r op t re := getHandlerV_false H r op t re

/-- **A rejected `register()` call is a no-op**: the call is either applied in full or it raises
    TypeError — exactly when one of the handlers it would store is neither `False` nor callable —
    and then the registry (tables, trees *and* memo) is the one before the call. -/
theorem c13_rejected_register_noop (H : Hier) (r : Reg) (t : Ty) (e : Bool) (kw : List (Op × Handler)) :
    ((registerChecked H r t e kw).2 = none ∧ (registerChecked H r t e kw).1 = register H r t e kw ∧
      ∀ p ∈ newOpMap H r.typeMap r.autoMap t kw, invalidH p.2 = false) ∨
    ((registerChecked H r t e kw).2 ≠ none ∧ (registerChecked H r t e kw).1 = r ∧
      ∃ p ∈ newOpMap H r.typeMap r.autoMap t kw, invalidH p.2 = true) := by
  unfold registerChecked firstInvalid
  cases hf : (newOpMap H r.typeMap r.autoMap t kw).find? (fun p => invalidH p.2) with
  | none =>
    refine Or.inl ⟨rfl, rfl, fun p hp => ?_⟩
    have := List.find?_eq_none.1 hf p hp
    simpa using this
  | some p =>
    refine Or.inr ⟨by simp, rfl, p, List.mem_of_find?_eq_some hf, ?_⟩
    simpa using List.find?_some hf

/-- the same for `register_op()` -/
theorem c13_rejected_register_op_noop (H : Hier) (r : Reg) (op : Op) (a : String) (e : Bool)
    (order : List Ty) :
    ((registerOpChecked H r op a e order).2 = none ∧
      (registerOpChecked H r op a e order).1 = registerOp H r op a e order) ∨
    ((registerOpChecked H r op a e order).2 ≠ none ∧ (registerOpChecked H r op a e order).1 = r ∧
      ∃ t ∈ order, odGet t (r.map op) = none ∧ invalidH (H.auto a t) = true) := by
  unfold registerOpChecked firstInvalidAuto
  cases hf : order.find? (fun t => (odGet t (r.map op)).isNone && invalidH (H.auto a t)) with
  | none => exact Or.inl ⟨rfl, rfl⟩
  | some t =>
    have hp := List.find?_some hf
    simp only [Bool.and_eq_true, Option.isNone_iff_eq_none] at hp
    exact Or.inr ⟨by simp, rfl, t, List.mem_of_find?_eq_some hf, hp.1, hp.2⟩

/-- **In histories**: a rejected call — `register()` / `register_op()` refused on a handler, or a
    call refused on its arguments alone — leaves the whole process (every registry, every memo)
    as it was, so *every* later lookup, after *any* further history, answers as if the call had
    never been made. -/
theorem c13_rejected_history (H : Hier) (w : List Reg) (a : Action) (post : List Action)
    (hrej : match a with
      | .register i t e kw => ∀ r, w[i]? = some r → (registerChecked H r t e kw).2 ≠ none
      | .registerOp i op au e ord => ∀ r, w[i]? = some r → (registerOpChecked H r op au e ord).2 ≠ none
      | .badCall .. => True
      | .lookup .. => False) :
    run H w (a :: post) = none :: run H w post ∧ finalWorld H w (a :: post) = finalWorld H w post := by
  cases a with
  | lookup i op t re => exact hrej.elim
  | badCall i err => exact ⟨rfl, rfl⟩
  | register i t e kw =>
    have hw : updateAt (fun r => (registerChecked H r t e kw).1) i w = w := by
      apply updateAt_fix
      intro r hr
      rcases c13_rejected_register_noop H r t e kw with h | h
      · exact absurd h.1 (hrej r hr)
      · exact h.2.1
    simp only [run, finalWorld, step, hw, and_self]
  | registerOp i op au e ord =>
    have hw : updateAt (fun r => (registerOpChecked H r op au e ord).1) i w = w := by
      apply updateAt_fix
      intro r hr
      rcases c13_rejected_register_op_noop H r op au e ord with h | h
      · exact absurd h.1 (hrej r hr)
      · exact h.2.1
    simp only [run, finalWorld, step, hw, and_self]

/-- **Isolation**: an action on one registry leaves every other registry of the process exactly
    as it was (so a Glommer neither affects nor is affected by the module registry or another
    Glommer).
    *Scope (stated):* in the model the registries of a process are separate entries of a list and an
    action updates one entry, so this holds by construction of the model; what it rests on in the
    code — `Glommer.__init__` builds its *own* `TargetRegistry(…)`, stores it in a *copy* of the
    scope (`ChainMap(dict(scope))`), copies only `(op, auto_func)` pairs from the registry it is
    created from (no table, tree or memo is shared or copied), and `register` / `glom` delegate to
    that registry — are the extracted facts `c13GlommerOwnRegistry`, `c13GlommerCopiesOps`,
    `c13GlommerDelegates`, `c13ModuleDelegates` (part of `c13_facts_wf`), and the correspondence
    (lookups on the *other* registries after every action; seed C13-s3 — a Glommer warm-started with
    the module registry's memo — is caught there and by `c13GlommerCopiesOps`). -/
theorem c13_isolation (H : Hier) (w : List Reg) (a : Action) (j : Nat)
    (hj : (match a with
      | .register i .. => i | .registerOp i .. => i | .lookup i .. => i | .badCall i .. => i) ≠ j) :
    (step H w a).1[j]? = w[j]? := by
  cases a with
  | register i t e kw => exact updateAt_get_ne _ w i j hj
  | registerOp i op au e ord => exact updateAt_get_ne _ w i j hj
  | badCall i err => rfl
  | lookup i op t re =>
    simp only [step]
    cases hi : w[i]? with
    | none => rfl
    | some r => exact updateAt_get_ne _ w i j hj

/-- **A default Glommer is the module-level registry** (both conjuncts hold by computation — `rfl` —:
    the first evaluates `glommerOps` on the extracted registration sequences, the second is the
    definition of `moduleReg` unfolded; the content is in the facts they are evaluated on and in
    `setupOK`, which compares the extracted sequences with the pinned ones): `Glommer.__init__` builds
    `TargetRegistry(register_default_types=True)` and copies exactly the ops glom/mutation.py
    registers at import time; the resulting registry is the module registry's construction (up to
    the iteration orders `p₁ p₂` of the sets of known types). -/
theorem c13_default_glommer (H : Hier) (o₁ o₂ p₁ p₂ : List Ty) :
    glommerOps (moduleReg H genSetup [o₁, o₂]) (freshReg H genSetup true) =
      [("assign", "auto_assign"), ("delete", "auto_delete")] ∧
    registerOp H (registerOp H (freshReg H genSetup true) "assign" "auto_assign" false p₁)
        "delete" "auto_delete" false p₂ = moduleReg H genSetup [p₁, p₂] := by
  constructor
  · rfl
  · rfl

/-- **Checker theorem** — the form in which the property is also evaluated on the
    implementation's observation by the correspondence driver: for every hierarchy, every set of
    registries, every history with lookups interleaved anywhere, every answer of the model is one
    the reference allows at that moment. -/
theorem c13_model_checks (H : Hier) (hH : SubFacts H) (S : Setup) (orders : List (List Ty))
    (kinds : List RegKind) (acts : List Action) :
    checkC13 H S orders kinds acts (run H (kinds.map (mkReg H S orders)) acts) = true :=
  run_checks hH acts _ _ (All2.map _ _ (rel_mk hH S orders) kinds)

/-! ### non-vacuity: concrete inputs meet every hypothesis; counter-example for the forced one -/

/-- a chain `B2 ⊂ B ⊂ A`, a mixin `M` with `X ⊂ B, M`, an ABC `V` with `A`, `B`, `B2`, `X` as virtual
    subclasses, all below `object` -/
private def exTab : HierTab where
  mro := [("object", ["object"]), ("A", ["A", "object"]), ("B", ["B", "A", "object"]),
          ("B2", ["B2", "B", "A", "object"]), ("M", ["M", "object"]),
          ("X", ["X", "B", "A", "M", "object"]), ("V", ["V", "object"])]
  sub := [("object", "object"), ("A", "A"), ("A", "object"), ("B", "B"), ("B", "A"), ("B", "object"),
          ("B2", "B2"), ("B2", "B"), ("B2", "A"), ("B2", "object"), ("M", "M"), ("M", "object"),
          ("X", "X"), ("X", "B"), ("X", "A"), ("X", "M"), ("X", "object"), ("V", "V"), ("V", "object"),
          ("A", "V"), ("B", "V"), ("B2", "V"), ("X", "V")]
  inst := [("object", "object"), ("A", "A"), ("A", "object"), ("A", "V"), ("B", "B"), ("B", "A"),
           ("B", "object"), ("B", "V"), ("B2", "B2"), ("B2", "B"), ("B2", "A"), ("B2", "object"),
           ("B2", "V"), ("M", "M"), ("M", "object"), ("X", "X"), ("X", "B"), ("X", "A"), ("X", "M"),
           ("X", "object"), ("X", "V"), ("V", "V"), ("V", "object")]
  auto := [("auto_get", [("object", "getattr"), ("A", "getattr"), ("B", "getattr"), ("B2", "getattr"),
                         ("M", "getattr"), ("X", "getattr"), ("V", "getattr")])]

private def exH : Hier := exTab.toHier
private def exSetup : Setup := { builtinOps := [⟨"get", "auto_get", false⟩], defaults := [⟨"object", false, []⟩],
                                 moduleOps := [] }

example : tableOK exTab = true := by decide
example : HierFacts exH := hierFacts_of_table exTab (by decide)

/-- registrations `A`, `M` (get handlers), `V` (virtual), in that order, on a default registry -/
private def exActs : List Action :=
  [.register 0 "A" false [("get", some "hA")], .register 0 "M" false [("get", some "hM")],
   .register 0 "V" false [("get", some "hV")], .register 0 "B" true [("get", some "hB")]]

private def exReg : Reg := ((finalWorld exH [freshReg exH exSetup true] exActs)[0]?).getD {}

-- the tree really nests: object → {A, M, V → {A}}? (A is a subclass of the ABC V)
example : exReg.tree "get" =
    .cons "object" (.cons "M" .nil (.cons "V" (.cons "A" .nil .nil) .nil)) .nil := by decide
-- `c13_exact_wins` hypothesis: B is registered (exact) and served by its own handler
example : odGet "B" (exReg.map "get") = some (some "hB") := by decide
example : (getHandler exH exReg "get" "B" true).2 = .ret (some "hB") := by decide
-- `c13_nearest_base` / `c13_nearest_nominal`-style: B2 is not registered, B is exact only, so the
-- nearest covering base class of B2 is A; V also matches but A is a subclass of V
example : closest exH "B2" (exReg.tree "get") = some "A" := by decide
example : firstNominal exH "B2" (applicable exH ["object", "A", "M", "V"] "B2") = some "A" := by decide
example : allowed exH ["object", "A", "M", "V"] "B2" = ["A"] := by decide
-- a class with two covering bases (X ⊂ B ⊂ A and X ⊂ M): the MRO-nearer one wins
example : closest exH "X" (exReg.tree "get") = some "A" := by decide
example : allowed exH ["object", "A", "M", "V"] "X" = ["A"] := by decide
-- `c13_order_independent_chain`: the same registrations in another order give a different tree
-- but the same choice
private def exActs' : List Action :=
  [.register 0 "V" false [("get", some "hV")], .register 0 "B" true [("get", some "hB")],
   .register 0 "M" false [("get", some "hM")], .register 0 "A" false [("get", some "hA")]]
private def exReg' : Reg := ((finalWorld exH [freshReg exH exSetup true] exActs')[0]?).getD {}
example : exReg'.tree "get" ≠ exReg.tree "get" := by decide
example : closest exH "X" (exReg'.tree "get") = some "A" ∧ closest exH "B2" (exReg'.tree "get") = some "A" := by
  decide
-- the whole-history checker on a history with interleaved lookups
example : checkC13 exH exSetup [] [.registry true]
    (exActs ++ [.lookup 0 "get" "X" true, .lookup 0 "get" "X" false, .lookup 0 "get" "M" true])
    (run exH [freshReg exH exSetup true]
      (exActs ++ [.lookup 0 "get" "X" true, .lookup 0 "get" "X" false, .lookup 0 "get" "M" true])) = true := by
  decide

/-! #### failed lookups and rejected registrations -/

-- a rejected registration (the `keys` handler is not callable; `get` sorts before it and is fine):
-- TypeError, and the registry is the one before the call — B2 is still served by A's handler
example : registerChecked exH exReg "B2" false [("get", some "hB2"), ("keys", some "!bad")] =
    (exReg, some (.badHandler "keys")) := by decide
example : (getHandler exH (registerChecked exH exReg "B2" false
    [("get", some "hB2"), ("keys", some "!bad")]).1 "get" "B2" true).2 = .ret (some "hA") := by decide
-- … the hypothesis of `c13_rejected_history` holds for it, and the same call without the bad
-- handler is accepted and takes effect at once
example : (registerChecked exH exReg "B2" false [("get", some "hB2")]).2 = none := by decide
example : (getHandler exH (registerChecked exH exReg "B2" false [("get", some "hB2")]).1
    "get" "B2" true).2 = .ret (some "hB2") := by decide
-- an auto-discovery function that refuses a known type: `register_op` is rejected as a whole
private def exTabBad : HierTab :=
  { exTab with auto := exTab.auto ++ [("auto_bad", [("object", "h"), ("A", "h"), ("B", "!raise"), ("M", "h"),
                                                       ("V", "h")])] }
example : registerOpChecked exTabBad.toHier exReg "uop" "auto_bad" false ["object", "A", "M", "V", "B"] =
    (exReg, some (.badAuto "B")) := by decide
-- a lookup that fails because nobody registered the op yet, then `register_op`, then the same
-- lookup (`c13_immediate_op`, `c13_registration_forgets_lookups`), under both memo policies
example : (getHandler exH exReg "uop" "B" true).2 = .unregistered := by decide
example : (getHandlerV true exH exReg "uop" "B" true).1.cache = [(("B", "uop"), none)] := by decide
example : (getHandlerV false exH exReg "uop" "B" true).1.cache = [] := by decide
example : ∀ sm, (getHandlerV sm exH (registerOp exH (lookupsOn sm exH exReg [("uop", "B", true)])
    "uop" "auto_get" false ["object", "A", "M", "V", "B"]) "uop" "B" true).2 = .ret (some "getattr") := by
  decide

/-- **Counter-example for the memo reset** (the hypothesis `Rel.cache` of
    `c13_memo_policy_irrelevant`, established by the reset at the end of `register` /
    `register_op`): if `register_op` kept the memo, then under the policy that memoises failed
    lookups the earlier failed lookup of `("B", "uop")` would still answer "unregistered" although a
    handler now exists (under the policy of the code that exists the same happens after a failed
    lookup with `raise_exc=False`). -/
private def exKeepMemo (sm : Bool) : Reg :=
  { registerOp exH exReg "uop" "auto_get" false ["object", "A", "M", "V", "B"] with
    cache := (getHandlerV sm exH exReg "uop" "B" sm).1.cache }
example : (getHandlerV true exH (exKeepMemo true) "uop" "B" true).2 = .unregistered ∧
    resolve exH (exKeepMemo true) "uop" "B" = some (some "getattr") := by decide
example : (getHandlerV false exH (exKeepMemo false) "uop" "B" true).2 = .unregistered ∧
    resolve exH (exKeepMemo false) "uop" "B" = some (some "getattr") := by decide

/-- **Counter-example for the memo-hit guard** (repair 8b51f6e, finding F41; the strict `answerOk`):
    with the code as it was — a memo hit returns whatever is stored — a `raise_exc=False` lookup of a
    type without a handler stores `False`, and the *raising* lookup of the same type that follows
    returns that `False` instead of raising: not an answer the reference allows (the caller would
    call it: `glom(5, [T])` failed with "'bool' object is not callable"), and not the answer the same
    lookup gives without the earlier one.  The code that exists raises. -/
example :
    let r1 := (getHandler exH exReg "uop" "B" false).1
    (getHandlerHitReturns exH r1 "uop" "B" true).2 = .ret none ∧
    answerOk (refAnswers exH {} "uop" "B") true (getHandlerHitReturns exH r1 "uop" "B" true).2 = false ∧
    (getHandlerHitReturns exH exReg "uop" "B" true).2 = .unregistered ∧
    (getHandler exH r1 "uop" "B" true).2 = .unregistered := by decide

/-- **Counter-example for the hypothesis `inst_sub`** (forced by `matching_complete`): a "class"
    whose `isinstance` is inherited duck typing — `isinstance(q, R2)` holds for every object with a
    `__dict__` although `R2` is a subclass of the (registered) iterable ABC `It` and `q` is not
    iterable.  The tree files `R2` under `It`, the lookup for `Q` never reaches it, and the answer
    (no handler) is not the one the reference allows (`R2`'s).  The real glom does the same on the
    same input (harness corpus case `duck-subclass`); such a hierarchy is outside the property's
    family (the driver skips it: `tableOK` is false). -/
private def cexTab : HierTab where
  mro := [("R2", ["R2", "object"]), ("It", ["It", "object"]), ("Q", ["Q", "object"]), ("object", ["object"])]
  sub := [("R2", "R2"), ("R2", "It"), ("R2", "object"), ("It", "It"), ("It", "object"), ("Q", "Q"),
          ("Q", "object"), ("object", "object")]
  inst := [("R2", "R2"), ("R2", "It"), ("R2", "object"), ("It", "It"), ("It", "object"),
           ("Q", "Q"), ("Q", "object"), ("Q", "R2")]
  auto := [("auto_get", [("R2", "getattr"), ("It", "getattr"), ("Q", "getattr")])]
private def cexActs : List Action :=
  [.register 0 "R2" false [("get", some "hR2")], .register 0 "It" false [("get", some "hIt")],
   .lookup 0 "get" "Q" false]
example : tableOK cexTab = false := by decide
example : checkC13 cexTab.toHier { exSetup with defaults := [] } [] [.registry false] cexActs
    (run cexTab.toHier [freshReg cexTab.toHier { exSetup with defaults := [] } false] cexActs) = false := by
  decide

/-! ## The type tree as a forest, for every insertion order; `issubclass` as an abstract relation

  `Hier.sub` / `Hier.inst` are arbitrary relations (tables in the driver): nothing derives them from
  the MRO, so virtual subclasses (`ABC.register`), `__subclasshook__` and `__instancecheck__` duck
  types are ordinary instances.  Which theorem needs what:

  | statement                                                             | needs                           |
  |---|---|
  | forest invariant (child ⊂ parent, siblings incomparable, nodes = set)  | transitivity of `sub` only      |
  | lookup through the forest ∈ `allowed`; never less specific; invariants of histories; checker theorem; memo theorems | `SubFacts` (transitive, antisymmetric, `isinstance` upward closed) — **no MRO fact, no reflexivity** |
  | order independence of the chosen type                                  | `SubFacts` + a unique minimal match (else registration order decides among unrelated virtual matches: counter-example below) |
  | nearest *base class* wins (`c13_nearest_nominal`)                      | + `mro_lin` (counter-example)   |
  | a covering class of the MRO is found (`c13_covers_subclasses`)         | + `mro_inst` (counter-example)  |
-/

/-- **The forest invariant holds for every insertion order** (induction over the registration
    list; `_register_fuzzy_type` as coded, with its snapshot loop, `pop`, KeyError fallback and
    recursion): every key is a superclass of the keys directly below it (`TreeInv`, at every level),
    sibling keys are distinct and pairwise incomparable (`GoodF`, at every level), the nodes are
    exactly the inserted types, and everything below a key is a subclass of it.  Only transitivity
    of `issubclass` is used — not antisymmetry, not reflexivity, nothing about the MRO. -/
theorem c13_forest_invariant (H : Hier)
    (hT : ∀ a b c, H.sub a b = true → H.sub b c = true → H.sub a c = true) (order : List Ty) :
    TreeInv H (insertAll H order) ∧ GoodF H (insertAll H order) ∧
    (∀ x, x ∈ (insertAll H order).nodes ↔ x ∈ order) ∧
    (∀ c kids, (insertAll H order).get? c = some kids → ∀ x ∈ kids.nodes, H.sub x c = true) :=
  ⟨(insertAll_rel hT order).1, (insertAll_rel hT order).2.1, (insertAll_rel hT order).2.2,
   TreeInv.descendants hT _ (insertAll_rel hT order).1⟩

/-- one `register()` call is one such insertion for every op it touches (the keyword ops and the
    ops with an auto-discovery function), and none when `exact=True` -/
theorem c13_register_inserts (H : Hier) (r : Reg) (t : Ty) (e : Bool) (kw : List (Op × Handler)) (op : Op) :
    (register H r t e kw).tree op =
      if e = false ∧ op ∈ opsOf (r.autoMap.map (·.1)) kw then regFuzzy H t (r.tree op) else r.tree op :=
  register_tree H r t e kw op

/-- **Lookup through the forest = nearest registered type**, for every insertion order and every
    abstract `issubclass` satisfying `SubFacts`: `_get_closest_type` over the forest built from
    `order` returns a type the set-based reference allows for the *set* of inserted types, and
    `None` only when it allows none. -/
theorem c13_forest_lookup (H : Hier) (hH : SubFacts H) (order : List Ty) (t : Ty) :
    match closest H t (insertAll H order) with
    | none => allowed H order t = []
    | some c => c ∈ allowed H order t :=
  closest_allowed H hH t (insertAll H order) order (insertAll_rel hH.sub_trans order).1
    (fun x => ((insertAll_rel hH.sub_trans order).2.2 x).symm)

/-- … and never a less specific one: the chosen type is a *minimal* inserted type the object is an
    instance of -/
theorem c13_forest_lookup_minimal (H : Hier) (hH : SubFacts H) (order : List Ty) (t c : Ty)
    (hc : closest H t (insertAll H order) = some c) :
    c ∈ order ∧ H.inst t c = true ∧ ∀ d ∈ order, H.inst t d = true → d ≠ c → H.sub d c = false := by
  have hr := insertAll_rel hH.sub_trans order
  have hmin := (dropSupers_matching_iff H hH t (insertAll H order) order hr.1
    (fun x => (hr.2.2 x).symm) c).1 (pickMin_some hc).1
  obtain ⟨ha, hno⟩ := (mem_minimal H _ c).1 hmin
  obtain ⟨hcov, hinst⟩ := (mem_applicable H _ t c).1 ha
  exact ⟨hcov, hinst, fun d hd hi hne => hno d ((mem_applicable H _ t d).2 ⟨hd, hi⟩) hne⟩

/-- **Order independence for an abstract `issubclass`**: two insertion orders of the same set of
    types give (possibly different forests but) the same candidates after the superclasses are
    dropped — the minimal matching types — and the same answer whenever
    (a) some minimal match is a class of the object's MRO (the MRO index ranks those, and a class of
        the MRO always beats one outside it: "within an inheritance chain"), or
    (b) there is only one minimal match.
    Otherwise — several unrelated virtual / duck matches and no real base among them — the first
    registered wins: counter-example below.  No MRO *fact* is used (only that `list.index` is
    injective on the members of a list). -/
theorem c13_forest_order_independent (H : Hier) (hH : SubFacts H) (o₁ o₂ : List Ty)
    (hp : ∀ x, x ∈ o₁ ↔ x ∈ o₂) (t : Ty) :
    (∀ c, c ∈ dropSupers H (matching H t (insertAll H o₁)) ↔
          c ∈ dropSupers H (matching H t (insertAll H o₂))) ∧
    (((∃ m ∈ minimal H (applicable H o₁ t), m ∈ H.mro t) ∨
      (∃ n, ∀ c ∈ minimal H (applicable H o₁ t), c = n)) →
      closest H t (insertAll H o₁) = closest H t (insertAll H o₂)) := by
  have hr₁ := insertAll_rel hH.sub_trans o₁
  have hr₂ := insertAll_rel hH.sub_trans o₂
  have h₁ := dropSupers_matching_iff H hH t (insertAll H o₁) o₁ hr₁.1 (fun x => (hr₁.2.2 x).symm)
  have h₂ := dropSupers_matching_iff H hH t (insertAll H o₂) o₁ hr₂.1
    (fun x => (hp x).trans (hr₂.2.2 x).symm)
  have hiff : ∀ c, c ∈ dropSupers H (matching H t (insertAll H o₁)) ↔
      c ∈ dropSupers H (matching H t (insertAll H o₂)) := fun c => (h₁ c).trans (h₂ c).symm
  refine ⟨hiff, fun hyp => ?_⟩
  -- both answers are key-minimal members of the same set
  cases hf : closest H t (insertAll H o₁) with
  | none =>
    have hnil := pickMin_none hf
    cases hg : closest H t (insertAll H o₂) with
    | none => rfl
    | some c =>
      have := (hiff c).2 (pickMin_some hg).1
      rw [hnil] at this; simp at this
  | some c₁ =>
    obtain ⟨hm₁, hk₁⟩ := pickMin_some hf
    cases hg : closest H t (insertAll H o₂) with
    | none =>
      have hnil := pickMin_none hg
      have := (hiff c₁).1 hm₁
      rw [hnil] at this; simp at this
    | some c₂ =>
      obtain ⟨hm₂, hk₂⟩ := pickMin_some hg
      have hkeq : key H t c₁ = key H t c₂ :=
        Nat.le_antisymm (hk₁ c₂ ((hiff c₂).2 hm₂)) (hk₂ c₁ ((hiff c₁).1 hm₁))
      rcases hyp with ⟨m, hmin, hmro⟩ | ⟨n, hn⟩
      · have hmd : m ∈ dropSupers H (matching H t (insertAll H o₁)) := (h₁ m).2 hmin
        have hlt : (H.mro t).idxOf m < (H.mro t).length := List.idxOf_lt_length_of_mem hmro
        have hc₁ : c₁ ∈ H.mro t := by
          apply List.idxOf_lt_length_iff.1
          have := hk₁ m hmd
          unfold key at this; omega
        have hc₂ : c₂ ∈ H.mro t := by
          apply List.idxOf_lt_length_iff.1
          have := hk₂ m ((hiff m).1 hmd)
          unfold key at this; omega
        rw [idxOf_inj hc₁ hc₂ (by unfold key at hkeq; exact hkeq)]
      · rw [hn c₁ ((h₁ c₁).1 hm₁), hn c₂ ((h₁ c₂).1 ((hiff c₂).2 hm₂))]

/-- **What decides among several incomparable matches** (the reference allows each of them; the
    property does not rank them).  The candidates are the deepest matches in *pre-order of the forest*,
    superclasses dropped; a candidate that is a class of the object's MRO beats every candidate that
    is not, the earliest MRO class beats the later ones — and **when no candidate is in the MRO
    (virtual / duck types only) the first candidate in pre-order of the forest wins**.  The forest is
    a function of the registration history alone (`c13_outcome_function_of_history`), so the choice
    is reproducible, but it is *not* "first registered wins": re-parenting moves an early type behind
    a later one (example below). -/
theorem c13_tie_break_first_candidate (H : Hier) (t : Ty) (f : Forest) (c : Ty) (rest : List Ty)
    (hd : dropSupers H (matching H t f) = c :: rest)
    (hout : ∀ x ∈ c :: rest, x ∉ H.mro t) : closest H t f = some c := by
  unfold closest
  rw [hd]
  simp only [pickMin]
  rw [pickMinAux_all_ge]
  intro x hx
  rw [key_of_not_mem (hout c (by simp)), key_of_not_mem (hout x (by simp [hx]))]
  exact Nat.le_refl _

/-- **The outcome is a function of the registration history** (repair 165f0ee): `register_op` walks
    the known types in *registration order* (`Reg.knownTypes`: first occurrence over the per-op
    tables) — `runD` runs a history that way —, so two histories that differ only in the order their
    `register_op` actions carry (the iteration order of a *set* of types, i.e. memory addresses,
    before the repair) give the same answers; and `runD` is `run` on the canonised history, so the
    checker theorem applies to it. -/
theorem c13_outcome_function_of_history (H : Hier) (acts acts' : List Action)
    (h : acts.map Action.eraseOrder = acts'.map Action.eraseOrder) (w : List Reg) :
    runD H w acts = runD H w acts' := by
  induction acts generalizing acts' w with
  | nil =>
    cases acts' with
    | nil => rfl
    | cons b bs => simp at h
  | cons a as ih =>
    cases acts' with
    | nil => simp at h
    | cons b bs =>
      simp only [List.map_cons, List.cons.injEq] at h
      simp only [runD]
      rw [canon_eq_of_eraseOrder w h.1, ih bs h.2]

theorem c13_runD_checks (H : Hier) (hH : SubFacts H) (S : Setup) (orders : List (List Ty))
    (kinds : List RegKind) (acts : List Action) :
    checkC13 H S orders kinds (canonActs H (kinds.map (mkReg H S orders)) acts)
      (runD H (kinds.map (mkReg H S orders)) acts) = true := by
  rw [runD_eq_run]
  exact c13_model_checks H hH S orders kinds _

/-- **Counter-example for the `cur_type is new_type` branch (finding F42, repaired by 63b9f8a): the
    insertion as it was (`regFuzzyOld`) nests a re-registered type under itself.**
    `_register_fuzzy_type(op, T)` on a level that already had the key `T` took the `issubclass(T, T)`
    branch, popped `T` and — the KeyError fallback, because the key was just popped — created a *new*
    key `T` holding the old one: `{T: sub}` became `{T: {T: sub}}`.  Every further non-exact
    registration of the type (and every `register_op` of an op it was registered for) added a level:
    after `n` of them the tree was `n + 1` levels deep.  Invariants and answers were unaffected in
    the model — but `_get_matching_types` recurses once per level, so in CPython about a thousand
    re-registrations of one type made every lookup of an unregistered subclass raise RecursionError
    (harness stream `deep_reregistration_stream`). -/
theorem c13_reregistration_nests (H : Hier) (t : Ty) (ht : H.sub t t = true) :
    (∀ kids, regFuzzyOld H t (.cons t kids .nil) = .cons t (.cons t kids .nil) .nil) ∧
    (∀ n, regFuzzyOld H t (Forest.nestSelf t n) = Forest.nestSelf t (n + 1)) ∧
    (∀ n, (Forest.nestSelf t n).depth = n + 1) := by
  have h1 : ∀ kids, regFuzzyOld H t (.cons t kids .nil) = .cons t (.cons t kids .nil) .nil := by
    intro kids
    simp [regFuzzyOld, regLoopOld, regFinish, ht, Forest.get?, Forest.erase, Forest.set]
  refine ⟨h1, fun n => ?_, fun n => ?_⟩
  · cases n with
    | zero => exact h1 .nil
    | succ n => exact h1 _
  · induction n with
    | zero => simp [Forest.nestSelf, Forest.depth]
    | succ n ih => simp [Forest.nestSelf, Forest.depth, ih]

/-- **The repaired insertion: a re-registered type keeps its subtree and moves to the end of its
    level** (63b9f8a; `regFuzzy` is the code that exists).  On a level whose other keys are unrelated to
    `T` (every level of a reachable tree: `GoodF`) `{…pre, T: sub, …post}` becomes `{…pre, …post, T: sub}`:
    no node is added, the depth does not grow (in particular `{T: sub}` stays `{T: sub}`), whether or
    not `T` is its own subclass. -/
theorem c13_reregistration_moves_to_end (H : Hier) (t : Ty) (pre kids post : Forest)
    (hpre : ∀ c ∈ pre.roots, H.sub c t = false ∧ H.sub t c = false)
    (hpost : ∀ c ∈ post.roots, H.sub c t = false ∧ H.sub t c = false)
    (hnp : t ∉ pre.roots) (hnq : t ∉ post.roots) :
    regFuzzy H t (pre.app (.cons t kids post)) = (pre.app post).app (.cons t kids .nil) ∧
    regFuzzy H t (.cons t kids .nil) = .cons t kids .nil := by
  have h := regLoop_modeR H t pre kids post false hpre hpost hnp hnq
  refine ⟨by simp only [regFuzzy, h, regFinish, if_true], ?_⟩
  have h0 := regLoop_modeR H t .nil kids .nil false (by simp [Forest.roots]) (by simp [Forest.roots])
    (by simp [Forest.roots]) (by simp [Forest.roots])
  simp only [Forest.app] at h0
  simp only [regFuzzy, h0, regFinish, if_true]

/-! ### `exact=True` -/

/-- **`exact=True` registers the handler and nothing else**: no type tree changes … -/
theorem c13_exact_keeps_trees (H : Hier) (r : Reg) (t : Ty) (kw : List (Op × Handler)) :
    (register H r t true kw).typeTree = r.typeTree := rfl

/-- … so **a type that was only ever registered with `exact=True` serves no other type**: as long
    as it is not among the covering types, no lookup through the tree returns it. -/
theorem c13_exact_only_never_serves (H : Hier) (hH : SubFacts H) (r : Reg) (ρ : RefReg) (h : Rel H r ρ)
    (op : Op) (t : Ty) (hnc : t ∉ ρ.coverOf op) (kw : List (Op × Handler)) (t' c : Ty)
    (hc : closest H t' ((register H r t true kw).tree op) = some c) : c ≠ t := by
  rw [register_tree] at hc
  simp only [Bool.true_eq_false, false_and, if_false] at hc
  have := (c13_never_less_specific H hH r ρ h op t' c hc).1
  intro e; subst e; exact hnc this

/-- which types cover after a list of `register` calls (any mix of `exact`): the ones that
    covered before, and every type with at least one non-exact registration touching the op -/
theorem c13_cover_characterisation (H : Hier) (ρ : RefReg)
    (regs : List (Ty × Bool × List (Op × Handler))) (op : Op) (x : Ty) :
    x ∈ (refRegisterAll H ρ regs).coverOf op ↔
      x ∈ ρ.coverOf op ∨ ∃ g ∈ regs, x = g.1 ∧ g.2.1 = false ∧ op ∈ opsOf (ρ.autoOps.map (·.1)) g.2.2 :=
  refRegisterAll_cover H regs ρ op x

/-- **The same type registered twice, `exact=True` the second time**: the tree keeps the type (it
    goes on covering its subclasses — `exact` does not retract anything) and the *new* handler
    serves them: a type `t'` that the tree resolved to `t` before is answered with the handler of
    the second call. -/
theorem c13_exact_reregistration (H : Hier) (r : Reg) (op : Op) (t t' : Ty) (hd : Handler)
    (kw : List (Op × Handler)) (hk : odGet op kw = some hd)
    (hne : odGet t' (r.map op) = none) (htt : t' ≠ t) (hc : closest H t' (r.tree op) = some t) :
    resolve H (register H r t true kw) op t' = some hd := by
  have hop : op ∈ opsOf (r.autoMap.map (·.1)) kw :=
    (mem_opsOf _ _ _).2 (Or.inl (List.mem_map.2 ⟨(op, hd), odGet_some_mem hk, rfl⟩))
  apply resolve_of_closest (c := t)
  · rw [register_map_other H r t true kw op t' htt]; exact hne
  · rw [register_tree]; simpa using hc
  · rw [register_map_self H r t true kw op hop]
    simp [pickHandler, hk]

/-- **`exact=True` first, then a registration without `exact` and without a handler for the op**:
    the type starts covering its subclasses (it is inserted into the op's tree) and keeps the
    handler of the first call. -/
theorem c13_fuzzy_after_exact (H : Hier) (hH : SubFacts H) (r : Reg) (ρ : RefReg) (h : Rel H r ρ)
    (t : Ty) (op : Op) (hd : Handler)
    (kw : List (Op × Handler)) (hh : odGet t (r.map op) = some hd) (hk : odGet op kw = none)
    (hop : op ∈ r.autoMap.map (·.1)) :
    odGet t ((register H r t false kw).map op) = some hd ∧
    (register H r t false kw).tree op = regFuzzy H t (r.tree op) ∧
    t ∈ ((register H r t false kw).tree op).nodes := by
  have hops : op ∈ opsOf (r.autoMap.map (·.1)) kw := (mem_opsOf _ _ _).2 (Or.inr hop)
  refine ⟨?_, ?_, ?_⟩
  · rw [register_map_self H r t false kw op hops]
    have : odGet t ((odGet op r.typeMap).getD []) = some hd := hh
    simp [pickHandler, hk, this]
  · rw [register_tree]; simp [hops]
  · rw [register_tree]
    simp only [hops, and_self, if_true]
    exact ((TreeRel.step hH t (h.tree op)).2.2 t).1 (by rw [mem_insertSet]; exact Or.inl rfl)

/-- **An explicitly registered `False` is a registration like any other** (seeds C13-s10 / s11):
    (a) a later registration of the same type that does not name the op keeps it — the handler a type
    already has is taken over, it is not re-discovered because it is falsy; (b) it serves the
    subclasses: when the tree resolves `t'` to `c` and `c`'s handler is `False`, the lookup finds *no
    handler* — a farther base or another matching type with a real handler does not take over (the
    choice of the type does not look at the handlers). -/
theorem c13_false_is_a_registration (H : Hier) (r : Reg) (op : Op) :
    (∀ t e kw, odGet t (r.map op) = some none → odGet op kw = none → op ∈ r.autoMap.map (·.1) →
      odGet t ((register H r t e kw).map op) = some none) ∧
    (∀ t' c, odGet t' (r.map op) = none → closest H t' (r.tree op) = some c →
      odGet c (r.map op) = some none → resolve H r op t' = some none) := by
  refine ⟨fun t e kw hh hk hop => ?_, fun t' c hne hc hh => resolve_of_closest hne hc hh⟩
  rw [register_map_self H r t e kw op ((mem_opsOf _ _ _).2 (Or.inr hop))]
  have : odGet t ((odGet op r.typeMap).getD []) = some none := hh
  simp [pickHandler, hk, this]

/-! ### subclasses of the builtin target types -/

/-- what the real module-level registry answered at extraction time for `(type, op)` -/
def implAnswer (t : Ty) (op : Op) : Option String :=
  (Generated.c13ProbeAnswers.find? (fun a => a.1 == t && a.2.1 == op)).map (·.2.2)

/-- how an instance of a direct subclass of a builtin target type is expected to be served, given
    the answer for an instance of the base: the same, except that
    (a) an instance with a `__dict__` whose base has no `keys` handler gets the obj-style keys, and
    (b) a subclass of `str` / `bytes` is iterable (`_AbstractIterable.__subclasshook__` excludes
        exactly `str` and `bytes`, not their subclasses). -/
def probeExpected (baseAns : String) (base : Ty) (hasDict : Bool) (op : Op) : String :=
  if op == "keys" && baseAns == "False" && hasDict then "_ObjStyleKeys.get_keys"
  else if op == "iterate" && ["str", "bytes"].contains base then "iter"
  else baseAns

def probeOps : List Op := ["get", "iterate", "keys", "assign", "delete"]

/-- **Builtin subclasses** (facts regenerated on every run: for each of `dict`, `list`, `tuple`,
    `str`, `object` a probe subclass with a `__dict__` and one with `__slots__ = ()`, with the
    `__mro__` / `isinstance` / `issubclass` / auto-discovery rows the interpreter answered, and the
    answers of a copy of the real module-level registry for an instance of every probe and every
    base, for every operation):
    (1) the model's module registry resolves every one of these lookups exactly as the real one
        answered;
    (2) every probe is served like its base (`probeExpected`: the base's handler, obj-style keys
        for an instance with a `__dict__` when the base has no `keys` handler, `iter` for
        subclasses of `str`);
    (3) the hierarchy with the probes satisfies `SubFacts` (so every theorem above applies to it). -/
theorem c13_builtin_subclasses :
    Generated.c13ProbeAnswers.all (fun a =>
      resolve probeHier (canonModuleReg probeHier) a.2.1 a.1 == some (hOfName a.2.2)) = true ∧
    Generated.c13Probes.all (fun p => probeOps.all (fun op =>
      (implAnswer p.1 op).isSome &&
      implAnswer p.1 op == (implAnswer p.2.1 op).map (fun b => probeExpected b p.2.1 p.2.2 op))) = true ∧
    Generated.c13Probes.length = 10 ∧ Generated.c13ProbeAnswers.length = 75 ∧
    subOK probeTab = true := by
  decide +kernel

/-! ### non-vacuity and counter-examples for the forest / abstract-relation theorems -/

-- two insertion orders of the same types: different forests, same answers (`exTab`: the chain
-- B2 ⊂ B ⊂ A, the mixin M, X ⊂ B, M, the ABC V with A, B, B2, X as virtual subclasses)
example : insertAll exH ["A", "M", "V", "object"] =
    .cons "object" (.cons "M" .nil (.cons "V" (.cons "A" .nil .nil) .nil)) .nil := by decide
example : insertAll exH ["object", "V", "M", "A"] =
    .cons "object" (.cons "V" (.cons "A" .nil .nil) (.cons "M" .nil .nil)) .nil := by decide
-- X has two minimal matches (A and the mixin M); hypothesis (a) of `c13_forest_order_independent`
-- holds (A is in X's MRO) and both forests answer A
example : minimal exH (applicable exH ["A", "M", "V", "object"] "X") = ["A", "M"] := by decide
example : "A" ∈ exH.mro "X" := by decide
example : closest exH "X" (insertAll exH ["A", "M", "V", "object"]) = some "A" ∧
    closest exH "X" (insertAll exH ["object", "V", "M", "A"]) = some "A" := by decide

/-- **Counter-example for order independence without (a) / (b)**: two unrelated ABCs `V`, `W` with the
    same virtual subclass `P` (neither is in `P`'s MRO): whichever was registered first wins.  The
    property only promises order independence "within an inheritance chain". -/
private def vwTab : HierTab where
  mro := [("P", ["P", "object"]), ("V", ["V", "object"]), ("W", ["W", "object"]), ("object", ["object"])]
  sub := [("P", "P"), ("P", "V"), ("P", "W"), ("P", "object"), ("V", "V"), ("V", "object"), ("W", "W"),
          ("W", "object"), ("object", "object")]
  inst := [("P", "P"), ("P", "V"), ("P", "W"), ("P", "object"), ("V", "V"), ("V", "object"), ("W", "W"),
           ("W", "object"), ("object", "object")]
  auto := []
example : tableOK vwTab = true := by decide
example : closest vwTab.toHier "P" (insertAll vwTab.toHier ["V", "W"]) = some "V" ∧
    closest vwTab.toHier "P" (insertAll vwTab.toHier ["W", "V"]) = some "W" := by decide
example : minimal vwTab.toHier (applicable vwTab.toHier ["V", "W"] "P") = ["V", "W"] ∧
    "V" ∉ vwTab.toHier.mro "P" ∧ "W" ∉ vwTab.toHier.mro "P" := by decide

/-- **Counter-example for transitivity** (`c13_forest_invariant`): `D ⊂ N ⊂ C` but not `D ⊂ C` (possible
    with `__subclasshook__`).  Inserting `C`, `D`, `N` files `N` below `C` *and* — because the popped
    `D` has to go below `N` and `N` is not a key of this level: the KeyError fallback — as a new
    root next to `C`: the siblings `C`, `N` are related. -/
private def ntTab : HierTab where
  mro := [("C", ["C"]), ("N", ["N", "C"]), ("D", ["D", "N"])]
  sub := [("C", "C"), ("N", "N"), ("D", "D"), ("N", "C"), ("D", "N")]
  inst := [("C", "C"), ("N", "N"), ("N", "C"), ("D", "D"), ("D", "N"), ("D", "C")]
  auto := []
example : insertAll ntTab.toHier ["C", "D", "N"] =
    .cons "C" (.cons "N" .nil .nil) (.cons "N" (.cons "D" .nil .nil) .nil) := by decide
example : ¬ GoodF ntTab.toHier (insertAll ntTab.toHier ["C", "D", "N"]) := by
  rw [show insertAll ntTab.toHier ["C", "D", "N"] =
    .cons "C" (.cons "N" .nil .nil) (.cons "N" (.cons "D" .nil .nil) .nil) from by decide]
  intro h
  have := (h.2.1 "N" (by simp [Forest.roots])).2
  exact absurd this (by decide)

/-- **Counter-example for antisymmetry** (`c13_forest_lookup_minimal`, `c13_never_less_specific`): two
    distinct types that are subclasses of each other (two ABCs with the same `__subclasshook__`).
    The tree files `A` below `B`, the lookup answers `A`, and `B` — matching, different, and a
    subclass of `A` — contradicts "no matching type strictly below the chosen one". -/
private def asTab : HierTab where
  mro := [("T", ["T"]), ("A", ["A"]), ("B", ["B"])]
  sub := [("A", "A"), ("B", "B"), ("A", "B"), ("B", "A"), ("T", "T"), ("T", "A"), ("T", "B")]
  inst := [("T", "T"), ("T", "A"), ("T", "B"), ("A", "A"), ("A", "B"), ("B", "B"), ("B", "A")]
  auto := []
example : subOK asTab = false := by decide
example : closest asTab.toHier "T" (insertAll asTab.toHier ["A", "B"]) = some "A" ∧
    "B" ∈ ["A", "B"] ∧ asTab.toHier.inst "T" "B" = true ∧ "B" ≠ "A" ∧ asTab.toHier.sub "B" "A" = true := by
  decide

/-- **Counter-example for `mro_lin`** (`c13_nearest_nominal`): `class T(V, A)` where `A` is a *virtual*
    subclass of the ABC `V` (`V.register(A)`): Python's MRO is `[T, V, A, object]`, the virtual
    superclass precedes its subclass.  `issubclass` / `isinstance` are a fine partial order
    (`subOK`), every matching type is in the MRO, the first covering class of the MRO is `V` — and
    the lookup answers `A`, the more specific one (as `c13_forest_lookup_minimal` says it must). -/
private def mlTab : HierTab where
  mro := [("T", ["T", "V", "A", "object"]), ("V", ["V", "object"]), ("A", ["A", "object"]),
          ("object", ["object"])]
  sub := [("T", "T"), ("T", "V"), ("T", "A"), ("T", "object"), ("V", "V"), ("V", "object"), ("A", "A"),
          ("A", "V"), ("A", "object"), ("object", "object")]
  inst := [("T", "T"), ("T", "V"), ("T", "A"), ("T", "object"), ("V", "V"), ("V", "object"), ("A", "A"),
           ("A", "V"), ("A", "object"), ("object", "object")]
  auto := []
example : subOK mlTab = true ∧ mroOK mlTab = false := by decide
example : (∀ x ∈ applicable mlTab.toHier ["V", "A"] "T", x ∈ mlTab.toHier.mro "T") ∧
    firstNominal mlTab.toHier "T" (applicable mlTab.toHier ["V", "A"] "T") = some "V" ∧
    closest mlTab.toHier "T" (insertAll mlTab.toHier ["V", "A"]) = some "A" := by decide

/-- **Counter-example for `mro_inst`** (`c13_covers_subclasses`): a metaclass whose `__instancecheck__`
    and `__subclasscheck__` answer False for real subclasses: `A` is in `B.__mro__`, `A` covers, and
    the lookup for an instance of `B` finds nothing. -/
private def miTab : HierTab where
  mro := [("B", ["B", "A"]), ("A", ["A"])]
  sub := [("A", "A"), ("B", "B")]
  inst := [("A", "A"), ("B", "B")]
  auto := []
example : subOK miTab = true ∧ mroOK miTab = false := by decide
example : "A" ∈ miTab.toHier.mro "B" ∧ closest miTab.toHier "B" (insertAll miTab.toHier ["A"]) = none := by
  decide

-- reflexivity is not assumed — and does not hold for glom's own iterable duck type
example : builtinHier.sub "_AbstractIterable" "_AbstractIterable" = false := by decide

/-! #### `exact=True` -/

-- `exReg`: A, M, V registered as covering, B with exact=True (and never otherwise): B serves nobody,
-- its subclass B2 is served by A (`c13_exact_only_never_serves`)
example : "B" ∉ (exReg.tree "get").nodes ∧ closest exH "B2" (exReg.tree "get") = some "A" := by decide
-- the same type twice, exact=True the second time (`c13_exact_reregistration`): A keeps covering and
-- B2 — resolved through the tree to A — now gets the handler of the second call
example : resolve exH exReg "get" "B2" = some (some "hA") ∧
    resolve exH (register exH exReg "A" true [("get", some "hA2")]) "get" "B2" = some (some "hA2") := by
  decide
-- exact=True first (B, above), then without exact and without a handler (`c13_fuzzy_after_exact`):
-- B keeps "hB", enters the tree below A, and now serves B2
example : odGet "B" ((register exH exReg "B" false []).map "get") = some (some "hB") ∧
    (register exH exReg "B" false []).tree "get" =
      .cons "object" (.cons "M" .nil (.cons "V" (.cons "A" (.cons "B" .nil .nil) .nil) .nil)) .nil ∧
    resolve exH (register exH exReg "B" false []) "get" "B2" = some (some "hB") := by decide

/-! #### the tie-break among incomparable virtual matches; `register_op` before 165f0ee -/

-- `c13_tie_break_first_candidate` on `vwTab` (P is a virtual subclass of the unrelated ABCs V and W,
-- neither is in P's MRO): the first candidate in pre-order of the forest wins
example : dropSupers vwTab.toHier (matching vwTab.toHier "P" (insertAll vwTab.toHier ["V", "W"])) = ["V", "W"] ∧
    (∀ x ∈ ["V", "W"], x ∉ vwTab.toHier.mro "P") := by decide

/-- … which is **not** "the first registered wins": register `V`, then `W`, then a supertype `U` of
    `V`: `V` is re-parented below the new key `U`, which goes to the end — now `W` precedes `V` in
    pre-order and wins, although `V` was registered first.  (The comment in `_get_closest_type`,
    "ties keep registration order", is true only until a supertype of an earlier type is
    registered.) -/
private def vwuTab : HierTab :=
  { vwTab with
    mro := vwTab.mro ++ [("U", ["U", "object"])]
    sub := vwTab.sub ++ [("U", "U"), ("U", "object"), ("V", "U"), ("P", "U")]
    inst := vwTab.inst ++ [("U", "U"), ("U", "object"), ("V", "U"), ("P", "U")] }
example : subOK vwuTab = true := by decide
example : insertAll vwuTab.toHier ["V", "W", "U"] =
    .cons "W" .nil (.cons "U" (.cons "V" .nil .nil) .nil) := by decide
example : closest vwuTab.toHier "P" (insertAll vwuTab.toHier ["V", "W"]) = some "V" ∧
    closest vwuTab.toHier "P" (insertAll vwuTab.toHier ["V", "W", "U"]) = some "W" := by decide

/-- **Counter-example for the order of `known_types`** (`c13_outcome_function_of_history`; the code
    before 165f0ee iterated a *set* of types): the same registrations, then the same `register_op`,
    walked in two orders — two different forests and two different answers for `P`.  Which of the
    two a process saw depended on the memory addresses of the classes. -/
private def vwReg : Reg :=
  register vwTab.toHier (register vwTab.toHier
    (registerOp vwTab.toHier {} "get" "auto_get" false []) "V" true []) "W" true []
example : vwReg.knownTypes = ["V", "W"] := by decide
example :
    let r₁ := registerOp vwTab.toHier vwReg "uop" "u" false ["V", "W"]
    let r₂ := registerOp vwTab.toHier vwReg "uop" "u" false ["W", "V"]
    closest vwTab.toHier "P" (r₁.tree "uop") = some "V" ∧ closest vwTab.toHier "P" (r₂.tree "uop") = some "W" ∧
    registerOpD vwTab.toHier vwReg "uop" "u" false = r₁ := by decide
-- `runD` ignores the order an action carries
example : runD vwTab.toHier [vwReg]
      [.registerOp 0 "uop" "u" false ["W", "V"], .lookup 0 "uop" "P" false] =
    runD vwTab.toHier [vwReg] [.registerOp 0 "uop" "u" false [], .lookup 0 "uop" "P" false] := by decide

-- the default registry of the model: `register(dict, get=…)` and `register(dict, keys=…)` are two
-- registrations of `dict` (`OrderedDict` likewise) — since 63b9f8a without any self-nesting …
example : (freshReg builtinHier genSetup true).tree "get" =
    .cons "object" (.cons "_AbstractIterable"
      (.cons "dict" (.cons "OrderedDict" .nil .nil) (.cons "list" .nil (.cons "tuple" .nil .nil)))
      (.cons "_ObjStyleKeys" .nil .nil)) .nil := by decide
-- … where the insertion as it was gave `dict → dict → OrderedDict → OrderedDict`
example : regFuzzyOld builtinHier "dict" (regFuzzyOld builtinHier "dict" .nil) =
    .cons "dict" (.cons "dict" .nil .nil) .nil ∧
    regFuzzy builtinHier "dict" (regFuzzy builtinHier "dict" .nil) = .cons "dict" .nil .nil := by decide
-- a re-registered type moves behind its siblings (`c13_reregistration_moves_to_end`)
example : insertAll vwTab.toHier ["V", "W", "V"] = .cons "W" .nil (.cons "V" .nil .nil) := by decide

end Glom.Props.C13
