import Glom.Lemmas.C13
import Glom.Model.C13Env
/-
  C13 — handlers are chosen by nearest registered type, immediately and in isolation.

  Property theorems only; helper lemmas are in `Glom/Lemmas/C13.lean`.  The model
  (`Glom/Model/C13.lean`) mirrors `TargetRegistry` literally (exact table, ordered type tree with
  the re-parenting insertion loop, memo, auto-discovery map); the reference semantics
  (`Glom/Spec/C13.lean`) knows only a handler table and, per op, the *set* of covering types.

  Every theorem is for all hierarchies satisfying `HierFacts` (transitivity and antisymmetry of
  `issubclass`, `isinstance` closed under `issubclass` and containing the MRO, monotone C3
  linearisation), all registries reachable by any history (`Rel`), all types and ops — no bound on
  the number of classes, registrations or lookups.  `hierFacts_of_table` (Lemmas) derives
  `HierFacts` from the decidable check the driver evaluates on the tables of every case.
-/
namespace Glom.Props.C13
open Glom Glom.C13

/-- **Facts obligation** (re-checked on every run against the tables regenerated from /repo):
    the code has the decision shape the model mirrors — `__init__` builds fresh state, registers
    the builtin ops, then the default types; `register` and `register_op` end with the memo
    reset; `_get_matching_types` collects the deepest match of every branch and
    `_get_closest_type` drops strict superclasses and takes the MRO-minimum;
    `register` and `register_op` validate first and write afterwards (every write to
    `_op_type_map` / `_op_type_tree` / `_type_cache` follows the last `raise`; the only earlier
    write is the `setdefault` of an empty per-op table), `get_handler` raises for a failed lookup
    *before* the memo write (the memo holds only answers that were returned);
    `_register_fuzzy_type` only creates a node that does not exist; `Glommer.__init__` builds its
    own registry and copies the ops of the registry it is created from; `register()` /
    `Glommer.register` delegate to their registry — and `isinstance` / `issubclass` / `__mro__`
    on the builtin target types and glom's two duck types are coherent. -/
theorem c13_facts_wf : shapeOK = true ∧ tableOK builtinTab = true := by decide

/-- hence the hierarchy of the builtin target types satisfies the hypotheses of every theorem
    below -/
theorem c13_builtin_hier : HierFacts builtinHier :=
  hierFacts_of_table builtinTab c13_facts_wf.2

/-- **Invariants of every history** (induction over the list of operations): whatever sequence of
    `register` / `register_op` / lookups is applied to whatever registries (module registry,
    Glommers, bare registries), each registry still corresponds to the reference registry with
    the same history: same handler table; every op's type tree satisfies `tree_inv` (each key is a
    superclass of the keys below it), has distinct, pairwise unrelated sibling keys, and contains
    *exactly* the types registered as covering (`tree_complete`); every tree node has a handler;
    the memo holds only current answers. -/
theorem c13_invariants (H : Hier) (hH : HierFacts H) (S : Setup) (orders : List (List Ty))
    (kinds : List RegKind) (acts : List Action) :
    All2 (Rel H) (finalWorld H (kinds.map (mkReg H S orders)) acts)
      (acts.foldl (refStep H) (kinds.map (refMk H S orders))) :=
  finalWorld_rel hH acts (All2.map _ _ (rel_mk hH S orders) kinds)

/-- the tree part of `Rel`, spelled out -/
theorem c13_tree_inv_complete (H : Hier) (r : Reg) (ρ : RefReg) (h : Rel H r ρ) (op : Op) :
    TreeInv H (r.tree op) ∧ GoodF H (r.tree op) ∧
    (∀ x, x ∈ ρ.coverOf op ↔ x ∈ (r.tree op).nodes) ∧
    (∀ x ∈ (r.tree op).nodes, (odGet x (r.map op)).isSome = true) :=
  ⟨(h.tree op).1, (h.tree op).2.1, (h.tree op).2.2, h.subMap op⟩

/-- **An exact registration beats any ancestor**: a type that is registered for the op (exact or
    not) is served by its own handler, whatever else is registered and whatever the memo holds. -/
theorem c13_exact_wins (H : Hier) (hH : HierFacts H) (r : Reg) (ρ : RefReg) (h : Rel H r ρ)
    (op : Op) (t : Ty) (hd : Handler) (hreg : odGet t (r.map op) = some hd) (re : Bool) :
    (getHandler H r op t re).2.handler = some hd := by
  rw [getHandler_handler hH h]
  unfold resolve
  have hne : (r.map op).isEmpty = false := by
    cases hm : r.map op with
    | nil => rw [hm] at hreg; simp [odGet] at hreg
    | cons a l => rfl
  simp [hne, hreg]

/-- **Nearest registered type.**  For a type that is not itself registered, `_get_closest_type`
    returns a type the reference allows (`allowed`: the nearest base class in MRO order if no
    matching covering type lies strictly below it, else a minimal matching covering type), and
    returns `None` only when no covering type matches. -/
theorem c13_nearest (H : Hier) (hH : HierFacts H) (r : Reg) (ρ : RefReg) (h : Rel H r ρ)
    (op : Op) (t : Ty) :
    match closest H t (r.tree op) with
    | none => allowed H (ρ.coverOf op) t = []
    | some c => c ∈ allowed H (ρ.coverOf op) t :=
  closest_allowed H hH t (r.tree op) (ρ.coverOf op) (h.tree op).1 (h.tree op).2.2

/-- **A more specific registered type is never overridden by a less specific one**: no covering
    type the object is an instance of is a strict subclass of the chosen type. -/
theorem c13_never_less_specific (H : Hier) (hH : HierFacts H) (r : Reg) (ρ : RefReg) (h : Rel H r ρ)
    (op : Op) (t c : Ty) (hc : closest H t (r.tree op) = some c) :
    c ∈ ρ.coverOf op ∧ H.inst t c = true ∧
    ∀ d ∈ ρ.coverOf op, H.inst t d = true → d ≠ c → H.sub d c = false := by
  have := (pickMin_some hc).1
  have hmin := (dropSupers_matching_iff H hH t (r.tree op) (ρ.coverOf op) (h.tree op).1 (h.tree op).2.2 c).1 this
  obtain ⟨ha, hno⟩ := (mem_minimal H _ c).1 hmin
  obtain ⟨hcov, hinst⟩ := (mem_applicable H _ t c).1 ha
  exact ⟨hcov, hinst, fun d hd hi hne => hno d ((mem_applicable H _ t d).2 ⟨hd, hi⟩) hne⟩

/-- **The nearest base class wins** whenever no matching covering type lies strictly below it:
    `n` is the first class of the object's MRO that covers. -/
theorem c13_nearest_base (H : Hier) (hH : HierFacts H) (r : Reg) (ρ : RefReg) (h : Rel H r ρ)
    (op : Op) (t n : Ty)
    (hn : firstNominal H t (applicable H (ρ.coverOf op) t) = some n)
    (hmin : ∀ d ∈ ρ.coverOf op, H.inst t d = true → d ≠ n → H.sub d n = false) :
    closest H t (r.tree op) = some n := by
  have hnapp : n ∈ applicable H (ρ.coverOf op) t := by simpa using (find?_first hn).2.1
  have hnmin : n ∈ minimal H (applicable H (ρ.coverOf op) t) :=
    (mem_minimal H _ n).2 ⟨hnapp, fun d hd hne =>
      hmin d ((mem_applicable H _ t d).1 hd).1 ((mem_applicable H _ t d).1 hd).2 hne⟩
  have hal : allowed H (ρ.coverOf op) t = [n] := by
    have : (minimal H (applicable H (ρ.coverOf op) t)).contains n = true := by simpa using hnmin
    simp only [allowed, hn, this, if_true]
  have := c13_nearest H hH r ρ h op t
  cases hc : closest H t (r.tree op) with
  | none => rw [hc] at this; simp only at this; rw [hal] at this; simp at this
  | some c => rw [hc] at this; simp only at this; rw [hal] at this; simp at this; rw [this]

/-- in particular when every matching covering type is a real base class (no virtual / duck
    match): the first covering class of the MRO -/
theorem c13_nearest_nominal (H : Hier) (hH : HierFacts H) (r : Reg) (ρ : RefReg) (h : Rel H r ρ)
    (op : Op) (t n : Ty)
    (hnom : ∀ x ∈ applicable H (ρ.coverOf op) t, x ∈ H.mro t)
    (hn : firstNominal H t (applicable H (ρ.coverOf op) t) = some n) :
    closest H t (r.tree op) = some n := by
  have hal := allowed_nominal H hH (ρ.coverOf op) t n hnom hn
  have := c13_nearest H hH r ρ h op t
  cases hc : closest H t (r.tree op) with
  | none => rw [hc] at this; simp only at this; rw [hal] at this; simp at this
  | some c => rw [hc] at this; simp only at this; rw [hal] at this; simp at this; rw [this]

/-- **A type registered without `exact=True` covers instances of all its subclasses**: if a class
    of the object's MRO covers, the lookup finds a type. -/
theorem c13_covers_subclasses (H : Hier) (hH : HierFacts H) (r : Reg) (ρ : RefReg) (h : Rel H r ρ)
    (op : Op) (t c : Ty) (hc : c ∈ ρ.coverOf op) (hm : c ∈ H.mro t) :
    ∃ c', closest H t (r.tree op) = some c' := by
  have hcn : c ∈ (r.tree op).nodes := ((h.tree op).2.2 c).1 hc
  obtain ⟨e, he, _⟩ := matching_complete H hH t (r.tree op) (h.tree op).1 c hcn (hH.mro_inst t c hm)
  cases hcl : closest H t (r.tree op) with
  | some c' => exact ⟨c', rfl⟩
  | none =>
    exfalso
    have hdrop : dropSupers H (matching H t (r.tree op)) = [] := pickMin_none hcl
    have hne : matching H t (r.tree op) ≠ [] := by
      intro e'; rw [e'] at he; simp at he
    obtain ⟨m, hm, hmin⟩ := dropSupers_ne_nil H hH _ hne
    have : m ∈ dropSupers H (matching H t (r.tree op)) := (mem_dropSupers H _ m).2 ⟨hm, hmin⟩
    rw [hdrop] at this; simp at this

/-- **The choice does not depend on registration order within an inheritance chain.**
    (1) Which types cover after a list of `register` calls is the same for every permutation of
    the list. -/
theorem c13_cover_order_independent (H : Hier) (ρ : RefReg)
    (regs₁ regs₂ : List (Ty × Bool × List (Op × Handler))) (hp : regs₁.Perm regs₂) (op : Op) (x : Ty) :
    x ∈ (refRegisterAll H ρ regs₁).coverOf op ↔ x ∈ (refRegisterAll H ρ regs₂).coverOf op := by
  rw [refRegisterAll_cover, refRegisterAll_cover]
  constructor
  · rintro (h | ⟨g, hg, h⟩)
    · exact Or.inl h
    · exact Or.inr ⟨g, hp.mem_iff.1 hg, h⟩
  · rintro (h | ⟨g, hg, h⟩)
    · exact Or.inl h
    · exact Or.inr ⟨g, hp.mem_iff.2 hg, h⟩

/-- (2) Two registries — reached by *any* two histories — whose covering sets for the op agree
    choose the same type whenever the reference allows exactly one (`allowed_nominal`: always the
    case when every match is a real base class, i.e. within an inheritance chain). -/
theorem c13_order_independent_chain (H : Hier) (hH : HierFacts H) (r₁ r₂ : Reg) (ρ₁ ρ₂ : RefReg)
    (h₁ : Rel H r₁ ρ₁) (h₂ : Rel H r₂ ρ₂) (op : Op) (t n : Ty)
    (hc : ∀ x, x ∈ ρ₁.coverOf op ↔ x ∈ ρ₂.coverOf op)
    (hn : allowed H (ρ₁.coverOf op) t = [n]) :
    closest H t (r₁.tree op) = some n ∧ closest H t (r₂.tree op) = some n := by
  have a₁ := c13_nearest H hH r₁ ρ₁ h₁ op t
  have a₂ := c13_nearest H hH r₂ ρ₂ h₂ op t
  have hcong := mem_allowed_congr H t hc
  constructor
  · cases hcl : closest H t (r₁.tree op) with
    | none => rw [hcl] at a₁; simp only at a₁; rw [hn] at a₁; simp at a₁
    | some c => rw [hcl] at a₁; simp only at a₁; rw [hn] at a₁; simp at a₁; rw [a₁]
  · cases hcl : closest H t (r₂.tree op) with
    | none =>
      rw [hcl] at a₂; simp only at a₂
      have : n ∈ allowed H (ρ₂.coverOf op) t := (hcong n).1 (by rw [hn]; simp)
      rw [a₂] at this; simp at this
    | some c =>
      rw [hcl] at a₂; simp only at a₂
      have := (hcong c).2 a₂
      rw [hn] at this; simp at this; rw [this]

/-- **The memo never changes an answer, for any interleaving of lookups.**  The handler a lookup
    yields after a history `pre` is the one it yields after the same history with every earlier
    lookup deleted. -/
theorem c13_lookup_pure (H : Hier) (hH : HierFacts H) (S : Setup) (orders : List (List Ty))
    (kinds : List RegKind) (pre : List Action) (i : Nat) (op : Op) (t : Ty) (re : Bool) :
    ((step H (finalWorld H (kinds.map (mkReg H S orders)) pre) (.lookup i op t re)).2).map
      Answer.handler =
    ((step H (finalWorld H (kinds.map (mkReg H S orders)) (pre.filter (fun a => !a.isLookup)))
      (.lookup i op t re)).2).map Answer.handler := by
  have hrel₁ := c13_invariants H hH S orders kinds pre
  have hrel₂ := c13_invariants H hH S orders kinds (pre.filter (fun a => !a.isLookup))
  rw [refStep_dropLookups] at hrel₂
  have heq := finalWorld_dropLookups H pre (All2.refl_eqC (kinds.map (mkReg H S orders)))
  simp only [step]
  obtain ⟨e1, e2⟩ := heq.get i
  cases h1 : (finalWorld H (kinds.map (mkReg H S orders)) pre)[i]? with
  | none => rw [e2 h1]
  | some r =>
    obtain ⟨r', hr', hrr⟩ := e1 r h1
    obtain ⟨ρ, hρ, hR⟩ := (hrel₁.get i).1 r h1
    obtain ⟨ρ', hρ', hR'⟩ := (hrel₂.get i).1 r' hr'
    rw [hr']
    simp only [Option.map_some]
    rw [getHandler_handler hH hR, getHandler_handler hH hR', hrr.resolve]

/-- a lookup changes nothing but the memo -/
theorem c13_lookup_state (H : Hier) (r : Reg) (op : Op) (t : Ty) (re : Bool) :
    (getHandler H r op t re).1.typeMap = r.typeMap ∧
    (getHandler H r op t re).1.typeTree = r.typeTree ∧
    (getHandler H r op t re).1.autoMap = r.autoMap :=
  getHandler_eqC H r op t re

/-- **A `register()` call takes effect for the very next lookup**, whatever the memo held:
    the handler given for `op` is what the next lookup of the registered type returns. -/
theorem c13_immediate (H : Hier) (r : Reg) (t : Ty) (e : Bool) (kw : List (Op × Handler))
    (op : Op) (hd : Handler) (hk : odGet op kw = some hd) (re : Bool) :
    (getHandler H (register H r t e kw) op t re).2 =
      if hd.isNone && re then Answer.unregistered else Answer.ret hd := by
  have hop : op ∈ opsOf (r.autoMap.map (·.1)) kw := by
    unfold opsOf
    rw [List.mem_eraseDups]
    exact List.mem_append_left _ (List.mem_map.2 ⟨(op, hd), odGet_some_mem hk, rfl⟩)
  have hval := setHandlers_value t (pickHandler H r.typeMap r.autoMap t kw)
    (opsOf (r.autoMap.map (·.1)) kw) [] r.typeMap (fun _ h => by simp at h) op (Or.inr hop)
  have hpick : pickHandler H r.typeMap r.autoMap t kw op = hd := by simp [pickHandler, hk]
  rw [hpick] at hval
  have hmap : odGet t ((register H r t e kw).map op) = some hd := by
    simpa [Glom.C13.register, Reg.map, newOpMap] using hval
  have hne : ((register H r t e kw).map op).isEmpty = false := by
    cases hm : (register H r t e kw).map op with
    | nil => rw [hm] at hmap; simp [odGet] at hmap
    | cons a l => rfl
  have hres : resolve H (register H r t e kw) op t = some hd := by
    unfold resolve; simp [hne, hmap]
  have hcache : (register H r t e kw).cache = [] := rfl
  unfold getHandler
  rw [hcache]
  simp only [odGet, hres]
  by_cases hn : (hd.isNone && re) = true
  · simp [hn]
  · simp [hn]

/-- **`register_op()` takes effect for the very next lookup** as well: a known type without a
    handler for the op is served by the auto-discovered one, whatever the memo held (in
    particular after a lookup that failed because nobody had registered the op yet). -/
theorem c13_immediate_op (H : Hier) (r : Reg) (op : Op) (auto : String) (e : Bool) (order : List Ty)
    (t : Ty) (ht : t ∈ order) (hno : odGet t (r.map op) = none) (re : Bool) :
    (getHandler H (registerOp H r op auto e order) op t re).2 =
      if (H.auto auto t).isNone && re then Answer.unregistered else Answer.ret (H.auto auto t) := by
  have hval := fillAuto_value H auto t order (r.map op)
  rw [hno] at hval
  simp only [ht, if_true] at hval
  have hmap : odGet t ((registerOp H r op auto e order).map op) = some (H.auto auto t) := by
    simpa [Glom.C13.registerOp, Reg.map, odGet_odSet_same] using hval
  have hne : ((registerOp H r op auto e order).map op).isEmpty = false := by
    cases hm : (registerOp H r op auto e order).map op with
    | nil => rw [hm] at hmap; simp [odGet] at hmap
    | cons a l => rfl
  have hres : resolve H (registerOp H r op auto e order) op t = some (H.auto auto t) := by
    unfold resolve; simp [hne, hmap]
  have hcache : (registerOp H r op auto e order).cache = [] := rfl
  unfold getHandler
  rw [hcache]
  simp only [odGet, hres]
  by_cases hn : ((H.auto auto t).isNone && re) = true
  · simp [hn]
  · simp [hn]

/-- **A registration erases every trace of the lookups before it** — successful or failed,
    memoised or not, under either memo policy (`sm = false`: the code that exists; `sm = true`: failed
    lookups are memoised too): the registry after `lookups; register(…)` *is* the registry after
    `register(…)` alone.  (With `c13_immediate` / `c13_immediate_op`: a lookup that failed before
    the registration that makes it succeed cannot keep failing.)  This is where the memo reset at
    the end of `register` and `register_op` is needed — see the counter-example below. -/
theorem c13_registration_forgets_lookups (H : Hier) (sm : Bool) (r : Reg) (ls : List (Op × Ty × Bool)) :
    (∀ t e kw, registerChecked H (lookupsOn sm H r ls) t e kw =
        ((registerChecked H r t e kw).2.elim (registerChecked H r t e kw).1 (fun _ => lookupsOn sm H r ls),
         (registerChecked H r t e kw).2)) ∧
    (∀ t e kw, register H (lookupsOn sm H r ls) t e kw = register H r t e kw) ∧
    (∀ op a e ord, registerOp H (lookupsOn sm H r ls) op a e ord = registerOp H r op a e ord) := by
  have hq := lookupsOn_eqC sm H ls r
  refine ⟨?_, fun t e kw => register_eq_of_eqC hq H t e kw,
    fun op a e ord => registerOp_eq_of_eqC hq H op a e ord⟩
  intro t e kw
  unfold registerChecked
  rw [hq.1, hq.2.2]
  cases firstInvalid (newOpMap H r.typeMap r.autoMap t kw) with
  | some op => rfl
  | none => simp [Option.elim, register_eq_of_eqC hq H t e kw]

/-- **Either memo policy answers like the un-memoised lookup** on every registry reachable by a
    history (`Rel`): memoising failed lookups as well would be harmless *because* every
    registration resets the memo. -/
theorem c13_memo_policy_irrelevant (H : Hier) (hH : HierFacts H) (r : Reg) (ρ : RefReg) (h : Rel H r ρ)
    (sm : Bool) (op : Op) (t : Ty) (re : Bool) :
    (getHandlerV sm H r op t re).2.handler = resolve H r op t ∧
    answerOk (refAnswers H ρ op t) (getHandlerV sm H r op t re).2 = true ∧
    Rel H (getHandlerV sm H r op t re).1 ρ :=
  ⟨(rel_getHandlerV hH h sm op t re).2.2, (rel_getHandlerV hH h sm op t re).2.1,
   (rel_getHandlerV hH h sm op t re).1⟩

/-- the code that exists is the policy `false` (extracted fact `c13MemoStoresOnlySuccess`) -/
theorem c13_getHandler_policy (H : Hier) (r : Reg) (op : Op) (t : Ty) (re : Bool) :
    getHandlerV false H r op t re = getHandler H r op t re := getHandlerV_false H r op t re

/-- **A rejected `register()` call is a no-op**: the call is either applied in full or it raises
    TypeError — exactly when one of the handlers it would store is neither `False` nor callable —
    and then the registry (tables, trees *and* memo) is the one before the call. -/
theorem c13_rejected_register_noop (H : Hier) (r : Reg) (t : Ty) (e : Bool) (kw : List (Op × Handler)) :
    ((registerChecked H r t e kw).2 = none ∧ (registerChecked H r t e kw).1 = register H r t e kw ∧
      ∀ p ∈ newOpMap H r.typeMap r.autoMap t kw, invalidH p.2 = false) ∨
    ((registerChecked H r t e kw).2 ≠ none ∧ (registerChecked H r t e kw).1 = r ∧
      ∃ p ∈ newOpMap H r.typeMap r.autoMap t kw, invalidH p.2 = true) := by
  unfold registerChecked firstInvalid
  cases hf : (newOpMap H r.typeMap r.autoMap t kw).find? (fun p => invalidH p.2) with
  | none =>
    refine Or.inl ⟨rfl, rfl, fun p hp => ?_⟩
    have := List.find?_eq_none.1 hf p hp
    simpa using this
  | some p =>
    refine Or.inr ⟨by simp, rfl, p, List.mem_of_find?_eq_some hf, ?_⟩
    simpa using List.find?_some hf

/-- the same for `register_op()` -/
theorem c13_rejected_register_op_noop (H : Hier) (r : Reg) (op : Op) (a : String) (e : Bool)
    (order : List Ty) :
    ((registerOpChecked H r op a e order).2 = none ∧
      (registerOpChecked H r op a e order).1 = registerOp H r op a e order) ∨
    ((registerOpChecked H r op a e order).2 ≠ none ∧ (registerOpChecked H r op a e order).1 = r ∧
      ∃ t ∈ order, odGet t (r.map op) = none ∧ invalidH (H.auto a t) = true) := by
  unfold registerOpChecked firstInvalidAuto
  cases hf : order.find? (fun t => (odGet t (r.map op)).isNone && invalidH (H.auto a t)) with
  | none => exact Or.inl ⟨rfl, rfl⟩
  | some t =>
    have hp := List.find?_some hf
    simp only [Bool.and_eq_true, Option.isNone_iff_eq_none] at hp
    exact Or.inr ⟨by simp, rfl, t, List.mem_of_find?_eq_some hf, hp.1, hp.2⟩

/-- **In histories**: a rejected call — `register()` / `register_op()` refused on a handler, or a
    call refused on its arguments alone — leaves the whole process (every registry, every memo)
    as it was, so *every* later lookup, after *any* further history, answers as if the call had
    never been made. -/
theorem c13_rejected_history (H : Hier) (w : List Reg) (a : Action) (post : List Action)
    (hrej : match a with
      | .register i t e kw => ∀ r, w[i]? = some r → (registerChecked H r t e kw).2 ≠ none
      | .registerOp i op au e ord => ∀ r, w[i]? = some r → (registerOpChecked H r op au e ord).2 ≠ none
      | .badCall .. => True
      | .lookup .. => False) :
    run H w (a :: post) = none :: run H w post ∧ finalWorld H w (a :: post) = finalWorld H w post := by
  cases a with
  | lookup i op t re => exact hrej.elim
  | badCall i err => exact ⟨rfl, rfl⟩
  | register i t e kw =>
    have hw : updateAt (fun r => (registerChecked H r t e kw).1) i w = w := by
      apply updateAt_fix
      intro r hr
      rcases c13_rejected_register_noop H r t e kw with h | h
      · exact absurd h.1 (hrej r hr)
      · exact h.2.1
    simp only [run, finalWorld, step, hw, and_self]
  | registerOp i op au e ord =>
    have hw : updateAt (fun r => (registerOpChecked H r op au e ord).1) i w = w := by
      apply updateAt_fix
      intro r hr
      rcases c13_rejected_register_op_noop H r op au e ord with h | h
      · exact absurd h.1 (hrej r hr)
      · exact h.2.1
    simp only [run, finalWorld, step, hw, and_self]

/-- **Isolation**: an action on one registry leaves every other registry of the process exactly
    as it was (so a Glommer neither affects nor is affected by the module registry or another
    Glommer). -/
theorem c13_isolation (H : Hier) (w : List Reg) (a : Action) (j : Nat)
    (hj : (match a with
      | .register i .. => i | .registerOp i .. => i | .lookup i .. => i | .badCall i .. => i) ≠ j) :
    (step H w a).1[j]? = w[j]? := by
  cases a with
  | register i t e kw => exact updateAt_get_ne _ w i j hj
  | registerOp i op au e ord => exact updateAt_get_ne _ w i j hj
  | badCall i err => rfl
  | lookup i op t re =>
    simp only [step]
    cases hi : w[i]? with
    | none => rfl
    | some r => exact updateAt_get_ne _ w i j hj

/-- **A default Glommer is the module-level registry**: `Glommer.__init__` builds
    `TargetRegistry(register_default_types=True)` and copies exactly the ops glom/mutation.py
    registers at import time; the resulting registry is the module registry's construction (up to
    the iteration orders `p₁ p₂` of the sets of known types). -/
theorem c13_default_glommer (H : Hier) (o₁ o₂ p₁ p₂ : List Ty) :
    glommerOps (moduleReg H genSetup [o₁, o₂]) (freshReg H genSetup true) =
      [("assign", "auto_assign"), ("delete", "auto_delete")] ∧
    registerOp H (registerOp H (freshReg H genSetup true) "assign" "auto_assign" false p₁)
        "delete" "auto_delete" false p₂ = moduleReg H genSetup [p₁, p₂] := by
  constructor
  · rfl
  · rfl

/-- **Checker theorem** — the form in which the property is also evaluated on the
    implementation's observation by the correspondence driver: for every hierarchy, every set of
    registries, every history with lookups interleaved anywhere, every answer of the model is one
    the reference allows at that moment. -/
theorem c13_model_checks (H : Hier) (hH : HierFacts H) (S : Setup) (orders : List (List Ty))
    (kinds : List RegKind) (acts : List Action) :
    checkC13 H S orders kinds acts (run H (kinds.map (mkReg H S orders)) acts) = true :=
  run_checks hH acts _ _ (All2.map _ _ (rel_mk hH S orders) kinds)

/-! ### non-vacuity: concrete inputs meet every hypothesis; counter-example for the forced one -/

/-- a chain `B2 ⊂ B ⊂ A`, a mixin `M` with `X ⊂ B, M`, an ABC `V` with `A`, `B`, `B2`, `X` as virtual
    subclasses, all below `object` -/
private def exTab : HierTab where
  mro := [("object", ["object"]), ("A", ["A", "object"]), ("B", ["B", "A", "object"]),
          ("B2", ["B2", "B", "A", "object"]), ("M", ["M", "object"]),
          ("X", ["X", "B", "A", "M", "object"]), ("V", ["V", "object"])]
  sub := [("object", "object"), ("A", "A"), ("A", "object"), ("B", "B"), ("B", "A"), ("B", "object"),
          ("B2", "B2"), ("B2", "B"), ("B2", "A"), ("B2", "object"), ("M", "M"), ("M", "object"),
          ("X", "X"), ("X", "B"), ("X", "A"), ("X", "M"), ("X", "object"), ("V", "V"), ("V", "object"),
          ("A", "V"), ("B", "V"), ("B2", "V"), ("X", "V")]
  inst := [("object", "object"), ("A", "A"), ("A", "object"), ("A", "V"), ("B", "B"), ("B", "A"),
           ("B", "object"), ("B", "V"), ("B2", "B2"), ("B2", "B"), ("B2", "A"), ("B2", "object"),
           ("B2", "V"), ("M", "M"), ("M", "object"), ("X", "X"), ("X", "B"), ("X", "A"), ("X", "M"),
           ("X", "object"), ("X", "V"), ("V", "V"), ("V", "object")]
  auto := [("auto_get", [("object", "getattr"), ("A", "getattr"), ("B", "getattr"), ("B2", "getattr"),
                         ("M", "getattr"), ("X", "getattr"), ("V", "getattr")])]

private def exH : Hier := exTab.toHier
private def exSetup : Setup := { builtinOps := [⟨"get", "auto_get", false⟩], defaults := [⟨"object", false, []⟩],
                                 moduleOps := [] }

example : tableOK exTab = true := by decide
example : HierFacts exH := hierFacts_of_table exTab (by decide)

/-- registrations `A`, `M` (get handlers), `V` (virtual), in that order, on a default registry -/
private def exActs : List Action :=
  [.register 0 "A" false [("get", some "hA")], .register 0 "M" false [("get", some "hM")],
   .register 0 "V" false [("get", some "hV")], .register 0 "B" true [("get", some "hB")]]

private def exReg : Reg := ((finalWorld exH [freshReg exH exSetup true] exActs)[0]?).getD {}

-- the tree really nests: object → {A, M, V → {A}}? (A is a subclass of the ABC V)
example : exReg.tree "get" =
    .cons "object" (.cons "M" .nil (.cons "V" (.cons "A" .nil .nil) .nil)) .nil := by decide
-- `c13_exact_wins` hypothesis: B is registered (exact) and served by its own handler
example : odGet "B" (exReg.map "get") = some (some "hB") := by decide
example : (getHandler exH exReg "get" "B" true).2 = .ret (some "hB") := by decide
-- `c13_nearest_base` / `c13_nearest_nominal`-style: B2 is not registered, B is exact only, so the
-- nearest covering base class of B2 is A; V also matches but A is a subclass of V
example : closest exH "B2" (exReg.tree "get") = some "A" := by decide
example : firstNominal exH "B2" (applicable exH ["object", "A", "M", "V"] "B2") = some "A" := by decide
example : allowed exH ["object", "A", "M", "V"] "B2" = ["A"] := by decide
-- a class with two covering bases (X ⊂ B ⊂ A and X ⊂ M): the MRO-nearer one wins
example : closest exH "X" (exReg.tree "get") = some "A" := by decide
example : allowed exH ["object", "A", "M", "V"] "X" = ["A"] := by decide
-- `c13_order_independent_chain`: the same registrations in another order give a different tree
-- but the same choice
private def exActs' : List Action :=
  [.register 0 "V" false [("get", some "hV")], .register 0 "B" true [("get", some "hB")],
   .register 0 "M" false [("get", some "hM")], .register 0 "A" false [("get", some "hA")]]
private def exReg' : Reg := ((finalWorld exH [freshReg exH exSetup true] exActs')[0]?).getD {}
example : exReg'.tree "get" ≠ exReg.tree "get" := by decide
example : closest exH "X" (exReg'.tree "get") = some "A" ∧ closest exH "B2" (exReg'.tree "get") = some "A" := by
  decide
-- the whole-history checker on a history with interleaved lookups
example : checkC13 exH exSetup [] [.registry true]
    (exActs ++ [.lookup 0 "get" "X" true, .lookup 0 "get" "X" false, .lookup 0 "get" "M" true])
    (run exH [freshReg exH exSetup true]
      (exActs ++ [.lookup 0 "get" "X" true, .lookup 0 "get" "X" false, .lookup 0 "get" "M" true])) = true := by
  decide

/-! #### failed lookups and rejected registrations -/

-- a rejected registration (the `keys` handler is not callable; `get` sorts before it and is fine):
-- TypeError, and the registry is the one before the call — B2 is still served by A's handler
example : registerChecked exH exReg "B2" false [("get", some "hB2"), ("keys", some "!bad")] =
    (exReg, some (.badHandler "keys")) := by decide
example : (getHandler exH (registerChecked exH exReg "B2" false
    [("get", some "hB2"), ("keys", some "!bad")]).1 "get" "B2" true).2 = .ret (some "hA") := by decide
-- … the hypothesis of `c13_rejected_history` holds for it, and the same call without the bad
-- handler is accepted and takes effect at once
example : (registerChecked exH exReg "B2" false [("get", some "hB2")]).2 = none := by decide
example : (getHandler exH (registerChecked exH exReg "B2" false [("get", some "hB2")]).1
    "get" "B2" true).2 = .ret (some "hB2") := by decide
-- an auto-discovery function that refuses a known type: `register_op` is rejected as a whole
private def exTabBad : HierTab :=
  { exTab with auto := exTab.auto ++ [("auto_bad", [("object", "h"), ("A", "h"), ("B", "!raise"), ("M", "h"),
                                                       ("V", "h")])] }
example : registerOpChecked exTabBad.toHier exReg "uop" "auto_bad" false ["object", "A", "M", "V", "B"] =
    (exReg, some (.badAuto "B")) := by decide
-- a lookup that fails because nobody registered the op yet, then `register_op`, then the same
-- lookup (`c13_immediate_op`, `c13_registration_forgets_lookups`), under both memo policies
example : (getHandler exH exReg "uop" "B" true).2 = .unregistered := by decide
example : (getHandlerV true exH exReg "uop" "B" true).1.cache = [(("B", "uop"), none)] := by decide
example : (getHandlerV false exH exReg "uop" "B" true).1.cache = [] := by decide
example : ∀ sm, (getHandlerV sm exH (registerOp exH (lookupsOn sm exH exReg [("uop", "B", true)])
    "uop" "auto_get" false ["object", "A", "M", "V", "B"]) "uop" "B" true).2 = .ret (some "getattr") := by
  decide

/-- **Counter-example for the memo reset** (the hypothesis `Rel.cache` of
    `c13_memo_policy_irrelevant`, established by the reset at the end of `register` /
    `register_op`): if `register_op` kept the memo, then under the policy that memoises failed
    lookups the earlier failed lookup of `("B", "uop")` would still answer "unregistered" although a
    handler now exists (under the policy of the code that exists the same happens after a failed
    lookup with `raise_exc=False`). -/
private def exKeepMemo (sm : Bool) : Reg :=
  { registerOp exH exReg "uop" "auto_get" false ["object", "A", "M", "V", "B"] with
    cache := (getHandlerV sm exH exReg "uop" "B" sm).1.cache }
example : (getHandlerV true exH (exKeepMemo true) "uop" "B" true).2 = .unregistered ∧
    resolve exH (exKeepMemo true) "uop" "B" = some (some "getattr") := by decide
example : (getHandlerV false exH (exKeepMemo false) "uop" "B" true).2 = .ret none ∧
    resolve exH (exKeepMemo false) "uop" "B" = some (some "getattr") := by decide

/-- **Counter-example for the hypothesis `inst_sub`** (forced by `matching_complete`): a "class"
    whose `isinstance` is inherited duck typing — `isinstance(q, R2)` holds for every object with a
    `__dict__` although `R2` is a subclass of the (registered) iterable ABC `It` and `q` is not
    iterable.  The tree files `R2` under `It`, the lookup for `Q` never reaches it, and the answer
    (no handler) is not the one the reference allows (`R2`'s).  The real glom does the same on the
    same input (harness corpus case `duck-subclass`); such a hierarchy is outside the property's
    family (the driver skips it: `tableOK` is false). -/
private def cexTab : HierTab where
  mro := [("R2", ["R2", "object"]), ("It", ["It", "object"]), ("Q", ["Q", "object"]), ("object", ["object"])]
  sub := [("R2", "R2"), ("R2", "It"), ("R2", "object"), ("It", "It"), ("It", "object"), ("Q", "Q"),
          ("Q", "object"), ("object", "object")]
  inst := [("R2", "R2"), ("R2", "It"), ("R2", "object"), ("It", "It"), ("It", "object"),
           ("Q", "Q"), ("Q", "object"), ("Q", "R2")]
  auto := [("auto_get", [("R2", "getattr"), ("It", "getattr"), ("Q", "getattr")])]
private def cexActs : List Action :=
  [.register 0 "R2" false [("get", some "hR2")], .register 0 "It" false [("get", some "hIt")],
   .lookup 0 "get" "Q" false]
example : tableOK cexTab = false := by decide
example : checkC13 cexTab.toHier { exSetup with defaults := [] } [] [.registry false] cexActs
    (run cexTab.toHier [freshReg cexTab.toHier { exSetup with defaults := [] } false] cexActs) = false := by
  decide

end Glom.Props.C13
