import Glom.Lemmas.C10
import Glom.Lemmas.C09
import Glom.Model.C10Env
/-
  C10 — M, And, Or, Not, Switch and Check decide like the boolean expressions denoted.

  Property theorems only; helper lemmas are in `Glom/Lemmas/C10.lean`.  Every
  theorem is for *all* spec trees (any depth, any width), all targets and all
  environments whose extracted facts satisfy the decidable predicate `WF`;
  `c10_facts_wf` discharges `WF` for the facts regenerated from /repo on this
  run.  `eval` is the code-shaped model of `glom(target, Match(spec))`
  (`Glom/Model/C10.lean`); it returns the outcome and the log of instrumented
  callables that ran.

  Hypothesis that occurs below:
    `ctorErr s = none`   the spec can be constructed at all (`And()`, `Switch([])`,
                         `Check(type=())`, an unhashable dict key … raise in their
                         constructors; then the property is that this constructor error
                         is what one gets: `c10_ctor_checks`)
-/
namespace Glom.Props.C10
open Glom Glom.MV Glom.C10

/-- **Facts obligation** (re-checked on every run against the tables regenerated from
    /repo's source): every `raise` the model performs names a class of the promised kind;
    *every* `raise` written in `_MType/_MSubspec/_MExpr/_Bool/And/Or/Not/Switch/Optional`'s
    `glomit` methods names a class whose MRO contains MatchError (or is a bare re-raise);
    the `except` clauses of `_Bool.glomit`, `Or._glomit`, `Not.glomit`, `Switch.glomit`,
    `Match.glomit` name exactly `GlomError`; the comparison overloads of `M` / `M(…)` record
    the op char that `_MExpr.glomit` dispatches to the operator the overload denotes; the
    `& | ~` overloads build the documented constructors. -/
theorem c10_facts_wf : WF genEnv = true := by decide

/-- the facts obligation, spelled out for the clause "every rejection by these
    combinators is a MatchError": the class named by every `raise` in the combinators'
    `glomit` methods has MatchError in its MRO -/
theorem c10_raise_sites_are_match_errors :
    ∀ site ∈ combinatorSites, ∃ cs, Generated.matchRaises.lookup site = some cs ∧
      ∀ c ∈ cs, c = "<reraise>" ∨ (ClassTable.mro Generated.excTable c).contains "MatchError" = true :=
  (WF.facts c10_facts_wf).comb_ok

/-! ### the summary: the code-shaped evaluator computes the boolean denotation -/

/-- **Refinement.**  For every constructible spec tree and every target the model's
    outcome is the denoted verdict — same result value on a pass, an exception of the
    promised class on a rejection (MatchError for the combinators' own rules,
    TypeMatchError for type rules, PathAccessError for a failing T access, CheckError for
    Check), the very exception on a fault — and the same sequence of instrumented
    callables ran. -/
theorem c10_refines (env : Env) (hwf : WF env = true) (s : Spec) (t : V)
    (hc : ctorErr s = none) :
    Rel env (eval env s t) (denote env.cls s t) :=
  eval_rel (WF.facts hwf) s t hc

/-- **Checker theorem** — the form in which the property is also evaluated on the
    implementation's observation by the correspondence driver. -/
theorem c10_model_checks (env : Env) (hwf : WF env = true) (s : Spec) (t : V)
    (hc : ctorErr s = none) :
    checkC10 env.cls s t (observe env (eval env s t)) = true := by
  unfold checkC10
  rw [hc]
  exact rel_obsSat (c10_refines env hwf s t hc)

/-- a spec that cannot be constructed: the property is the constructor's error -/
theorem c10_ctor_checks (ct : ClassTable) (s : Spec) (t : V) (e : PyExc) (hc : ctorErr s = some e) :
    checkC10 ct s t (.ctor e.cls) = true := by
  unfold checkC10; rw [hc]; simp

/-- **The boolean reading, exactly.**  For every constructible tree (any depth, any mix of M
    comparisons, And / Or / Not / Switch with and without `default=`, Check, and the match-mode
    atoms) and every target on which no comparison can raise (`calm`: a condition on tree and
    target alone, `Glom/Spec/C09.lean`), the tree passes if and only if the boolean expression it
    denotes is true — `conforms`: M comparisons by Python's comparison, And = all, Or = any,
    Not = negation, Switch = the value spec of the first case whose key holds, each `default=`
    turning "false" into "true" when it can be evaluated — and otherwise it is rejected with a
    GlomError of the promised class: there is no third outcome. -/
theorem c10_boolean_reading (env : Env) (hwf : WF env = true) (s : Spec) (t : V)
    (hc : ctorErr s = none) (hd : C09.constDefaults s = true) (hcalm : C09.calm env.cls s t = true) :
    ((∃ r, (eval env s t).1 = .ok r) ↔ C09.conforms env.cls s t = true) ∧
    (C09.conforms env.cls s t = false →
      ∃ e o, (eval env s t).1 = .error e ∧ (denote env.cls s t).1 = .reject o ∧ classOK env o e.cls = true) := by
  have hnf := C09.calm_den env.cls s t hcalm
  have hcd := C09.conf_den env.cls s t hc hd hnf
  have hr := c10_refines env hwf s t hc
  rcases hr.cases with ⟨a, l, h1, h2⟩ | ⟨e, og, l, h1, h2, hcl⟩ | ⟨e, l, h1, h2, hg⟩
  · rw [h2] at hcd
    have hconf : C09.conforms env.cls s t = true := by simpa [C09.isPass] using hcd.symm
    refine ⟨⟨fun _ => hconf, fun _ => ⟨a, by rw [h1]⟩⟩, fun h => by rw [hconf] at h; cases h⟩
  · rw [h2] at hcd
    have hconf : C09.conforms env.cls s t = false := by simpa [C09.isPass] using hcd.symm
    refine ⟨⟨?_, ?_⟩, ?_⟩
    · rintro ⟨r, hr'⟩; rw [h1] at hr'; cases hr'
    · intro h; rw [hconf] at h; cases h
    · intro _
      exact ⟨e, og, by rw [h1], by rw [h2], hcl⟩
  · rw [h2] at hnf; simp [C09.isFault] at hnf

/-- **"… returning the target"**: an M comparison, `M`, `M(T…)`, Not, a type atom, a literal, a
    callable, a Regex — and And (the last result) / Or (the first passing child's) / Match over
    such, without `default=` — pass with the target itself: the model's result is the target
    term, not merely a value equal to it.  (For these specs the harness also observes
    `result is target` on the implementation.) -/
theorem c10_returns_target (env : Env) (hwf : WF env = true) (s : Spec) (t r : V)
    (hc : ctorErr s = none) (hs : C09.selfP s = true) (hw : C09.wfV t = true)
    (h : (eval env s t).1 = .ok r) : r = t := by
  have hr := c10_refines env hwf s t hc
  rcases hr.cases with ⟨a, l, h1, h2⟩ | ⟨e, og, l, h1, h2, _⟩ | ⟨e, l, h1, h2, _⟩
  · rw [h1] at h; injection h with h; subst h
    exact C09.pure_den env.cls s t a (C09.selfP_pure s hs) hw (by rw [h2])
  · rw [h1] at h; cases h
  · rw [h1] at h; cases h

/-! ### M -/

/-- `M <op> c` passes exactly when Python's `target <op> c` is true, and returns the target;
    when it is false the rejection is the combinator's own error, a MatchError; when the
    comparison raises, that TypeError is a fault: not a GlomError, nothing catches it. -/
theorem c10_m (env : Env) (hwf : WF env = true) (op : CmpOp) (c t : V) :
    eval env (.mexpr .m op (.const c)) t =
      ((match pyCmp op t c with
        | some true => .ok t
        | some false => .error (raiseAt env "_MExpr.glomit" 0)
        | none => .error ⟨"TypeError"⟩), []) ∧
    env.exc.isSub (raiseAt env "_MExpr.glomit" 0).cls "MatchError" = true ∧
    env.exc.isSub "TypeError" "GlomError" = false := by
  have hw := WF.facts hwf
  refine ⟨?_, ?_, (hw.plain_ok "TypeError" (by simp)).1⟩
  · simp only [eval, mexprGlomit, MSide.val, Side.val, MSide.cls]
    rw [mMatched_eq env.mDispatch hw.m_nodup _ op (hw.m_ok "_MType" (by simp) op (by cases op <;> simp [allOps]))]
    cases pyCmp op t c with
    | none => rfl
    | some b => cases b <;> rfl
  · have := hw.raise_ok ("_MExpr.glomit", 0, .comb) (by simp [siteOrigins])
    unfold classOK at this
    simp only [Bool.and_eq_true] at this
    exact this.2

/-- `M(T…) <op> c` is the same comparison on the value the T expression reads; a failing
    access keeps its PathAccessError -/
theorem c10_m_sub (env : Env) (hwf : WF env = true) (e : TExpr) (op : CmpOp) (c t : V) :
    eval env (.mexpr (.sub e) op (.const c)) t =
      ((match tGet e t with
        | none => .error pae
        | some x =>
          match pyCmp op x c with
          | some true => .ok t
          | some false => .error (raiseAt env "_MExpr.glomit" 0)
          | none => .error ⟨"TypeError"⟩), []) := by
  have hw := WF.facts hwf
  simp only [eval, mexprGlomit, MSide.val, Side.val, tRes, MSide.cls]
  cases tGet e t with
  | none => rfl
  | some x =>
    simp only
    rw [mMatched_eq env.mDispatch hw.m_nodup _ op
      (hw.m_ok "_MSubspec" (by simp) op (by cases op <;> simp [allOps]))]
    cases pyCmp op x c with
    | none => rfl
    | some b => cases b <;> rfl

/-- `M` alone and `M(T…)` alone test truthiness and return the target -/
theorem c10_m_truthy (env : Env) (t : V) :
    (eval env .mtype t).1 = (if truthy t then .ok t else .error (raiseAt env "_MType.glomit" 0)) := by
  simp only [eval]; split <;> rfl

/-! ### And -/

/-- And passes iff every child passes … -/
theorem c10_and (env : Env) (cs : List Spec) (t : V) :
    (∃ r, (eval env (.and cs none) t).1 = .ok r) ↔ ∀ c ∈ cs, (okVal env c t).isSome := by
  simp only [eval, boolGlomit_none]
  exact evalAnd_isOk_iff env cs t t

/-- … yielding the last child's result, having run every child in order; -/
theorem c10_and_result (env : Env) (cs : List Spec) (c : Spec) (t r : V)
    (h : (eval env (.and (cs ++ [c]) none) t).1 = .ok r) :
    (eval env c t).1 = .ok r ∧
    (eval env (.and (cs ++ [c]) none) t).2 = (cs ++ [c]).flatMap (fun c => logOf env c t) := by
  simp only [eval, boolGlomit_none] at h ⊢
  have hall := (evalAnd_isOk_iff env (cs ++ [c]) t t).mp ⟨r, h⟩
  refine ⟨?_, evalAnd_log_ok env _ t t hall⟩
  rw [evalAnd_append] at h
  cases hcs : (evalAnd env cs t t).1 with
  | ok v => rw [hcs] at h; exact h
  | error e => rw [hcs] at h; cases h

/-- … and the first child that does not pass ends it: its error is And's error and no
    later child runs. -/
theorem c10_and_stops (env : Env) (pre : List Spec) (c : Spec) (post : List Spec) (t : V) (e : PyExc)
    (hpre : ∀ c' ∈ pre, (okVal env c' t).isSome) (hc : (eval env c t).1 = .error e) :
    eval env (.and (pre ++ c :: post) none) t =
      (.error e, (pre ++ [c]).flatMap (fun c => logOf env c t)) := by
  simp only [eval, boolGlomit_none]
  exact evalAnd_fail env pre c post t t e hpre hc

/-! ### Or -/

/-- Or yields the first passing child's result; the children before it rejected, and it and
    they are exactly the children that ran — later children are not evaluated. -/
theorem c10_or (env : Env) (hwf : WF env = true) (pre : List Spec) (c : Spec) (post : List Spec)
    (t r : V)
    (hpre : ∀ c' ∈ pre, ∃ e, (eval env c' t).1 = .error e ∧ env.exc.isSub e.cls "GlomError" = true)
    (hc : (eval env c t).1 = .ok r) :
    eval env (.or (pre ++ c :: post) none) t =
      (.ok r, (pre ++ [c]).flatMap (fun c => logOf env c t)) := by
  simp only [eval, boolGlomit_none]
  exact evalOr_first (WF.facts hwf) pre c post t r hpre hc

/-- if no child passes Or rejects — with the last child's rejection (a MatchError when that
    child is one of these combinators or a match rule; a failing T access keeps its
    PathAccessError) -/
theorem c10_or_rejects (env : Env) (hwf : WF env = true) (cs : List Spec) (c : Spec) (t : V) (e : PyExc)
    (hpre : ∀ c' ∈ cs, ∃ e, (eval env c' t).1 = .error e ∧ env.exc.isSub e.cls "GlomError" = true)
    (hc : (eval env c t).1 = .error e) :
    eval env (.or (cs ++ [c]) none) t = (.error e, (cs ++ [c]).flatMap (fun c => logOf env c t)) := by
  simp only [eval, boolGlomit_none]
  exact evalOr_all_reject (WF.facts hwf) cs c t e hpre hc

/-- a child that faults (raises something that is not a GlomError) is not a rejection: it
    ends Or at once -/
theorem c10_or_fault (env : Env) (hwf : WF env = true) (pre : List Spec) (c : Spec) (post : List Spec)
    (t : V) (e : PyExc)
    (hpre : ∀ c' ∈ pre, ∃ e, (eval env c' t).1 = .error e ∧ env.exc.isSub e.cls "GlomError" = true)
    (hc : (eval env c t).1 = .error e) (hg : env.exc.isSub e.cls "GlomError" = false) :
    eval env (.or (pre ++ c :: post) none) t =
      (.error e, (pre ++ [c]).flatMap (fun c => logOf env c t)) := by
  simp only [eval, boolGlomit_none]
  exact evalOr_fault (WF.facts hwf) pre c post t e hpre hc hg

/-- Or passes **only if** some child passes, and then with that child's result (no `calm`
    needed); `c10_or` is the converse, position by position -/
theorem c10_or_only_if (env : Env) (cs : List Spec) (t r : V)
    (h : (eval env (.or cs none) t).1 = .ok r) : ∃ c ∈ cs, (eval env c t).1 = .ok r := by
  simp only [eval, boolGlomit_none] at h
  exact evalOr_ok_mem env cs t r h

/-! ### Not -/

/-- Not inverts: it passes (with the target) iff its child rejects with a GlomError; if the
    child passes, Not's own rejection is a MatchError; a fault stays a fault. -/
theorem c10_not (env : Env) (hwf : WF env = true) (c : Spec) (t : V) :
    eval env (.not c) t =
      ((match (eval env c t).1 with
        | .ok _ => .error (raiseAt env "Not.glomit" 0)
        | .error e => if env.exc.isSub e.cls "GlomError" then .ok t else .error e),
       (eval env c t).2) ∧
    env.exc.isSub (raiseAt env "Not.glomit" 0).cls "MatchError" = true := by
  have hw := WF.facts hwf
  constructor
  · simp only [eval]
    cases (eval env c t).1 with
    | ok v => rfl
    | error e =>
      simp only [catch_glom hw "Not.glomit" (by simp [catchSites])]
      split <;> rfl
  · have := hw.raise_ok ("Not.glomit", 0, .comb) (by simp [siteOrigins])
    unfold classOK at this
    simp only [Bool.and_eq_true] at this
    exact this.2

/-! ### Switch -/

/-- Switch evaluates only the value spec of the first case whose key spec passes: the keys
    before it rejected, their logs, that key's log and that value spec's log are all that
    ran, and the value spec's outcome (result *or error*) is Switch's outcome. -/
theorem c10_switch (env : Env) (hwf : WF env = true) (pre : List (Spec × Spec)) (k v : Spec)
    (post : List (Spec × Spec)) (d : Option Arg) (t kv : V)
    (hpre : ∀ p ∈ pre, ∃ e, (eval env p.1 t).1 = .error e ∧ env.exc.isSub e.cls "GlomError" = true)
    (hk : (eval env k t).1 = .ok kv) :
    eval env (.switch (pre ++ (k, v) :: post) d) t =
      ((eval env v t).1, (pre ++ [(k, v)]).flatMap (fun p => logOf env p.1 t) ++ logOf env v t) := by
  simp only [eval]
  exact evalSwitch_first (WF.facts hwf) pre k v post d t kv hpre hk

/-- no key passes: Switch's default through `arg_val`, else its own MatchError; no value
    spec runs -/
theorem c10_switch_none (env : Env) (hwf : WF env = true) (cases : List (Spec × Spec)) (d : Option Arg)
    (t : V)
    (hall : ∀ p ∈ cases, ∃ e, (eval env p.1 t).1 = .error e ∧ env.exc.isSub e.cls "GlomError" = true) :
    eval env (.switch cases d) t =
      ((match d with
        | some a => argVal a t
        | none => .error (raiseAt env "Switch.glomit" 0)),
       cases.flatMap (fun p => logOf env p.1 t)) ∧
    env.exc.isSub (raiseAt env "Switch.glomit" 0).cls "MatchError" = true := by
  have hw := WF.facts hwf
  refine ⟨by simp only [eval]; exact evalSwitch_none hw cases d t hall, ?_⟩
  have := hw.raise_ok ("Switch.glomit", 0, .comb) (by simp [siteOrigins])
  unfold classOK at this
  simp only [Bool.and_eq_true] at this
  exact this.2

/-! ### defaults -/

/-- And / Or honour `default=`: a rejection (any GlomError) becomes `arg_val(default)` — a plain
    value is returned as is, a T expression is evaluated against the target — a pass and a
    fault are untouched, and the callables that ran are the same. -/
theorem c10_defaults (env : Env) (hwf : WF env = true) (cs : List Spec) (d : Arg) (t : V) :
    eval env (.and cs (some d)) t =
      (match (eval env (.and cs none) t).1 with
       | .ok v => (.ok v, (eval env (.and cs none) t).2)
       | .error e =>
         if env.exc.isSub e.cls "GlomError" then (argVal d t, (eval env (.and cs none) t).2)
         else (.error e, (eval env (.and cs none) t).2)) ∧
    eval env (.or cs (some d)) t =
      (match (eval env (.or cs none) t).1 with
       | .ok v => (.ok v, (eval env (.or cs none) t).2)
       | .error e =>
         if env.exc.isSub e.cls "GlomError" then (argVal d t, (eval env (.or cs none) t).2)
         else (.error e, (eval env (.or cs none) t).2)) ∧
    argVal (.const (.int 0)) t = .ok (.int 0) ∧
    (∀ e, argVal (.t e) t = tRes e t) := by
  have hw := WF.facts hwf
  have key : ∀ o : Out, boolGlomit env (some d) t o =
      (match o.1 with
       | .ok v => (.ok v, o.2)
       | .error e => if env.exc.isSub e.cls "GlomError" then (argVal d t, o.2) else (.error e, o.2)) := by
    intro o
    unfold boolGlomit
    cases h : o.1 with
    | ok v => exact fst_eq h
    | error e =>
      simp only [catch_glom hw "_Bool.glomit" (by simp [catchSites])]
      split
      · rfl
      · exact fst_eq h
  refine ⟨?_, ?_, rfl, fun e => rfl⟩
  · simp only [eval, boolGlomit_none]; exact key _
  · simp only [eval, boolGlomit_none]; exact key _

/-! ### operator-built trees -/

/-- `a & b`, `a | b`, `~a` (including the flattening `(a & b) & c = And(a, b, c)`, the
    default-preserving branch of `And.__and__`/`Or.__or__`, and the reflected `x & m`)
    build a spec that decides every target exactly like the nested constructor expression
    they denote: same outcome, same callables in the same order; and an operand pair
    without an overload raises the same TypeError in both readings. -/
theorem c10_ops_eq_ctors (env : Env) (e : OpExpr) (hl : ∀ s ∈ e.leaves, ctorErr s = none) :
    match build expectedBoolOps true e, build expectedBoolOps false e with
    | .ok s, .ok s' => ∀ t, eval env s t = eval env s' t
    | .error x, .error y => x = y
    | _, _ => False := by
  have h := build_rel e hl
  unfold BuildRel at h
  cases h1 : build expectedBoolOps true e <;> cases h2 : build expectedBoolOps false e <;>
    rw [h1, h2] at h <;> simp only at h ⊢
  · exact h
  · exact h.1.eval_eq env

/-- `(a & b) & c` is `And(a, b, c)` and decides like `And(And(a, b), c)` -/
theorem c10_ops_flatten (env : Env) (a b c : Spec) (t : V) :
    eval env (.and [a, b, c] none) t = eval env (.and [.and [a, b] none, c] none) t :=
  (Unflat.andFlat (cs := [a, b]) (.refl _) (.refl c)).eval_eq env t

/-! ### operands that are objects which exist — and have been evaluated — already -/

/-- **Facts obligation** behind modelling spec objects as immutable values (re-checked on
    every run against /repo's source): no method of `_Bool`, `And`, `Or`, `Not`, `_MExpr`,
    `_MSubspec`, `_MType`, `Switch`, `Check`, `Match`, `Regex`, `Optional`, `Required` stores
    into, deletes, or calls a mutating method / `setattr` on an attribute of `self` outside
    `__init__` (the table lists (class, method, attribute) of every such write; the `& | ~`
    overloads are pinned to constructor calls by `c10_facts_wf`).  Hence evaluating an object,
    or using it as an operand, leaves it the tree it was built as. -/
theorem c10_specs_immutable : Generated.combSelfWrites = [] := by decide

/-- An operand may be the object itself or the expression that built it: the operators see of
    an operand only what `build` made of it.  (`objs i`: the object bound by the i-th statement,
    `defs i`: its definition.) -/
theorem c10_shared_operands (tbl : OpTable) (fl : Bool) (objs : Nat → Spec) (defs : Nat → OpExpr)
    (e : OpExprX) (h : ∀ i ∈ e.uses, build tbl fl (defs i) = .ok (objs i)) :
    build tbl fl (e.subst (fun i => .leaf (objs i))) = build tbl fl (e.subst defs) :=
  build_subst_congr tbl fl _ _ e (fun i hi => by rw [h i hi]; rfl)

/-- **Programs over spec objects** (checker theorem, the form evaluated on the implementation's
    observations by the driver).  Sub-trees are bound to names, evaluated on arbitrary targets,
    used as operands of `& | ~` — extended after they were evaluated, shared by several trees —
    and the results evaluated and extended again: every evaluation of every object decides its
    target like the constructor-built tree the object's definition denotes (earlier definitions
    inlined), with the same callables in the same order; nothing depends on what was evaluated
    before or on which other trees an operand is part of.  For all programs of any length. -/
theorem c10_prog_checks (env : Env) (hwf : WF env = true) (steps : List Step)
    (hl : ∀ e, Step.bind e ∈ steps → ∀ s ∈ e.leaves, ctorErr s = none) :
    checkProg env.cls steps [] (runProg env steps []) = true :=
  prog_checks (WF.facts hwf) steps [] [] HeapInv.nil hl

/-! ### copies of a spec object; type atoms -/

/-- **Facts obligation** (re-checked on every run, by import-time introspection of /repo's
    glom.matching): the objects the matching code recognises by *identity* — `_MISSING`, the
    marker "no default given" of Match / And / Or / Switch / Optional, and `RAISE`, Check's —
    come back from `copy.copy`, `copy.deepcopy` and a pickle round trip as the very same object
    (or cannot be pickled at all), and so does `M` (since the repair of F43); the only marker that
    need not is `T` (`identityExempt`: harmless). -/
theorem c10_copy_facts_wf : markersOK Generated.identityMarkers = true := by decide

/-- **A copy of a spec decides like the spec** — for every marker table in which the markers
    survive (`c10_copy_facts_wf` for this run's).  Under that hypothesis `copySpec` is the identity
    (`copySpec_id`), so this is a rewriting step: the content is in the marker facts, in the model
    of copying (a default slot stays "absent" only if its marker survives:
    `c10_copy_needs_marker_identity`), and in the copied cases of the correspondence, which alone
    tie CPython's copy / pickle to that model. -/
theorem c10_copy_invariant (env : Env) (ids : List (String × String × Bool)) (h : markersOK ids = true)
    (how : String) (hh : how ∈ ["copy", "deepcopy", "pickle"]) (s : Spec) (t : V) :
    eval env (copySpec ids how s) t = eval env s t := by
  rw [copySpec_id h hh]

/-- **A class is a type atom, whatever its metaclass**: it passes exactly the instances
    (`isinstance` now, on this target), yields the target, rejects with the type rule's error,
    and no callable runs — in particular the class itself is not called.  (That `_glom_match`
    tests `isinstance(spec, type)` before `callable(spec)` is the facts obligation below.) -/
theorem c10_type_atom (env : Env) (hwf : WF env = true) (n : String) (t : V) :
    eval env (.ty n) t =
      ((if isInst env.cls t n then .ok t else .error (raiseAt env "_glom_match/type" 0)), []) ∧
    classOK env .typ (raiseAt env "_glom_match/type" 0).cls = true := by
  refine ⟨?_, (WF.facts hwf).raise_ok ("_glom_match/type", 0, .typ) (by simp [siteOrigins])⟩
  simp only [eval]; split <;> rfl

/-- … under every combinator: `Not(type)` passes exactly the non-instances -/
theorem c10_not_type (env : Env) (hwf : WF env = true) (n : String) (t : V) :
    (eval env (.not (.ty n)) t).1 =
      (if isInst env.cls t n then .error (raiseAt env "Not.glomit" 0) else .ok t) := by
  have hc := (c10_type_atom env hwf n t).2
  rw [(c10_not env hwf (.ty n) t).1, (c10_type_atom env hwf n t).1]
  cases isInst env.cls t n
  · simp [classOK_glom hc]
  · simp

/-- **Facts obligation**: the first test of `_glom_match` is `isinstance(spec, type)` (the
    extractor labels exactly that source text `"type"`), `callable(spec)` comes after it -/
theorem c10_type_test_first :
    Generated.glomMatchOrder.head? = some "type" ∧
    Generated.glomMatchOrder.idxOf "type" < Generated.glomMatchOrder.idxOf "callable" := by decide

/-! ### who rejected -/

/-- **Every rejection by these combinators is a MatchError.**  A GlomError that leaves an
    M / And / Or / Not / Switch node is a MatchError, unless it is the very exception of one
    of the node's sub-specs evaluated on the same target (propagated unchanged), or the
    PathAccessError of the node's own embedded T access (`M(T…)`, a `default=T…`). -/
theorem c10_reject_class (env : Env) (hwf : WF env = true) (s : Spec) (t : V) (e : PyExc)
    (hs : isCombinator s = true) (hc : ctorErr s = none)
    (he : (eval env s t).1 = .error e) (hg : env.exc.isSub e.cls "GlomError" = true) :
    env.exc.isSub e.cls "MatchError" = true ∨ e = pae ∨
    ∃ c ∈ subSpecs s, (eval env c t).1 = .error e := by
  have hw := WF.facts hwf
  have isMatch : ∀ site, (site, 0, Origin.comb) ∈ siteOrigins →
      env.exc.isSub (raiseAt env site 0).cls "MatchError" = true := by
    intro site hm
    have := hw.raise_ok (site, 0, .comb) hm
    unfold classOK at this
    simp only [Bool.and_eq_true] at this
    exact this.2
  have boolCase : ∀ (d : Option Arg) (o : Out), (boolGlomit env d t o).1 = .error e →
      o.1 = .error e ∨ e = pae := by
    intro d o h
    unfold boolGlomit at h
    cases ho : o.1 with
    | ok v => rw [ho] at h; simp only at h; rw [ho] at h; cases h
    | error e' =>
      rw [ho] at h; simp only at h
      split at h
      · cases d with
        | none => rw [ho] at h; exact Or.inl h
        | some a => exact Or.inr (argVal_error h)
      · rw [ho] at h; exact Or.inl h
  cases s with
  | mtype =>
    simp only [eval] at he
    split at he
    · cases he
    · injection he with he; subst he
      exact Or.inl (isMatch _ (by simp [siteOrigins]))
  | msub x =>
    simp only [eval, tRes] at he
    cases hx : tGet x t with
    | none => rw [hx] at he; simp only at he; injection he with he; exact Or.inr (Or.inl he.symm)
    | some m =>
      rw [hx] at he; simp only at he
      split at he
      · cases he
      · injection he with he; subst he
        exact Or.inl (isMatch _ (by simp [siteOrigins]))
  | mexpr l op r =>
    simp only [eval, mexprGlomit] at he
    have sideErr : ∀ {x : TExpr} {e' : PyExc}, tRes x t = .error e' → e' = pae := by
      intro x e' h
      unfold tRes at h
      split at h
      · cases h
      · injection h with h; exact h.symm
    cases hl : l.val t with
    | error e' =>
      rw [hl] at he; simp only at he; injection he with he; subst he
      cases l with
      | m => simp [MSide.val] at hl
      | sub x => exact Or.inr (Or.inl (sideErr hl))
    | ok lv =>
      rw [hl] at he; simp only at he
      cases hr : r.val t with
      | error e' =>
        rw [hr] at he; simp only at he; injection he with he; subst he
        cases r with
        | m => simp [Side.val] at hr
        | const v => simp [Side.val] at hr
        | sub x => exact Or.inr (Or.inl (sideErr hr))
      | ok rv =>
        rw [hr] at he; simp only at he
        split at he
        · injection he with he; subst he
          rw [(hw.plain_ok "TypeError" (by simp)).1] at hg; cases hg
        · cases he
        · injection he with he; subst he
          exact Or.inl (isMatch _ (by simp [siteOrigins]))
  | and cs d =>
    simp only [eval] at he
    rcases boolCase d _ he with h | h
    · obtain ⟨c, hm, hc'⟩ := evalAnd_error_mem env cs t t e h
      exact Or.inr (Or.inr ⟨c, hm, hc'⟩)
    · exact Or.inr (Or.inl h)
  | or cs d =>
    simp only [eval] at he
    rcases boolCase d _ he with h | h
    · obtain ⟨c, hm, hc'⟩ := evalOr_error_mem env cs t e (ctorErr_or hc).2 h
      exact Or.inr (Or.inr ⟨c, hm, hc'⟩)
    · exact Or.inr (Or.inl h)
  | not c =>
    simp only [eval] at he
    cases hcv : (eval env c t).1 with
    | ok v =>
      rw [hcv] at he; simp only at he; injection he with he; subst he
      exact Or.inl (isMatch _ (by simp [siteOrigins]))
    | error e' =>
      rw [hcv] at he; simp only at he
      split at he
      · cases he
      · injection he with he; subst he
        exact Or.inr (Or.inr ⟨c, by simp [subSpecs], hcv⟩)
  | switch cases d =>
    simp only [eval] at he
    rcases evalSwitch_error env cases d t e he with ⟨p, hm, hp⟩ | h | ⟨a, _, ha⟩
    · refine Or.inr (Or.inr ?_)
      rcases hp with hp | hp
      · exact ⟨p.1, by simp only [subSpecs, List.mem_flatMap]; exact ⟨p, hm, by simp⟩, hp⟩
      · exact ⟨p.2, by simp only [subSpecs, List.mem_flatMap]; exact ⟨p, hm, by simp⟩, hp⟩
    · subst h; exact Or.inl (isMatch _ (by simp [siteOrigins]))
    · exact Or.inr (Or.inl (argVal_error ha))
  | _ => simp [isCombinator] at hs

/-! ### Check -/

/-- Check enforces type (exact) / equal_to, one_of (`in`) / validate / instance_of
    (isinstance): without a default it passes — returning the *target* — exactly when every
    given condition holds, and raises CheckError otherwise, after running every validator. -/
theorem c10_check (env : Env) (hwf : WF env = true) (o : CheckObj) (x t0 : V) (hd : o.default = none) :
    checkOn env o x t0 =
      ((if allHold env.cls o x then .ok t0 else .error (raiseAt env "Check.glomit" 1)),
       o.validators.flatMap fnLog) ∧
    env.exc.isSub (raiseAt env "Check.glomit" 1).cls "CheckError" = true := by
  have hw := WF.facts hwf
  constructor
  · unfold checkOn allHold
    simp only [hd, Option.isSome_none, Bool.and_false, Bool.false_eq_true, if_false,
      runValidators_none hw, all_holds_eq]
    generalize (o.validators.filter fun f => validatorCond f x != Cond.holds).length = n
    generalize o.types.isEmpty = e1
    generalize o.types.contains x.cls = k1
    generalize o.vals.isEmpty = e2
    generalize pyIn x o.vals = k2
    generalize o.instanceOf.isEmpty = e3
    generalize (o.instanceOf.any fun c => isInst env.cls x c) = k3
    cases e1 <;> cases k1 <;> cases e2 <;> cases k2 <;> cases e3 <;> cases k3 <;> cases n <;> simp
  · have := hw.raise_ok ("Check.glomit", 1, .check) (by simp [siteOrigins])
    unfold classOK at this
    simp only [Bool.and_eq_true] at this
    exact this.2

/-- **Check honours its default the same way for every condition**: with `default=d` the
    conditions are tried in the order type, one_of / equal_to, validators (in order),
    instance_of; the first one that is not met — a type that differs, a value not among
    `one_of`, a validator that returns `False` *or raises*, a failed isinstance — ends the Check
    with `arg_val(d)` evaluated against the subject, and nothing after it runs; if all are met the
    *target* is returned.  (`Rel`: same value / same class of error and the same validators ran.) -/
theorem c10_check_default (env : Env) (hwf : WF env = true) (o : CheckObj) (x t0 : V) (d : Arg)
    (hd : o.default = some d) :
    Rel env (checkOn env o x t0) (checkWithDefault d x t0 (checkConds env.cls o x)) ∧
    (checkOn env o x t0).1 = (if allHold env.cls o x then .ok t0 else argVal d x) := by
  have h := checkOn_rel (WF.facts hwf) o x t0
  rw [hd] at h
  exact ⟨h, checkOn_default_eq (WF.facts hwf) o x t0 d hd⟩

/-- **Check's constructor**, against a reference written from the documentation of the arguments
    (`checkObjRef`, independent of the model's transcription `checkInit` of `Check.__init__`): the
    same argument errors in the same order, and otherwise the same conditions — `type` /
    `instance_of` a type or a sequence of types, `equal_to=v` the one-element `one_of`, the plain
    truthiness test exactly when no condition at all is given. -/
theorem c10_check_ctor (a : CheckArgs) :
    checkObjRef a = (match checkInit a with | .ok o => .ok o | .error e => .error e.cls) :=
  checkObjRef_eq a

/-- **The whole Check**, constructor and `spec=` subject included: `Check(spec, **kw)` that
    Python can construct reads its subject with the T expression (a failing access stays a
    PathAccessError), decides the subject as `c10_check` / `c10_check_default` say, and returns the
    *original* target on success. -/
theorem c10_check_whole (env : Env) (a : CheckArgs) (o : CheckObj) (t : V) (ho : checkInit a = .ok o) :
    eval env (.check a) t =
      (match o.spec with
       | none => checkOn env o t t
       | some e =>
         match tGet e t with
         | some x => checkOn env o x t
         | none => (.error pae, [])) := by
  simp only [eval, ho, checkGlomit]
  cases o.spec with
  | none => rfl
  | some e => simp only [tRes]; cases tGet e t <;> rfl

/-! ### non-vacuity: concrete inputs meet every hypothesis -/

private def exAnd : Spec :=
  .and [.mexpr .m .gt (.const (.int 3)),
        .or [.pred 0 "never", .pred 1 "is_pos", .pred 2 "always"] none] none

example : ctorErr exAnd = none := by decide
example : eval genEnv exAnd (.int 5) = (.ok (.int 5), [0, 1]) := by decide
example : eval genEnv exAnd (.int 2) = (.error ⟨"MatchError"⟩, []) := by decide
example : denote genEnv.cls exAnd (.int 5) = (.pass (.int 5), [0, 1]) := by decide
-- a comparison that raises is a fault, not a rejection: Not does not turn it into a pass
example : eval genEnv (.not (.mexpr .m .gt (.const (.str "a")))) (.int 1) = (.error ⟨"TypeError"⟩, []) := by
  decide
-- a failing embedded T access keeps PathAccessError through And, is a rejection for Or / Not
example : eval genEnv (.and [.mtype, .t [.str "zz"]] none) (.dict [(.str "a", .int 1)])
    = (.error ⟨"PathAccessError"⟩, []) := by decide
example : eval genEnv (.not (.t [.str "zz"])) (.dict [(.str "a", .int 1)])
    = (.ok (.dict [(.str "a", .int 1)]), []) := by decide
-- hypotheses of c10_or / c10_switch: a first passing child after a rejecting one
example : (∃ e, (eval genEnv (.pred 0 "never") (.int 5)).1 = .error e ∧
    genEnv.exc.isSub e.cls "GlomError" = true) ∧
    (eval genEnv (.pred 1 "is_pos") (.int 5)).1 = .ok (.int 5) := by
  exact ⟨⟨⟨"MatchError"⟩, by decide, by decide⟩, by decide⟩
-- Switch: only the value spec of the first passing case runs; its error is not defaulted
example : eval genEnv (.switch [(.pred 0 "never", .pred 1 "always"),
    (.pred 2 "is_pos", .mexpr .m .gt (.const (.int 9))), (.pred 3 "always", .val (.int 0))]
    (some (.const (.int 7)))) (.int 5) = (.error ⟨"MatchError"⟩, [0, 2]) := by decide
-- operator-built: `(M > 1) & (M < 9) & int` flattens, `int & M` is reflected, `'a' | M` has no overload
example : build expectedBoolOps true (.band (.band (.leaf (.mexpr .m .gt (.const (.int 1))))
      (.leaf (.mexpr .m .lt (.const (.int 9))))) (.leaf (.ty "int")))
    = .ok (.and [.mexpr .m .gt (.const (.int 1)), .mexpr .m .lt (.const (.int 9)), .ty "int"] none) := by
  rfl
example : build expectedBoolOps true (.band (.leaf (.ty "int")) (.leaf .mtype))
    = .ok (.and [.mtype, .ty "int"] none) := by rfl
example : build expectedBoolOps true (.bor (.leaf (.lit (.str "a"))) (.leaf .mtype))
    = .error ⟨"TypeError"⟩ := by rfl
-- the default-preserving branch of And.__and__ (commit 79596c8): nested, the default survives
example : build expectedBoolOps true (.band
      (.leaf (.and [.mexpr .m .gt (.const (.int 5))] (some (.const (.int 0)))))
      (.leaf (.mexpr .m .lt (.const (.int 3)))))
    = .ok (.and [.and [.mexpr .m .gt (.const (.int 5))] (some (.const (.int 0))),
                 .mexpr .m .lt (.const (.int 3))] none) := by rfl
example : (eval genEnv (.and [.and [.mexpr .m .gt (.const (.int 5))] (some (.const (.int 0))),
    .mexpr .m .lt (.const (.int 3))] none) (.int 1)).1 = .ok (.int 1) := by decide
/-- what the flattening overload did before 79596c8: the default is gone and the target
    that the denoted expression accepts is rejected -/
theorem c10_flatten_dropped_default_counterexample :
    (eval genEnv (.and [.mexpr .m .gt (.const (.int 5)), .mexpr .m .lt (.const (.int 3))] none) (.int 1)).1
      = .error ⟨"MatchError"⟩ := by decide
-- c10_ops_eq_ctors needs constructible leaves: `Or()` does not exist (ValueError); as a model
-- term, flattening it would differ from nesting it
example : ctorErr (.or [] none) = some ⟨"ValueError"⟩ := by decide
example : eval genEnv (.or ([] ++ [.mtype]) none) (.int 1) ≠
    eval genEnv (.or [.or [] none, .mtype] none) (.int 1) := by decide
-- Check: every failing condition yields the EVALUATED default — a validator returning False, one
-- that raises, a type that differs
example : (eval genEnv (.check { validate := some (.one (some 0, "never")), default := some (.t [.str "a"]) })
    (.dict [(.str "a", .int 1)])).1 = .ok (.int 1) := by decide
example : (eval genEnv (.check { validate := some (.one (some 0, "raises_value")), default := some (.const (.int 7)) })
    (.int 3)) = (.ok (.int 7), [0]) := by decide
-- the validator after the failing one does not run
example : (eval genEnv (.check {
      validate := some (.many [(some 0, "raises_value"), (some 1, "always")])
      default := some (.const (.int 7)) }) (.int 3)) = (.ok (.int 7), [0]) := by decide
example : (eval genEnv (.check { type_ := some (.one "int"), default := some (.t [.str "a"]) })
    (.dict [(.str "a", .int 1)])).1 = .ok (.int 1) := by decide
-- without a default a raising validator is a CheckError
example : (eval genEnv (.check { validate := some (.one (some 0, "raises_value")) }) (.int 3)).1
    = .error ⟨"CheckError"⟩ := by decide
example : (eval genEnv (.check { type_ := some (.one "int") }) (.bool true)).1 = .error ⟨"CheckError"⟩ := by
  decide
example : (eval genEnv (.check { instanceOf := some (.one "int") }) (.bool true)).1 = .ok (.bool true) := by
  decide

-- type atoms whose metaclass is not `type`, under the combinators
example : eval genEnv (.or [.and [.ty "Mapping", .val (.str "hit")] none, .val (.str "other")] none) (.dict [])
    = (.ok (.str "hit"), []) := by decide
example : eval genEnv (.not (.ty "Sequence")) (.list [.int 1, .int 2]) = (.error ⟨"MatchError"⟩, []) := by decide
example : eval genEnv (.switch [(.ty "Integral", .val (.str "hit"))] (some (.const (.str "none")))) (.int 0)
    = (.ok (.str "hit"), []) := by decide
example : eval genEnv (.not (.ty "Color")) (.str "red") = (.ok (.str "red"), []) := by decide
/-- what `copy.deepcopy` makes of `Or(int, str)` when `_MISSING` does not survive it: the failure
    of the last child is swallowed and the marker comes back -/
theorem c10_copy_needs_marker_identity :
    (eval genEnv (copySpec [("_MISSING", "deepcopy", false)] "deepcopy" (.or [.ty "int", .ty "str"] none))
      (.flt 5)).1 = .ok (.obj "_MISSING") := by decide

-- the hypotheses of c10_boolean_reading on the example tree; and what `calm` excludes
example : C09.constDefaults exAnd = true ∧ C09.calm genEnv.cls exAnd (.int 5) = true ∧
    C09.conforms genEnv.cls exAnd (.int 5) = true ∧ C09.conforms genEnv.cls exAnd (.int 2) = false := by decide
/-- without `calm`: `M > 3` on a str raises TypeError — neither a pass nor a rejection -/
theorem c10_boolean_reading_needs_calm :
    C09.calm genEnv.cls exAnd (.str "x") = false ∧ (eval genEnv exAnd (.str "x")).1 = .error ⟨"TypeError"⟩ := by
  decide

-- a program: `base = (M > 0) & (M < 100); glom(5, base); ext = base & (M < 3); glom(5, ext); glom(5, base)`
private def exProg : List Step :=
  [.bind (.band (.leaf (.mexpr .m .gt (.const (.int 0)))) (.leaf (.mexpr .m .lt (.const (.int 100))))),
   .eval 0 (.int 5),
   .bind (.band (.use 0) (.leaf (.mexpr .m .lt (.const (.int 3))))),
   .eval 1 (.int 5), .eval 0 (.int 5)]
example : progWF exProg 0 = true := by decide
example : runProg genEnv exProg [] =
    [.bound, .obs (.ok (.int 5) []), .bound,
     .obs (.exc "MatchError" true true false false false false []), .obs (.ok (.int 5) [])] := by decide
-- what an implementation shows whose extended object still evaluates only the original
-- children: the fourth statement returns 5 — the checker rejects it
example : checkProg genEnv.cls exProg []
    [.bound, .obs (.ok (.int 5) []), .bound, .obs (.ok (.int 5) []), .obs (.ok (.int 5) [])] = false := by decide

end Glom.Props.C10
