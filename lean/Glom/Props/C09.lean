import Glom.Lemmas.C09
import Glom.Model.C09Env
/-
  C09 — Match succeeds exactly on conforming targets and returns them unchanged.

  Property theorems only; helper lemmas are in `Glom/Lemmas/C09.lean` and
  `Glom/Lemmas/C10.lean`.  Every theorem is for *all* pattern trees (any depth),
  all targets, and all environments whose extracted facts satisfy `WF` (raise /
  except sites, exception MROs: `Glom/Spec/C10.lean`) and `WF9` (branch orders,
  `_precedence`, the comprehensions of `_handle_dict`, mutation sites);
  `c09_facts_wf` discharges both for the facts regenerated from /repo.

  `matchGlom env p d t` is the code-shaped model of `glom(t, Match(p, default=d))`
  (`Glom/Model/C09.lean`, evaluator in `Glom/Model/C10.lean`); `conforms` is the
  documented two-valued reading of a pattern (`Glom/Spec/C09.lean`).

  Hypotheses that occur below:
    `ctorErr p = none`      Python can construct the pattern (no `Optional(int)`,
                            `Required('a')`, unhashable dict key / set member, `And()` …;
                            otherwise the constructor's error is the outcome: `c09_ctor_checks`)
    `constDefaults p`       Optional defaults are plain values.  A T expression as default
                            can fail to evaluate; the match then ends in that
                            PathAccessError although the target conforms (counter-example
                            below, confirmed on the real glom).
    `pureP p`, `wfV t`      for "unchanged": the pattern has no default= / Val / T / Switch /
                            Check (these are *meant* to change the value), and the target is a
                            value Python can hold (set members / dict keys pairwise different).
-/
namespace Glom.Props.C09
open Glom Glom.MV Glom.C10 Glom.C09

/-- **Facts obligation**, re-checked on every run: `_glom_match` tests type → dict →
    list/set/frozenset → tuple → callable → `!=` (so a type is matched by isinstance, never
    called); `_glom` tries T, `glomit`, then the mode; `_precedence` and the `required` /
    `defaults` comprehensions of `_handle_dict` are the ones the model transcribes;
    TypeMatchError is a MatchError and a TypeError; `matches()` catches GlomError; and the
    frame facts (`c09_frame`). -/
theorem c09_facts_wf : WF genEnv = true ∧ WF9 genEnv genFacts9 = true := by
  constructor <;> decide

/-- a failed type rule raises TypeMatchError, which is a MatchError, a GlomError and a TypeError -/
theorem c09_typematch_bases :
    let m := ClassTable.mro Generated.excTable "TypeMatchError"
    "MatchError" ∈ m ∧ "GlomError" ∈ m ∧ "TypeError" ∈ m := by decide

/-- **The target is never modified** (facts): every statement of `_glom_match`,
    `_handle_dict`, `Regex.glomit`, `Match.glomit`, `Optional.glomit` that stores into an
    object or calls a mutating method on one does so on the scope or on a local bound, in the
    same function, to a fresh display / comprehension (`result`, `required`, `defaults`) —
    never on the target or the spec.  (The model has no write primitive at all: values are
    immutable terms; the snapshot of the target after the call is compared on every
    correspondence case.) -/
theorem c09_frame :
    Generated.matchMutations ≠ [] ∧
    ∀ m ∈ Generated.matchMutations, m.2.1 = "scope" ∨ (m.1, m.2.1) ∈ Generated.matchFresh := by
  decide

/-- **The matcher keeps nothing between calls** (facts, re-checked on every run): no function
    or method of glom/matching.py writes to an object bound at module level (no cache of
    `isinstance` answers, no registry, no counter) or rebinds a global; together with
    `c10_specs_immutable` (no method writes to `self` after `__init__`) a `glom(target, m)` call
    can depend on the Match object as built, the target, and the interpreter's own state (the
    class relation) *at that moment* only — which is how `c09_history_checks` judges it. -/
theorem c09_no_module_state : Generated.matchModuleWrites = [] ∧ Generated.combSelfWrites = [] := by
  decide

/-! ### refinement and checker -/

/-- **Refinement**: the model computes the denoted verdict — the expected value on a pass,
    an exception of the promised class on a rejection, the very exception on a fault — and
    ran the same callables. -/
theorem c09_refines (env : Env) (hwf : WF env = true) (p : Spec) (d : Option Arg) (t : V)
    (hc : ctorErr p = none) :
    Rel env (matchGlom env p d t) (denote env.cls (.matchS p d) t) :=
  eval_rel (WF.facts hwf) (.matchS p d) t (by simpa [ctorErr] using hc)

/-- the sequential three-valued reading passes exactly when the declarative two-valued one
    says the target conforms (or a default is given) — unless it faults -/
theorem c09_denote_conforms (ct : ClassTable) (p : Spec) (d : Option Arg) (t : V)
    (hc : ctorErr p = none) (hd : constDefaults p = true)
    (hnf : isFault (denote ct (.matchS p d) t).1 = false) :
    isPass (denote ct (.matchS p d) t).1 = (conforms ct p t || dfltOK d t) := by
  have := conf_den ct (.matchS p d) t (by simpa [ctorErr] using hc) (by simpa [constDefaults] using hd) hnf
  simpa [conforms] using this

/-- **Soundness**: no non-conforming target is accepted. -/
theorem c09_sound (env : Env) (hwf : WF env = true) (p : Spec) (t r : V)
    (hc : ctorErr p = none) (hd : constDefaults p = true)
    (h : (matchGlom env p none t).1 = .ok r) : conforms env.cls p t = true := by
  have hr := c09_refines env hwf p none t hc
  rcases hr.cases with ⟨a, l, h1, h2⟩ | ⟨e, og, l, h1, h2, _⟩ | ⟨e, l, h1, h2, _⟩
  · have := c09_denote_conforms env.cls p none t hc hd (by rw [h2]; rfl)
    rw [h2] at this
    simpa [isPass, dfltOK] using this.symm
  · rw [h1] at h; cases h
  · rw [h1] at h; cases h

/-- **Completeness**: no conforming target is rejected — it passes, unless evaluating the
    pattern faults (a comparison raises, a set member becomes unhashable). -/
theorem c09_complete (env : Env) (hwf : WF env = true) (p : Spec) (t : V)
    (hc : ctorErr p = none) (hd : constDefaults p = true) (h : conforms env.cls p t = true) :
    (∃ r, (matchGlom env p none t).1 = .ok r) ∨
    (∃ e, (matchGlom env p none t).1 = .error e ∧ env.exc.isSub e.cls "GlomError" = false) := by
  have hr := c09_refines env hwf p none t hc
  rcases hr.cases with ⟨a, l, h1, h2⟩ | ⟨e, og, l, h1, h2, _⟩ | ⟨e, l, h1, h2, hg⟩
  · exact Or.inl ⟨a, by rw [h1]⟩
  · have := c09_denote_conforms env.cls p none t hc hd (by rw [h2]; rfl)
    rw [h2, h] at this
    simp [isPass] at this
  · exact Or.inr ⟨e, by rw [h1], hg⟩

/-- **Otherwise it raises MatchError**: a non-conforming target gets a GlomError of the class
    the failing rule promises — MatchError; TypeMatchError (∧ TypeError) when a type rule
    failed; a failing T access inside the pattern keeps PathAccessError, a Check its
    CheckError — unless evaluation faults. -/
theorem c09_error_class (env : Env) (hwf : WF env = true) (p : Spec) (t : V)
    (hc : ctorErr p = none) (hd : constDefaults p = true) (h : conforms env.cls p t = false) :
    (∃ e o, (matchGlom env p none t).1 = .error e ∧
      (denote env.cls (.matchS p none) t).1 = .reject o ∧ classOK env o e.cls = true) ∨
    (∃ e, (matchGlom env p none t).1 = .error e ∧ env.exc.isSub e.cls "GlomError" = false) := by
  have hr := c09_refines env hwf p none t hc
  rcases hr.cases with ⟨a, l, h1, h2⟩ | ⟨e, og, l, h1, h2, hcl⟩ | ⟨e, l, h1, h2, hg⟩
  · have := c09_denote_conforms env.cls p none t hc hd (by rw [h2]; rfl)
    rw [h2, h] at this
    simp [isPass, dfltOK] at this
  · exact Or.inl ⟨e, og, by rw [h1], by rw [h2], hcl⟩
  · exact Or.inr ⟨e, by rw [h1], hg⟩

/-- a calm evaluation cannot fault: no comparison between incomparable values is possible, no
    rebuilt set gets an unhashable member, every Check could be constructed -/
theorem c09_calm_no_fault (ct : ClassTable) (p : Spec) (d : Option Arg) (t : V) (h : calm ct p t = true) :
    isFault (denote ct (.matchS p d) t).1 = false :=
  calm_den ct (.matchS p d) t (by simpa [calm] using h)

/-- **Exactly** (sound and complete, no escape clause): on a calm pair — a condition on pattern
    and target alone — Match succeeds if and only if the target conforms … -/
theorem c09_exact (env : Env) (hwf : WF env = true) (p : Spec) (t : V)
    (hc : ctorErr p = none) (hd : constDefaults p = true) (hcalm : calm env.cls p t = true) :
    (∃ r, (matchGlom env p none t).1 = .ok r) ↔ conforms env.cls p t = true := by
  constructor
  · rintro ⟨r, h⟩; exact c09_sound env hwf p t r hc hd h
  · intro h
    have hnf := c09_calm_no_fault env.cls p none t hcalm
    have hr := c09_refines env hwf p none t hc
    rcases hr.cases with ⟨a, l, h1, h2⟩ | ⟨e, og, l, h1, h2, _⟩ | ⟨e, l, h1, h2, hg⟩
    · exact ⟨a, by rw [h1]⟩
    · have := c09_denote_conforms env.cls p none t hc hd hnf
      rw [h2, h] at this
      simp [isPass] at this
    · rw [h2] at hnf; simp [isFault] at hnf

/-- … and otherwise raises a GlomError of the promised class (MatchError; TypeMatchError ∧
    TypeError for a failed type rule; PathAccessError / CheckError for a failing T access / Check
    inside the pattern): on a calm pair nothing else can happen. -/
theorem c09_exact_reject (env : Env) (hwf : WF env = true) (p : Spec) (t : V)
    (hc : ctorErr p = none) (hd : constDefaults p = true) (hcalm : calm env.cls p t = true)
    (h : conforms env.cls p t = false) :
    ∃ e o, (matchGlom env p none t).1 = .error e ∧
      (denote env.cls (.matchS p none) t).1 = .reject o ∧ classOK env o e.cls = true := by
  rcases c09_error_class env hwf p t hc hd h with h1 | ⟨e, he, hg⟩
  · exact h1
  · exfalso
    have hnf := c09_calm_no_fault env.cls p none t hcalm
    have hr := c09_refines env hwf p none t hc
    rcases hr.cases with ⟨a, l, h1, h2⟩ | ⟨e', og, l, h1, h2, hcl⟩ | ⟨e', l, h1, h2, _⟩
    · rw [h1] at he; cases he
    · rw [h1] at he; injection he with he; subst he
      rw [classOK_glom hcl] at hg; cases hg
    · rw [h2] at hnf; simp [isFault] at hnf

/-- a failed type rule is a TypeMatchError that is also a TypeError: the type pattern itself,
    and a container pattern given a target of another type -/
theorem c09_type_rule (env : Env) (hwf : WF env = true) (n : String) (t : V)
    (h : isInst env.cls t n = false) :
    ∃ e, (matchGlom env (.ty n) none t).1 = .error e ∧
      env.exc.isSub e.cls "TypeMatchError" = true ∧ env.exc.isSub e.cls "TypeError" = true ∧
      env.exc.isSub e.cls "MatchError" = true := by
  have hw := WF.facts hwf
  refine ⟨raiseAt env "_glom_match/type" 0, ?_, ?_⟩
  · simp [matchGlom, eval, h]
  · have := hw.raise_ok ("_glom_match/type", 0, .typ) (by simp [siteOrigins])
    unfold classOK at this
    simp only [Bool.and_eq_true] at this
    exact ⟨this.2.1.2, this.2.2, this.2.1.1⟩

/-- … and so is a container pattern given a target that is no instance of the pattern's container
    class (subclass instances are instances): TypeMatchError ∧ TypeError ∧ MatchError -/
theorem c09_container_type_rule (env : Env) (hwf : WF env = true) (p : Spec) (t : V)
    (h : kindMismatch p t = true) :
    ∃ e, (matchGlom env p none t).1 = .error e ∧
      env.exc.isSub e.cls "TypeMatchError" = true ∧ env.exc.isSub e.cls "TypeError" = true ∧
      env.exc.isSub e.cls "MatchError" = true := by
  have hw := WF.facts hwf
  have typ : ∀ site, (site, 0, Origin.typ) ∈ siteOrigins →
      env.exc.isSub (raiseAt env site 0).cls "TypeMatchError" = true ∧
      env.exc.isSub (raiseAt env site 0).cls "TypeError" = true ∧
      env.exc.isSub (raiseAt env site 0).cls "MatchError" = true := by
    intro site hm
    have := hw.raise_ok (site, 0, .typ) hm
    unfold classOK at this
    simp only [Bool.and_eq_true] at this
    exact ⟨this.2.1.2, this.2.2, this.2.1.1⟩
  rw [matchGlom_none]
  cases p with
  | list alts =>
    refine ⟨raiseAt env "_glom_match/listlike" 0, ?_, typ _ (by simp [siteOrigins])⟩
    simp only [kindMismatch] at h
    simp only [eval]
    cases ht : t.unsub <;> rw [ht] at h <;> simp_all
  | set alts =>
    refine ⟨raiseAt env "_glom_match/listlike" 0, ?_, typ _ (by simp [siteOrigins])⟩
    simp only [kindMismatch] at h
    simp only [eval]
    cases ht : t.unsub <;> rw [ht] at h <;> simp_all
  | fset alts =>
    refine ⟨raiseAt env "_glom_match/listlike" 0, ?_, typ _ (by simp [siteOrigins])⟩
    simp only [kindMismatch] at h
    simp only [eval]
    cases ht : t.unsub <;> rw [ht] at h <;> simp_all
  | tuple ps =>
    refine ⟨raiseAt env "_glom_match/tuple" 0, ?_, typ _ (by simp [siteOrigins])⟩
    simp only [kindMismatch] at h
    simp only [eval]
    cases ht : t.unsub <;> rw [ht] at h <;> simp_all
  | dict es =>
    refine ⟨raiseAt env "_handle_dict" 0, ?_, typ _ (by simp [siteOrigins])⟩
    simp only [kindMismatch] at h
    simp only [eval]
    cases ht : t.unsub <;> rw [ht] at h <;> simp_all
  | _ => simp [kindMismatch] at h

/-- **Subclass instances**: an instance of a user subclass of list / set / frozenset / tuple is
    matched by a list / set / frozenset / tuple pattern exactly as the builtin value it holds
    (`isinstance`, facts: `expectedTargetTests`) — and what comes back is an instance of the
    builtin class; a Regex, which tests the exact type, rejects an instance of a subclass of str -/
theorem c09_subclass_instances (env : Env) (c : String) (alts : List Spec) (items : List V) (s : String)
    (re : List ReItem) (f : ReFunc) :
    eval env (.list alts) (.sub c (.list items)) = eval env (.list alts) (.list items) ∧
    eval env (.set alts) (.sub c (.set items)) = eval env (.set alts) (.set items) ∧
    eval env (.fset alts) (.sub c (.fset items)) = eval env (.fset alts) (.fset items) ∧
    eval env (.tuple alts) (.sub c (.tuple items)) = eval env (.tuple alts) (.tuple items) ∧
    eval env (.regex re f) (.sub c (.str s)) = (.error (raiseAt env "Regex.glomit" 0), []) := by
  refine ⟨?_, ?_, ?_, ?_, ?_⟩ <;> simp [eval, V.unsub]

/-- **It returns a value equal to the target plus Optional defaults**: on a pass the result is
    `expected` … -/
theorem c09_result (env : Env) (hwf : WF env = true) (p : Spec) (d : Option Arg) (t r : V)
    (hc : ctorErr p = none) (h : (matchGlom env p d t).1 = .ok r) :
    r = expected env.cls p d t := by
  have hr := c09_refines env hwf p d t hc
  rcases hr.cases with ⟨a, l, h1, h2⟩ | ⟨e, og, l, h1, h2, _⟩ | ⟨e, l, h1, h2, _⟩
  · rw [h1] at h; injection h with h
    simp [expected, h2, h]
  · rw [h1] at h; cases h
  · rw [h1] at h; cases h

/-- … which is the target itself, structurally, for a pattern without defaults (on a value
    Python can hold): **returns them unchanged** … -/
theorem c09_unchanged (env : Env) (hwf : WF env = true) (p : Spec) (t r : V)
    (hc : ctorErr p = none) (hp : pureP p = true) (hw : wfV t = true)
    (h : (matchGlom env p none t).1 = .ok r) : r = t := by
  have hr := c09_refines env hwf p none t hc
  rcases hr.cases with ⟨a, l, h1, h2⟩ | ⟨e, og, l, h1, h2, _⟩ | ⟨e, l, h1, h2, _⟩
  · rw [h1] at h; injection h with h; subst h
    exact pure_den env.cls (.matchS p none) t a (by simpa [pureP] using hp) hw (by rw [h2])
  · rw [h1] at h; cases h
  · rw [h1] at h; cases h

/-- … and, for a dict pattern, the target's entries in order followed by the Optional defaults
    (through `arg_val`) of the keys the target lacks. -/
theorem c09_optional_defaults (env : Env) (hwf : WF env = true) (es : List (KeyKind × Spec × Spec))
    (items : List (V × V)) (r : V) (hc : ctorErr (.dict es) = none) (hp : pureD es = true)
    (hw : wfV (.dict items) = true) (h : (matchGlom env (.dict es) none (.dict items)).1 = .ok r) :
    ∃ r', defaultsRef (.dict items) (dictDefaults es) items = .ok r' ∧ r = .dict r' := by
  have hr := c09_refines env hwf (.dict es) none (.dict items) hc
  rcases hr.cases with ⟨a, l, h1, h2⟩ | ⟨e, og, l, h1, h2, _⟩ | ⟨e, l, h1, h2, _⟩
  · rw [h1] at h; injection h with h; subst h
    have : (denote env.cls (.dict es) (.dict items)).1 = .pass a := by
      have := congrArg Prod.fst h2
      simpa [denote, withDefault_none] using this
    exact dict_defaults_den env.cls es items a hp hw this
  · rw [h1] at h; cases h
  · rw [h1] at h; cases h

/-- **… plus Optional defaults, at every depth**: the result of a passing match has the shape of
    the target — a list pattern returns the items one by one, each as some alternative returns
    it; a tuple pattern position by position; a dict pattern (whose key patterns hand keys back)
    the target's entries in order, same keys, each value as the value pattern of some spec key
    returns it, followed by exactly the defaults of the Optional keys the target lacks — and a
    pure pattern returns the target.  `plusDefaults` is defined by recursion on the pattern,
    without reference to the evaluator or the sequential reading. -/
theorem c09_plus_defaults (env : Env) (hwf : WF env = true) (p : Spec) (t r : V)
    (hc : ctorErr p = none) (hw : wfV t = true) (h : (matchGlom env p none t).1 = .ok r) :
    plusDefaults env.cls p t r = true := by
  have hr := c09_refines env hwf p none t hc
  rcases hr.cases with ⟨a, l, h1, h2⟩ | ⟨e, og, l, h1, h2, _⟩ | ⟨e, l, h1, h2, _⟩
  · rw [h1] at h; injection h with h; subst h
    have hd : (denote env.cls p t).1 = .pass a := by
      have := congrArg Prod.fst h2
      simpa [denote, withDefault_none] using this
    exact plus_den env.cls p t a hw hd
  · rw [h1] at h; cases h
  · rw [h1] at h; cases h

/-- **matches() and verify() agree with that outcome**: `verify` is the same call; `matches`
    is True exactly when it returns, False when it raises a GlomError. -/
theorem c09_matches_verify_agree (env : Env) (f : Facts9) (hwf9 : WF9 env f = true)
    (p : Spec) (d : Option Arg) (t : V) :
    verify env p d t = matchGlom env p d t ∧
    (∀ r, (matchGlom env p d t).1 = .ok r → (matchesM env p d t).1 = .ok true) ∧
    (∀ e, (matchGlom env p d t).1 = .error e → env.exc.isSub e.cls "GlomError" = true →
      (matchesM env p d t).1 = .ok false) := by
  refine ⟨rfl, ?_, ?_⟩
  · intro r h; simp [matchesM, h]
  · intro e h hg
    have hcatch : ((env.catches.lookup "Match.matches").bind (·[0]?) == some ["GlomError"]) = true := by
      unfold WF9 at hwf9
      simp only [Bool.and_eq_true] at hwf9
      exact hwf9.1.2
    simp [matchesM, h, leavesAsGlomError, hg, hcatch]

/-- **… also when evaluating the pattern faults**: a comparison between incomparable values
    (`M > 0` on a str), an unhashable member of a rebuilt set — anything that is not a GlomError —
    leaves `glom()` / `verify()` as that TypeError (handed on wrapped as a GlomError by the top-level
    `glom()`), and `matches()` answers **False**: it never raises.  (A fault is a TypeError or a
    constructor's ValueError: `den_faultOK`, for every pattern and target.) -/
theorem c09_matches_on_fault (env : Env) (f : Facts9) (hwf : WF env = true) (hwf9 : WF9 env f = true)
    (p : Spec) (d : Option Arg) (t : V) (hc : ctorErr p = none) (e : PyExc)
    (h : (matchGlom env p d t).1 = .error e) : (matchesM env p d t).1 = .ok false := by
  have hcatch : ((env.catches.lookup "Match.matches").bind (·[0]?) == some ["GlomError"]) = true := by
    unfold WF9 at hwf9
    simp only [Bool.and_eq_true] at hwf9
    exact hwf9.1.2
  have hr := c09_refines env hwf p d t hc
  rcases hr.cases with ⟨a, l, h1, h2⟩ | ⟨e', og, l, h1, h2, hcl⟩ | ⟨e', l, h1, h2, hg⟩
  · rw [h1] at h; cases h
  · rw [h1] at h; injection h with h; subst h
    simp [matchesM, h1, leavesAsGlomError, classOK_glom hcl, hcatch]
  · rw [h1] at h; injection h with h; subst h
    have hf := den_faultOK env.cls (.matchS p d) t
    rw [h2] at hf
    simp only [faultOK, Bool.or_eq_true, beq_iff_eq] at hf
    have hw := WF.facts hwf
    have hexc : env.exc.isSub e'.cls "Exception" = true := by
      rcases hf with hf | hf
      · rw [hf]; exact (hw.plain_ok "TypeError" (by simp)).2
      · rw [hf]; exact (hw.plain_ok "ValueError" (by simp)).2
    simp [matchesM, h1, leavesAsGlomError, hexc, hcatch]

/-- **Match(default=) returns the default instead**: a rejection (any GlomError) becomes
    `arg_val(default)`; a pass and a fault are untouched. -/
theorem c09_default (env : Env) (hwf : WF env = true) (p : Spec) (d : Arg) (t : V) :
    matchGlom env p (some d) t =
      (match (matchGlom env p none t).1 with
       | .ok v => (.ok v, (matchGlom env p none t).2)
       | .error e =>
         if env.exc.isSub e.cls "GlomError" then (argVal d t, (matchGlom env p none t).2)
         else (.error e, (matchGlom env p none t).2)) := by
  have hw := WF.facts hwf
  have hnone : matchGlom env p none t = eval env p t := by
    simp only [matchGlom, eval]
    cases h : (eval env p t).1 with
    | ok v => rfl
    | error e => simp only; split <;> rfl
  rw [hnone]
  simp only [matchGlom, eval]
  cases h : (eval env p t).1 with
  | ok v => simp only; exact fst_eq h
  | error e =>
    simp only [catch_glom hw "Match.glomit" (by simp [catchSites])]
    split
    · rfl
    · exact fst_eq h

/-- **Checker theorem** — the form in which the property is also evaluated on the
    implementation's observation by the correspondence driver. -/
theorem c09_model_checks (env : Env) (f : Facts9) (hwf : WF env = true) (hwf9 : WF9 env f = true)
    (p : Spec) (d : Option Arg) (t : V) (hc : ctorErr p = none) :
    checkC09 env.cls p d t (observe9 env p d t) = true := by
  have hr := c09_refines env hwf p d t hc
  have hsat := rel_obsSat hr
  have hcatch : ((env.catches.lookup "Match.matches").bind (·[0]?) == some ["GlomError"]) = true := by
    unfold WF9 at hwf9
    simp only [Bool.and_eq_true] at hwf9
    exact hwf9.1.2
  unfold checkC09
  rw [hc]
  simp only [observe9, verify, Bool.and_eq_true, V.beq_refl, and_true]
  refine ⟨⟨⟨⟨⟨hsat, hsat⟩, ?_⟩, ?_⟩, ?_⟩, ?_⟩
  · -- matches
    rcases hr.cases with ⟨a, l, h1, h2⟩ | ⟨e, og, l, h1, h2, hcl⟩ | ⟨e, l, h1, h2, hg⟩
    · simp [h2, matchesM, h1, obsOfMatches, observe, obsIsOk]
    · simp [h2, matchesM, h1, obsOfMatches, observe, obsIsOk, leavesAsGlomError, classOK_glom hcl, hcatch]
    · -- a fault: a TypeError / ValueError, an `Exception`, so glom() hands it on as a GlomError
      have hexc : env.exc.isSub e.cls "Exception" = true := by
        have hf := den_faultOK env.cls (.matchS p d) t
        rw [h2] at hf
        simp only [faultOK, Bool.or_eq_true, beq_iff_eq] at hf
        have hw := WF.facts hwf
        rcases hf with hf | hf
        · rw [hf]; exact (hw.plain_ok "TypeError" (by simp)).2
        · rw [hf]; exact (hw.plain_ok "ValueError" (by simp)).2
      rw [h2]
      simp [matchesM, h1, obsOfMatches, leavesAsGlomError, hexc, hcatch]
  · -- two-valued reading
    cases hd : constDefaults p with
    | false => simp
    | true =>
      simp only [Bool.not_true, Bool.false_or]
      cases hv : (denote env.cls (.matchS p d) t).1 with
      | fault c => rfl
      | pass v =>
        have := c09_denote_conforms env.cls p d t hc hd (by rw [hv]; rfl)
        rw [hv] at this
        simpa [isPass] using this.symm
      | reject o =>
        have := c09_denote_conforms env.cls p d t hc hd (by rw [hv]; rfl)
        rw [hv] at this
        simp only [isPass] at this
        simp [← this]
  · -- unchanged
    cases hpp : (pureP p && d.isNone && wfV t) with
    | false => simp
    | true =>
      simp only [Bool.and_eq_true] at hpp
      simp only [Bool.not_true, Bool.false_or]
      have hdn : d = none := by cases d <;> simp_all
      subst hdn
      cases hm : (matchGlom env p none t).1 with
      | error e => simp [observe, hm]
      | ok r =>
        have := c09_unchanged env hwf p t r hc hpp.1.1 hpp.2 hm
        simp [observe, hm, this, valEq_refl]
  · -- plus Optional defaults
    cases hpp : (d.isNone && wfV t) with
    | false => simp
    | true =>
      simp only [Bool.and_eq_true] at hpp
      simp only [Bool.not_true, Bool.false_or]
      have hdn : d = none := by cases d <;> simp_all
      subst hdn
      cases hm : (matchGlom env p none t).1 with
      | error e => simp [observe, hm]
      | ok r =>
        have := c09_plus_defaults env hwf p t r hc hpp.2 hm
        simp [observe, hm, this]

/-! ### histories: one Match object, many calls, registrations in between -/

/-- **Histories** (checker theorem, the form evaluated on the implementation's observations).
    One Match object is applied to any sequence of targets — instances of the same few classes
    among them, conforming and not — while classes are registered as virtual subclasses of ABCs
    in between: every call decides its target by `isinstance` *as it is at that call*, `verify`
    and `matches` agree with it, and the target is as it was.  Nothing the matcher saw before (the
    answer for another instance of the same class, a failed match before the registration) has
    any influence.  For all histories of any length, from any class table. -/
theorem c09_history_checks (env : Env) (f : Facts9) (hwf : WF env = true) (hwf9 : WF9 env f = true)
    (p : Spec) (d : Option Arg) (hc : ctorErr p = none) :
    ∀ (steps : List HStep) (ct : ClassTable), checkHist p d steps ct (obsHist env p d steps ct) = true := by
  intro steps
  induction steps with
  | nil => intro ct; rfl
  | cons st rest ih =>
    intro ct
    cases st with
    | call t =>
      have h1 := c09_model_checks (env.withCls ct) f (by rw [WF_withCls]; exact hwf) hwf9 p d t hc
      simp only [obsHist, checkHist, Bool.and_eq_true]
      exact ⟨h1, ih ct⟩
    | register a k =>
      simp only [obsHist, checkHist]
      exact ih (registerCls ct a k)

/-- the type rule asks `isinstance(target, type)` about *this* target, now: it passes exactly
    when the answer is yes (whatever the metaclass of the type: a class is never called) -/
theorem c09_type_rule_iff (env : Env) (n : String) (t : V) :
    (matchGlom env (.ty n) none t).1 = .ok t ↔ isInst env.cls t n = true := by
  cases h : isInst env.cls t n <;> simp [matchGlom, eval, h]

/-- … so a class registered as a virtual subclass after a first, failed, match is accepted from
    then on: once `a.register(k)` has run, every target whose class has `k` in its MRO matches `a` -/
theorem c09_sees_registration (env : Env) (ct : ClassTable) (a k : String) (t : V)
    (hrow : ct.any (·.1 == t.cls) = true ∨ t.cls = k) (h : (ct.mro t.cls).contains k = true) :
    (matchGlom (env.withCls (registerCls ct a k)) (.ty a) none t).1 = .ok t := by
  rw [c09_type_rule_iff]
  unfold isInst
  have : (registerCls ct a k).isSub t.cls a = true := registerCls_isSub ct a k t.cls hrow h
  simp [Env.withCls, this]

/-- **A copy of a pattern decides like the pattern.**  What carries the content: (1) the model of
    copying, `copySpec` — a node-by-node rebuild in which a `default=` slot stays "absent" only if
    the marker object survives that way of copying; (2) the extracted marker table (`WF9` ⊇
    `markersOK`: `_MISSING`, `RAISE`, `M` come back from copy / deepcopy / pickle as the very same
    object — introspected on every run); (3) the assumption that CPython's copy / pickle rebuild
    spec objects attribute by attribute, which is validated on the implementation by the copied
    cases of the correspondence only.  Given (2), `copySpec` is the identity, and the statement
    below follows by rewriting: the theorem records that nothing *else* in the model depends on
    object identity; the counter-example `c09_copy_needs_marker_identity` shows what (2) excludes. -/
theorem c09_copy_invariant (env : Env) (f : Facts9) (hwf9 : WF9 env f = true) (how : String)
    (hh : how ∈ ["copy", "deepcopy", "pickle"]) (p : Spec) (d : Option Arg) (t : V) :
    matchGlom env (copySpec f.identity how p) (copyDflt (markerKept f.identity "_MISSING" how) "_MISSING" d) t
      = matchGlom env p d t := by
  have hm : markersOK f.identity = true := by
    unfold WF9 at hwf9
    simp only [Bool.and_eq_true] at hwf9
    exact hwf9.1.1.1.1.1.1.1.1.1.1.1.1.2
  rw [copySpec_id hm hh, (markersOK_kept hm hh).1, copyDflt_kept]

/-- **Regex** matches exactly the strings the pattern denotes — `fullmatch` (the default): the
    whole string is in the language of the pattern; `re.match`: some prefix is; `re.search`: some
    substring is — returns the target, and rejects everything else (a non-string included) with a
    MatchError.  (`ReLang` is the language of a catalogue pattern: per item one character of its
    class, one or more under `+`; that CPython's `re` agrees is validated case by case.) -/
theorem c09_regex (env : Env) (hwf : WF env = true) (items : List ReItem) (f : ReFunc) (t : V) :
    ((matchGlom env (.regex items f) none t).1 = .ok t ↔ ∃ s, t = .str s ∧ reAccepts items f s.toList) ∧
    (∀ e, (matchGlom env (.regex items f) none t).1 = .error e → env.exc.isSub e.cls "MatchError" = true) := by
  have hw := WF.facts hwf
  have isMatch : ∀ i, ("Regex.glomit", i, Origin.comb) ∈ siteOrigins →
      env.exc.isSub (raiseAt env "Regex.glomit" i).cls "MatchError" = true := by
    intro i hm
    have := hw.raise_ok ("Regex.glomit", i, .comb) hm
    unfold classOK at this
    simp only [Bool.and_eq_true] at this
    exact this.2
  rw [matchGlom_none]
  cases t with
  | str s =>
    simp only [eval]
    cases hm : reMatches items f s with
    | true =>
      refine ⟨⟨fun _ => ⟨s, rfl, (reMatches_iff items f s).mp hm⟩, fun _ => by simp⟩, ?_⟩
      intro e he; simp at he
    | false =>
      refine ⟨⟨fun h => by simp at h, ?_⟩, ?_⟩
      · rintro ⟨s', hs, hacc⟩
        injection hs with hs; subst hs
        rw [(reMatches_iff items f s).mpr hacc] at hm; cases hm
      · intro e he
        simp only [Bool.false_eq_true, if_false] at he
        injection he with he; subst he
        exact isMatch 1 (by simp [siteOrigins])
  | _ =>
    simp only [eval]
    refine ⟨⟨fun h => by simp at h, fun ⟨s, hs, _⟩ => by simp at hs⟩, ?_⟩
    intro e he
    injection he with he; subst he
    exact isMatch 0 (by simp [siteOrigins])

/-! ### key precedence and the `required` set, for every kind of key -/

/-- **`_precedence`, against the extracted chain**: the model's `precedence` is the solution of
    the recursive equation that the if-chain extracted from `_precedence` denotes (`precStep`
    gives each extracted source text its meaning and runs the chain once, asking its argument
    for the items of a tuple / frozenset) — for a bare key of every kind (literal, type, tuple /
    frozenset of any nesting, callable, any spec object with a `glomit`) and for the same key
    wrapped in `Optional(...)` / `Required(...)`.  A chain with a test or statement the reading
    does not know makes `precStep` undefined, so the equation cannot hold by accident. -/
theorem c09_precedence_chain (env : Env) (f : Facts9) (hwf9 : WF9 env f = true) (kind : KeyKind) (s : Spec) :
    precStep precedence f.precedenceRules kind s = some (precedence s) := by
  have hp : f.precedenceRules = expectedPrecedence := by
    unfold WF9 at hwf9
    simp only [Bool.and_eq_true, beq_iff_eq] at hwf9
    exact hwf9.1.1.1.1.1.1.1.1.1.2
  rw [hp]; exact precStep_expected kind s

/-- **Which keys are required**: the `required` set `_handle_dict` computes from `_precedence`
    (`_precedence(key) == 0 and type(key) is not Optional or type(key) is Required`) holds exactly
    the keys the documentation names — the keys matched by `==` (literals, and tuples / frozensets
    made of such, at any nesting) unless wrapped in Optional, and any other key only when wrapped in
    Required — for every dict pattern Python can construct, whatever kinds of keys it mixes. -/
theorem c09_required_rule (es : List (KeyKind × Spec × Spec)) (hc : ctorErr (.dict es) = none) :
    requiredIdx es 0 = requiredRef es 0 :=
  required_eq es 0 (ctorErrD_hashable (by simpa [ctorErr] using hc))

/-- a pattern Python cannot construct: the constructor's error is the outcome -/
theorem c09_ctor_checks (ct : ClassTable) (p : Spec) (d : Option Arg) (t : V) (e : PyExc) (o : Obs9)
    (hc : ctorErr p = some e) (ho : o.main = .ctor e.cls) : checkC09 ct p d t o = true := by
  unfold checkC09; rw [hc]; simp [ho]

/-! ### non-vacuity: concrete inputs meet every hypothesis; forced hypotheses have counter-examples -/

/-- `[{'id': And(M > 0, int), 'email': Regex('[^@]+@[^@]+'), Optional('nick', default=''): str}]` -/
private def exPat : Spec :=
  .list [.dict [
    (.plain, .lit (.str "id"), .and [.mexpr .m .gt (.const (.int 0)), .ty "int"] none),
    (.plain, .lit (.str "email"), .regex [⟨.notAt, true⟩, ⟨.lit '@', false⟩, ⟨.notAt, true⟩] .fullmatch),
    (.opt (some (.const (.str ""))), .lit (.str "nick"), .ty "str")]]

private def exTarget : V :=
  .list [.dict [(.str "id", .int 1), (.str "email", .str "a@b")],
         .dict [(.str "id", .int 2), (.str "email", .str "c@d"), (.str "nick", .str "bo")]]

example : ctorErr exPat = none ∧ constDefaults exPat = true ∧ wfV exTarget = true := by decide
example : conforms genEnv.cls exPat exTarget = true := by decide
example : (matchGlom genEnv exPat none exTarget).1 = .ok
    (.list [.dict [(.str "id", .int 1), (.str "email", .str "a@b"), (.str "nick", .str "")],
            .dict [(.str "id", .int 2), (.str "email", .str "c@d"), (.str "nick", .str "bo")]]) := by decide
-- near misses: a wrong type, a missing required key; and `M > 0` on a str id *faults*
example : (matchGlom genEnv exPat none (.list [.dict [(.str "id", .flt 3), (.str "email", .str "a@b")]])).1
    = .error ⟨"TypeMatchError"⟩ := by decide
example : (matchGlom genEnv exPat none (.list [.dict [(.str "id", .str "x"), (.str "email", .str "a@b")]])).1
    = .error ⟨"TypeError"⟩ := by decide
example : (matchGlom genEnv exPat none (.list [.dict [(.str "id", .int 1)]])).1 = .error ⟨"MatchError"⟩ := by
  decide
example : conforms genEnv.cls exPat (.list [.dict [(.str "id", .int 1)]]) = false := by decide
-- a pure pattern and a well-formed target: returned unchanged
example : pureP (.dict [(.plain, .ty "str", .list [.ty "int"])]) = true := by decide
example : (matchGlom genEnv (.dict [(.plain, .ty "str", .list [.ty "int"])]) none
    (.dict [(.str "a", .list [.int 1, .bool true])])).1 = .ok (.dict [(.str "a", .list [.int 1, .bool true])]) := by
  decide
-- keys are tried in spec order: an earlier, less specific key claims the entry
example : (matchGlom genEnv (.dict [(.plain, .ty "str", .ty "int"), (.plain, .lit (.str "a"), .ty "str")]) none
    (.dict [(.str "a", .str "x")])).1 = .error ⟨"TypeMatchError"⟩ := by decide
example : conforms genEnv.cls (.dict [(.plain, .ty "str", .ty "int"), (.plain, .lit (.str "a"), .ty "str")])
    (.dict [(.str "a", .str "x")]) = false := by decide
-- a callable key is optional (commit 3934ea1); Required(callable) makes it required
example : (matchGlom genEnv (.dict [(.plain, .pred 0 "is_str", .ty "int")]) none (.dict [])).1 = .ok (.dict []) := by
  decide
example : (matchGlom genEnv (.dict [(.req, .pred 0 "is_str", .ty "int")]) none (.dict [])).1
    = .error ⟨"MatchError"⟩ := by decide
-- Match(default=)
example : (matchGlom genEnv (.ty "int") (some (.const (.str "D"))) (.str "x")).1 = .ok (.str "D") := by decide
/-- without `constDefaults`: the target conforms, but the Optional default `T['zz']` cannot be
    evaluated and the match ends in its PathAccessError
    (`glom({}, Match({Optional('name', default=T['zz']): str}))` on the real glom: the same) -/
theorem c09_complete_needs_constDefaults :
    conforms genEnv.cls (.dict [(.opt (some (.t [.str "zz"])), .lit (.str "name"), .ty "str")]) (.dict []) = true ∧
    (matchGlom genEnv (.dict [(.opt (some (.t [.str "zz"])), .lit (.str "name"), .ty "str")]) none (.dict [])).1
      = .error ⟨"PathAccessError"⟩ := by decide
/-- without `wfV`: a "set" holding 1 and True is not a value Python can hold; `set(result)`
    would merge them -/
theorem c09_unchanged_needs_wf :
    (matchGlom genEnv (.set [.ty "int"]) none (.set [.int 1, .bool true])).1 = .ok (.set [.int 1]) := by decide
/-- without `pureP`: an Optional default (by design) adds a key -/
theorem c09_unchanged_needs_pure :
    (matchGlom genEnv (.dict [(.opt (some (.const (.int 0))), .lit (.str "n"), .ty "int")]) none (.dict [])).1
      = .ok (.dict [(.str "n", .int 0)]) := by decide
-- calm: the example pattern on its example target, and on the near misses that do not compare
-- incomparable values
example : calm genEnv.cls exPat exTarget = true := by decide
example : calm genEnv.cls exPat (.list [.dict [(.str "id", .int 1)]]) = true := by decide
/-- without `calm`: the target conforms (to the second alternative), but evaluating the first
    alternative compares an int with a str and the match ends in that TypeError -/
theorem c09_exact_needs_calm :
    calm genEnv.cls (.or [.mexpr .m .gt (.const (.str "a")), .ty "int"] none) (.int 1) = false ∧
    conforms genEnv.cls (.or [.mexpr .m .gt (.const (.str "a")), .ty "int"] none) (.int 1) = true ∧
    (matchGlom genEnv (.or [.mexpr .m .gt (.const (.str "a")), .ty "int"] none) none (.int 1)).1
      = .error ⟨"TypeError"⟩ := by decide
-- completeness excludes faults: the target conforms to the second alternative, but evaluating
-- the first one raises
example : conforms genEnv.cls (.or [.mexpr .m .gt (.const (.str "a")), .ty "int"] none) (.int 1) = true ∧
    (matchGlom genEnv (.or [.mexpr .m .gt (.const (.str "a")), .ty "int"] none) none (.int 1)).1
      = .error ⟨"TypeError"⟩ := by decide
-- types whose metaclass is not `type` are matched by isinstance (the generated ABC rows)
example : (matchGlom genEnv (.ty "Mapping") none (.dict [])).1 = .ok (.dict []) := by decide
example : (matchGlom genEnv (.ty "Integral") none (.bool true)).1 = .ok (.bool true) := by decide
example : (matchGlom genEnv (.ty "Sequence") none (.dict [])).1 = .error ⟨"TypeMatchError"⟩ := by decide
example : (matchGlom genEnv (.ty "Color") none (.str "red")).1 = .error ⟨"TypeMatchError"⟩ := by decide
example : (matchGlom genEnv (.ty "Color") none (.obj "Color#RED")).1 = .ok (.obj "Color#RED") := by decide
-- an instance-dependent type: two instances of ONE class, in one call — the second is judged
-- by itself
example : (matchGlom genEnv (.list [.ty "HasLabel"]) none (.list [.obj "Rec#a+label", .obj "Rec#b"])).1
    = .error ⟨"TypeMatchError"⟩ := by decide
example : (matchGlom genEnv (.list [.ty "HasLabel"]) none (.list [.obj "Rec#a+label", .obj "Rec#c+label+flag"])).1
    = .ok (.list [.obj "Rec#a+label", .obj "Rec#c+label+flag"]) := by decide
-- a history: Match(A0) on a K1 (subclass of K0), `A0.register(K0)`, the same target again
private def exHist : List HStep :=
  [.call (.obj "K1#x"), .register "A0" "K0", .call (.obj "K1#x"), .call (.obj "K2#y")]
private def exTable : ClassTable := worldRows genEnv.cls [("K1", "K0")]
private def tmErr : Obs := .exc "TypeMatchError" true true true true false false []
example : (obsHist genEnv (.ty "A0") none exHist exTable).map (Option.map (·.main)) =
    [some tmErr, none, some (.ok (.obj "K1#x") []), some tmErr] := by decide
-- what an implementation shows that remembers the first answer for (K1, A0): rejected by the checker
example : checkHist (.ty "A0") none exHist exTable
    [some ⟨tmErr, tmErr, some false, .obj "K1#x"⟩, none,
     some ⟨tmErr, tmErr, some false, .obj "K1#x"⟩, some ⟨tmErr, tmErr, some false, .obj "K2#y"⟩] = false := by decide
-- hypotheses of c09_sees_registration are satisfiable
example : exTable.any (·.1 == (V.obj "K1#x").cls) = true ∧ (exTable.mro (V.obj "K1#x").cls).contains "K0" = true := by
  decide
/-- without the row hypothesis: registering `object` itself does not reach a class the table has
    no row for (the table lists every class a case uses; the default MRO is a fallback) -/
theorem c09_sees_registration_needs_row :
    (registerCls [] "A0" "object").isSub "Zed" "A0" = false := by decide
-- copies: with the generated marker table a deep copy is the pattern itself
example : (matchGlom genEnv (copySpec Generated.identityMarkers "deepcopy" exPat) none exTarget).1
    = (matchGlom genEnv exPat none exTarget).1 := by decide
/-- what `copy.deepcopy` makes of a pattern when the `_MISSING` marker does NOT survive it (a
    marker class without `__deepcopy__` / `__reduce__`): every absent default is a present one,
    and a non-conforming target gets the marker back instead of an error -/
theorem c09_copy_needs_marker_identity :
    (matchGlom genEnv (copySpec [("_MISSING", "deepcopy", false)] "deepcopy" (.ty "int"))
      (copyDflt false "_MISSING" none) (.str "3")).1 = .ok (.obj "_MISSING") := by decide
-- Regex: `[^@]+@[^@]+` — "a@b" is in the language, "a@" is not (but has a prefix… no: `+` needs one)
example : reAccepts [⟨.notAt, true⟩, ⟨.lit '@', false⟩, ⟨.notAt, true⟩] .fullmatch "a@b".toList :=
  (reMatches_iff _ _ "a@b").mp (by decide)
example : ¬ reAccepts [⟨.notAt, true⟩, ⟨.lit '@', false⟩, ⟨.notAt, true⟩] .fullmatch "a@".toList :=
  fun h => absurd ((reMatches_iff _ _ "a@").mpr h) (by decide)
example : reAccepts [⟨.digit, true⟩] .search "ab12c".toList := (reMatches_iff _ _ "ab12c").mp (by decide)
-- precedence: a tuple key is as late as its latest item; a chain with an unknown test has no reading
example : precedence (.tuple [.lit (.str "t"), .ty "int"]) = 2 ∧
    precedence (.tuple [.lit (.str "p"), .fset [.lit (.int 1)]]) = 0 ∧ precedence (.pred 0 "is_str") = 1 := by decide
example : precStep precedence [("type(match) is type", "return 2")] .plain (.ty "int") = none := by decide
example : requiredIdx [(.plain, .lit (.str "a"), .ty "int"), (.plain, .ty "str", .ty "int"),
    (.opt none, .lit (.str "b"), .ty "int"), (.req, .pred 0 "is_str", .ty "int"),
    (.plain, .tuple [.lit (.str "p"), .lit (.int 1)], .ty "int")] 0 = [0, 3, 4] := by decide
-- a dict pattern on an instance of a subclass of dict: matched, defaults added, a plain dict returned
example : (matchGlom genEnv (.dict [(.plain, .ty "str", .ty "int"), (.opt (some (.const (.int 0))), .lit (.str "n"), .ty "int")])
    none (.sub "MyDict" (.dict [(.str "a", .int 1)]))).1 = .ok (.dict [(.str "a", .int 1), (.str "n", .int 0)]) := by
  decide
example : (matchGlom genEnv (.ty "Mapping") none (.sub "MyDict" (.dict []))).1 = .ok (.sub "MyDict" (.dict [])) ∧
    (matchGlom genEnv (.ty "MyDict") none (.dict [])).1 = .error ⟨"TypeMatchError"⟩ := by decide
example : kindMismatch (.list [.ty "int"]) (.sub "MyTuple" (.tuple [])) = true := by decide
-- plus Optional defaults, nested: the example pattern's result is its target plus the `nick` default
example : plusDefaults genEnv.cls exPat exTarget
    (.list [.dict [(.str "id", .int 1), (.str "email", .str "a@b"), (.str "nick", .str "")],
            .dict [(.str "id", .int 2), (.str "email", .str "c@d"), (.str "nick", .str "bo")]]) = true := by decide
-- … a result that lacks the default, or changed a value, is not
example : plusDefaults genEnv.cls exPat exTarget exTarget = false := by decide
example : plusDefaults genEnv.cls exPat exTarget
    (.list [.dict [(.str "id", .int 9), (.str "email", .str "a@b"), (.str "nick", .str "")],
            .dict [(.str "id", .int 2), (.str "email", .str "c@d"), (.str "nick", .str "bo")]]) = false := by decide
/-- without `wfV` (here: a subclass instance): what comes back is an instance of the builtin
    class, so `plusDefaults`, which compares classes too, does not hold -/
theorem c09_plus_defaults_needs_wf :
    (matchGlom genEnv (.list [.ty "int"]) none (.sub "MyList" (.list [.int 1]))).1 = .ok (.list [.int 1]) ∧
    plusDefaults genEnv.cls (.list [.ty "int"]) (.sub "MyList" (.list [.int 1])) (.list [.int 1]) = false := by
  decide
/-- **A target key that IS the key pattern object is judged like any other key**: the class `str`
    is no instance of str, the function `is_str` is no str — the entry is not claimed and the match
    fails; `Required(int)` is not discharged by the key `int`; under the key pattern `object` the
    class object is an instance and the entry is claimed.  (Facts: `expectedIdentityTests` — the
    matcher compares no target object with a spec object by identity.) -/
theorem c09_key_object_is_judged :
    (matchGlom genEnv (.dict [(.plain, .ty "str", .ty "int")]) none (.dict [(.obj "type#str", .int 1)])).1
      = .error ⟨"MatchError"⟩ ∧
    (matchGlom genEnv (.dict [(.req, .ty "int", .ty "object")]) none (.dict [(.obj "type#int", .int 1)])).1
      = .error ⟨"MatchError"⟩ ∧
    (matchGlom genEnv (.dict [(.plain, .pred 0 "is_str", .ty "int")]) none
      (.dict [(.obj "function#is_str_0", .int 1)])).1 = .error ⟨"MatchError"⟩ ∧
    (matchGlom genEnv (.dict [(.plain, .ty "object", .ty "int")]) none (.dict [(.obj "type#object", .int 1)])).1
      = .ok (.dict [(.obj "type#object", .int 1)]) := by decide
-- a fault through the three entry points: glom() / verify() raise the TypeError, matches() answers False
example : (observe9 genEnv (.mexpr .m .gt (.const (.int 0))) none (.str "a")).matched = some false ∧
    (observe9 genEnv (.mexpr .m .gt (.const (.int 0))) none (.str "a")).verify
      = .exc "TypeError" false false false true false false [] := by decide
-- constructor errors
example : ctorErr (.dict [(.opt none, .ty "int", .ty "int")]) = some ⟨"ValueError"⟩ := by decide
example : ctorErr (.dict [(.req, .lit (.str "a"), .ty "int")]) = some ⟨"ValueError"⟩ := by decide
example : ctorErr (.dict [(.opt none, .pred 0 "is_str", .ty "int")]) = some ⟨"ValueError"⟩ := by decide

end Glom.Props.C09
