import Glom.Lemmas.C14
import Glom.Model.C14Env
/-
  C14 — wildcards enumerate children / descendants once, tolerate misses, terminate.

  Property theorems only; helper lemmas are in `Glom/Lemmas/C14.lean`.  The model
  (`Glom/Model/C14.lean`) mirrors `_extend_children`, the `'x'` / `'X'` branch of `_t_eval` (growing
  list walked by index, `id()`-visited set seeded with the root), the recursive evaluation of the
  remaining ops with PathAccessError swallowed, `__stars__` and `_apply_for_each`; the reference
  (`Glom/Spec/C14.lean`) is `children`, a queue breadth-first traversal, "map the rest over the
  entries and keep the successes", and "apply to every entry".

  Every theorem is for *all* heaps — any sharing, any cycles — satisfying the decidable
  well-formedness `heapWF` (dict keys / attribute names find their own value, a cell's layout fits
  its class) and `classesWF` (the classes of immediate values are not containers), all targets and
  all paths of any length with any number of wildcards at any position.
-/
namespace Glom.Props.C14
open Glom Glom.C14

/-- **Facts obligation** (re-checked on every run against /repo's AST): `_extend_children` has the
    keys+get / iterate structure with the guard for instances of list / tuple / set / frozenset and
    exactly the `except` clauses the model mirrors; the `'x'`/`'X'` branch seeds the visited set with
    the root, walks the growing list, puts the root in front, evaluates the remaining ops per entry
    swallowing PathAccessError only, and breaks — the remainder it evaluates on every entry being rooted
    at T for T-rooted and for S-rooted paths alike (`c14RemainderRoot`: an S-rooted path continues
    from each entry, it does not start again from the scope; repaired defect 62e884e) —;
    `__stars__` counts both wildcards;
    `Path.from_text` maps `*` / `**`; `_apply_for_each` flattens `layers - 1` times. -/
theorem c14_facts_wf : factsOK = true := by decide

/-- **`*`**: one entry per child of the current value — mapping values, sequence / set items,
    attribute values, in their natural order; an element whose access raises is left out, an
    iteration that raises ends the list; immediate values have none. -/
theorem c14_star (cs : Classes) (h : Heap) (hw : heapWF cs h = true) (hc : classesWF cs = true)
    (cur : Val) : starItems cs h cur = children cs h cur :=
  extendChildren_eq_children cs h hw hc cur

/-- **`**` is the breadth-first traversal**: the value itself, then all its descendants in
    breadth-first order, one entry per reference. -/
theorem c14_starstar_bfs (cs : Classes) (h : Heap) (hw : heapWF cs h = true)
    (hc : classesWF cs = true) (cur : Val) :
    (starstarItems cs h cur).1 = descend cs h cur := by
  unfold starstarItems descend
  simp only
  rw [ssLoop_eq_bfs cs h (extendChildren_eq_children cs h hw hc),
    extendChildren_eq_children cs h hw hc]
  simp only [List.take_zero, List.drop_zero, List.nil_append]
  cases cur <;> rfl

/-- **`**` is breadth-first for every registry.**  Whatever `_extend_children` enumerates — any
    `keys` / `get` / `iterate` handler tables, with any user-registered container types (`expand` is
    an arbitrary function) — and whatever the object graph (any sharing, any cycles, any number `n`
    of objects), the index loop over the growing list with its `id()`-visited set computes the queue
    breadth-first traversal over `expand`: the value itself, then its descendants level by level, one
    entry per reference. -/
theorem c14_starstar_bfs_any_registry (n : Nat) (expand : Val → List Val) (cur : Val) :
    (starstarItemsG n expand cur).1 = descendG n expand cur := by
  unfold starstarItemsG descendG
  simp only
  rw [ssLoopG_eq_bfsG n expand expand (fun _ => rfl)]
  simp only [List.take_zero, List.drop_zero, List.nil_append]
  cases cur <;> rfl

/-- … each container is expanded at most once and the loop terminates after at most `n + 1`
    expansions, for every registry. -/
theorem c14_expand_once_any_registry (n : Nat) (expand : Val → List Val) (cur : Val) :
    (starstarItemsG n expand cur).2.Nodup ∧ (starstarItemsG n expand cur).2.length ≤ n + 1 := by
  unfold starstarItemsG
  cases cur <;> first
    | exact ssLoopG_bound n expand _ [_] (by simp)
    | exact ⟨(ssLoopG_bound n expand _ [] (by simp)).1,
        Nat.le_succ_of_le (by simpa using (ssLoopG_bound n expand _ [] (by simp)).2)⟩

/-- the model's `_extend_children` and `**` are the instance "default registry + the user
    registrations of the class table" of the registry-parametric ones -/
theorem c14_default_registry_instance (cs : Classes) (h : Heap) (cur : Val) :
    extendChildren cs h cur = extendChildrenH (defaultHandlers cs h) cur ∧
    starstarItems cs h cur = starstarItemsG h.length (extendChildrenH (defaultHandlers cs h)) cur := by
  have he : extendChildren cs h = extendChildrenH (defaultHandlers cs h) :=
    funext (extendChildren_eq_H cs h)
  refine ⟨extendChildren_eq_H cs h cur, ?_⟩
  unfold starstarItems starstarItemsG ssLoop
  rw [he]

/-- **Each shared or cyclic container is expanded only once** — the root included — for every
    heap: the expanded addresses are pairwise distinct, and the result consists of the root, its
    children, and the children of each container expanded by the loop, in expansion order. -/
theorem c14_expand_once (cs : Classes) (h : Heap) (cur : Val) :
    (starstarItems cs h cur).2.Nodup ∧
    ∃ news : List Nat,
      (starstarItems cs h cur).2 = (match cur with | .ref a => [a] | _ => []) ++ news ∧
      (starstarItems cs h cur).1 =
        cur :: (extendChildren cs h cur ++ news.flatMap (fun a => extendChildren cs h (.ref a))) ∧
      (∀ a ∈ news, a < h.length ∧ Val.ref a ≠ cur) := by
  unfold starstarItems
  simp only
  constructor
  · apply ssLoop_nodup
    · intro x hx; cases cur <;> simp_all
    · cases cur <;> simp
  · obtain ⟨news, h1, h2, h3⟩ := ssLoop_structure cs h (extendChildren cs h cur) 0 _ _
    refine ⟨news, h1, by rw [h2], fun a ha => ⟨(h3 a ha).1, ?_⟩⟩
    intro e
    subst e
    have := (h3 a ha).2
    simp at this

/-- **Termination, quantitatively**: `ssLoop` is a total function (its definition by
    well-founded recursion on (unexpanded heap addresses, unwalked items) is accepted for every
    heap, cyclic or not), and it expands at most one container per heap address. -/
theorem c14_terminates (cs : Classes) (h : Heap) (cur : Val) :
    (starstarItems cs h cur).2.length ≤ h.length + 1 := by
  obtain ⟨hnd, news, h1, _, h3⟩ := c14_expand_once cs h cur
  rw [h1]
  have hn : news.Nodup := by
    rw [h1] at hnd
    exact (List.nodup_append.1 hnd).2.1
  have hsub : news ⊆ List.range h.length := fun a ha => List.mem_range.2 (h3 a ha).1
  have := hn.length_le_of_subset hsub
  simp only [List.length_append, List.length_range] at this ⊢
  cases cur <;> simp <;> omega

/-- **Steps after a wildcard are applied to each entry independently; entries for which they fail
    are dropped instead of raising.**  The model's `_t_eval` computes the reference evaluation
    ("map the remaining steps over the entries, keep the successes"), for every path made of
    access steps and wildcards; and it never fails with anything but a PathAccessError (which
    only a step *before* the first wildcard can raise). -/
theorem c14_tail_independent (cs : Classes) (h : Heap) (hw : heapWF cs h = true)
    (hc : classesWF cs = true) (steps : List (String × Val)) (hs : wfOps steps = true) (cur : Val) :
    evalSteps cs h steps cur = refEval cs h steps cur ∧
    (∀ c, evalSteps cs h steps cur ≠ .error (.other c)) := by
  obtain ⟨h1, h2⟩ := evalSteps_eq_refEval cs h (extendChildren_eq_children cs h hw hc) steps hs cur
  refine ⟨h1, fun c e => ?_⟩
  rw [e] at h2
  simp [isPaeOrOk] at h2

/-- **Every further wildcard adds one level of list nesting**: a successful evaluation of a path
    with `k` wildcards is a `k`-level nested list. -/
theorem c14_nesting (cs : Classes) (h : Heap) (hw : heapWF cs h = true) (hc : classesWF cs = true)
    (steps : List (String × Val)) (hs : wfOps steps = true) (cur : Val) (r : Res)
    (hr : evalSteps cs h steps cur = .ok r) : nested (stars steps) r = true := by
  rw [(c14_tail_independent cs h hw hc steps hs cur).1] at hr
  exact refEval_nested cs h steps cur r hr

/-! ### where a wildcard path can fail -/

/-- **Entries for which the steps fail are dropped instead of raising — so a path fails only in
    front of its first wildcard**: the evaluation succeeds iff the steps in front of the first
    wildcard can be walked from the target (whatever follows the wildcard, whatever it matches). -/
theorem c14_fails_only_before_first_wildcard (cs : Classes) (h : Heap) (hw : heapWF cs h = true)
    (hc : classesWF cs = true) (steps : List (String × Val)) (hs : wfOps steps = true) (cur : Val) :
    isOkE (evalSteps cs h steps cur) = reachable cs h cur steps := by
  rw [(c14_tail_independent cs h hw hc steps hs cur).1]
  exact refEval_ok_iff_reachable cs h steps cur

/-- **Assign / Delete through wildcards act on every entry**: `_apply_for_each` (flatten
    `layers - 1` times, then call the operation on every inner value) applies the operation to
    exactly the entries of the nested result, in order, on one heap, stopping at the first failure. -/
theorem c14_broadcast (cs : Classes) (h : Heap) (hw : heapWF cs h = true) (hc : classesWF cs = true)
    (steps : List (String × Val)) (hs : wfOps steps = true) (key : Val) (kind : MutKind) (target : Val) :
    modelMutate cs h steps key kind target =
      match refMutate cs h steps key kind target with
      | .ok (h', e) => .mutated h' (e.map (merrName kind)) true
      | .error (.pae _) => if usesMissing kind then .backfill else .paeAt h
      | .error (.other c) => .other c := by
  unfold modelMutate refMutate
  rw [(c14_tail_independent cs h hw hc steps hs target).1]
  cases hr : refEval cs h steps target with
  | error e =>
    cases e with
    | pae e => simp only; cases ignoresMiss kind <;> rfl
    | other c => rfl
  | ok r =>
    simp only
    rw [applyForEach_eq _ _ _ _ (refEval_nested cs h steps target r hr)]

/-- **`ignore_missing=True` is honoured per entry** (Delete through wildcards acts on *every*
    entry): an entry that lacks the key / index / attribute — the deletion raises a class the
    `except` clause of `_del_one` names — is left alone, the heap is unchanged, and the loop goes on
    with the following entries exactly as if that entry had not been there. -/
theorem c14_ignore_skips_entry (cs : Classes) (op : String) (key : Val) (h : Heap) (d : Val)
    (rest : List Val) (c : String) (hd : delOp cs op false h d key = .error (.assign c)) :
    mutateAll (mutOp cs key (.delete op true)) h (d :: rest) =
      mutateAll (mutOp cs key (.delete op true)) h rest := by
  rw [delOp_false] at hd
  simp only [mutateAll, mutOp, delOp, hd, if_true]

/-- … an entry that has it loses it, flag or no flag, and the loop goes on from the new heap -/
theorem c14_ignore_deletes_entry (cs : Classes) (op : String) (key : Val) (h h' : Heap) (d : Val)
    (rest : List Val) (hd : delOp cs op false h d key = .ok h') :
    mutateAll (mutOp cs key (.delete op true)) h (d :: rest) =
      mutateAll (mutOp cs key (.delete op true)) h' rest := by
  rw [delOp_false] at hd
  simp only [mutateAll, mutOp, delOp, hd]

/-- … so under `ignore_missing=True` no PathDeleteError is ever raised, whatever the entries -/
theorem c14_ignore_never_path_delete_error (cs : Classes) (op : String) (key : Val) :
    ∀ (ds : List Val) (h : Heap) (c : String),
      (mutateAll (mutOp cs key (.delete op true)) h ds).2 ≠ some (.assign c) := by
  intro ds
  induction ds with
  | nil => intro h c; simp [mutateAll]
  | cons d rest ih =>
    intro h c
    simp only [mutateAll, mutOp, delOp]
    cases hr : delRaw cs op h d key with
    | ok h' => simpa [mutOp, delOp] using ih h' c
    | error e =>
      cases e with
      | assign c' => simpa [mutOp, delOp] using ih h c
      | unregistered => simp
      | typeError => simp
      | raw c' => simp

/-- **`ignore_missing=True`, as a whole**: a Delete built with the flag, through any path with any
    wildcards on any heap, never lets a PathAccessError out and never raises a PathDeleteError (no
    failure of a class `_del_one`'s `except` names, `MErr.assign`, survives) — a parent path that cannot
    be walked leaves the target exactly as it is, an entry lacking the key is left alone —; what it can
    still raise is what no `except` clause names (UnregisteredTarget, a raw TypeError).  It returns the
    target. -/
theorem c14_ignore_total (cs : Classes) (h : Heap) (hw : heapWF cs h = true) (hc : classesWF cs = true)
    (steps : List (String × Val)) (hs : wfOps steps = true) (key : Val) (op : String) (target : Val) :
    ∃ (h' : Heap) (e : Option MErr),
      modelMutate cs h steps key (.delete op true) target =
        .mutated h' (e.map (merrName (.delete op true))) true ∧
      (∀ c, e ≠ some (.assign c)) ∧
      (reachable cs h target steps = false → h' = h ∧ e = none) := by
  rw [c14_broadcast cs h hw hc steps hs key (.delete op true) target]
  have hreach := refEval_ok_iff_reachable cs h steps target
  obtain ⟨he, hne⟩ := c14_tail_independent cs h hw hc steps hs target
  unfold refMutate
  cases hr : refEval cs h steps target with
  | error e =>
    cases e with
    | pae x => exact ⟨h, none, by simp [ignoresMiss], by simp, fun _ => ⟨rfl, rfl⟩⟩
    | other c => exact absurd (he.trans hr) (hne c)
  | ok r =>
    rw [hr] at hreach
    simp only [isOkE] at hreach
    have hnd := c14_ignore_never_path_delete_error cs op key (leaves (stars steps) r) h
    rcases hm : mutateAll (mutOp cs key (.delete op true)) h (leaves (stars steps) r) with ⟨h', e⟩
    rw [hm] at hnd
    exact ⟨h', e, by simp only [hm], fun c => hnd c, fun hf => by rw [← hreach] at hf; cases hf⟩

/-- **`missing=` is consulted only in front of the first wildcard**: `Assign(path, v, missing=f)`
    reaches its backfill branch (`except PathAccessError as pae: … create the rest with f`) iff the
    steps in front of the first wildcard of the path cannot be walked; otherwise — in particular
    whenever the path starts with a wildcard — it is `Assign(path, v)`: every entry is assigned,
    entries on which the rest of the path fails are left alone and nothing is created in them. -/
theorem c14_missing_only_before_first_wildcard (cs : Classes) (h : Heap) (hw : heapWF cs h = true)
    (hc : classesWF cs = true) (steps : List (String × Val)) (hs : wfOps steps = true) (key : Val)
    (op : String) (v : Val) (target : Val) :
    modelMutate cs h steps key (.assign op v true) target =
      (if reachable cs h target steps then modelMutate cs h steps key (.assign op v false) target
       else .backfill) := by
  have hr := c14_fails_only_before_first_wildcard cs h hw hc steps hs target
  obtain ⟨_, hne⟩ := c14_tail_independent cs h hw hc steps hs target
  unfold modelMutate
  cases he : evalSteps cs h steps target with
  | ok r =>
    rw [he] at hr
    simp only [isOkE] at hr
    have hmn : merrName (MutKind.assign op v true) = merrName (MutKind.assign op v false) := by
      funext m; cases m <;> rfl
    simp [← hr, mutOp, hmn]
  | error e =>
    rw [he] at hr
    simp only [isOkE] at hr
    cases e with
    | pae x => simp [← hr, ignoresMiss, usesMissing]
    | other c => exact absurd he (hne c)

/-- **Checker theorem** — the form in which the property is also evaluated on the
    implementation's observation by the correspondence driver. -/
theorem c14_model_checks (cs : Classes) (h : Heap) (hw : heapWF cs h = true) (hc : classesWF cs = true)
    (steps : List (String × Val)) (hs : wfOps steps = true) (target : Val) :
    checkC14 cs h steps none target (modelRead cs h steps target) = true ∧
    ∀ key kind, checkC14 cs h steps (some (key, kind)) target
      (modelMutate cs h steps key kind target) = true := by
  constructor
  · unfold checkC14 modelRead
    rw [(c14_tail_independent cs h hw hc steps hs target).1]
    cases hr : refEval cs h steps target with
    | ok r => simp [Res.beq_refl]
    | error e => cases e <;> simp
  · intro key kind
    unfold checkC14
    rw [c14_broadcast cs h hw hc steps hs key kind target]
    simp only
    cases hr : refMutate cs h steps key kind target with
    | ok p => obtain ⟨h', e⟩ := p; simp
    | error e => cases e <;> cases hm : usesMissing kind <;> simp [hm]

/-! ### steps with effects after a wildcard; identity of the result's lists -/

/-- **Steps after a wildcard are applied to each entry independently — once per matched position, on
    the state the previous position left.**  On every well-formed heap (any sharing, any cycles), for
    every path of accesses, wildcards and method calls with an effect (`pop`, `append`, `__next__`),
    the model's `_t_eval` — `cur = []`, then the `for child in nxt: try … except PathAccessError` loop —
    computes the reference: the entries are `children` / the breadth-first `descend` of the heap as it
    is when the wildcard is reached, the remainder is evaluated for every position in order, a position
    failing with PathAccessError is dropped, any other exception ends the evaluation with the state
    reached so far; and the heap stays well-formed. -/
theorem c14_stateful_refines (cs : Classes) (hc : classesWF cs = true) (steps : List Step) (cur : Val)
    (s : St) (hw : heapWF cs s.heap = true) :
    evalS cs steps cur s = refEvalS cs steps cur s ∧ heapWF cs (evalS cs steps cur s).1.heap = true :=
  evalS_eq_refEvalS cs hc steps cur s hw

/-- **Every further wildcard adds one level of list nesting — a list of its own**: every evaluation
    of a wildcard step creates a new list; in the result of any path on any heap no two positions are
    the same list object, and every list of the result was created by this evaluation (its identity
    is not below the counter the evaluation started with). -/
theorem c14_fresh_lists (cs : Classes) (steps : List Step) (cur : Val) (s : St) (r : LRes)
    (hr : (evalS cs steps cur s).2 = .ok r) :
    r.labels.Nodup ∧ ∀ l ∈ r.labels, s.next ≤ l ∧ l < (evalS cs steps cur s).1.next :=
  (evalS_fresh cs steps cur s).2 r hr

/-- **The evaluation with state extends the pure one**: on a path without calls the target and the
    call log are untouched and the value is `evalSteps`' (all theorems above about `evalSteps` speak
    about `evalS`). -/
theorem c14_pure_conservative (cs : Classes) (steps : List (String × Val)) (cur : Val) (s : St) :
    (evalS cs (steps.map Step.ofPair) cur s).1.heap = s.heap ∧
    (evalS cs (steps.map Step.ofPair) cur s).1.calls = s.calls ∧
    eraseE (evalS cs (steps.map Step.ofPair) cur s).2 = evalSteps cs s.heap steps cur :=
  evalS_pure cs steps cur s

/-- **One object at `n` positions is `n` evaluations** (`glom([q]*n, T.__star__().append(v))`):
    whenever the entries of a `*` step are `n` references to one list `q`, `append(v)` is called `n`
    times — `q` ends with `n` more items, the result has `n` entries, `n` calls are logged. -/
theorem c14_same_object_n_appends (cs : Classes) (s : St) (cur : Val) (q : Nat) (c : String)
    (xs : List Val) (v : Val) (n : Nat) (hq : s.heap[q]? = some (.list c xs))
    (hent : starItems cs s.heap cur = List.replicate n (.ref q)) :
    evalS cs [.star, .call "append" [v]] cur s =
      ({ heap := s.heap.set q (.list c (xs ++ List.replicate n v)), next := s.next + 1,
         calls := s.calls ++ logN c q "append" n },
       .ok (.list s.next (List.replicate n (.val .none)))) := by
  show wildS (evalS cs [.call "append" [v]]) (starItems cs s.heap cur) s = _
  rw [hent]
  unfold wildS
  rw [collectS_append_replicate cs q c v n { s with next := s.next + 1 } xs hq]

/-- … and `pop()`: the `k`-th position gets the `k`-th item from the end, `q` loses `n` items
    (`glom([q, q], T.__star__().pop())` on `q = [1, 2, 3]` is `[3, 2]` and leaves `q = [1]`). -/
theorem c14_same_object_n_pops (cs : Classes) (s : St) (cur : Val) (q : Nat) (c : String)
    (ys rs : List Val) (hq : s.heap[q]? = some (.list c (ys ++ rs.reverse)))
    (hent : starItems cs s.heap cur = List.replicate rs.length (.ref q)) :
    evalS cs [.star, .call "pop" []] cur s =
      ({ heap := s.heap.set q (.list c ys), next := s.next + 1,
         calls := s.calls ++ logN c q "pop" rs.length },
       .ok (.list s.next (rs.map LRes.val))) := by
  show wildS (evalS cs [.call "pop" []]) (starItems cs s.heap cur) s = _
  rw [hent]
  unfold wildS
  rw [collectS_pop_replicate cs q c rs { s with next := s.next + 1 } ys hq]

/-- **Checker theorem for reads** (result with the identity of its lists, target afterwards, calls
    made) — the form in which the property is evaluated on the implementation's observation. -/
theorem c14_model_checks_read (cs : Classes) (h : Heap) (hw : heapWF cs h = true)
    (hc : classesWF cs = true) (steps : List Step) (target : Val) :
    checkC14S cs h steps target (modelReadS cs h steps target) = true := by
  unfold checkC14S modelReadS obsOf
  have hfresh := evalS_fresh cs steps target (initSt h)
  rw [(evalS_eq_refEvalS cs hc steps target (initSt h) hw).1] at hfresh ⊢
  generalize refEvalS cs steps target (initSt h) = p at hfresh ⊢
  obtain ⟨s', r⟩ := p
  cases r with
  | ok r =>
    have := (hfresh.2 r rfl).1
    simp [Res.beq_refl, nodupB_of_nodup _ this]
  | error e => cases e <;> simp

/-! ### Coalesce and defaults -/

/-- **Wildcards inside `Coalesce`**: `Coalesce(p₀, p₁, …, default=d)` yields the value of the first
    path whose part in front of the first wildcard can be walked — an empty list included, a wildcard
    that matches nothing is not a miss — and the default (else CoalesceError) iff there is none. -/
theorem c14_coalesce (cs : Classes) (h : Heap) (hw : heapWF cs h = true) (hc : classesWF cs = true)
    (target : Val) (d : Bool) (alts : List (List (String × Val))) (ha : ∀ a ∈ alts, wfOps a = true) :
    coalesce cs h target d alts 0 = refCoalesce cs h target d alts := by
  rw [coalesce_eq cs h hw hc target d alts 0 ha]
  unfold refCoalesce
  cases List.findIdx? (reachable cs h target) alts with
  | none => rfl
  | some j =>
    simp only [Nat.zero_add]
    cases refEval cs h (alts.getD j []) target <;> rfl

/-- … `glom(target, path, default=d)` returns `d` iff the part in front of the first wildcard
    cannot be walked; otherwise the value, `d` playing no part. -/
theorem c14_default_iff_unreachable (cs : Classes) (h : Heap) (hw : heapWF cs h = true)
    (hc : classesWF cs = true) (steps : List (String × Val)) (hs : wfOps steps = true) (target : Val) :
    glomDefault cs h target true steps =
      (if reachable cs h target steps then
         (match refEval cs h steps target with
          | .ok r => .ok 0 r
          | .error _ => .dflt)
       else .dflt) := by
  have hr := c14_fails_only_before_first_wildcard cs h hw hc steps hs target
  obtain ⟨he, hne⟩ := c14_tail_independent cs h hw hc steps hs target
  unfold glomDefault
  rw [he] at hr ⊢
  cases hre : refEval cs h steps target with
  | ok r => rw [hre] at hr; simp [isOkE] at hr; simp [← hr]
  | error e =>
    rw [hre] at hr
    simp only [isOkE] at hr
    have : isGlomErr e = true := by
      cases e with
      | pae x => rfl
      | other c => exact absurd (he.trans hre) (hne c)
    simp [← hr, this]

/-! ### `__stars__`, flattening depth, nested `Path`s -/

/-- `__stars__` is additive: the number of list levels of `Path(a, b)` is that of `a` plus that of `b` -/
theorem c14_stars_append (a b : List (String × Val)) : stars (a ++ b) = stars a + stars b :=
  stars_append a b

/-- **wildcards inside `Path(...)`**, mixed with plain segments, T expressions and nested Paths: the
    path's `__stars__` is the sum over its parts, for any number of parts and any nesting of Paths -/
theorem c14_stars_path (ps : List PathPart) :
    stars (PathPart.stepsList ps) = (ps.map (fun p => stars p.steps)).sum :=
  stars_stepsList ps

/-- **the flattening depth is right for any number of wildcards**: `k` applications of `sum(val, [])`
    to the items of a `(k+1)`-level result give exactly its entries, in order … -/
theorem c14_flatten_depth (k : Nat) (xs : List Res) (hx : xs.all (nested k) = true) :
    ∃ ys, flattenN k xs = some ys ∧ ys.all (nested 0) = true ∧ ys.flatMap (leaves 0) = xs.flatMap (leaves k) :=
  flattenN_nested k xs hx

/-- … and one more application raises (`sum` meets an entry that is not a list) as soon as there is an
    entry: `layers - 1` is the only depth that works for every target. -/
theorem c14_flatten_too_deep (k : Nat) (xs : List Res) (hx : xs.all (nested k) = true)
    (hne : xs.flatMap (leaves k) ≠ []) : flattenN (k + 1) xs = none :=
  flattenN_too_deep k xs hx hne

/-! ### the switch `PATH_STAR` -/

/-- **switch off: `*` and `**` are plain segments.**  `Path.from_text` makes one `P` step per
    dot-separated segment, whatever the segment; the path has no wildcard (`__stars__() = 0`). -/
theorem c14_path_star_off_plain (text : String) :
    stepsOfText false text =
      (Glom.C01.splitDot text.toList).map (fun seg => ("P", Val.str (String.ofList seg))) ∧
    (stepsOfText false text).all (fun s => s.1 == "P") = true ∧ stars (stepsOfText false text) = 0 := by
  have h1 : stepsOfText false text =
      (Glom.C01.splitDot text.toList).map (fun seg => ("P", Val.str (String.ofList seg))) := by
    unfold stepsOfText partsOfTextMode
    simp only [Bool.false_eq_true, if_false]
    exact stepsOfParts_segs _
  have h2 : (stepsOfText false text).all (fun s => s.1 == "P") = true := by
    rw [h1]; simp [List.all_map]
  exact ⟨h1, h2, stars_all_P _ h2⟩

/-- … so with the switch off a text path yields a single value or fails with a PathAccessError —
    never a list made by a wildcard —, on every heap: it is the plain access chain of C01 with the
    keys `*` / `**` looked up like any other key. -/
theorem c14_path_star_off_value (cs : Classes) (h : Heap) (hw : heapWF cs h = true)
    (hc : classesWF cs = true) (text : String) (cur : Val) (r : Res)
    (hr : evalSteps cs h (stepsOfText false text) cur = .ok r) : ∃ v, r = .val v := by
  obtain ⟨_, h2, h3⟩ := c14_path_star_off_plain text
  have := c14_nesting cs h hw hc _ (wfOps_all_P _ h2) cur r hr
  rw [h3] at this
  cases r with
  | val v => exact ⟨v, rfl⟩
  | list xs => simp [nested] at this

/-- **switch on**: every segment `*` / `**` is a wildcard step and nothing else is — a dotted text
    has as many list levels as it has such segments. -/
theorem c14_path_star_on_counts (text : String) :
    stars (stepsOfText true text) =
      ((Glom.C01.splitDot text.toList).filter (fun seg => seg = ['*'] || seg = ['*', '*'])).length :=
  stars_stepsOfText_on text

/-- **the switch matters for `*` / `**` segments only**: a text without such a segment denotes the
    same path under both settings. -/
theorem c14_path_star_irrelevant (text : String)
    (hno : ∀ seg ∈ Glom.C01.splitDot text.toList, seg ≠ ['*'] ∧ seg ≠ ['*', '*']) :
    stepsOfText true text = stepsOfText false text := by
  unfold stepsOfText partsOfTextMode Glom.C01.partsOfText
  simp only [if_true, Bool.false_eq_true, if_false]
  congr 1
  apply List.map_congr_left
  intro seg hseg
  obtain ⟨h1, h2⟩ := hno seg hseg
  simp [h1, h2]

/-! ### non-vacuity: concrete inputs meet every hypothesis -/

/-- a cyclic heap with a shared child: `0: {'a': [..], 'b': [..]}` (both the same list 1),
    `1: [dict 0, 7, obj 2]`, `2: obj.k = list 1` -/
private def exHeap : Heap :=
  [ .dict "dict" [(.str "a", .ref 1), (.str "b", .ref 1)],
    .list "list" [.ref 0, .int 7, .ref 2],
    .inst "Obj" [("k", .ref 1)] ]
private def exCls : Classes := [("Obj", ⟨["Obj", "object"], true, false, ""⟩)]

example : heapWF exCls exHeap = true ∧ classesWF exCls = true := by decide
example : wfOps [("X", .none), ("P", .str "k")] = true := by decide
-- `**` on the cyclic root: the root, its two references to the list, then the list's three items
-- once (the second reference is not expanded again), then the object's attribute
private theorem ex_e0 : extendChildren exCls exHeap (.ref 0) = [.ref 1, .ref 1] := by decide
private theorem ex_e1 : extendChildren exCls exHeap (.ref 1) = [.ref 0, .int 7, .ref 2] := by decide
private theorem ex_e2 : extendChildren exCls exHeap (.ref 2) = [.ref 1] := by decide
private theorem ex_len : exHeap.length = 3 := rfl
example : starstarItems exCls exHeap (.ref 0) =
    ([.ref 0, .ref 1, .ref 1, .ref 0, .int 7, .ref 2, .ref 1], [0, 1, 2]) := by
  unfold starstarItems
  simp only [ex_e0]
  unfold ssLoop
  repeat (rw [ssLoopG]; simp [ex_e1, ex_e2, ex_len])
example : descend exCls exHeap (.ref 0) = [.ref 0, .ref 1, .ref 1, .ref 0, .int 7, .ref 2, .ref 1] := by
  rw [← c14_starstar_bfs exCls exHeap (by decide) (by decide)]
  unfold starstarItems
  simp only [ex_e0]
  unfold ssLoop
  repeat (rw [ssLoopG]; simp [ex_e1, ex_e2, ex_len])
-- the self-referential list of the repaired defect F8: `a = []; a.append(a); glom(a, '**')`
example : (starstarItems [] [.list "list" [.ref 0]] (.ref 0)).1 = [.ref 0, .ref 0] := by
  have e : extendChildren [] [.list "list" [.ref 0]] (.ref 0) = [.ref 0] := by decide
  unfold starstarItems
  simp only [e]
  unfold ssLoop
  repeat (rw [ssLoopG]; simp)
-- an instance of a list subclass that has a `__dict__` is walked by its items (repaired 6678f8c)
example : starItems [("LSub", ⟨["LSub", "list", "object"], true, true, ""⟩)]
    [.list "LSub" [.int 1, .int 2]] (.ref 0) = [.int 1, .int 2] := by decide
-- steps after a wildcard: `*.k` keeps the entries that have a `k`; two wildcards nest twice
private def okIs (o : Obs) (r : Res) : Bool := match o with | .ok r' => Res.beq r' r | _ => false
example : okIs (modelRead exCls exHeap [("P", .str "a"), ("x", .none), ("P", .str "k")] (.ref 0))
    (.list [.val (.ref 1)]) = true := by decide
example : okIs (modelRead exCls exHeap [("x", .none), ("x", .none)] (.ref 0))
    (.list [.list [.val (.ref 0), .val (.int 7), .val (.ref 2)],
            .list [.val (.ref 0), .val (.int 7), .val (.ref 2)]]) = true := by decide
example : nested 2 (.list [.list [.val (.int 1)], .list []]) = true := by decide
-- a string has no children
example : starItems [] [] (.str "abc") = [] := by decide
example : (starstarItems [] [] (.str "abc")).1 = [.str "abc"] := by
  have e : extendChildren [] [] (.str "abc") = [] := by decide
  unfold starstarItems
  simp only [e]
  unfold ssLoop
  rw [ssLoopG]; simp

-- `delete(t, '*.k', ignore_missing=True)` on `[{}, {'k': 1}, {'k': 2, 'a': 0}]`: the first entry lacks
-- the key and is left alone, both later entries lose it (the hypothesis of `c14_ignore_skips_entry`
-- holds for the first entry, that of `c14_ignore_deletes_entry` for the second)
private def rgHeap : Heap :=
  [ .list "list" [.ref 1, .ref 2, .ref 3], .dict "dict" [],
    .dict "dict" [(.str "k", .int 1)], .dict "dict" [(.str "k", .int 2), (.str "a", .int 0)] ]
private def mutIs (o : Obs) (h : Heap) (e : Option String) : Bool :=
  match o with | .mutated h' e' _ => h' == h && e' == e | _ => false
private def opIs (r : Except MErr Heap) (x : Except MErr Heap) : Bool :=
  match r, x with
  | .ok a, .ok b => a == b
  | .error a, .error b => a == b
  | _, _ => false
example : opIs (delOp [] "P" false rgHeap (.ref 1) (.str "k")) (.error (.assign "KeyError")) = true := by decide
example : opIs (delOp [] "P" false rgHeap (.ref 2) (.str "k"))
    (.ok (rgHeap.set 2 (.dict "dict" []))) = true := by decide
example : mutIs (modelMutate [] rgHeap [("x", .none)] (.str "k") (.delete "P" true) (.ref 0))
    [ .list "list" [.ref 1, .ref 2, .ref 3], .dict "dict" [], .dict "dict" [],
      .dict "dict" [(.str "a", .int 0)] ] none = true := by decide
-- … without the flag the first entry raises and nothing is deleted
example : mutIs (modelMutate [] rgHeap [("x", .none)] (.str "k") (.delete "[" false) (.ref 0))
    rgHeap (some "PathDeleteError") = true := by decide
-- `assign(t, '*.k', 9, missing=dict)`: every entry is assigned, nothing is created
example : mutIs (modelMutate [] rgHeap [("x", .none)] (.str "k") (.assign "P" (.int 9) true) (.ref 0))
    [ .list "list" [.ref 1, .ref 2, .ref 3], .dict "dict" [(.str "k", .int 9)],
      .dict "dict" [(.str "k", .int 9)], .dict "dict" [(.str "k", .int 9), (.str "a", .int 0)] ] none = true := by
  decide

-- `glom([q, q], T.__star__().pop())` with `q = [1, 2, 3]`: `[3, 2]`, and `q` is left `[1]`
private def qqHeap : Heap := [ .list "list" [.ref 1, .ref 1], .list "list" [.int 1, .int 2, .int 3] ]
private def obsIs (o : ObsS) (r : Res) (h : Heap) : Bool :=
  (match o.out with | .ok r' => Res.beq r'.erase r | _ => false) && o.heap == h
example : heapWF [] qqHeap = true := by decide
example : obsIs (modelReadS [] qqHeap [.star, .call "pop" []] (.ref 0))
    (.list [.val (.int 3), .val (.int 2)])
    [ .list "list" [.ref 1, .ref 1], .list "list" [.int 1] ] = true := by decide
-- `'*.*'` on the same target: two inner lists, two different objects (identities 1 and 2)
example : (modelReadS [] qqHeap [.star, .star] (.ref 0)).out.labelsOf = [0, 1, 2] := by decide
-- an observation in which both positions hold ONE list object — what a cache keyed by `id(entry)`
-- produces — does not pass the check, although it is `==` to the right value
example : checkC14S [] qqHeap [.star, .star] (.ref 0)
    { out := .ok (.list 0 [.list 1 [.val (.int 1), .val (.int 2), .val (.int 3)],
                           .list 1 [.val (.int 1), .val (.int 2), .val (.int 3)]]),
      heap := qqHeap, calls := [] } = false := by decide
example : checkC14S [] qqHeap [.star, .star] (.ref 0)
    { out := .ok (.list 0 [.list 1 [.val (.int 1), .val (.int 2), .val (.int 3)],
                           .list 2 [.val (.int 1), .val (.int 2), .val (.int 3)]]),
      heap := qqHeap, calls := [] } = true := by decide
-- … nor does one in which `pop()` ran once for the two positions
example : checkC14S [] qqHeap [.star, .call "pop" []] (.ref 0)
    { out := .ok (.list 0 [.val (.int 3), .val (.int 3)]),
      heap := [ .list "list" [.ref 1, .ref 1], .list "list" [.int 1, .int 2] ], calls := [] } = false := by
  decide
-- a shared iterator stepped once per position: `glom({'x': it, 'y': it}, Path(T.__star__(), T.__('next__')()))`
private def itCls : Classes := [("It", ⟨["It", "object"], true, true, ""⟩)]
private def itHeap : Heap :=
  [ .dict "dict" [(.str "x", .ref 1), (.str "y", .ref 1)],
    .inst "It" [("elems", .ref 2), ("pos", .int 0)], .tuple "tuple" [.str "a", .str "b", .str "c"] ]
example : heapWF itCls itHeap = true ∧ classesWF itCls = true := by decide
example : obsIs (modelReadS itCls itHeap [.star, .call "__next__" []] (.ref 0))
    (.list [.val (.str "a"), .val (.str "b")])
    [ .dict "dict" [(.str "x", .ref 1), (.str "y", .ref 1)],
      .inst "It" [("elems", .ref 2), ("pos", .int 2)], .tuple "tuple" [.str "a", .str "b", .str "c"] ] = true ∧
    (modelReadS itCls itHeap [.star, .call "__next__" []] (.ref 0)).calls = [(1, "__next__"), (1, "__next__")] := by
  decide
-- a call that raises ends the evaluation; what the earlier positions did stays done
example : (modelReadS [] [ .list "list" [.ref 1, .ref 2, .ref 1], .list "list" [.int 1], .list "list" [] ]
    [.star, .call "pop" []] (.ref 0)).heap =
    [ .list "list" [.ref 1, .ref 2, .ref 1], .list "list" [], .list "list" [] ] := by decide
-- the hypotheses of `c14_same_object_n_pops` are met by that target (n = 2, ys = [1], rs = [3, 2])
example : starItems [] qqHeap (.ref 0) = List.replicate [Val.int 3, Val.int 2].length (.ref 1) ∧
    qqHeap[1]? = some (.list "list" ([.int 1] ++ [Val.int 3, Val.int 2].reverse)) := by decide

-- user-registered container types: `RevList` (iterate = reversed), `NoIterList` (iterate = False)
private def userCls : Classes :=
  [("RevList", ⟨["RevList", "list", "object"], true, true, "rev"⟩),
   ("NoIterList", ⟨["NoIterList", "list", "object"], false, true, "off"⟩)]
private def userHeap : Heap :=
  [ .list "list" [.ref 1, .ref 2], .list "RevList" [.int 1, .int 2, .int 3], .list "NoIterList" [.int 5] ]
example : heapWF userCls userHeap = true ∧ classesWF userCls = true := by decide
example : starItems userCls userHeap (.ref 1) = [.int 3, .int 2, .int 1] ∧
    starItems userCls userHeap (.ref 2) = [] := by decide
example : descend userCls userHeap (.ref 0) = [.ref 0, .ref 1, .ref 2, .int 3, .int 2, .int 1] := by
  rw [← c14_starstar_bfs userCls userHeap (by decide) (by decide)]
  have e0 : extendChildren userCls userHeap (.ref 0) = [.ref 1, .ref 2] := by decide
  have e1 : extendChildren userCls userHeap (.ref 1) = [.int 3, .int 2, .int 1] := by decide
  have e2 : extendChildren userCls userHeap (.ref 2) = [] := by decide
  have hl : userHeap.length = 3 := rfl
  unfold starstarItems
  simp only [e0]
  unfold ssLoop
  repeat (rw [ssLoopG]; simp [e1, e2, hl])
-- Coalesce: the first path's prefix `zz` is missing, the second path's wildcard matches nothing and is
-- taken all the same (value `[]`), the default is not consulted
private def coIs (o : CoOut) (i : Nat) (r : Res) : Bool :=
  match o with | .ok j r' => j == i && Res.beq r' r | _ => false
example : coIs (coalesce exCls [.dict "dict" [(.str "e", .ref 1)], .list "list" []]
    (.ref 0) true [[("P", .str "zz"), ("x", .none)], [("P", .str "e"), ("x", .none), ("P", .str "k")]] 0)
    1 (.list []) = true := by decide
example : (match coalesce exCls exHeap (.ref 0) true [[("P", .str "zz"), ("x", .none)]] 0 with
    | .dflt => true | _ => false) = true := by decide
example : (match coalesce exCls exHeap (.ref 0) false [[("P", .str "zz"), ("x", .none)]] 0 with
    | .coalesceError => true | _ => false) = true := by decide
-- the switch: `'a.*'` on `{'a': {'*': 7, 'k': 8}}` is `[7, 8]` with PATH_STAR on and `7` with it off
private def starHeap : Heap := [ .dict "dict" [(.str "a", .ref 1)], .dict "dict" [(.str "*", .int 7), (.str "k", .int 8)] ]
example : okIs (modelRead [] starHeap (stepsOfText true "a.*") (.ref 0)) (.list [.val (.int 7), .val (.int 8)]) = true := by
  decide
example : okIs (modelRead [] starHeap (stepsOfText false "a.*") (.ref 0)) (.val (.int 7)) = true := by decide
example : stepsOfText false "a.*.**" = [("P", .str "a"), ("P", .str "*"), ("P", .str "**")] := by decide
-- flattening: two wildcards, one `sum`; a second `sum` meets the entries
example : (flattenN 1 [.list [.val (.int 1)], .list []]).map (·.length) = some 1 ∧
    (flattenN 2 [.list [.val (.int 1)], .list []]).isNone = true := by decide
-- a nested Path: Path(Path('a', T.__star__()), T.__starstar__()['k']) has two wildcards
example : stars (PathPart.stepsList [.path [.seg (.str "a"), .t [("x", .none)]], .t [("X", .none), ("[", .str "k")]]) = 2 := by
  decide

-- `assign(t, 'zz.*.k', 9, missing=dict)`: the part in front of the wildcard cannot be walked — the
-- backfill branch (C11) is reached; with `'*.k'` it is not, the factory plays no part
example : reachable [] rgHeap (.ref 0) [("P", .str "zz"), ("x", .none)] = false ∧
    (match modelMutate [] rgHeap [("P", .str "zz"), ("x", .none)] (.str "k") (.assign "P" (.int 9) true) (.ref 0) with
     | .backfill => true | _ => false) = true ∧
    (match modelMutate [] rgHeap [("P", .str "zz"), ("x", .none)] (.str "k") (.assign "P" (.int 9) false) (.ref 0) with
     | .paeAt h => h == rgHeap | _ => false) = true := by decide
-- `delete(t, 'zz.*.k', ignore_missing=True)`: nothing happens, the target is returned
example : mutIs (modelMutate [] rgHeap [("P", .str "zz"), ("x", .none)] (.str "k") (.delete "P" true) (.ref 0))
    rgHeap none = true := by decide
-- what glom does with kinds of objects the property text does not name (reading, DESIGN §6): an object
-- with `__slots__` only has no children, a mappingproxy yields its KEYS, a UserDict its attribute `data`
private def catCls : Classes :=
  [("Slot", ⟨["Slot", "object"], false, false, ""⟩), ("mappingproxy", ⟨["mappingproxy", "object"], false, true, ""⟩),
   ("UserDict", ⟨["UserDict", "MutableMapping", "Mapping", "object"], true, true, ""⟩)]
private def catHeap : Heap :=
  [ .list "list" [.ref 1, .ref 2, .ref 3, .str "x", .int 4],
    .inst "Slot" [("a", .int 1)], .dict "mappingproxy" [(.str "a", .int 5)],
    .inst "UserDict" [("data", .ref 4)], .dict "dict" [(.str "a", .int 9)] ]
example : heapWF catCls catHeap = true ∧ classesWF catCls = true := by decide
example : children catCls catHeap (.ref 1) = [] ∧ children catCls catHeap (.ref 2) = [.str "a"] ∧
    children catCls catHeap (.ref 3) = [.ref 4] := by decide
-- `T.__star__()['a']`: the slots object has no item access (dropped), the proxy and the UserDict look the key up
example : okIs (modelRead catCls catHeap [("x", .none), ("[", .str "a")] (.ref 0))
    (.list [.val (.int 5), .val (.int 9)]) = true := by decide
-- `T.__star__() + 1` over `[…, 'x', 4]`: the arithmetic step fails on everything but the number — a
-- PathAccessError each, dropped (reading: "fail" = the step raises PathAccessError)
example : okIs (modelRead catCls catHeap [("x", .none), ("+", .int 1)] (.ref 0)) (.list [.val (.int 5)]) = true := by
  decide
-- hypotheses of `c14_coalesce` / `c14_default_iff_unreachable` are met by the examples above
example : heapWF exCls [.dict "dict" [(.str "e", .ref 1)], .list "list" []] = true ∧
    wfOps [("P", .str "zz"), ("x", .none)] = true ∧ wfOps [("P", .str "e"), ("x", .none), ("P", .str "k")] = true := by
  decide
/-- **Counter-example for the hypothesis `wfOps`** of `c14_fails_only_before_first_wildcard` (and of
    `c14_tail_independent`): an op `_t_eval` does not know behind a wildcard is a BadSpec for every
    entry — not a PathAccessError, so it is not swallowed: the path fails although the part in front of
    its first wildcard (nothing) can be walked. -/
example : wfOps [("x", .none), ("?", .none)] = false ∧
    isOkE (evalSteps [] [.list "list" [.int 1]] [("x", .none), ("?", .none)] (.ref 0)) = false ∧
    reachable [] [.list "list" [.int 1]] (.ref 0) [("x", .none), ("?", .none)] = true := by decide
/-- **Counter-example for the hypothesis `hne`** of `c14_flatten_too_deep`: with no entry at all any
    number of flattenings goes through (`sum([], [])` is `[]`). -/
example : (flattenN 3 []).isSome = true := by decide
/-- **Counter-example for the hypothesis** of `c14_path_star_irrelevant`: a `*` segment is read
    differently under the two settings. -/
example : stepsOfText true "a.*" ≠ stepsOfText false "a.*" := by decide
/-- **Counter-example for the hypothesis `heapWF`** of `c14_stateful_refines` / `c14_model_checks_read`:
    on the impossible dict cell with two equal keys the model's observation does not pass the check. -/
example : checkC14S [] [.dict "dict" [(.str "a", .int 1), (.str "a", .int 2)]] [.star] (.ref 0)
    (modelReadS [] [.dict "dict" [(.str "a", .int 1), (.str "a", .int 2)]] [.star] (.ref 0)) = false := by
  decide

/-- **Counter-example for the hypothesis `heapWF`** (forced by `c14_star`): a "dict" cell with two
    equal keys cannot be built in Python; in it the second value is unreachable through the key, so
    `_extend_children` (keys, then `get`) would yield the first value twice. -/
example : heapWF [] [.dict "dict" [(.str "a", .int 1), (.str "a", .int 2)]] = false ∧
    starItems [] [.dict "dict" [(.str "a", .int 1), (.str "a", .int 2)]] (.ref 0) = [.int 1, .int 1] ∧
    children [] [.dict "dict" [(.str "a", .int 1), (.str "a", .int 2)]] (.ref 0) = [.int 1, .int 2] := by
  decide

end Glom.Props.C14
