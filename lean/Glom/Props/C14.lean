import Glom.Lemmas.C14
import Glom.Model.C14Env
/-
  C14 — wildcards enumerate children / descendants once, tolerate misses, terminate.

  Property theorems only; helper lemmas are in `Glom/Lemmas/C14.lean`.  The model
  (`Glom/Model/C14.lean`) mirrors `_extend_children`, the `'x'` / `'X'` branch of `_t_eval` (growing
  list walked by index, `id()`-visited set seeded with the root), the recursive evaluation of the
  remaining ops with PathAccessError swallowed, `__stars__` and `_apply_for_each`; the reference
  (`Glom/Spec/C14.lean`) is `children`, a queue breadth-first traversal, "map the rest over the
  entries and keep the successes", and "apply to every entry".

  Every theorem is for *all* heaps — any sharing, any cycles — satisfying the decidable
  well-formedness `heapWF` (dict keys / attribute names find their own value, a cell's layout fits
  its class) and `classesWF` (the classes of immediate values are not containers), all targets and
  all paths of any length with any number of wildcards at any position.
-/
namespace Glom.Props.C14
open Glom Glom.C14

/-- **Facts obligation** (re-checked on every run against /repo's AST): `_extend_children` has the
    keys+get / iterate structure with the guard for instances of list / tuple / set / frozenset and
    exactly the `except` clauses the model mirrors; the `'x'`/`'X'` branch seeds the visited set with
    the root, walks the growing list, puts the root in front, evaluates the remaining ops per entry
    swallowing PathAccessError only, and breaks — the remainder it evaluates on every entry being rooted
    at T for T-rooted and for S-rooted paths alike (`c14RemainderRoot`: an S-rooted path continues
    from each entry, it does not start again from the scope; repaired defect 62e884e) —;
    `__stars__` counts both wildcards;
    `Path.from_text` maps `*` / `**`; `_apply_for_each` flattens `layers - 1` times. -/
theorem c14_facts_wf : factsOK = true := by decide

/-- **`*`**: one entry per child of the current value — mapping values, sequence / set items,
    attribute values, in their natural order; an element whose access raises is left out, an
    iteration that raises ends the list; immediate values have none. -/
theorem c14_star (cs : Classes) (h : Heap) (hw : heapWF cs h = true) (hc : classesWF cs = true)
    (cur : Val) : starItems cs h cur = children cs h cur :=
  extendChildren_eq_children cs h hw hc cur

/-- **`**` is the breadth-first traversal**: the value itself, then all its descendants in
    breadth-first order, one entry per reference. -/
theorem c14_starstar_bfs (cs : Classes) (h : Heap) (hw : heapWF cs h = true)
    (hc : classesWF cs = true) (cur : Val) :
    (starstarItems cs h cur).1 = descend cs h cur := by
  unfold starstarItems descend
  simp only
  rw [ssLoop_eq_bfs cs h (extendChildren_eq_children cs h hw hc),
    extendChildren_eq_children cs h hw hc]
  simp only [List.take_zero, List.drop_zero, List.nil_append]
  cases cur <;> rfl

/-- **Each shared or cyclic container is expanded only once** — the root included — for every
    heap: the expanded addresses are pairwise distinct, and the result consists of the root, its
    children, and the children of each container expanded by the loop, in expansion order. -/
theorem c14_expand_once (cs : Classes) (h : Heap) (cur : Val) :
    (starstarItems cs h cur).2.Nodup ∧
    ∃ news : List Nat,
      (starstarItems cs h cur).2 = (match cur with | .ref a => [a] | _ => []) ++ news ∧
      (starstarItems cs h cur).1 =
        cur :: (extendChildren cs h cur ++ news.flatMap (fun a => extendChildren cs h (.ref a))) ∧
      (∀ a ∈ news, a < h.length ∧ Val.ref a ≠ cur) := by
  unfold starstarItems
  simp only
  constructor
  · apply ssLoop_nodup
    · intro x hx; cases cur <;> simp_all
    · cases cur <;> simp
  · obtain ⟨news, h1, h2, h3⟩ := ssLoop_structure cs h (extendChildren cs h cur) 0 _ _
    refine ⟨news, h1, by rw [h2], fun a ha => ⟨(h3 a ha).1, ?_⟩⟩
    intro e
    subst e
    have := (h3 a ha).2
    simp at this

/-- **Termination, quantitatively**: `ssLoop` is a total function (its definition by
    well-founded recursion on (unexpanded heap addresses, unwalked items) is accepted for every
    heap, cyclic or not), and it expands at most one container per heap address. -/
theorem c14_terminates (cs : Classes) (h : Heap) (cur : Val) :
    (starstarItems cs h cur).2.length ≤ h.length + 1 := by
  obtain ⟨hnd, news, h1, _, h3⟩ := c14_expand_once cs h cur
  rw [h1]
  have hn : news.Nodup := by
    rw [h1] at hnd
    exact (List.nodup_append.1 hnd).2.1
  have hsub : news ⊆ List.range h.length := fun a ha => List.mem_range.2 (h3 a ha).1
  have := hn.length_le_of_subset hsub
  simp only [List.length_append, List.length_range] at this ⊢
  cases cur <;> simp <;> omega

/-- **Steps after a wildcard are applied to each entry independently; entries for which they fail
    are dropped instead of raising.**  The model's `_t_eval` computes the reference evaluation
    ("map the remaining steps over the entries, keep the successes"), for every path made of
    access steps and wildcards; and it never fails with anything but a PathAccessError (which
    only a step *before* the first wildcard can raise). -/
theorem c14_tail_independent (cs : Classes) (h : Heap) (hw : heapWF cs h = true)
    (hc : classesWF cs = true) (steps : List (String × Val)) (hs : wfOps steps = true) (cur : Val) :
    evalSteps cs h steps cur = refEval cs h steps cur ∧
    (∀ c, evalSteps cs h steps cur ≠ .error (.other c)) := by
  obtain ⟨h1, h2⟩ := evalSteps_eq_refEval cs h (extendChildren_eq_children cs h hw hc) steps hs cur
  refine ⟨h1, fun c e => ?_⟩
  rw [e] at h2
  simp [isPaeOrOk] at h2

/-- the shape of that evaluation at a `*` step, spelled out -/
theorem c14_star_step (cs : Classes) (h : Heap) (arg : Val) (rest : List (String × Val)) (cur : Val) :
    refEval cs h (("x", arg) :: rest) cur =
      .ok (.list (keepOk ((children cs h cur).map (refEval cs h rest)))) := by
  simp [refEval]

theorem c14_starstar_step (cs : Classes) (h : Heap) (arg : Val) (rest : List (String × Val)) (cur : Val) :
    refEval cs h (("X", arg) :: rest) cur =
      .ok (.list (keepOk ((descend cs h cur).map (refEval cs h rest)))) := by
  simp [refEval]

/-- **Every further wildcard adds one level of list nesting**: a successful evaluation of a path
    with `k` wildcards is a `k`-level nested list. -/
theorem c14_nesting (cs : Classes) (h : Heap) (hw : heapWF cs h = true) (hc : classesWF cs = true)
    (steps : List (String × Val)) (hs : wfOps steps = true) (cur : Val) (r : Res)
    (hr : evalSteps cs h steps cur = .ok r) : nested (stars steps) r = true := by
  rw [(c14_tail_independent cs h hw hc steps hs cur).1] at hr
  exact refEval_nested cs h steps cur r hr

/-- **Assign / Delete through wildcards act on every entry**: `_apply_for_each` (flatten
    `layers - 1` times, then call the operation on every inner value) applies the operation to
    exactly the entries of the nested result, in order, on one heap, stopping at the first failure. -/
theorem c14_broadcast (cs : Classes) (h : Heap) (hw : heapWF cs h = true) (hc : classesWF cs = true)
    (steps : List (String × Val)) (hs : wfOps steps = true) (key : Val) (kind : MutKind) (target : Val) :
    modelMutate cs h steps key kind target =
      match refMutate cs h steps key kind target with
      | .ok (h', e) => .mutated h' (e.map (merrName kind))
      | .error (.pae _) => .pae
      | .error (.other c) => .other c := by
  unfold modelMutate refMutate
  rw [(c14_tail_independent cs h hw hc steps hs target).1]
  cases hr : refEval cs h steps target with
  | error e =>
    cases e with
    | pae e => simp only; cases ignoresMiss kind <;> rfl
    | other c => rfl
  | ok r =>
    simp only
    rw [applyForEach_eq _ _ _ _ (refEval_nested cs h steps target r hr)]

/-- without the flag `_del_one` is the plain deletion -/
theorem delOp_false (cs : Classes) (op : String) (h : Heap) (d key : Val) :
    delOp cs op false h d key = delRaw cs op h d key := by
  unfold delOp
  cases delRaw cs op h d key with
  | ok h' => rfl
  | error e => cases e <;> rfl

/-- **`ignore_missing=True` is honoured per entry** (Delete through wildcards acts on *every*
    entry): an entry that lacks the key / index / attribute — the deletion raises a class the
    `except` clause of `_del_one` names — is left alone, the heap is unchanged, and the loop goes on
    with the following entries exactly as if that entry had not been there. -/
theorem c14_ignore_skips_entry (cs : Classes) (op : String) (key : Val) (h : Heap) (d : Val)
    (rest : List Val) (c : String) (hd : delOp cs op false h d key = .error (.assign c)) :
    mutateAll (mutOp cs key (.delete op true)) h (d :: rest) =
      mutateAll (mutOp cs key (.delete op true)) h rest := by
  rw [delOp_false] at hd
  simp only [mutateAll, mutOp, delOp, hd, if_true]

/-- … an entry that has it loses it, flag or no flag, and the loop goes on from the new heap -/
theorem c14_ignore_deletes_entry (cs : Classes) (op : String) (key : Val) (h h' : Heap) (d : Val)
    (rest : List Val) (hd : delOp cs op false h d key = .ok h') :
    mutateAll (mutOp cs key (.delete op true)) h (d :: rest) =
      mutateAll (mutOp cs key (.delete op true)) h' rest := by
  rw [delOp_false] at hd
  simp only [mutateAll, mutOp, delOp, hd]

/-- … so under `ignore_missing=True` no PathDeleteError is ever raised, whatever the entries -/
theorem c14_ignore_never_path_delete_error (cs : Classes) (op : String) (key : Val) :
    ∀ (ds : List Val) (h : Heap) (c : String),
      (mutateAll (mutOp cs key (.delete op true)) h ds).2 ≠ some (.assign c) := by
  intro ds
  induction ds with
  | nil => intro h c; simp [mutateAll]
  | cons d rest ih =>
    intro h c
    simp only [mutateAll, mutOp, delOp]
    cases hr : delRaw cs op h d key with
    | ok h' => simpa [mutOp, delOp] using ih h' c
    | error e =>
      cases e with
      | assign c' => simpa [mutOp, delOp] using ih h c
      | unregistered => simp
      | typeError => simp
      | raw c' => simp

/-- … and when the parent path itself cannot be reached (no wildcard before the failing segment)
    the Delete does nothing and returns -/
theorem c14_ignore_missing_parent (cs : Classes) (h : Heap) (steps : List (String × Val)) (key : Val)
    (op : String) (target : Val) (e : PyExc) (hp : evalSteps cs h steps target = .error (.pae e)) :
    modelMutate cs h steps key (.delete op true) target = .mutated h none := by
  simp [modelMutate, hp, ignoresMiss]

/-- **`missing=` plays no part below a wildcard**: whenever the parent path can be evaluated —
    in particular whenever it starts with a wildcard, after which failing entries are dropped —
    Assign with a `missing` factory is Assign without one: every entry is assigned, entries on
    which the rest of the path fails are left alone and nothing is created in them. -/
theorem c14_missing_irrelevant (cs : Classes) (h : Heap) (steps : List (String × Val)) (key : Val)
    (op : String) (v : Val) (target : Val) :
    modelMutate cs h steps key (.assign op v true) target =
      modelMutate cs h steps key (.assign op v false) target := rfl

/-- **Checker theorem** — the form in which the property is also evaluated on the
    implementation's observation by the correspondence driver. -/
theorem c14_model_checks (cs : Classes) (h : Heap) (hw : heapWF cs h = true) (hc : classesWF cs = true)
    (steps : List (String × Val)) (hs : wfOps steps = true) (target : Val) :
    checkC14 cs h steps none target (modelRead cs h steps target) = true ∧
    ∀ key kind, checkC14 cs h steps (some (key, kind)) target
      (modelMutate cs h steps key kind target) = true := by
  constructor
  · unfold checkC14 modelRead
    rw [(c14_tail_independent cs h hw hc steps hs target).1]
    cases hr : refEval cs h steps target with
    | ok r => simp [Res.beq_refl]
    | error e => cases e <;> simp
  · intro key kind
    unfold checkC14
    rw [c14_broadcast cs h hw hc steps hs key kind target]
    simp only
    cases hr : refMutate cs h steps key kind target with
    | ok p => obtain ⟨h', e⟩ := p; simp
    | error e => cases e <;> simp

/-! ### non-vacuity: concrete inputs meet every hypothesis -/

/-- a cyclic heap with a shared child: `0: {'a': [..], 'b': [..]}` (both the same list 1),
    `1: [dict 0, 7, obj 2]`, `2: obj.k = list 1` -/
private def exHeap : Heap :=
  [ .dict "dict" [(.str "a", .ref 1), (.str "b", .ref 1)],
    .list "list" [.ref 0, .int 7, .ref 2],
    .inst "Obj" [("k", .ref 1)] ]
private def exCls : Classes := [("Obj", ⟨["Obj", "object"], true, false⟩)]

example : heapWF exCls exHeap = true ∧ classesWF exCls = true := by decide
example : wfOps [("X", .none), ("P", .str "k")] = true := by decide
-- `**` on the cyclic root: the root, its two references to the list, then the list's three items
-- once (the second reference is not expanded again), then the object's attribute
private theorem ex_e0 : extendChildren exCls exHeap (.ref 0) = [.ref 1, .ref 1] := by decide
private theorem ex_e1 : extendChildren exCls exHeap (.ref 1) = [.ref 0, .int 7, .ref 2] := by decide
private theorem ex_e2 : extendChildren exCls exHeap (.ref 2) = [.ref 1] := by decide
private theorem ex_len : exHeap.length = 3 := rfl
example : starstarItems exCls exHeap (.ref 0) =
    ([.ref 0, .ref 1, .ref 1, .ref 0, .int 7, .ref 2, .ref 1], [0, 1, 2]) := by
  unfold starstarItems
  simp only [ex_e0]
  repeat (rw [ssLoop]; simp [ex_e1, ex_e2, ex_len])
example : descend exCls exHeap (.ref 0) = [.ref 0, .ref 1, .ref 1, .ref 0, .int 7, .ref 2, .ref 1] := by
  rw [← c14_starstar_bfs exCls exHeap (by decide) (by decide)]
  unfold starstarItems
  simp only [ex_e0]
  repeat (rw [ssLoop]; simp [ex_e1, ex_e2, ex_len])
-- the self-referential list of the repaired defect F8: `a = []; a.append(a); glom(a, '**')`
example : (starstarItems [] [.list "list" [.ref 0]] (.ref 0)).1 = [.ref 0, .ref 0] := by
  have e : extendChildren [] [.list "list" [.ref 0]] (.ref 0) = [.ref 0] := by decide
  unfold starstarItems
  simp only [e]
  repeat (rw [ssLoop]; simp)
-- an instance of a list subclass that has a `__dict__` is walked by its items (repaired 6678f8c)
example : starItems [("LSub", ⟨["LSub", "list", "object"], true, true⟩)]
    [.list "LSub" [.int 1, .int 2]] (.ref 0) = [.int 1, .int 2] := by decide
-- steps after a wildcard: `*.k` keeps the entries that have a `k`; two wildcards nest twice
private def okIs (o : Obs) (r : Res) : Bool := match o with | .ok r' => Res.beq r' r | _ => false
example : okIs (modelRead exCls exHeap [("P", .str "a"), ("x", .none), ("P", .str "k")] (.ref 0))
    (.list [.val (.ref 1)]) = true := by decide
example : okIs (modelRead exCls exHeap [("x", .none), ("x", .none)] (.ref 0))
    (.list [.list [.val (.ref 0), .val (.int 7), .val (.ref 2)],
            .list [.val (.ref 0), .val (.int 7), .val (.ref 2)]]) = true := by decide
example : nested 2 (.list [.list [.val (.int 1)], .list []]) = true := by decide
-- a string has no children
example : starItems [] [] (.str "abc") = [] := by decide
example : (starstarItems [] [] (.str "abc")).1 = [.str "abc"] := by
  have e : extendChildren [] [] (.str "abc") = [] := by decide
  unfold starstarItems
  simp only [e]
  rw [ssLoop]; simp

-- `delete(t, '*.k', ignore_missing=True)` on `[{}, {'k': 1}, {'k': 2, 'a': 0}]`: the first entry lacks
-- the key and is left alone, both later entries lose it (the hypothesis of `c14_ignore_skips_entry`
-- holds for the first entry, that of `c14_ignore_deletes_entry` for the second)
private def rgHeap : Heap :=
  [ .list "list" [.ref 1, .ref 2, .ref 3], .dict "dict" [],
    .dict "dict" [(.str "k", .int 1)], .dict "dict" [(.str "k", .int 2), (.str "a", .int 0)] ]
private def mutIs (o : Obs) (h : Heap) (e : Option String) : Bool :=
  match o with | .mutated h' e' => h' == h && e' == e | _ => false
private def opIs (r : Except MErr Heap) (x : Except MErr Heap) : Bool :=
  match r, x with
  | .ok a, .ok b => a == b
  | .error a, .error b => a == b
  | _, _ => false
example : opIs (delOp [] "P" false rgHeap (.ref 1) (.str "k")) (.error (.assign "KeyError")) = true := by decide
example : opIs (delOp [] "P" false rgHeap (.ref 2) (.str "k"))
    (.ok (rgHeap.set 2 (.dict "dict" []))) = true := by decide
example : mutIs (modelMutate [] rgHeap [("x", .none)] (.str "k") (.delete "P" true) (.ref 0))
    [ .list "list" [.ref 1, .ref 2, .ref 3], .dict "dict" [], .dict "dict" [],
      .dict "dict" [(.str "a", .int 0)] ] none = true := by decide
-- … without the flag the first entry raises and nothing is deleted
example : mutIs (modelMutate [] rgHeap [("x", .none)] (.str "k") (.delete "[" false) (.ref 0))
    rgHeap (some "PathDeleteError") = true := by decide
-- `assign(t, '*.k', 9, missing=dict)`: every entry is assigned, nothing is created
example : mutIs (modelMutate [] rgHeap [("x", .none)] (.str "k") (.assign "P" (.int 9) true) (.ref 0))
    [ .list "list" [.ref 1, .ref 2, .ref 3], .dict "dict" [(.str "k", .int 9)],
      .dict "dict" [(.str "k", .int 9)], .dict "dict" [(.str "k", .int 9), (.str "a", .int 0)] ] none = true := by
  decide

/-- **Counter-example for the hypothesis `heapWF`** (forced by `c14_star`): a "dict" cell with two
    equal keys cannot be built in Python; in it the second value is unreachable through the key, so
    `_extend_children` (keys, then `get`) would yield the first value twice. -/
example : heapWF [] [.dict "dict" [(.str "a", .int 1), (.str "a", .int 2)]] = false ∧
    starItems [] [.dict "dict" [(.str "a", .int 1), (.str "a", .int 2)]] (.ref 0) = [.int 1, .int 1] ∧
    children [] [.dict "dict" [(.str "a", .int 1), (.str "a", .int 2)]] (.ref 0) = [.int 1, .int 2] := by
  decide

end Glom.Props.C14
