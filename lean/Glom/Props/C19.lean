import Glom.Lemmas.C19
import Glom.Model.C19Env
/-
  C19 — The CLI prints what the library computes; default-format specs never execute.

  **PARTIAL PROOF.**  The theorems are about the decision logic of glom/cli.py as a function
  of the RAW argument list, the files and standard input: how face's parser reads the command
  line for the option table of glom's command (extracted from the Command object), which text
  is the spec, which the target, which parser / loader receives it, how the result is printed,
  which exit status — for ALL argument lists, file systems, standard inputs and ALL behaviours
  of the external functions, which are parameters of the model (`Ext`): the JSON / YAML / TOML
  parsers, `ast.literal_eval`, `repr`, `int()`, `glom.glom` itself (C01–C18) and what it prints,
  `Inspect(…)`, `json.dumps`, `is_scalar`, `str()`, `shlex` on flagfile lines, the help text.
  Those externals are exercised by the correspondence only.  The full statement ("for any JSON,
  Python-literal, YAML or TOML *text* …") would need verified models of those parsers.

  Groups: facts obligations (tables, handlers, text flow, option table, call graph) · every
  delivery prints the same thing (`c19_output` … `c19_model_checks`) · channel equivalence
  (`c19_delivery_independent`, `c19_channels_check`) · the whole command (`c19_main_total`,
  `c19_exit_status`, `c19_status_zero`, `c19_parse_render`, `c19_parse_posargs`,
  `c19_model_checks_argv`) · never executes for every format spelling / file name / command line
  (`c19_exec_only_python_full`, `c19_argv_exec_only_python_full`, `c19_argv_never_executes`,
  `c19_spec_file_name_irrelevant`) · non-vacuity examples and counter-examples.

  `c19_never_executes` is decision logic over the call / reference graph
  extracted from the AST of cli.py on every run.
-/
set_option linter.unusedSimpArgs false
set_option linter.unusedVariables false

namespace Glom.Props.C19
open Glom Glom.C19

variable {T S R : Type}

/-- **Facts obligation**: the `spec_format` branches hand the spec text to
    literal_eval / json.loads / the exec-based evaluator in that order, the first-character
    test guards the `python` branch with exactly the five literal openers, the target loaders
    are json / yaml.safe_load / toml / literal_eval, the flag defaults are python / json / 2,
    and `glom_cli`, `main`, `mw_handle_target`, the order of `mw_get_target`'s steps have the
    modelled shape; the `except` around `load_func(target_text)` names, for every target format,
    `Exception` or a class above every class the PROBE saw that format's loader raise (`catchWF`);
    every read of text in cli.py (spec file, target file, standard input — `_read_stdin`) sits
    under a handler naming OSError and UnicodeError (or `Exception`) that raises a UsageError; the
    probe is not vacuous (≥ 2 classes per loader, all `Exception` subclasses); `--debug` /
    `--inspect` wrap the spec in `Inspect(…)` with the debugger hooks tied to an open stdin;
    WHAT IS READ IS WHAT IS LOADED (`textFlowWF`: nothing is done to a text between its read and
    its loader / parser); the spec file's name and the spec format's spelling are used for
    nothing but opening / comparing (`specNameWF`); the option table of the Command object is the
    documented one (`tableWF`). -/
theorem c19_facts_wf :
    WF genFacts = true ∧
    shapeWF Generated.cliShape Generated.cliMainShape Generated.cliMwSteps Generated.cliEmptyTargetFirst
      Generated.cliMiddlewares Generated.cliDebugBody = true ∧
    probeWF Generated.cliLoaderRaises Generated.cliReadSites = true ∧
    -- what is read is what is loaded: nothing is done to a text between its read and its loader
    textFlowWF Generated.cliTextTransforms Generated.cliTextSinks = true ∧
    -- the spec file's name is only opened, the spec format only compared with the three names
    specNameWF Generated.cliSpecNameUses = true ∧
    -- the option table of the Command object is the documented one
    tableWF Generated.cliFlagTable Generated.cliFlagKeys Generated.cliPosargs Generated.cliPostPosargs
      Generated.cliPosMax Generated.cliFlagfileFlag Generated.cliHelpFlag Generated.cliSubcommands Generated.cliReceivers
      Generated.cliProvides Generated.cliSpecDefault Generated.cliTargetDefault Generated.cliIndentDefault = true := by
  decide +kernel

/-- for the code as it is every handler around a loader names `Exception`: of `LoadErrOk` only
    "a loader raises `Exception` subclasses" is then needed (`loadErrOk_of_exception`) -/
theorem c19_handlers_name_exception :
    ∀ fmt k, (fmt, k) ∈ genFacts.targetLoaders → (catchOf genFacts fmt).contains "Exception" = true := by
  have h : genFacts.targetLoaders.all (fun l => (catchOf genFacts l.1).contains "Exception") = true := by
    decide +kernel
  intro fmt k hm
  exact (List.all_eq_true.mp h) (fmt, k) hm

/-- **Default-format specs never execute** (facts, decided on the extracted graph): without the
    `spec_format == 'python-full'` edges no dangerous callable (eval, exec, compile,
    `__import__`, unsafe loaders, process spawning, getattr…) is reachable from any entry point
    of cli.py — with them `exec` and `compile` are (so the extraction does see the path) —;
    the only callers in the chain are mw_get_target → `_eval_python_full_spec` → `_compile_code`;
    the flag default is 'python' (in the AST and on the Command object face builds); the only calls
    that receive the spec text under 'python' are `repr` and `ast.literal_eval`; the spec file's
    name and the format's spelling influence nothing else (no format-by-extension, no case
    folding).  The model-level counterparts for EVERY spec format value, spec file name and raw
    command line: `c19_exec_only_python_full`, `c19_spec_file_name_irrelevant`,
    `c19_argv_never_executes`. -/
theorem c19_never_executes :
    neverExecutesWF Generated.cliEdges Generated.cliDangerousNames Generated.cliSpecTextFlows
      Generated.cliSpecDefault Generated.cliFunctions = true ∧
    -- … whatever the spec file is CALLED and however the format is SPELLED: the file name is only
    -- opened / truth-tested / quoted in a message, the format only compared (==) with the three
    -- documented names; and the flag's default on the Command object itself is 'python'
    specNameWF Generated.cliSpecNameUses = true ∧
    Generated.cliFlagTable.contains ("spec_format", "", "str", "'python'", "error") = true := by decide +kernel

/-- … and in the model: unless `--spec-format python-full` is given, the outcome does not depend
    on what the exec-based evaluator would do — with the default format not even on what
    `json.loads` would do: only `repr` and the literal parser ever see the spec text. -/
-- (What this and `c19_exec_only_python_full` are: statements about the DISPATCH of the facts-parametric
-- model — for every facts value satisfying `WF`, i.e. for the branch table the extractor reads off
-- `mw_get_target` on every run.  They say which external receives the spec text, nothing about what
-- `ast.literal_eval` or glom's path access do with it: those are trusted and exercised — the hostile
-- corpus for calls, the attribute-walk cases for bare words, which ARE paths and read attributes.)
theorem c19_model_no_exec (F : Facts) (hwf : WF F = true) (X : Ext T S R) (a : Argv) (w : World)
    (other : String → String → Except String S)
    (hfmt : (a.specFormat == none || a.specFormat == some "python") = true) :
    cliMain F { X with parse := fun k t => if k == "python-literal" then X.parse k t else other k t } a w
      = cliMain F X a w := by
  have wf := WF_parts hwf
  have hf := fmt_default wf a hfmt
  unfold cliMain getSpec parseSpec
  simp only [hf, wf.specBranches, wf.reprBranches]
  simp [getTargetText, readStdin, readFail, caughtBy, handleTarget, liftLoad, glomCli, runWith, wrapSpec]

/-! ### every delivery of the same spec and target prints the same thing -/

/-- **Output.**  For every way of delivering the spec (argument or --spec-file) and the target
    (argument, --target-file, `-`, `--target-file -`, piped standard input), every target format,
    every --indent and --scalar: if the loader accepts the target text, the spec text is a literal
    (or a bare path), the library returns `r` and `r` can be rendered, then stdout is exactly
    `json.dumps(r, indent, sort_keys=True)` + newline (the bare scalar under --scalar) and the
    exit status is 0 — the same for all ten deliveries. -/
theorem c19_output (F : Facts) (hwf : WF F = true) (X : Ext T S R) (hr : ReprOk X)
    (q : Request) (hq : q.Plain) (junk : String) (tty : Bool)
    (hs : q.specText.isEmpty = false) (ht : q.targetText.isEmpty = false)
    (hdash : q.targetText ≠ "-") (hfiles : q.FilesOk X)
    (k : String) (hk : refLoaderKind (q.targetFormat.getD "json") = some k)
    (t : T) (hload : X.load k q.targetText = .ok t)
    (s : S) (hspec : refSpecOf X q.specText = .ok s)
    (r : R) (hlib : X.glom t s = .ok r) (hquiet : X.printed t s = "")
    (out : String) (hrender : refRender X r (q.indent.getD 2) q.scalar = some out) :
    cliMain F X q.argv (q.world junk tty) = .exit 0 out := by
  have wf := WF_parts hwf
  obtain ⟨hst, htt⟩ := request_expect_texts X q junk tty hs ht hdash hfiles
  have hfmt : (q.argv.specFormat == none || q.argv.specFormat == some "python") = true := by
    simpa [Request.argv] using hq.1
  unfold cliMain
  rw [getSpec_ref wf X hr q.argv hfmt _ hst, hspec]
  obtain ⟨o, ho, hor⟩ := getTargetText_text F X q.argv (q.world junk tty) _ htt
  rcases hor with rfl | ⟨he, _⟩
  · simp only [liftExc, ho]
    have hk' : refLoaderKind (q.argv.targetFormat.getD "json") = some k := by simpa [Request.argv] using hk
    rw [(handleTarget_ref wf X q.argv _ ht k hk').1, hload]
    simp only [liftLoad, runWith]
    have hflags : q.argv.indent = q.indent ∧ q.argv.scalar = q.scalar ∧ q.argv.debug = false ∧
        q.argv.inspect = false := by simp [Request.argv, hq.2.1, hq.2.2]
    rw [hflags.2.2.1, hflags.2.2.2, glomCli_render X _ t s r _ _ hlib hquiet, wf.indentDefault]
    rw [hflags.1, hflags.2.1, hrender]
  · rw [ht] at he; cases he

/-- **GlomError → exit 1.**  Same deliveries; if the library raises a GlomError of class `cls`
    the command prints `cls: message` and returns 1. -/
theorem c19_glomerror_exit1 (F : Facts) (hwf : WF F = true) (X : Ext T S R) (hr : ReprOk X)
    (q : Request) (hq : q.Plain) (junk : String) (tty : Bool)
    (hs : q.specText.isEmpty = false) (ht : q.targetText.isEmpty = false)
    (hdash : q.targetText ≠ "-") (hfiles : q.FilesOk X)
    (k : String) (hk : refLoaderKind (q.targetFormat.getD "json") = some k)
    (t : T) (hload : X.load k q.targetText = .ok t)
    (s : S) (hspec : refSpecOf X q.specText = .ok s)
    (cls msg : String) (hlib : X.glom t s = .glomError cls msg) (hquiet : X.printed t s = "") :
    cliMain F X q.argv (q.world junk tty) = .exit 1 (cls ++ ": " ++ msg ++ "\n") := by
  have wf := WF_parts hwf
  obtain ⟨hst, htt⟩ := request_expect_texts X q junk tty hs ht hdash hfiles
  have hfmt : (q.argv.specFormat == none || q.argv.specFormat == some "python") = true := by
    simpa [Request.argv] using hq.1
  unfold cliMain
  rw [getSpec_ref wf X hr q.argv hfmt _ hst, hspec]
  obtain ⟨o, ho, hor⟩ := getTargetText_text F X q.argv (q.world junk tty) _ htt
  rcases hor with rfl | ⟨he, _⟩
  · simp only [liftExc, ho]
    have hk' : refLoaderKind (q.argv.targetFormat.getD "json") = some k := by simpa [Request.argv] using hk
    rw [(handleTarget_ref wf X q.argv _ ht k hk').1, hload]
    have hflags : q.argv.debug = false ∧ q.argv.inspect = false := by simp [Request.argv, hq.2.1, hq.2.2]
    simp only [liftLoad, runWith, glomCli, hflags.1, hflags.2, wrapSpec_plain, hlib, hquiet, String.empty_append]
    simp
  · rw [ht] at he; cases he

/-- **Malformed target → usage error.**  Same deliveries; if the loader rejects the target text
    with an exception of class `c` — ANY class a loader raises on text (`LoadErrOk`: an
    `Exception` subclass; where the handler does not name `Exception`, one the probe saw) —
    `main` ends in a UsageError (never in a result, never in another exception). -/
-- (`hspec`: problems with the spec are reported FIRST — `glom '{' 'not json'` ends in the literal
-- parser's SyntaxError whatever the target is; `refMain`, example below.)
theorem c19_bad_target_usage_error (F : Facts) (hwf : WF F = true) (X : Ext T S R) (hr : ReprOk X)
    (hl : LoadErrOk F X) (q : Request) (hq : q.Plain) (junk : String) (tty : Bool)
    (hs : q.specText.isEmpty = false) (ht : q.targetText.isEmpty = false)
    (hdash : q.targetText ≠ "-") (hfiles : q.FilesOk X)
    (k : String) (hk : refLoaderKind (q.targetFormat.getD "json") = some k)
    (c : String) (hload : X.load k q.targetText = .error c)
    (s : S) (hspec : refSpecOf X q.specText = .ok s) :
    cliMain F X q.argv (q.world junk tty) = .usage (.loadError c) := by
  have wf := WF_parts hwf
  obtain ⟨hst, htt⟩ := request_expect_texts X q junk tty hs ht hdash hfiles
  have hfmt : (q.argv.specFormat == none || q.argv.specFormat == some "python") = true := by
    simpa [Request.argv] using hq.1
  unfold cliMain
  rw [getSpec_ref wf X hr q.argv hfmt _ hst, hspec]
  obtain ⟨o, ho, hor⟩ := getTargetText_text F X q.argv (q.world junk tty) _ htt
  rcases hor with rfl | ⟨he, _⟩
  · simp only [liftExc, ho]
    have hk' : refLoaderKind (q.argv.targetFormat.getD "json") = some k := by simpa [Request.argv] using hk
    obtain ⟨href, hmem⟩ := handleTarget_ref wf X q.argv _ ht k hk'
    rw [href, hload]
    simp only [liftLoad, caught_load wf.loadCatch X hl _ k _ c hmem hload, if_true, runWith]
  · rw [ht] at he; cases he

/-- **Unreadable target → usage error** (for every flag combination in which the target is named
    once and the spec is a literal): a target file that is missing, a directory, not UTF-8 …, or a
    standard input that cannot be decoded, that is CLOSED (`sys.stdin.close()`: ValueError) or
    ABSENT (`sys.stdin is None`, `glom … <&-`: AttributeError) — whatever OSError / ValueError /
    AttributeError the read raises (`ReadErrOk`); `refTargetText = .unreadable` covers all of them. -/
theorem c19_unreadable_target_usage_error (F : Facts) (hwf : WF F = true) (X : Ext T S R) (hr : ReprOk X)
    (a : Argv) (w : World) (hrd : ReadErrOk X w)
    (hfmt : (a.specFormat == none || a.specFormat == some "python") = true)
    (st : String) (hst : refSpecText X a = some st) (s : S) (hspec : refSpecOf X st = .ok s)
    (hun : refTargetText X a w = .unreadable) :
    ∃ u, cliMain F X a w = .usage u := by
  have wf := WF_parts hwf
  obtain ⟨u, hu⟩ := getTargetText_unreadable wf X a w hrd hun
  refine ⟨u, ?_⟩
  unfold cliMain
  rw [getSpec_ref wf X hr a hfmt st hst, hspec]
  simp only [liftExc, hu]

/-- **Checker theorem** — the form in which the property is also evaluated on the
    implementation's observation by the correspondence driver: for ALL flags, worlds (standard
    input open, closed or absent) and externals the model's outcome is what the reference of the
    statement expects wherever it speaks: the rendered result (also for NO spec — the identity —,
    NO or an EMPTY target text — the empty dict —, `--spec-format json`), `Class: …` and status
    1 for a GlomError, a usage error for an unreadable or malformed target, the escaping exception
    of json.dumps for a result it cannot print, no result for a malformed spec text.  (Proved
    through the complete decision table: `cliMain = refMain`, `check_refMain`.) -/
theorem c19_model_checks (F : Facts) (hwf : WF F = true) (X : Ext T S R) (hr : ReprOk X)
    (hl : LoadErrOk F X) (hquiet : QuietOk X) (a : Argv) (w : World) (hrd : ReadErrOk X w) :
    checkC19 X a w false (observe (cliMain F X a w)) = true := by
  unfold checkC19
  rw [cliMain_total (WF_parts hwf) X hr hl a w hrd]
  exact check_refMain X hquiet a w

/-! ### channel equivalence -/

/-- **Delivery independence** (channel equivalence).  The same spec text and target text, the
    same flags — ANY spec format, --debug / --inspect included — give the same outcome through
    every pair of channels: spec as argument or file, target as argument, file, `-`,
    `--target-file -` or piped standard input; whatever else is on standard input, whatever the
    externals do, for every facts value (nothing in `mw_get_target` looks at WHERE a text came
    from once it is read).  Forced hypotheses: the target text is not empty (an empty ARGUMENT
    means "no target given" and sends the command to standard input) and is not the word `-`. -/
theorem c19_delivery_independent (F : Facts) (X : Ext T S R) (q : Request)
    (sv sv' : SpecVia) (tv tv' : TargetVia) (junk junk' : String) (tty tty' : Bool)
    (ht : q.targetText.isEmpty = false) (hdash : q.targetText ≠ "-")
    (hf : (q.via sv tv).FilesOk X) (hf' : (q.via sv' tv').FilesOk X) :
    cliMain F X (q.via sv tv).argv ((q.via sv tv).world junk tty)
      = cliMain F X (q.via sv' tv').argv ((q.via sv' tv').world junk' tty') := by
  rw [cliMain_request F X (q.via sv tv) junk tty ht hdash hf,
    cliMain_request F X (q.via sv' tv') junk' tty' ht hdash hf']
  rfl

/-- **Checker theorem of the channel observation**: the model's outcomes for a request delivered
    through any list of channel pairs pass `checkChannels` — each delivery gives what the
    property expects and, where the deliveries are comparable, all outcomes are the same. -/
theorem c19_channels_check (F : Facts) (hwf : WF F = true) (X : Ext T S R) (hr : ReprOk X)
    (hl : LoadErrOk F X) (hquiet : QuietOk X)
    (hrd : ∀ p, X.readFile p = none → isTextReadErr X (X.readErr p) = true)
    (q : Request) (vias : List (SpecVia × TargetVia)) (junk : String) (tty : Bool) :
    checkChannels X q vias junk tty false
      (vias.map (fun v => observe (cliMain F X (q.via v.1 v.2).argv ((q.via v.1 v.2).world junk tty)))) = true := by
  unfold checkChannels
  simp only [List.length_map, beq_self_eq_true, Bool.true_and, Bool.and_eq_true, Bool.or_eq_true,
    Bool.not_eq_eq_eq_not, Bool.not_true]
  refine ⟨?_, ?_⟩
  · apply all_zip_map
    intro v _
    apply c19_model_checks F hwf X hr hl hquiet
    refine ⟨hrd, ?_⟩
    intro c hc
    cases htv : v.2 <;> simp [Request.world, Request.via, htv, World.readErr] at hc
  · by_cases hc : q.comparable X vias = true
    · right
      simp only [Request.comparable, Bool.and_eq_true, Bool.not_eq_eq_eq_not, Bool.not_true,
        bne_iff_ne, ne_eq, List.all_eq_true] at hc
      obtain ⟨⟨ht, hdash⟩, hfs⟩ := hc
      apply channelsAgree_of_all_eq _ (q.direct F X)
      intro o ho
      simp only [List.map_map, List.mem_map, Function.comp] at ho
      obtain ⟨v, hv, rfl⟩ := ho
      simp only [observe]
      rw [cliMain_request F X (q.via v.1 v.2) junk tty ht hdash (filesOk_of_B X _ (hfs v hv))]
      rfl
    · left; simpa using hc

/-- **Standard input is not touched when the target comes by argument or file** (and neither
    --debug nor --inspect is given): whatever standard input is — any text, a terminal or not,
    undecodable, CLOSED, ABSENT — the outcome is the same.  Forced hypothesis: without --debug /
    --inspect (`stdin_open = not sys.stdin.closed` is evaluated under them: AttributeError when
    there is no standard input, counter-example below). -/
theorem c19_stdin_untouched (F : Facts) (X : Ext T S R) (q : Request) (w w' : World)
    (htv : q.tv = .argv ∨ ∃ p, q.tv = .file p)
    (ht : q.targetText.isEmpty = false) (hdash : q.targetText ≠ "-") (hfiles : q.FilesOk X)
    (hd : q.debug = false) (hi : q.inspect = false) :
    cliMain F X q.argv w = cliMain F X q.argv w' := by
  have htext : ∀ w : World, getTargetText F X q.argv w = .ok (some q.targetText) := by
    intro w
    obtain ⟨_, hf2⟩ := hfiles
    unfold getTargetText
    rcases htv with h | ⟨p, h⟩
    · cases hsv : q.sv <;> simp_all [Request.argv, posTexts, truthy]
    · cases hsv : q.sv <;> simp_all [Request.argv, posTexts, truthy]
  have hflags : q.argv.debug = false ∧ q.argv.inspect = false := by simp [Request.argv, hd, hi]
  unfold cliMain
  rw [htext w, htext w']
  cases getSpec F X q.argv with
  | error o => rfl
  | ok s =>
    simp only [runWith]
    cases handleTarget F X (some q.targetText) (q.argv.targetFormat.getD F.targetDefault) with
    | error o => rfl
    | ok t => simp [glomCli, hflags.1, hflags.2, wrapSpec]

/-! ### the whole command: every flag combination, every raw command line -/

/-- **The complete decision table.**  For ALL parsed flags (every spec format, --debug /
    --inspect, both / neither source given, empty texts, unknown formats), worlds and externals,
    the facts-parametric model of `mw_get_target` / `mw_handle_target` / `glom_cli` does what the
    manual-style reference `refMain` says: spec problems before target problems, each kind of
    problem its own usage error, the literal defaults (`python`, `json`, indent 2), the documented
    format names spelled exactly, `{}` for no / an empty target text, GlomError → status 1. -/
theorem c19_main_total (F : Facts) (hwf : WF F = true) (X : Ext T S R) (hr : ReprOk X)
    (hl : LoadErrOk F X) (a : Argv) (w : World) (hrd : ReadErrOk X w) :
    cliMain F X a w = refMain X a w :=
  cliMain_total (WF_parts hwf) X hr hl a w hrd

/-- **Exit status, for every raw command line** (any list of strings, any option table, any
    facts, world and externals): the process ends with status 0 or 1; and when the status is 1
    and something is on standard output it is the `Class: message` line of a GlomError — a usage
    error, a rejected command line and an escaping exception print nothing there. -/
theorem c19_exit_status (tbl : Table) (F : Facts) (X : Ext T S R) (argv : List String) (w : World) :
    (cliMainArgv tbl F X argv w).status ≤ 1 ∧
    ((cliMainArgv tbl F X argv w).status = 1 → (cliMainArgv tbl F X argv w).stdout ≠ "" →
      ∃ a t s cls msg, parseArgv tbl X.penv argv = .ok a ∧ X.glom t s = .glomError cls msg ∧
        (cliMainArgv tbl F X argv w).stdout = X.printed t s ++ (cls ++ ": " ++ msg ++ "\n")) := by
  unfold cliMainArgv
  cases hp : parseArgv tbl X.penv argv with
  | help => simp [Outcome.status]
  | fail e => cases e <;> simp [Outcome.status, Outcome.stdout]
  | ok a =>
    simp only
    refine ⟨cliMain_status F X a w, ?_⟩
    intro hs hout
    cases hm : cliMain F X a w with
    | exit c out =>
      obtain ⟨s, t, _, hg⟩ := cliMain_exit F X a w c out hm
      rcases glomCli_exit X _ t s _ _ _ _ c out hg with ⟨hc, _⟩ | ⟨_, cls, msg, hglom, hout'⟩
      · rw [hm] at hs; simp [Outcome.status, hc] at hs
      · exact ⟨a, t, _, cls, msg, rfl, hglom, by simp [Outcome.stdout, hout']⟩
    | usage u => rw [hm] at hout; simp [Outcome.stdout] at hout
    | cli e => rw [hm] at hout; simp [Outcome.stdout] at hout
    | exc c => rw [hm] at hout; simp [Outcome.stdout] at hout

/-- **Status 0 means a result (or the help text) was printed**, for every raw command line:
    either `--help` / `-h` was among the flags and the help text is the output, or the command
    line parsed, the library returned `r`, and the output is `r` rendered (the bare scalar, or
    json.dumps + newline) after whatever the library call itself printed. -/
theorem c19_status_zero (tbl : Table) (F : Facts) (X : Ext T S R) (argv : List String) (w : World)
    (h : (cliMainArgv tbl F X argv w).status = 0) :
    (parseArgv tbl X.penv argv = .help ∧ cliMainArgv tbl F X argv w = .exit 0 X.helpText) ∨
    ∃ a t s r, parseArgv tbl X.penv argv = .ok a ∧ X.glom t s = .ok r ∧
      ((cliMainArgv tbl F X argv w).stdout = X.printed t s ++ X.str r ∨
       ∃ js, X.dumps r (if a.indent.getD F.indentDefault == 0 then none else some (a.indent.getD F.indentDefault)) = .ok js ∧
         (cliMainArgv tbl F X argv w).stdout = X.printed t s ++ (js ++ "\n")) := by
  unfold cliMainArgv at h ⊢
  cases hp : parseArgv tbl X.penv argv with
  | help => left; simp
  | fail e => rw [hp] at h; cases e <;> simp [Outcome.status] at h
  | ok a =>
    rw [hp] at h
    simp only at h ⊢
    right
    cases hm : cliMain F X a w with
    | exit c out =>
      obtain ⟨s, t, _, hg⟩ := cliMain_exit F X a w c out hm
      rcases glomCli_exit X _ t s _ _ _ _ c out hg with ⟨_, r, hglom, hout⟩ | ⟨hc, _⟩
      · refine ⟨a, t, _, r, rfl, hglom, ?_⟩
        rcases hout with hout | ⟨js, hd, hout⟩
        · left; simp [Outcome.stdout, hout]
        · right; exact ⟨js, hd, by simp [Outcome.stdout, hout]⟩
      · rw [hm] at h; simp [Outcome.status, hc] at h
    | usage u => rw [hm] at h; simp [Outcome.status] at h
    | cli e => rw [hm] at h; simp [Outcome.status] at h
    | exc c => rw [hm] at h; simp [Outcome.status] at h

/-- **The canonical command line.**  For the option table as extracted from the Command object:
    `glom [--target-file F] [--target-format X] [--spec-file F] [--spec-format X] [--indent N]
    [--scalar] [--debug] [--inspect] [spec [target]]` — with ANY strings as flag values (they may
    look like flags) and positional arguments that a command line can carry (at most two, the
    first not flag-like, none `--`) — is read by face's parser as exactly these flags; so every
    theorem about parsed flags is a theorem about that command line. -/
theorem c19_parse_render (F : Facts) (X : Ext T S R) (hi : IntReprOk X.penv) (a : Argv)
    (hp : posargsOk a.posargs = true) (prog : String) (w : World) :
    parseArgv genTable X.penv (prog :: a.render) = .ok a ∧
    cliMainArgv genTable F X (prog :: a.render) w = cliMain F X a w := by
  have h := parseArgv_render X.penv hi a hp prog
  exact ⟨h, by unfold cliMainArgv; rw [h]⟩

/-- face never hands more positional arguments to the middleware than the table allows -/
theorem c19_parse_posargs (tbl : Table) (E : PEnv) (argv : List String) (a : Argv)
    (h : parseArgv tbl E argv = .ok a) (m : Nat) (hm : tbl.posMax = some m) : a.posargs.length ≤ m := by
  unfold parseArgv at h
  split at h
  · cases h
  · split at h
    · cases h
    · rename_i fm pos _
      simp only at h
      split at h
      · cases h
      · split at h
        · cases h
        · rename_i pos' hc
          cases h
          simp only [argvOf]
          split at hc
          · cases hc
          · unfold checkPosargs at hc
            simp only [hm] at hc
            split at hc
            · cases hc
            · split at hc
              · cases hc
              · cases hc; omega

/-- **The checker theorem for raw command lines**: what the model does with ANY list of strings
    passes the property as the correspondence evaluates it. -/
theorem c19_model_checks_argv (tbl : Table) (F : Facts) (hwf : WF F = true) (X : Ext T S R) (hr : ReprOk X)
    (hl : LoadErrOk F X) (hquiet : QuietOk X) (argv : List String) (w : World) (hrd : ReadErrOk X w) :
    checkArgv tbl X argv w false (observe (cliMainArgv tbl F X argv w)) = true := by
  unfold checkArgv expectArgv cliMainArgv
  cases hp : parseArgv tbl X.penv argv with
  | ok a => exact c19_model_checks F hwf X hr hl hquiet a w hrd
  | help => simp [checkExpect, observe]
  | fail e => cases e <;> simp [checkExpect, observe]

/-! ### never executes: every spec format spelling, every spec file name, every command line -/

/-- **Only `--spec-format python-full`, spelled exactly so, reaches the exec-based evaluator**:
    for every other value of the flag — absent, `python`, `json`, `PYTHON-FULL`, `Python-Full`,
    `python_full`, `python-full ` with a blank, anything — and every other flag, world and
    behaviour of the externals, the outcome does not depend on what that evaluator would do
    (a value that is none of the three documented names is a usage error). -/
theorem c19_exec_only_python_full (F : Facts) (hwf : WF F = true) (X : Ext T S R) (a : Argv) (w : World)
    (other : String → Except String S) (h : a.specFormat ≠ some "python-full") :
    cliMain F (withExec X other) a w = cliMain F X a w := by
  have wf := WF_parts hwf
  have hf : a.specFormat.getD F.specDefault ≠ "python-full" := by
    rw [wf.specDefault]
    cases hs : a.specFormat with
    | none => decide
    | some f => intro he; apply h; rw [hs]; simpa using he
  have hps : ∀ t, parseSpec F (withExec X other) (a.specFormat.getD F.specDefault) t
      = parseSpec F X (a.specFormat.getD F.specDefault) t := by
    intro t
    generalize a.specFormat.getD F.specDefault = fmt at hf
    unfold parseSpec
    rw [wf.specBranches]
    by_cases h1 : fmt = "python"
    · subst h1; simp [withExec]
    · by_cases h2 : fmt = "json"
      · subst h2; simp [withExec]
      · have e1 : ¬ "python" = fmt := fun h => h1 h.symm
        have e2 : ¬ "json" = fmt := fun h => h2 h.symm
        have e3 : ¬ "python-full" = fmt := fun h => hf h.symm
        simp [h1, h2, hf, e1, e2, e3]
  unfold cliMain getSpec
  simp only [hps]
  simp [withExec, getTargetText, readStdin, readFail, caughtBy, handleTarget, liftLoad, glomCli, runWith, wrapSpec]

/-- … for every raw command line: the parser itself never looks at a spec, so unless the flags it
    reads say `spec_format = "python-full"` the exec-based evaluator is irrelevant -/
theorem c19_argv_exec_only_python_full (tbl : Table) (F : Facts) (hwf : WF F = true) (X : Ext T S R)
    (argv : List String) (w : World) (other : String → Except String S)
    (h : ∀ a, parseArgv tbl X.penv argv = .ok a → a.specFormat ≠ some "python-full") :
    cliMainArgv tbl F (withExec X other) argv w = cliMainArgv tbl F X argv w := by
  unfold cliMainArgv
  have hpe : (withExec X other).penv = X.penv := rfl
  rw [hpe]
  cases hp : parseArgv tbl X.penv argv with
  | ok a => exact c19_exec_only_python_full F hwf X a w other (h a hp)
  | help => rfl
  | fail e => cases e <;> rfl

/-- **No `python-full` on the command line, no execution** — for every list of strings: if no
    argument names the flagfile flag, and the text `python-full` is neither an argument nor what
    follows the first `=` of one, then whatever else the command line says, the outcome does not
    depend on the exec-based evaluator. -/
theorem c19_argv_never_executes (tbl : Table) (F : Facts) (hwf : WF F = true) (X : Ext T S R)
    (prog : String) (args : List String) (w : World) (other : String → Except String S)
    (hnf : usesFlagfile tbl args = false) (hno : mentions args "python-full" = false) :
    cliMainArgv tbl F (withExec X other) (prog :: args) w = cliMainArgv tbl F X (prog :: args) w := by
  apply c19_argv_exec_only_python_full tbl F hwf X (prog :: args) w other
  intro a ha hv
  exact fromArgs_of_mentions_false args "python-full" hno
    (parseArgv_specFormat_from_args tbl X.penv prog args a "python-full" ha hv hnf)

/-- **The NAME of the spec file decides nothing**: two command lines that differ only in the
    name of the spec file (`spec.glom`, `spec.py`, `spec.PY`, `spec.json`, no extension …), the
    files holding the same text (or failing the same way), have the same outcome — there is no
    format-by-extension. -/
theorem c19_spec_file_name_irrelevant (F : Facts) (X : Ext T S R) (a : Argv) (w : World) (p1 p2 : String)
    (h1 : p1.isEmpty = false) (h2 : p2.isEmpty = false)
    (hr : X.readFile p1 = X.readFile p2) (he : X.readErr p1 = X.readErr p2) :
    cliMain F X { a with specFile := some p1 } w = cliMain F X { a with specFile := some p2 } w := by
  have hs : getSpec F X { a with specFile := some p1 } = getSpec F X { a with specFile := some p2 } := by
    unfold getSpec
    simp [truthy, h1, h2, posTexts, hr, he]
  unfold cliMain
  rw [hs]
  rfl

/-! ### non-vacuity -/

private instance : DecidableEq (Except String String) := fun a b =>
  match a, b with
  | .ok x, .ok y => if h : x = y then isTrue (by rw [h]) else isFalse (by intro h'; cases h'; exact h rfl)
  | .error x, .error y => if h : x = y then isTrue (by rw [h]) else isFalse (by intro h'; cases h'; exact h rfl)
  | .ok _, .error _ => isFalse (by intro h; cases h)
  | .error _, .ok _ => isFalse (by intro h; cases h)

/-- a toy instance of the externals (targets and specs are strings, the "library" looks a key up) -/
private def toyX : Ext String String String :=
  { parse := fun k t => if k == "python-literal" then (if t == "'a'" then .ok "a" else if t == "{" then .error "SyntaxError" else .ok t) else .error "NoOracle"
    load := fun k t => if k == "json" && t == "{\"a\": 1}" then .ok "A1" else .error "JSONDecodeError"
    strSpec := fun s => s
    repr := fun s => "'" ++ s ++ "'"
    emptySpec := "", emptyTarget := "{}"
    glom := fun t s => if t == "A1" && s == "a" then .ok "1" else .glomError "PathAccessError" "could not access"
    dumps := fun r _ => .ok r
    isScalar := fun _ => true
    str := fun r => r
    readFile := fun p => if p == "/tmp/t.json" then some "{\"a\": 1}" else if p == "/tmp/s.glom" then some "'a'" else none
    readErr := fun p => if p == "/tmp/latin1.json" then "UnicodeDecodeError" else "FileNotFoundError"
    mro := fun c =>
      if c == "JSONDecodeError" then ["JSONDecodeError", "ValueError", "Exception", "BaseException"]
      else if c == "UnicodeDecodeError" then ["UnicodeDecodeError", "UnicodeError", "ValueError", "Exception", "BaseException"]
      else if c == "FileNotFoundError" then ["FileNotFoundError", "OSError", "Exception", "BaseException"]
      else if c == "ValueError" then ["ValueError", "Exception", "BaseException"]
      else if c == "AttributeError" then ["AttributeError", "Exception", "BaseException"]
      else [c, "BaseException"]
    inspect := fun s _ _ _ _ => "Inspect(" ++ s ++ ")"
    printed := fun _ s => if s == "Inspect(a)" then "---\n" else ""
    parseInt := fun s => if s == "4" then some 4 else if s == "0" then some 0 else if s == "2" then some 2 else none
    helpText := "Usage: glom [FLAGS] [spec [target]]\n"
    flagfile := fun p => if p == "/tmp/ff" then .ok [.ok ["--scalar"], .ok [], .ok ["--indent", "4"]]
      else if p == "/tmp/ff-loop" then .ok [.ok ["--flagfile", "/tmp/ff-loop"], .ok ["--indent=0"]]
      else if p == "/tmp/ff-bad" then .ok [.ok ["--indent", "4", "5"]]
      else if p == "/tmp/ff-quote" then .ok [.error "ValueError"]
      else .error (true, "FileNotFoundError")
    abspath := fun p => p }

private def req (sv : SpecVia) (tv : TargetVia) : Request :=
  ⟨"'a'", "{\"a\": 1}", sv, tv, none, none, false, none, false, false⟩

-- all hypotheses of `c19_output` hold for a concrete request, for each delivery
example : (req .argv .argv).FilesOk toyX ∧ (req (.file "/tmp/s.glom") (.file "/tmp/t.json")).FilesOk toyX := by
  simp [Request.FilesOk, req, toyX]
example : refLoaderKind ((req .argv .argv).targetFormat.getD "json") = some "json" ∧
    toyX.load "json" (req .argv .argv).targetText = .ok "A1" ∧
    refSpecOf toyX (req .argv .argv).specText = .ok "a" ∧ toyX.glom "A1" "a" = .ok "1" ∧
    refRender toyX "1" 2 false = some "1\n" := by decide +kernel
example : cliMain genFacts toyX (req .argv .argv).argv ((req .argv .argv).world "junk" true) = .exit 0 "1\n" ∧
    cliMain genFacts toyX (req (.file "/tmp/s.glom") .piped).argv ((req (.file "/tmp/s.glom") .piped).world "" true) = .exit 0 "1\n" ∧
    cliMain genFacts toyX (req .argv .dashArg).argv ((req .argv .dashArg).world "" true) = .exit 0 "1\n" ∧
    cliMain genFacts toyX (req (.file "/tmp/s.glom") (.file "/tmp/t.json")).argv ⟨"junk", false, none, .open⟩ = .exit 0 "1\n" := by
  decide +kernel
-- without `targetText ≠ "-"`: a positional `-` means standard input, not the text "-"
example : cliMain genFacts toyX ⟨["'a'", "-"], none, none, none, none, none, false, false, false⟩ ⟨"{\"a\": 1}", true, none, .open⟩ = .exit 0 "1\n" := by
  decide +kernel
-- without non-empty target text: an empty target text is replaced by `{}` (no loader is called)
example : cliMain genFacts toyX ⟨["'a'", ""], none, none, none, none, none, false, false, false⟩ ⟨"", true, none, .open⟩
    = .exit 1 "PathAccessError: could not access\n" := by decide +kernel
-- GlomError / malformed target / unreadable file / malformed spec
example : cliMain genFacts toyX ⟨["zz", "{\"a\": 1}"], none, none, none, none, none, false, false, false⟩ ⟨"", true, none, .open⟩
      = .exit 1 "PathAccessError: could not access\n" ∧
    cliMain genFacts toyX ⟨["a", "{\"a\":"], none, none, none, none, none, false, false, false⟩ ⟨"", true, none, .open⟩
      = .usage (.loadError "JSONDecodeError") ∧
    cliMain genFacts toyX ⟨["a"], some "/nonexistent", none, none, none, none, false, false, false⟩ ⟨"", true, none, .open⟩
      = .usage .targetFileUnreadable ∧
    -- a target file / a standard input that is not UTF-8
    cliMain genFacts toyX ⟨["a"], some "/tmp/latin1.json", none, none, none, none, false, false, false⟩ ⟨"", true, none, .open⟩
      = .usage .targetFileUnreadable ∧
    cliMain genFacts toyX ⟨["a", "-"], none, none, none, none, none, false, false, false⟩ ⟨"", true, some "UnicodeDecodeError", .open⟩
      = .usage .stdinUnreadable ∧
    cliMain genFacts toyX ⟨["a"], none, none, none, none, none, false, false, false⟩ ⟨"", false, some "UnicodeDecodeError", .open⟩
      = .usage .stdinUnreadable ∧
    cliMain genFacts toyX ⟨["{", "{\"a\": 1}"], none, none, none, none, none, false, false, false⟩ ⟨"", true, none, .open⟩
      = .exc "SyntaxError" := by decide +kernel
-- `LoadErrOk` / `ReadErrOk` hold for the toy externals …
example : LoadErrOk genFacts toyX :=
  loadErrOk_of_exception c19_handlers_name_exception (fun k t c h => by
    have : c = "JSONDecodeError" := by
      simp only [toyX] at h; split at h <;> simp_all
    subst this; decide +kernel)
-- … and are needed.  Without `LoadErrOk`: a loader that raised a class outside `Exception`
-- would leave `main` with it (`except Exception` does not catch a bare BaseException)
example : cliMain genFacts { toyX with load := fun _ _ => .error "KeyboardInterrupt" }
      ⟨["a", "{\"a\":"], none, none, none, none, none, false, false, false⟩ ⟨"", true, none, .open⟩
    = .exc "KeyboardInterrupt" := by decide +kernel
-- without `catchWF`: the handler narrowed to the loader's "parse error" class lets the other
-- classes the same loader raises on text escape (PyYAML's timestamp constructor: ValueError)
example : cliMain { genFacts with loadCatch := [("json", ["JSONDecodeError"])] }
        { toyX with load := fun _ _ => .error "RecursionError" }
        ⟨["a", "[[[["], none, none, none, none, none, false, false, false⟩ ⟨"", true, none, .open⟩
      = .exc "RecursionError" ∧
    WF { genFacts with loadCatch := [("json", ["ValueError"]), ("yaml", ["YAMLError"]), ("yml", ["YAMLError"]),
        ("toml", ["TOMLDecodeError"]), ("python", ["ValueError", "SyntaxError"])] } = false ∧
    -- … while a handler that names a class above every probed class is accepted
    catchWF genFacts.targetLoaders [("json", ["ValueError", "RuntimeError"]), ("yaml", ["Exception"]),
        ("yml", ["BaseException", "Exception"]), ("toml", ["ValueError", "RecursionError"]),
        ("python", ["ValueError", "SyntaxError", "TypeError", "MemoryError", "RecursionError"])]
      genFacts.loaderRaises = true := by decide +kernel
-- without `ReadErrOk` / `readCatchWF`: `except OSError` alone lets the UnicodeDecodeError of a
-- file that is not UTF-8 leave `main` (glom before dbce23c)
example : cliMain { genFacts with targetReadCatch := ["OSError"] } toyX
      ⟨["a"], some "/tmp/latin1.json", none, none, none, none, false, false, false⟩ ⟨"", true, none, .open⟩
    = .exc "UnicodeDecodeError" ∧
    cliMain { genFacts with stdinReadCatch := [] } toyX
      ⟨["a", "-"], none, none, none, none, none, false, false, false⟩ ⟨"", true, some "UnicodeDecodeError", .open⟩
    = .exc "UnicodeDecodeError" ∧
    WF { genFacts with targetReadCatch := ["OSError"] } = false ∧
    -- … while naming a class above UnicodeError is as good
    WF { genFacts with targetReadCatch := ["OSError", "ValueError"], stdinReadCatch := ["Exception"] } = true := by
  decide +kernel
-- `ReprOk` holds for the toy externals on a bare word
example : toyX.parse "python-literal" (toyX.repr "a") = .ok (toyX.strSpec "a") := by decide +kernel
-- `c19_model_no_exec` without its hypothesis: under --spec-format python-full the outcome DOES depend on the evaluator
example : cliMain genFacts toyX ⟨["a", "{\"a\": 1}"], none, none, none, some "python-full", none, false, false, false⟩ ⟨"", true, none, .open⟩
    = .exc "NoOracle" := by decide +kernel

/-! #### channels -/
-- the hypotheses of `c19_delivery_independent` hold for the toy request in all ten deliveries, and the
-- outcomes are the same
example : ((req .argv .argv).comparable toyX
      [(.argv, .argv), (.argv, .file "/tmp/t.json"), (.argv, .dashArg), (.argv, .dashFile), (.argv, .piped),
       (.file "/tmp/s.glom", .argv), (.file "/tmp/s.glom", .file "/tmp/t.json"), (.file "/tmp/s.glom", .dashArg),
       (.file "/tmp/s.glom", .dashFile), (.file "/tmp/s.glom", .piped)]) = true := by decide +kernel
-- without a non-empty target text: an empty ARGUMENT sends the command to a piped standard input,
-- an empty FILE does not
example : cliMain genFacts toyX ((req .argv .argv).via .argv .argv |>.argv |> fun a => { a with posargs := ["'a'", ""] })
        ⟨"{\"a\": 1}", false, none, .open⟩ = .exit 0 "1\n" ∧
    cliMain genFacts { toyX with readFile := fun _ => some "" } ⟨["'a'"], some "/tmp/empty", none, none, none, none, false, false, false⟩
        ⟨"{\"a\": 1}", false, none, .open⟩ = .exit 1 "PathAccessError: could not access\n" := by decide +kernel
-- a usage error shows no kind, a result shows everything: `channelsAgree` tells them apart
example : channelsAgree [.exit 0 "1\n", .exit 0 "1\n"] = true ∧ channelsAgree [.exit 0 "1\n", .exit 0 "1"] = false ∧
    channelsAgree [.usage .targetBoth, .usage (.loadError "X")] = true ∧
    channelsAgree [.usage .targetBoth, .exit 1 "PathAccessError: \n"] = false := by decide +kernel

/-! #### standard input: open, closed, absent -/
-- a closed / an absent standard input where the target is to come from it: a usage error, through
-- every stdin channel; `ReadErrOk` holds for both states with Python's MROs
example : cliMain genFacts toyX ⟨["a", "-"], none, none, none, none, none, false, false, false⟩ ⟨"{\"a\": 1}", true, none, .closed⟩
      = .usage .stdinUnreadable ∧
    cliMain genFacts toyX ⟨["a"], some "-", none, none, none, none, false, false, false⟩ ⟨"", true, none, .absent⟩
      = .usage .stdinUnreadable ∧
    -- nothing given: a closed / absent stream is no terminal (`isatty` raises → False), so it is read
    cliMain genFacts toyX ⟨["a"], none, none, none, none, none, false, false, false⟩ ⟨"", true, none, .closed⟩
      = .usage .stdinUnreadable ∧
    cliMain genFacts toyX ⟨[], none, none, none, none, none, false, false, false⟩ ⟨"", true, none, .absent⟩
      = .usage .stdinUnreadable ∧
    isStdinReadErr toyX "ValueError" = true ∧ isStdinReadErr toyX "AttributeError" = true := by decide +kernel
-- the target by argument: standard input is not touched (`c19_stdin_untouched`) …
example : cliMain genFacts toyX ⟨["'a'", "{\"a\": 1}"], none, none, none, none, none, false, false, false⟩ ⟨"", true, none, .absent⟩
      = .exit 0 "1\n" ∧
    cliMain genFacts toyX ⟨["'a'", "{\"a\": 1}"], none, none, none, none, none, false, false, false⟩ ⟨"", false, some "UnicodeDecodeError", .closed⟩
      = .exit 0 "1\n" ∧
    -- … unless --debug / --inspect ask whether it is closed: `None.closed` (what the code does; the
    -- statement does not speak about these flags)
    cliMain genFacts toyX ⟨["'a'", "{\"a\": 1}"], none, none, none, none, none, false, true, false⟩ ⟨"", true, none, .absent⟩
      = .exc "AttributeError" ∧
    -- closed: the hooks are simply not armed (the toy library does not know the wrapped spec)
    cliMain genFacts toyX ⟨["'a'", "{\"a\": 1}"], none, none, none, none, none, false, true, false⟩ ⟨"", true, none, .closed⟩
      = .exit 1 "---\nPathAccessError: could not access\n" := by decide +kernel
-- before 4aa6b78 the handler named (OSError, UnicodeError): a closed stream's ValueError and an absent one's
-- AttributeError left `main`; `stdinCatchWF` rejects that handler
example : cliMain { genFacts with stdinReadCatch := ["OSError", "UnicodeError"] } toyX
      ⟨["a", "-"], none, none, none, none, none, false, false, false⟩ ⟨"", true, none, .closed⟩ = .exc "ValueError" ∧
    cliMain { genFacts with stdinReadCatch := ["OSError", "UnicodeError"] } toyX
      ⟨["a"], none, none, none, none, none, false, false, false⟩ ⟨"", true, none, .absent⟩ = .exc "AttributeError" ∧
    WF { genFacts with stdinReadCatch := ["OSError", "UnicodeError"] } = false ∧
    WF { genFacts with stdinReadCatch := ["OSError", "ValueError"] } = false ∧
    WF { genFacts with stdinReadCatch := ["Exception"] } = true := by decide +kernel

/-! #### what the statement's reference says where it used to be silent -/
-- no spec and no target (`glom` alone), an empty target text: the identity spec on the empty dict
example : expect toyX ⟨[], none, none, none, none, none, false, false, false⟩ ⟨"", true, none, .open⟩
      = .glomError "PathAccessError" ∧     -- (the toy library fails on everything but ("A1", "a"))
    expect toyX ⟨["'a'", ""], none, none, none, none, none, false, false, false⟩ ⟨"", true, none, .open⟩
      = .glomError "PathAccessError" ∧
    expect toyX ⟨["'a'"], none, none, none, none, none, false, false, false⟩ ⟨"", false, none, .open⟩
      = .glomError "PathAccessError" ∧
    -- a blank text is NOT empty: a malformed document
    expect toyX ⟨["'a'", " "], none, none, none, none, none, false, false, false⟩ ⟨"", true, none, .open⟩ = .targetUsage ∧
    -- closed / absent standard input as the target: unreadable
    expect toyX ⟨["'a'", "-"], none, none, none, none, none, false, false, false⟩ ⟨"", true, none, .closed⟩ = .targetUsage ∧
    -- python-full, an undocumented format, --debug: outside the statement
    expect toyX ⟨["a", "{\"a\": 1}"], none, none, none, some "python-full", none, false, false, false⟩ ⟨"", true, none, .open⟩ = .silent ∧
    expect toyX ⟨["a", "{\"a\": 1}"], none, none, none, none, none, false, true, false⟩ ⟨"", true, none, .open⟩ = .silent := by
  decide +kernel
-- a result json.dumps cannot print: its exception ends the command (READING), and the checker wants exactly that
example : expect { toyX with dumps := fun _ _ => .error "TypeError", isScalar := fun _ => false }
        ⟨["'a'", "{\"a\": 1}"], none, none, none, none, none, false, false, false⟩ ⟨"", true, none, .open⟩
      = .unserialisable "TypeError" ∧
    cliMain genFacts { toyX with dumps := fun _ _ => .error "TypeError", isScalar := fun _ => false }
        ⟨["'a'", "{\"a\": 1}"], none, none, none, none, none, false, false, false⟩ ⟨"", true, none, .open⟩
      = .exc "TypeError" ∧
    checkExpect (.unserialisable "TypeError") false ⟨.exc "TypeError", false⟩ = true ∧
    checkExpect (.unserialisable "TypeError") false ⟨.exit 0 "null\n", false⟩ = false := by decide +kernel

/-! #### the raw command line -/
-- flag spellings (case, `_`, one or three dashes), `=` values, a value that looks like a flag, `-` as target
example : parseArgv genTable toyX.penv ["glom", "--SPEC_FORMAT=json", "-indent", "4", "---Target-Format", "--scalar", "a", "-"]
      = .ok ⟨["a", "-"], none, some "--scalar", none, some "json", some 4, false, false, false⟩ ∧
    -- flags end at the first positional argument: what follows is positional
    parseArgv genTable toyX.penv ["glom", "a", "--scalar"] = .ok ⟨["a", "--scalar"], none, none, none, none, none, false, false, false⟩ ∧
    parseArgv genTable toyX.penv ["glom", "a", "b", "--scalar"] = .fail (.cli .tooManyPosargs) ∧
    -- a lone `-H` is no flag (one dash keeps its case), `--H` is help
    parseArgv genTable toyX.penv ["glom", "-H"] = .fail (.cli .unknownFlag) ∧
    parseArgv genTable toyX.penv ["glom", "--H"] = .help ∧
    -- help wins over an error found AFTER the flags were read, not over one found while reading them
    parseArgv genTable toyX.penv ["glom", "-h", "a", "b", "c"] = .help ∧
    parseArgv genTable toyX.penv ["glom", "--scalar", "--scalar", "-h"] = .help ∧
    parseArgv genTable toyX.penv ["glom", "-h", "--nope"] = .fail (.cli .unknownFlag) ∧
    parseArgv genTable toyX.penv ["glom", "--scalar", "--SCALAR"] = .fail (.cli .duplicateFlag) ∧
    parseArgv genTable toyX.penv ["glom", "--indent", "x"] = .fail (.cli .invalidFlagArg) ∧
    parseArgv genTable toyX.penv ["glom", "--indent"] = .fail (.cli .missingFlagArg) ∧
    parseArgv genTable toyX.penv ["glom", "--scalar=1"] = .fail (.cli .invalidFlagArg) ∧
    parseArgv genTable toyX.penv ["glom", "--scalar="] = .ok ⟨[], none, none, none, none, none, true, false, false⟩ ∧
    parseArgv genTable toyX.penv ["glom", "a", "--"] = .ok ⟨["a"], none, none, none, none, none, false, false, false⟩ ∧
    parseArgv genTable toyX.penv ["glom", "a", "--", "b"] = .fail (.cli .postPosargs) ∧
    parseArgv genTable toyX.penv [] = .fail (.cli .emptyArgv) := by decide +kernel
-- flagfiles: flags from a file, a file that names itself (taken once), excessive arguments, a line
-- shlex cannot split (no FaceException: it leaves `main`), a missing file, a flag given on the
-- command line AND in the file
example : parseArgv genTable toyX.penv ["glom", "--flagfile", "/tmp/ff", "a"]
      = .ok ⟨["a"], none, none, none, none, some 4, true, false, false⟩ ∧
    parseArgv genTable toyX.penv ["glom", "--flagfile=/tmp/ff-loop"] = .ok ⟨[], none, none, none, none, some 0, false, false, false⟩ ∧
    parseArgv genTable toyX.penv ["glom", "--flagfile", "/tmp/ff-bad"] = .fail (.cli .flagfileExtraArgs) ∧
    parseArgv genTable toyX.penv ["glom", "--flagfile", "/tmp/ff-quote"] = .fail (.exc "ValueError") ∧
    parseArgv genTable toyX.penv ["glom", "--flagfile", "/tmp/none"] = .fail (.cli .flagfileUnreadable) ∧
    parseArgv genTable toyX.penv ["glom", "--scalar", "--flagfile", "/tmp/ff"] = .fail (.cli .duplicateFlag) ∧
    parseArgv genTable toyX.penv ["glom", "--flagfile", "/tmp/ff", "--flagfile", "/tmp/ff"]
      = .ok ⟨[], none, none, none, none, some 4, true, false, false⟩ := by decide +kernel
-- `c19_parse_render`: its hypotheses hold for concrete flags (the toy `int()` knows 4) …
example : posargsOk ["a", "-5"] = true ∧ posargsOk ["-"] = true ∧ posargsOk ["", "--x"] = true := by decide +kernel
example : parseArgv genTable toyX.penv ("glom" :: (⟨["a", "-5"], some "--x", none, none, some "json", some 4, true, false, true⟩ : Argv).render)
    = .ok ⟨["a", "-5"], some "--x", none, none, some "json", some 4, true, false, true⟩ := by decide +kernel
-- … and are needed: a first positional argument that looks like a flag IS read as a flag, a third
-- one is rejected, `--` is swallowed
example : posargsOk ["--scalar"] = false ∧ posargsOk ["a", "b", "c"] = false ∧ posargsOk ["a", "--"] = false ∧
    parseArgv genTable toyX.penv ("glom" :: (⟨["--scalar"], none, none, none, none, none, false, false, false⟩ : Argv).render)
      = .ok ⟨[], none, none, none, none, none, true, false, false⟩ := by decide +kernel
-- exit status: help 0, result 0, GlomError 1, usage error 1, rejected command line 1, traceback 1
example : (cliMainArgv genTable genFacts toyX ["glom", "-h"] ⟨"", true, none, .open⟩) = .exit 0 "Usage: glom [FLAGS] [spec [target]]\n" ∧
    (cliMainArgv genTable genFacts toyX ["glom", "'a'", "{\"a\": 1}"] ⟨"", true, none, .open⟩).status = 0 ∧
    (cliMainArgv genTable genFacts toyX ["glom", "zz", "{\"a\": 1}"] ⟨"", true, none, .open⟩).status = 1 ∧
    (cliMainArgv genTable genFacts toyX ["glom", "a", "{\"a\":"] ⟨"", true, none, .open⟩) = .usage (.loadError "JSONDecodeError") ∧
    (cliMainArgv genTable genFacts toyX ["glom", "--nope"] ⟨"", true, none, .open⟩) = .cli .unknownFlag ∧
    (cliMainArgv genTable genFacts toyX ["glom", "{", "{\"a\": 1}"] ⟨"", true, none, .open⟩) = .exc "SyntaxError" := by decide +kernel

-- `c19_argv_never_executes`: its hypotheses hold for a command line full of other flags, and fail — as
-- they must — when `python-full` is given in either syntax or may come from a flagfile
example : usesFlagfile genTable ["--spec-file", "/tmp/s.py", "--SPEC-FORMAT", "PYTHON-FULL", "--indent=4", "a"] = false ∧
    mentions ["--spec-file", "/tmp/s.py", "--SPEC-FORMAT", "PYTHON-FULL", "--indent=4", "a"] "python-full" = false ∧
    mentions ["--spec-format", "python-full"] "python-full" = true ∧
    mentions ["--Spec_Format=python-full"] "python-full" = true ∧
    usesFlagfile genTable ["-flagfile=/tmp/ff"] = true := by decide +kernel

/-! #### spec formats, spec file names, --debug / --inspect -/
-- the format names are the documented ones spelled exactly: another case is a usage error, not the evaluator
example : cliMain genFacts toyX ⟨["a", "{\"a\": 1}"], none, none, none, some "PYTHON-FULL", none, false, false, false⟩ ⟨"", true, none, .open⟩
      = .usage .badSpecFormat ∧
    cliMain genFacts toyX ⟨["a", "{\"a\": 1}"], none, none, none, some "Python", none, false, false, false⟩ ⟨"", true, none, .open⟩
      = .usage .badSpecFormat ∧
    cliMain genFacts toyX ⟨["a", "{\"a\": 1}"], none, some "JSON", none, none, none, false, false, false⟩ ⟨"", true, none, .open⟩
      = .usage .badTargetFormat := by decide +kernel
-- problems with the spec are reported before problems with the target; an unknown target format is
-- not even looked at when there is no target text
example : cliMain genFacts toyX ⟨["a", "{\"a\": 1}"], some "/tmp/t.json", none, some "/tmp/s.glom", none, none, false, false, false⟩ ⟨"", true, none, .open⟩
      = .usage .specBoth ∧
    cliMain genFacts toyX ⟨["a", "{\"a\": 1}"], some "/tmp/t.json", none, none, none, none, false, false, false⟩ ⟨"", true, none, .open⟩
      = .usage .targetBoth ∧
    cliMain genFacts toyX ⟨["a"], none, some "xml", none, none, none, false, false, false⟩ ⟨"", true, none, .open⟩
      = .exit 1 "PathAccessError: could not access\n" := by decide +kernel
-- --inspect: the spec is wrapped, what the library call printed precedes the result; the debugger
-- hooks are armed only while standard input is open
example : cliMain genFacts toyX ⟨["'a'", "{\"a\": 1}"], none, none, none, none, none, false, false, true⟩ ⟨"", true, none, .open⟩
      = .exit 1 "---\nPathAccessError: could not access\n" ∧
    wrapSpec toyX true "a" true false = "Inspect(a)" ∧ wrapSpec toyX false "a" false false = "a" := by decide +kernel
-- the NAME of the spec file decides nothing (`c19_spec_file_name_irrelevant` on two names of one text)
example : cliMain genFacts { toyX with readFile := fun p => if p == "/tmp/spec.py" || p == "/tmp/spec.glom" then some "'a'" else none }
        ⟨["", "{\"a\": 1}"], none, none, some "/tmp/spec.py", none, none, false, false, false⟩ ⟨"", true, none, .open⟩
      = .exit 0 "1\n" := by decide +kernel

end Glom.Props.C19
