import Glom.Lemmas.C19
import Glom.Model.C19Env
/-
  C19 — The CLI prints what the library computes; default-format specs never execute.

  **PARTIAL PROOF.**  The theorems are about the decision logic of glom/cli.py
  (which text is the spec, which the target, which parser / loader receives it,
  how the result is printed, which exit status) for ALL flag combinations,
  file systems, standard inputs and ALL behaviours of the external functions,
  which are parameters of the model (`Ext`): the JSON / YAML / TOML parsers,
  `ast.literal_eval`, `repr`, `glom.glom` itself (C01–C18), `json.dumps`,
  `is_scalar`, `str()`; `face`'s argument parsing is outside the model.  Those
  externals are exercised by the correspondence only.  The full statement
  ("for any JSON, Python-literal, YAML or TOML *text* …") would need verified
  models of those parsers.

  `c19_never_executes` is decision logic over the call / reference graph
  extracted from the AST of cli.py on every run.
-/
namespace Glom.Props.C19
open Glom Glom.C19

variable {T S R : Type}

/-- **Facts obligation**: the `spec_format` branches hand the spec text to
    literal_eval / json.loads / the exec-based evaluator in that order, the first-character
    test guards the `python` branch with exactly the five literal openers, the target loaders
    are json / yaml.safe_load / toml / literal_eval, the flag defaults are python / json / 2,
    and `glom_cli`, `main`, `mw_handle_target`, the order of `mw_get_target`'s steps have the
    modelled shape; the `except` around `load_func(target_text)` names, for every target format,
    `Exception` or a class above every class the PROBE saw that format's loader raise (`catchWF`);
    every read of text in cli.py (spec file, target file, standard input — `_read_stdin`) sits
    under a handler naming OSError and UnicodeError (or `Exception`) that raises a UsageError; the
    probe is not vacuous (≥ 2 classes per loader, all `Exception` subclasses). -/
theorem c19_facts_wf :
    WF genFacts = true ∧
    shapeWF Generated.cliShape Generated.cliMainShape Generated.cliMwSteps Generated.cliEmptyTargetFirst
      Generated.cliMiddlewares = true ∧
    probeWF Generated.cliLoaderRaises Generated.cliReadSites = true := by decide +kernel

/-- for the code as it is every handler around a loader names `Exception`: of `LoadErrOk` only
    "a loader raises `Exception` subclasses" is then needed (`loadErrOk_of_exception`) -/
theorem c19_handlers_name_exception :
    ∀ fmt k, (fmt, k) ∈ genFacts.targetLoaders → (catchOf genFacts fmt).contains "Exception" = true := by
  have h : genFacts.targetLoaders.all (fun l => (catchOf genFacts l.1).contains "Exception") = true := by
    decide +kernel
  intro fmt k hm
  exact (List.all_eq_true.mp h) (fmt, k) hm

/-- **Default-format specs never execute** (facts, decided on the extracted graph): without the
    `spec_format == 'python-full'` edges no dangerous callable (eval, exec, compile,
    `__import__`, unsafe loaders, process spawning, getattr…) is reachable from any entry point
    of cli.py — with them `exec` and `compile` are (so the extraction does see the path) —;
    the only callers in the chain are mw_get_target → `_eval_python_full_spec` → `_compile_code`;
    the flag default is 'python'; the only calls that receive the spec text under 'python' are
    `repr` and `ast.literal_eval`. -/
theorem c19_never_executes :
    neverExecutesWF Generated.cliEdges Generated.cliDangerousNames Generated.cliSpecTextFlows
      Generated.cliSpecDefault Generated.cliFunctions = true := by decide +kernel

/-- … and in the model: unless `--spec-format python-full` is given, the outcome does not depend
    on what the exec-based evaluator would do — with the default format not even on what
    `json.loads` would do: only `repr` and the literal parser ever see the spec text. -/
theorem c19_model_no_exec (F : Facts) (hwf : WF F = true) (X : Ext T S R) (a : Argv) (w : World)
    (other : String → String → Except String S)
    (hfmt : (a.specFormat == none || a.specFormat == some "python") = true) :
    cliMain F { X with parse := fun k t => if k == "python-literal" then X.parse k t else other k t } a w
      = cliMain F X a w := by
  have wf := WF_parts hwf
  have hf := fmt_default wf a hfmt
  unfold cliMain getSpec parseSpec
  simp only [hf, wf.specBranches, wf.reprBranches]
  simp [getTargetText, readStdin, readFail, caughtBy, handleTarget, liftLoad, glomCli, runWith]

/-! ### every delivery of the same spec and target prints the same thing -/

/-- **Output.**  For every way of delivering the spec (argument or --spec-file) and the target
    (argument, --target-file, `-`, `--target-file -`, piped standard input), every target format,
    every --indent and --scalar: if the loader accepts the target text, the spec text is a literal
    (or a bare path), the library returns `r` and `r` can be rendered, then stdout is exactly
    `json.dumps(r, indent, sort_keys=True)` + newline (the bare scalar under --scalar) and the
    exit status is 0 — the same for all ten deliveries. -/
theorem c19_output (F : Facts) (hwf : WF F = true) (X : Ext T S R) (hr : ReprOk X)
    (q : Request) (junk : String) (tty : Bool)
    (hs : q.specText.isEmpty = false) (ht : q.targetText.isEmpty = false)
    (hdash : q.targetText ≠ "-") (hfiles : q.FilesOk X)
    (k : String) (hk : refLoaderKind (q.targetFormat.getD "json") = some k)
    (t : T) (hload : X.load k q.targetText = .ok t)
    (s : S) (hspec : refSpecOf X q.specText = .ok s)
    (r : R) (hlib : X.glom t s = .ok r)
    (out : String) (hrender : refRender X r (q.indent.getD 2) q.scalar = some out) :
    cliMain F X q.argv (q.world junk tty) = .exit 0 out := by
  have wf := WF_parts hwf
  obtain ⟨hst, htt⟩ := request_expect_texts X q junk tty hs ht hdash hfiles
  have hfmt : (q.argv.specFormat == none || q.argv.specFormat == some "python") = true := by
    simp [Request.argv]
  unfold cliMain
  rw [getSpec_ref wf X hr q.argv hfmt _ hst, hspec]
  obtain ⟨o, ho, hor⟩ := getTargetText_text F X q.argv (q.world junk tty) _ htt
  rcases hor with rfl | ⟨he, _⟩
  · simp only [liftExc, ho]
    have hk' : refLoaderKind (q.argv.targetFormat.getD "json") = some k := by simpa [Request.argv] using hk
    rw [(handleTarget_ref wf X q.argv _ ht k hk').1, hload]
    simp only [liftLoad, runWith]
    rw [glomCli_render X t s r _ _ hlib, wf.indentDefault]
    have : q.argv.indent = q.indent ∧ q.argv.scalar = q.scalar := by simp [Request.argv]
    rw [this.1, this.2, hrender]
  · rw [ht] at he; cases he

/-- **GlomError → exit 1.**  Same deliveries; if the library raises a GlomError of class `cls`
    the command prints `cls: message` and returns 1. -/
theorem c19_glomerror_exit1 (F : Facts) (hwf : WF F = true) (X : Ext T S R) (hr : ReprOk X)
    (q : Request) (junk : String) (tty : Bool)
    (hs : q.specText.isEmpty = false) (ht : q.targetText.isEmpty = false)
    (hdash : q.targetText ≠ "-") (hfiles : q.FilesOk X)
    (k : String) (hk : refLoaderKind (q.targetFormat.getD "json") = some k)
    (t : T) (hload : X.load k q.targetText = .ok t)
    (s : S) (hspec : refSpecOf X q.specText = .ok s)
    (cls msg : String) (hlib : X.glom t s = .glomError cls msg) :
    cliMain F X q.argv (q.world junk tty) = .exit 1 (cls ++ ": " ++ msg ++ "\n") := by
  have wf := WF_parts hwf
  obtain ⟨hst, htt⟩ := request_expect_texts X q junk tty hs ht hdash hfiles
  have hfmt : (q.argv.specFormat == none || q.argv.specFormat == some "python") = true := by
    simp [Request.argv]
  unfold cliMain
  rw [getSpec_ref wf X hr q.argv hfmt _ hst, hspec]
  obtain ⟨o, ho, hor⟩ := getTargetText_text F X q.argv (q.world junk tty) _ htt
  rcases hor with rfl | ⟨he, _⟩
  · simp only [liftExc, ho]
    have hk' : refLoaderKind (q.argv.targetFormat.getD "json") = some k := by simpa [Request.argv] using hk
    rw [(handleTarget_ref wf X q.argv _ ht k hk').1, hload]
    simp only [liftLoad, runWith, glomCli, hlib]
  · rw [ht] at he; cases he

/-- **Malformed target → usage error.**  Same deliveries; if the loader rejects the target text
    with an exception of class `c` — ANY class a loader raises on text (`LoadErrOk`: an
    `Exception` subclass; where the handler does not name `Exception`, one the probe saw) —
    `main` ends in a UsageError (never in a result, never in another exception). -/
theorem c19_bad_target_usage_error (F : Facts) (hwf : WF F = true) (X : Ext T S R) (hr : ReprOk X)
    (hl : LoadErrOk F X) (q : Request) (junk : String) (tty : Bool)
    (hs : q.specText.isEmpty = false) (ht : q.targetText.isEmpty = false)
    (hdash : q.targetText ≠ "-") (hfiles : q.FilesOk X)
    (k : String) (hk : refLoaderKind (q.targetFormat.getD "json") = some k)
    (c : String) (hload : X.load k q.targetText = .error c)
    (s : S) (hspec : refSpecOf X q.specText = .ok s) :
    cliMain F X q.argv (q.world junk tty) = .usage (.loadError c) := by
  have wf := WF_parts hwf
  obtain ⟨hst, htt⟩ := request_expect_texts X q junk tty hs ht hdash hfiles
  have hfmt : (q.argv.specFormat == none || q.argv.specFormat == some "python") = true := by
    simp [Request.argv]
  unfold cliMain
  rw [getSpec_ref wf X hr q.argv hfmt _ hst, hspec]
  obtain ⟨o, ho, hor⟩ := getTargetText_text F X q.argv (q.world junk tty) _ htt
  rcases hor with rfl | ⟨he, _⟩
  · simp only [liftExc, ho]
    have hk' : refLoaderKind (q.argv.targetFormat.getD "json") = some k := by simpa [Request.argv] using hk
    obtain ⟨href, hmem⟩ := handleTarget_ref wf X q.argv _ ht k hk'
    rw [href, hload]
    simp only [liftLoad, caught_load wf.loadCatch X hl _ k _ c hmem hload, if_true, runWith]
  · rw [ht] at he; cases he

/-- **Unreadable target → usage error** (for every flag combination in which the target is named
    once and the spec is a literal): a target file that is missing, a directory, not UTF-8 …, or a
    standard input that cannot be decoded, whatever OSError / UnicodeError the read raises
    (`ReadErrOk`). -/
theorem c19_unreadable_target_usage_error (F : Facts) (hwf : WF F = true) (X : Ext T S R) (hr : ReprOk X)
    (a : Argv) (w : World) (hrd : ReadErrOk X w)
    (hfmt : (a.specFormat == none || a.specFormat == some "python") = true)
    (st : String) (hst : refSpecText X a = some st) (s : S) (hspec : refSpecOf X st = .ok s)
    (hun : refTargetText X a w = .unreadable) :
    ∃ u, cliMain F X a w = .usage u := by
  have wf := WF_parts hwf
  obtain ⟨u, hu⟩ := getTargetText_unreadable wf X a w hrd hun
  refine ⟨u, ?_⟩
  unfold cliMain
  rw [getSpec_ref wf X hr a hfmt st hst, hspec]
  simp only [liftExc, hu]

/-- **Checker theorem** — the form in which the property is also evaluated on the
    implementation's observation by the correspondence driver: for ALL flags, worlds and
    externals the model's outcome is what the reference expects wherever the property speaks. -/
theorem c19_model_checks (F : Facts) (hwf : WF F = true) (X : Ext T S R) (hr : ReprOk X)
    (hl : LoadErrOk F X) (a : Argv) (w : World) (hrd : ReadErrOk X w) :
    checkC19 X a w false (observe (cliMain F X a w)) = true := by
  have wf := WF_parts hwf
  unfold checkC19 observe
  simp only [Bool.not_false, Bool.true_and, Bool.true_or]
  unfold expect
  cases hfmt : (a.specFormat == none || a.specFormat == some "python") with
  | false => simp
  | true =>
  simp only [Bool.not_true, Bool.false_eq_true, if_false]
  cases hst : refSpecText X a with
  | none => simp
  | some st =>
    simp only
    have hgs := getSpec_ref wf X hr a hfmt st hst
    cases hsp : refSpecOf X st with
    | error c =>
      simp only
      unfold cliMain
      rw [hgs, hsp]
      simp [liftExc, isExit0]
    | ok s =>
      simp only
      cases htt : refTargetText X a w with
      | unspecified => simp
      | unreadable =>
        simp only
        obtain ⟨u, hu⟩ := c19_unreadable_target_usage_error F hwf X hr a w hrd hfmt st hst s hsp htt
        rw [hu]
      | text tt =>
        simp only
        by_cases hte : tt.isEmpty = true
        · simp [hte]
        · simp only [hte, Bool.false_eq_true, if_false]
          have hte' : tt.isEmpty = false := by simpa using hte
          cases hk : refLoaderKind (a.targetFormat.getD "json") with
          | none => simp
          | some k =>
            simp only
            obtain ⟨o, ho, hor⟩ := getTargetText_text F X a w tt htt
            have ho' : getTargetText F X a w = .ok (some tt) := by
              rcases hor with rfl | ⟨he, _⟩
              · exact ho
              · rw [hte'] at he; cases he
            obtain ⟨href, hmem⟩ := handleTarget_ref wf X a tt hte' k hk
            have hmain : cliMain F X a w
                = runWith F X a s (liftLoad X (catchOf F (a.targetFormat.getD "json")) (X.load k tt)) := by
              unfold cliMain
              rw [hgs, hsp]
              simp only [liftExc, ho']
              rw [href]
            rw [hmain]
            cases hld : X.load k tt with
            | error c => simp [liftLoad, runWith, caught_load wf.loadCatch X hl _ k tt c hmem hld]
            | ok t =>
              simp only [liftLoad, runWith]
              cases hg : X.glom t s with
              | glomError cls msg =>
                simp [glomCli, hg, String.toList_append, List.isPrefixOf_iff_prefix]
              | other c => simp
              | ok r =>
                simp only
                rw [glomCli_render X t s r _ _ hg, wf.indentDefault]
                cases refRender X r (a.indent.getD 2) a.scalar <;> simp

/-! ### non-vacuity -/

private instance : DecidableEq (Except String String) := fun a b =>
  match a, b with
  | .ok x, .ok y => if h : x = y then isTrue (by rw [h]) else isFalse (by intro h'; cases h'; exact h rfl)
  | .error x, .error y => if h : x = y then isTrue (by rw [h]) else isFalse (by intro h'; cases h'; exact h rfl)
  | .ok _, .error _ => isFalse (by intro h; cases h)
  | .error _, .ok _ => isFalse (by intro h; cases h)

/-- a toy instance of the externals (targets and specs are strings, the "library" looks a key up) -/
private def toyX : Ext String String String :=
  { parse := fun k t => if k == "python-literal" then (if t == "'a'" then .ok "a" else if t == "{" then .error "SyntaxError" else .ok t) else .error "NoOracle"
    load := fun k t => if k == "json" && t == "{\"a\": 1}" then .ok "A1" else .error "JSONDecodeError"
    strSpec := fun s => s
    repr := fun s => "'" ++ s ++ "'"
    emptySpec := "", emptyTarget := "{}"
    glom := fun t s => if t == "A1" && s == "a" then .ok "1" else .glomError "PathAccessError" "could not access"
    dumps := fun r _ => .ok r
    isScalar := fun _ => true
    str := fun r => r
    readFile := fun p => if p == "/tmp/t.json" then some "{\"a\": 1}" else if p == "/tmp/s.glom" then some "'a'" else none
    readErr := fun p => if p == "/tmp/latin1.json" then "UnicodeDecodeError" else "FileNotFoundError"
    mro := fun c =>
      if c == "JSONDecodeError" then ["JSONDecodeError", "ValueError", "Exception", "BaseException"]
      else if c == "UnicodeDecodeError" then ["UnicodeDecodeError", "UnicodeError", "ValueError", "Exception", "BaseException"]
      else if c == "FileNotFoundError" then ["FileNotFoundError", "OSError", "Exception", "BaseException"]
      else [c, "BaseException"] }

private def req (sv : SpecVia) (tv : TargetVia) : Request :=
  ⟨"'a'", "{\"a\": 1}", sv, tv, none, none, false⟩

-- all hypotheses of `c19_output` hold for a concrete request, for each delivery
example : (req .argv .argv).FilesOk toyX ∧ (req (.file "/tmp/s.glom") (.file "/tmp/t.json")).FilesOk toyX := by
  simp [Request.FilesOk, req, toyX]
example : refLoaderKind ((req .argv .argv).targetFormat.getD "json") = some "json" ∧
    toyX.load "json" (req .argv .argv).targetText = .ok "A1" ∧
    refSpecOf toyX (req .argv .argv).specText = .ok "a" ∧ toyX.glom "A1" "a" = .ok "1" ∧
    refRender toyX "1" 2 false = some "1\n" := by decide +kernel
example : cliMain genFacts toyX (req .argv .argv).argv ((req .argv .argv).world "junk" true) = .exit 0 "1\n" ∧
    cliMain genFacts toyX (req (.file "/tmp/s.glom") .piped).argv ((req (.file "/tmp/s.glom") .piped).world "" true) = .exit 0 "1\n" ∧
    cliMain genFacts toyX (req .argv .dashArg).argv ((req .argv .dashArg).world "" true) = .exit 0 "1\n" ∧
    cliMain genFacts toyX (req (.file "/tmp/s.glom") (.file "/tmp/t.json")).argv ⟨"junk", false, none⟩ = .exit 0 "1\n" := by
  decide +kernel
-- without `targetText ≠ "-"`: a positional `-` means standard input, not the text "-"
example : cliMain genFacts toyX ⟨["'a'", "-"], none, none, none, none, none, false⟩ ⟨"{\"a\": 1}", true, none⟩ = .exit 0 "1\n" := by
  decide +kernel
-- without non-empty target text: an empty target text is replaced by `{}` (no loader is called)
example : cliMain genFacts toyX ⟨["'a'", ""], none, none, none, none, none, false⟩ ⟨"", true, none⟩
    = .exit 1 "PathAccessError: could not access\n" := by decide +kernel
-- GlomError / malformed target / unreadable file / malformed spec
example : cliMain genFacts toyX ⟨["zz", "{\"a\": 1}"], none, none, none, none, none, false⟩ ⟨"", true, none⟩
      = .exit 1 "PathAccessError: could not access\n" ∧
    cliMain genFacts toyX ⟨["a", "{\"a\":"], none, none, none, none, none, false⟩ ⟨"", true, none⟩
      = .usage (.loadError "JSONDecodeError") ∧
    cliMain genFacts toyX ⟨["a"], some "/nonexistent", none, none, none, none, false⟩ ⟨"", true, none⟩
      = .usage .targetFileUnreadable ∧
    -- a target file / a standard input that is not UTF-8
    cliMain genFacts toyX ⟨["a"], some "/tmp/latin1.json", none, none, none, none, false⟩ ⟨"", true, none⟩
      = .usage .targetFileUnreadable ∧
    cliMain genFacts toyX ⟨["a", "-"], none, none, none, none, none, false⟩ ⟨"", true, some "UnicodeDecodeError"⟩
      = .usage .stdinUnreadable ∧
    cliMain genFacts toyX ⟨["a"], none, none, none, none, none, false⟩ ⟨"", false, some "UnicodeDecodeError"⟩
      = .usage .stdinUnreadable ∧
    cliMain genFacts toyX ⟨["{", "{\"a\": 1}"], none, none, none, none, none, false⟩ ⟨"", true, none⟩
      = .exc "SyntaxError" := by decide +kernel
-- `LoadErrOk` / `ReadErrOk` hold for the toy externals …
example : LoadErrOk genFacts toyX :=
  loadErrOk_of_exception c19_handlers_name_exception (fun k t c h => by
    have : c = "JSONDecodeError" := by
      simp only [toyX] at h; split at h <;> simp_all
    subst this; decide +kernel)
-- … and are needed.  Without `LoadErrOk`: a loader that raised a class outside `Exception`
-- would leave `main` with it (`except Exception` does not catch a bare BaseException)
example : cliMain genFacts { toyX with load := fun _ _ => .error "KeyboardInterrupt" }
      ⟨["a", "{\"a\":"], none, none, none, none, none, false⟩ ⟨"", true, none⟩
    = .exc "KeyboardInterrupt" := by decide +kernel
-- without `catchWF`: the handler narrowed to the loader's "parse error" class lets the other
-- classes the same loader raises on text escape (PyYAML's timestamp constructor: ValueError)
example : cliMain { genFacts with loadCatch := [("json", ["JSONDecodeError"])] }
        { toyX with load := fun _ _ => .error "RecursionError" }
        ⟨["a", "[[[["], none, none, none, none, none, false⟩ ⟨"", true, none⟩
      = .exc "RecursionError" ∧
    WF { genFacts with loadCatch := [("json", ["ValueError"]), ("yaml", ["YAMLError"]), ("yml", ["YAMLError"]),
        ("toml", ["TOMLDecodeError"]), ("python", ["ValueError", "SyntaxError"])] } = false ∧
    -- … while a handler that names a class above every probed class is accepted
    catchWF genFacts.targetLoaders [("json", ["ValueError", "RuntimeError"]), ("yaml", ["Exception"]),
        ("yml", ["BaseException", "Exception"]), ("toml", ["ValueError", "RecursionError"]),
        ("python", ["ValueError", "SyntaxError", "TypeError", "MemoryError", "RecursionError"])]
      genFacts.loaderRaises = true := by decide +kernel
-- without `ReadErrOk` / `readCatchWF`: `except OSError` alone lets the UnicodeDecodeError of a
-- file that is not UTF-8 leave `main` (glom before dbce23c)
example : cliMain { genFacts with targetReadCatch := ["OSError"] } toyX
      ⟨["a"], some "/tmp/latin1.json", none, none, none, none, false⟩ ⟨"", true, none⟩
    = .exc "UnicodeDecodeError" ∧
    cliMain { genFacts with stdinReadCatch := [] } toyX
      ⟨["a", "-"], none, none, none, none, none, false⟩ ⟨"", true, some "UnicodeDecodeError"⟩
    = .exc "UnicodeDecodeError" ∧
    WF { genFacts with targetReadCatch := ["OSError"] } = false ∧
    -- … while naming a class above UnicodeError is as good
    WF { genFacts with targetReadCatch := ["OSError", "ValueError"], stdinReadCatch := ["Exception"] } = true := by
  decide +kernel
-- `ReprOk` holds for the toy externals on a bare word
example : toyX.parse "python-literal" (toyX.repr "a") = .ok (toyX.strSpec "a") := by decide +kernel
-- `c19_model_no_exec` without its hypothesis: under --spec-format python-full the outcome DOES depend on the evaluator
example : cliMain genFacts toyX ⟨["a", "{\"a\": 1}"], none, none, none, some "python-full", none, false⟩ ⟨"", true, none⟩
    = .exc "NoOracle" := by decide +kernel

end Glom.Props.C19
