import Glom.Lemmas.C01Reg
import Glom.Lemmas.C01Py
import Glom.Model.C01Env2
/-
  C01 — Path access returns the addressed object or pinpoints the failing segment.

  Property theorems only; helper lemmas are in `Glom/Lemmas/C01*.lean`.
  Every theorem is for *all* heaps (any sharing, any cycles), all targets, all
  step lists of any length, **every handler table** (type map + fuzzy types),
  **every handler semantics** (`env.hsem`: what a registered callable does),
  every class-level behaviour of the target classes, and all environments whose
  extracted facts satisfy the decidable predicate `WF2`; `c01_facts_wf`
  discharges `WF2` for the facts regenerated from /repo on this run.

  The registry is state: `_t_eval` consults `get_handler`, which memoises.  The
  theorems carry the hypothesis that the memo is *coherent* with the table
  (`Reg.coherent`), `c01_memo_invariant` shows every `register` / `glom` call
  re-establishes it, so `c01_history_refines` needs it only for the first call —
  and a fresh registry has an empty memo.
-/
namespace Glom.Props.C01
open Glom Glom.C01

/-- **Facts obligation** (re-checked on every run against the regenerated
    tables): the `.`/`[`/`P` branches of `_t_eval` perform getattr / subscription /
    the registered handler and their `except` clauses name exactly the lookup
    exceptions of that access; PathAccessError's MRO contains GlomError, KeyError,
    IndexError and AttributeError; `register` / `register_op` drop the memo of
    resolved handlers as a whole, `get_handler` looks the exact type up first and
    memoises successes only; `_get_sequence_item` is `target[int(index)]`. -/
theorem c01_facts_wf : (∀ uc info ue hsem, WF2 (genEnv2 uc info ue hsem) = true) ∧ factsOK = true := by
  refine ⟨?_, by decide⟩
  intro uc info ue hsem
  have hm : ClassTable.mro (Generated.excTable ++ ue) "PathAccessError" =
      ClassTable.mro Generated.excTable "PathAccessError" := by
    unfold ClassTable.mro
    rw [List.find?_append]
    have : (Generated.excTable.find? (·.1 == "PathAccessError")).isSome = true := by decide
    cases hf : Generated.excTable.find? (·.1 == "PathAccessError") with
    | none => rw [hf] at this; contradiction
    | some p => simp
  have : WF2 (genEnv2 uc info ue hsem) = WF2 (genEnv2 [] [] [] (fun _ _ _ _ => .beyond)) := by
    simp only [WF2, catches2, paeFlags2, genEnv2, Env.dispatchOf, hm, List.append_nil]
  rw [this]; decide

/-- Whatever PathAccessError the model's `_t_eval` ends with, the observation of it
    is a GlomError and catchable as KeyError, IndexError and AttributeError. -/
theorem c01_pae_bases (env : Env) (hwf : WF2 env = true) (o : Out2) (k : Nat) (c : String)
    (g ke ie ae eo po : Bool) (a : Option Val)
    (ho : observe2 env o = .pae k c g ke ie ae eo po a) :
    g = true ∧ ke = true ∧ ie = true ∧ ae = true := by
  obtain ⟨_, _, _, hflags⟩ := WF2_parts hwf
  unfold observe2 at ho
  split at ho <;> try (simp at ho)
  rw [hflags] at ho
  simp only at ho
  obtain ⟨_, _, h1, h2, h3, h4, _⟩ := ho
  exact ⟨h1.symm, h2.symm, h3.symm, h4.symm⟩

/-- **Refinement.** `_t_eval` on the flat ops tuple (index stepping by 2,
    `part_idx = i // 2`, the registry threaded through the loop) is the
    left-to-right walk under the table in force: the same object on success (the
    same `Val`, i.e. the same address — identity, not a copy); a PathAccessError
    with the index of the first failing segment and the underlying exception on a
    lookup failure; any other exception unchanged; it touches exactly the
    segments the walk touches, the access-logging objects record exactly the
    walk's log; and it leaves the registry with the same table. -/
theorem c01_refines_walk (env : Env) (hwf : WF2 env = true) (r : Reg)
    (hc : r.coherent env.k.ct = true) (h : Heap)
    (steps : List (String × Val)) (hs : wfSteps steps = true) (target : Val) :
    tEval2 env h (Val.sent "T" :: flatOfSteps steps) target r =
      ⟨resOfWalk (walk2 env r.tbl h steps 0 target), walkTouched2 env r.tbl h steps 0 target,
       walkReg env h steps target r, walkLog2 env r.tbl h steps target⟩ := by
  have := tLoop2_eq_walk2 env hwf h (Val.sent "T") steps [] target [] r [] hs hc
  simpa [tEval2] using this

/-- **The memo is invisible.** Whatever history of `register` / `glom` calls the
    model runs from a coherent registry, the registry it leaves is coherent again,
    and its table is the one the registrations alone produce. -/
theorem c01_memo_invariant (env : Env) (hwf : WF2 env = true) (h : Heap) :
    ∀ (evs : List Event) (r : Reg), r.coherent env.k.ct = true → wfEvents evs = true →
    (histReg env h r evs).coherent env.k.ct = true ∧
    (histReg env h r evs).tbl = histTable r.tbl evs := by
  intro evs
  induction evs with
  | nil => intro r hc _; exact ⟨hc, rfl⟩
  | cons e es ih =>
    intro r hc hw
    cases e with
    | register c hn ex =>
      simp only [wfEvents] at hw
      simp only [histReg, histTable]
      exact ih _ (register_coherent r env.k.ct c hn ex) hw
    | glom steps tgt =>
      simp only [wfEvents, Bool.and_eq_true] at hw
      simp only [histReg, histTable]
      rw [c01_refines_walk env hwf r hc h steps hw.1 tgt]
      obtain ⟨ht, hc'⟩ := walkReg_coherent env h steps tgt r hc
      obtain ⟨h1, h2⟩ := ih _ hc' hw.2
      exact ⟨h1, by rw [h2, ht]⟩
    | probe tgt =>
      simp only [wfEvents] at hw
      simp only [histReg, histTable]
      obtain ⟨ht, hc'⟩ := probe_coherent r env.k.ct (tgt.clsName h) hc
      obtain ⟨h1, h2⟩ := ih _ hc' hw
      exact ⟨h1, by rw [h2, ht]⟩

/-- **Histories.** For every sequence of `register` / `glom` calls on one
    registry that starts coherent (a fresh one does), every `glom` call returns
    what the walk gives under the table *as it is at the time of that call* —
    whatever was accessed, resolved and memoised before. -/
theorem c01_history_refines (env : Env) (hwf : WF2 env = true) (h : Heap) :
    ∀ (evs : List Event) (r : Reg), r.coherent env.k.ct = true → wfEvents evs = true →
    (runHistory env h r evs).map (fun o => (o.res, o.touched, o.log)) =
      (refHistory env h r.tbl evs).map (fun p => (resOfWalk p.w, p.touched, p.log)) := by
  intro evs
  induction evs with
  | nil => intro r _ _; rfl
  | cons e es ih =>
    intro r hc hw
    cases e with
    | register c hn ex =>
      simp only [runHistory, refHistory]
      simp only [wfEvents] at hw
      exact ih (r.register c hn ex) (register_coherent r env.k.ct c hn ex) hw
    | glom steps tgt =>
      simp only [wfEvents, Bool.and_eq_true] at hw
      simp only [runHistory, refHistory, refCall, List.map_cons]
      rw [c01_refines_walk env hwf r hc h steps hw.1 tgt]
      obtain ⟨ht, hc'⟩ := walkReg_coherent env h steps tgt r hc
      simp only
      rw [ih _ hc' hw.2, ht]
    | probe tgt =>
      simp only [wfEvents] at hw
      simp only [runHistory, refHistory]
      obtain ⟨ht, hc'⟩ := probe_coherent r env.k.ct (tgt.clsName h) hc
      rw [ih _ hc' hw, ht]

/-- Success returns the object reached by applying the segments left to right. -/
theorem c01_ok_iff_reaches (env : Env) (hwf : WF2 env = true) (r : Reg)
    (hc : r.coherent env.k.ct = true) (h : Heap)
    (steps : List (String × Val)) (hs : wfSteps steps = true) (target v : Val) :
    (tEval2 env h (Val.sent "T" :: flatOfSteps steps) target r).res = .ok v ↔
      Reaches2 env r.tbl h target steps v := by
  rw [c01_refines_walk env hwf r hc h steps hs]
  constructor
  · intro hr
    cases hw : walk2 env r.tbl h steps 0 target with
    | ok v' => rw [hw] at hr; simp [resOfWalk] at hr; subst hr; exact walk2_ok_reaches _ _ _ _ _ _ _ hw
    | fail k e => rw [hw] at hr; simp [resOfWalk] at hr
    | escapes k e => rw [hw] at hr; simp [resOfWalk] at hr
    | noHandler k => rw [hw] at hr; simp [resOfWalk] at hr
    | beyond k => rw [hw] at hr; simp [resOfWalk] at hr
    | notAccess k => rw [hw] at hr; simp [resOfWalk] at hr
  · intro hr; simp only; rw [reaches2_walk_ok env r.tbl h hr 0]; rfl

/-- Failure pinpoints the first segment that cannot be accessed: a
    PathAccessError with part index `k` carrying the underlying exception `e`
    is raised **iff** segments `0..k-1` succeed one after the other and segment
    `k`, applied to the value they reach with the access in force for it, raises
    the lookup exception `e`. -/
theorem c01_pae_first (env : Env) (hwf : WF2 env = true) (r : Reg)
    (hc : r.coherent env.k.ct = true) (h : Heap)
    (steps : List (String × Val)) (hs : wfSteps steps = true) (target : Val) (k : Nat) (e : PyExc) :
    (tEval2 env h (Val.sent "T" :: flatOfSteps steps) target r).res = .error (.pae k e) ↔
    (k < steps.length ∧
     ∃ u, Reaches2 env r.tbl h target (steps.take k) u ∧
       ∃ s, steps[k]? = some s ∧ refStep env r.tbl h s.1 u s.2 = .fail e) := by
  rw [c01_refines_walk env hwf r hc h steps hs]
  constructor
  · intro hr
    cases hw : walk2 env r.tbl h steps 0 target with
    | fail k' e' =>
      rw [hw] at hr; simp [resOfWalk] at hr
      obtain ⟨rfl, rfl⟩ := hr
      exact walk2_fail_first env r.tbl h steps target k' e' hw
    | ok v' => rw [hw] at hr; simp [resOfWalk] at hr
    | escapes k e => rw [hw] at hr; simp [resOfWalk] at hr
    | noHandler k => rw [hw] at hr; simp [resOfWalk] at hr
    | beyond k => rw [hw] at hr; simp [resOfWalk] at hr
    | notAccess k => rw [hw] at hr; simp [resOfWalk] at hr
  · rintro ⟨_, u, hu, s, hsk, hf⟩
    simp only
    rw [walk2_stops_at env r.tbl h steps target u k s (.fail e) (.fail k e) hu hsk hf rfl]
    rfl

/-- No later segment is touched: on a failure at `k` (or an exception escaping
    from segment `k`) exactly the accesses `0, 1, …, k` ran, in that order; on
    success exactly `0 … n-1`; a segment for whose value no handler is registered
    is not applied at all (`0 … k-1` ran); and what the access-logging objects
    record is the log of the path cut after the segment that ended the walk — the
    later segments contribute nothing. -/
theorem c01_prefix_only (env : Env) (hwf : WF2 env = true) (r : Reg)
    (hc : r.coherent env.k.ct = true) (h : Heap)
    (steps : List (String × Val)) (hs : wfSteps steps = true) (target : Val) :
    let out := tEval2 env h (Val.sent "T" :: flatOfSteps steps) target r
    (∀ k e, out.res = .error (.pae k e) → out.touched.map (·.1) = List.range (k + 1)) ∧
    (∀ v, out.res = .ok v → out.touched.map (·.1) = List.range steps.length) ∧
    (∀ k e, walk2 env r.tbl h steps 0 target = .escapes k e →
      out.touched.map (·.1) = List.range (k + 1)) ∧
    (∀ k, walk2 env r.tbl h steps 0 target = .noHandler k →
      out.touched.map (·.1) = List.range k) ∧
    (∀ k, (walk2 env r.tbl h steps 0 target).idx = some k →
      out.log = walkLog2 env r.tbl h (steps.take (k + 1)) target) := by
  simp only
  rw [c01_refines_walk env hwf r hc h steps hs]
  have hidx := walkTouched2_idx env r.tbl h steps 0 target
  refine ⟨?_, ?_, ?_, ?_, fun k hk => by simpa using walkLog2_take env r.tbl h steps 0 target k hk⟩
  · intro k e hr
    cases hw : walk2 env r.tbl h steps 0 target with
    | fail k' e' =>
      rw [hw] at hr hidx; simp [resOfWalk] at hr
      obtain ⟨rfl, rfl⟩ := hr
      simpa [List.range_eq_range'] using hidx
    | ok v' => rw [hw] at hr; simp [resOfWalk] at hr
    | escapes k e => rw [hw] at hr; simp [resOfWalk] at hr
    | noHandler k => rw [hw] at hr; simp [resOfWalk] at hr
    | beyond k => rw [hw] at hr; simp [resOfWalk] at hr
    | notAccess k => rw [hw] at hr; simp [resOfWalk] at hr
  · intro v hr
    cases hw : walk2 env r.tbl h steps 0 target with
    | ok v' => rw [hw] at hidx; simpa [List.range_eq_range'] using hidx
    | fail k e => rw [hw] at hr; simp [resOfWalk] at hr
    | escapes k e => rw [hw] at hr; simp [resOfWalk] at hr
    | noHandler k => rw [hw] at hr; simp [resOfWalk] at hr
    | beyond k => rw [hw] at hr; simp [resOfWalk] at hr
    | notAccess k => rw [hw] at hr; simp [resOfWalk] at hr
  · intro k e hw
    rw [hw] at hidx; simpa [List.range_eq_range'] using hidx
  · intro k hw
    rw [hw] at hidx; simpa [List.range_eq_range'] using hidx

/-- What can come out at all: the object, a PathAccessError, an exception that is
    not a lookup exception of the access that raised it (unchanged),
    UnregisteredTarget — never a malformed-spec error; inside the modelled domain
    (`inDomain`) never `beyond`. -/
theorem c01_only_pae (env : Env) (hwf : WF2 env = true) (r : Reg)
    (hc : r.coherent env.k.ct = true) (h : Heap)
    (steps : List (String × Val)) (hs : wfSteps steps = true) (target : Val)
    (hd : (walk2 env r.tbl h steps 0 target).inDomain = true) :
    match (tEval2 env h (Val.sent "T" :: flatOfSteps steps) target r).res with
    | .ok _ | .error (.pae _ _) | .error (.raised _) | .error .unregistered => True
    | _ => False := by
  rw [c01_refines_walk env hwf r hc h steps hs]
  cases hw : walk2 env r.tbl h steps 0 target <;> simp [resOfWalk] <;>
    (rw [hw] at hd; simp [WalkRes2.inDomain] at hd)

/-- The only exceptions the model's `_t_eval` lets through unchanged: if it ends
    with `raised e`, then `e` was raised by the access of some segment `k` after the
    segments before it succeeded, it is not a lookup exception of that access — and
    if that segment is a plain one, applied with a registered handler (whatever the
    handler is), `e` is not an `Exception` at all. -/
theorem c01_handler_failure_is_pae (env : Env) (hwf : WF2 env = true) (r : Reg)
    (hc : r.coherent env.k.ct = true) (h : Heap)
    (steps : List (String × Val)) (hs : wfSteps steps = true) (target : Val) (e : PyExc)
    (hr : (tEval2 env h (Val.sent "T" :: flatOfSteps steps) target r).res = .error (.raised e)) :
    ∃ k u st, steps[k]? = some st ∧ Reaches2 env r.tbl h target (steps.take k) u ∧
      refStep env r.tbl h st.1 u st.2 = .escapes e ∧
      (st.1 = "P" → env.excTable.isSub e.cls "Exception" = false) := by
  rw [c01_refines_walk env hwf r hc h steps hs] at hr
  cases hw : walk2 env r.tbl h steps 0 target with
  | escapes k e' =>
    rw [hw] at hr; simp [resOfWalk] at hr; subst hr
    obtain ⟨_, u, hu, st, hst, hesc⟩ := walk2_escapes_first env r.tbl h steps target k e' hw
    refine ⟨k, u, st, hst, hu, hesc, ?_⟩
    intro hp
    obtain ⟨op, arg⟩ := st
    simp only at hp; subst hp
    have h1 : ("P" == ".") = false := by decide
    have h2 : ("P" == "[") = false := by decide
    simp only [refStep, h1, h2, beq_self_eq_true, if_true, Bool.false_eq_true, if_false] at hesc
    split at hesc
    · contradiction
    · cases hnn : r.tbl.nearest env.k.ct (u.clsName h) with
      | none => rw [hnn] at hesc; simp at hesc
      | some hn =>
        rw [hnn] at hesc
        simp only at hesc
        cases ha : env.applyHandler h hn u arg with
        | ok v => rw [ha] at hesc; simp [classify] at hesc
        | beyond => rw [ha] at hesc; simp [classify] at hesc
        | err e2 =>
          rw [ha] at hesc
          simp only [classify] at hesc
          split at hesc
          · contradiction
          · rename_i hk
            injection hesc with hesc; subst hesc
            simpa [lookupKinds, Env.isKind, h1, h2] using hk
  | ok v => rw [hw] at hr; simp [resOfWalk] at hr
  | fail k e => rw [hw] at hr; simp [resOfWalk] at hr
  | noHandler k => rw [hw] at hr; simp [resOfWalk] at hr
  | beyond k => rw [hw] at hr; simp [resOfWalk] at hr
  | notAccess k => rw [hw] at hr; simp [resOfWalk] at hr

/-- **An accessor written with glom.** When the accessor of a segment (a property, a
    `__getattr__`, a registered handler) makes a nested glom call and that call fails, its
    error — the inner PathAccessError, or any other GlomError — is the *lookup failure of that
    segment*: with the exception table of this run, an attribute step and a plain segment turn
    the inner PathAccessError into `fail` (so, by `c01_pae_first`, the model raises the outer
    PathAccessError with the outer index, carrying the inner error), and a plain segment does so
    for every GlomError class. -/
theorem c01_nested_glom_error_wrapped (uc : ClassTable) (info : List (String × ClsInfo))
    (ue : ClassTable) (hsem : String → Heap → Val → Val → Acc) :
    (∀ op ∈ [".", "P"], classify (genEnv2 uc info ue hsem) op (.err ⟨"PathAccessError"⟩) =
        .fail ⟨"PathAccessError"⟩) ∧
    (∀ c ∈ ["GlomError", "PathAccessError", "UnregisteredTarget", "BadSpec", "CoalesceError",
            "MatchError", "TypeMatchError", "CheckError", "FoldError", "PathAssignError", "PathDeleteError"],
      classify (genEnv2 uc info ue hsem) "P" (.err ⟨c⟩) = .fail ⟨c⟩) := by
  have hm : ∀ c, (Generated.excTable.find? (·.1 == c)).isSome = true →
      ClassTable.mro (Generated.excTable ++ ue) c = ClassTable.mro Generated.excTable c := by
    intro c hc
    unfold ClassTable.mro
    rw [List.find?_append]
    cases hf : Generated.excTable.find? (·.1 == c) with
    | none => rw [hf] at hc; contradiction
    | some p => simp
  have hfail : ∀ (op c : String), (Generated.excTable.find? (·.1 == c)).isSome = true →
      (lookupKinds op).any (fun b => ClassTable.isSub Generated.excTable c b) = true →
      classify (genEnv2 uc info ue hsem) op (.err ⟨c⟩) = .fail ⟨c⟩ := by
    intro op c hc hk
    have : (genEnv2 uc info ue hsem).isKind (lookupKinds op) ⟨c⟩ = true := by
      simp only [Env.isKind, genEnv2, ClassTable.isSub, hm c hc]
      exact hk
    simp [classify, this]
  constructor
  · intro op hop
    simp only [List.mem_cons, List.not_mem_nil, or_false] at hop
    rcases hop with rfl | rfl
    · exact hfail _ _ (by decide) (by decide)
    · exact hfail _ _ (by decide) (by decide)
  · intro c hc
    simp only [List.mem_cons, List.not_mem_nil, or_false] at hc
    rcases hc with rfl | rfl | rfl | rfl | rfl | rfl | rfl | rfl | rfl | rfl | rfl <;>
      exact hfail _ _ (by decide) (by decide)

/-- A dotted string denotes the same path as `Path(seg₀, …, segₙ)`: for segments
    free of `'.'` — and, when `PATH_STAR` is on, other than `*` / `**` —
    `Path.from_text('.'.join(segs))` builds exactly the steps of `Path(*segs)`; with
    `PATH_STAR` off every segment is a plain one. -/
theorem c01_text_eq_path (star : Bool) (segs : List (List Char)) (hne : segs ≠ [])
    (hnd : ∀ s ∈ segs, '.' ∉ s) (hns : star = true → ∀ s ∈ segs, s ≠ ['*'] ∧ s ≠ ['*', '*']) :
    stepsOfParts2 (partsOfTextS star (intercalateDot segs)) =
      segs.map (fun s => ("P", Val.str (String.ofList s))) := by
  unfold partsOfTextS
  rw [splitDot_intercalate segs hne hnd]
  have : segs.map (fun seg =>
      if star && seg = ['*'] then Part2.t [("x", Val.none)]
      else if star && seg = ['*', '*'] then Part2.t [("X", Val.none)]
      else Part2.seg (Val.str (String.ofList seg))) =
      (segs.map (fun s => Val.str (String.ofList s))).map Part2.seg := by
    rw [List.map_map]
    apply List.map_congr_left
    intro s hs
    cases star with
    | false => simp
    | true => simp [(hns rfl s hs).1, (hns rfl s hs).2]
  rw [this, stepsOfParts2_segs, List.map_map]
  rfl

/-- `Path('a', T.b, Path('c', Path(T.d)))`: parts are flattened in order — a plain
    part is one `P` step, a `T` part contributes its own steps, a nested Path the
    steps of its parts, at any depth and in any position (first part included). -/
theorem c01_mixed (a b ps : List Part2) (v : Val) (st : List (String × Val)) :
    stepsOfParts2 (a ++ b) = stepsOfParts2 a ++ stepsOfParts2 b ∧
    stepsOfParts2 (.path ps :: b) = stepsOfParts2 ps ++ stepsOfParts2 b ∧
    stepsOfParts2 (.seg v :: b) = ("P", v) :: stepsOfParts2 b ∧
    stepsOfParts2 (.t st :: b) = st ++ stepsOfParts2 b := by
  refine ⟨stepsOfParts2_append a b, ?_, ?_, ?_⟩ <;> simp [stepsOfParts2, stepsOfPart2]

/-- **Checker theorem** — the form in which the property is also evaluated on
    the implementation's observations by the correspondence driver: for every
    history whose walks stay inside the modelled domain, the model's observations
    (result, identity token of a class attribute, error, access log) satisfy
    `checkC01h`. -/
theorem c01_model_checks (env : Env) (hwf : WF2 env = true) (h : Heap) :
    ∀ (evs : List Event) (r : Reg), r.coherent env.k.ct = true → wfEvents evs = true →
    (refHistory env h r.tbl evs).all (fun p => p.w.inDomain) = true →
    checkC01h env h r.tbl evs
      ((runHistory env h r evs).map (fun o => (observe2 env o, o.log))) = true := by
  obtain ⟨_, _, _, hflags⟩ := WF2_parts hwf
  intro evs
  induction evs with
  | nil => intro r _ _ _; rfl
  | cons e es ih =>
    intro r hc hw hd
    cases e with
    | register c hn ex =>
      simp only [wfEvents] at hw
      simp only [refHistory] at hd
      simp only [checkC01h, runHistory, refHistory]
      exact ih (r.register c hn ex) (register_coherent r env.k.ct c hn ex) hw hd
    | glom steps tgt =>
      simp only [wfEvents, Bool.and_eq_true] at hw
      simp only [refHistory, List.all_cons, Bool.and_eq_true] at hd
      simp only [checkC01h, runHistory, refHistory, List.map_cons, checkAll, Bool.and_eq_true]
      rw [c01_refines_walk env hwf r hc h steps hw.1 tgt]
      obtain ⟨ht, hc'⟩ := walkReg_coherent env h steps tgt r hc
      constructor
      · simp only [checkOne, refCall, beq_self_eq_true, Bool.and_true]
        cases hwk : walk2 env r.tbl h steps 0 tgt with
        | ok v =>
          simp only [resOfWalk, observe2, valMatch]
          cases htk : tokenOf v <;> simp
        | fail k e => simp [resOfWalk, observe2, hflags]
        | escapes k e => simp [resOfWalk, observe2]
        | noHandler k => simp [resOfWalk, observe2]
        | beyond k => rw [refCall, hwk] at hd; simp [WalkRes2.inDomain] at hd
        | notAccess k => rw [refCall, hwk] at hd; simp [WalkRes2.inDomain] at hd
      · have := ih _ hc' hw.2 (by rw [ht]; exact hd.2)
        simp only [checkC01h, ht] at this
        exact this
    | probe tgt =>
      simp only [wfEvents] at hw
      simp only [refHistory] at hd
      simp only [checkC01h, runHistory, refHistory]
      obtain ⟨ht, hc'⟩ := probe_coherent r env.k.ct (tgt.clsName h) hc
      have := ih _ hc' hw (by rw [ht]; exact hd)
      simp only [checkC01h, ht] at this
      exact this

/-! ### the extended access kernel (`int()`, class-level behaviour) -/

/-- `int()` on a string of decimal digits (of any Unicode decimal block, as
    tokens) within the digit limit is the number they denote; one digit more than
    the limit is rejected. -/
theorem c01_int_digits (m : Nat) (d : Nat) (ds : List Nat) :
    intOfToks m ((d :: ds).map Tok.dig) =
      if m != 0 && ds.length + 1 > m then none else some ((ofDigits ds d : Nat) : Int) :=
  intOfToks_digits m d ds

/-- whitespace before and after the number is ignored, a sign negates -/
theorem c01_int_space_sign (m : Nat) (d : Nat) (ds : List Nat) (pre post : List Tok)
    (hpre : allSp pre = true) (hpost : allSp post = true) (neg : Bool) :
    intOfToks m (pre ++ Tok.sign neg :: (d :: ds).map Tok.dig ++ post) =
      (intOfToks m ((d :: ds).map Tok.dig)).map (fun i => if neg then -i else i) :=
  intOfToks_space_sign m d ds pre post hpre hpost neg

/-- a single underscore between two digits is ignored; a trailing or doubled one is rejected -/
theorem c01_int_underscore (m : Nat) (d d' : Nat) :
    intOfToks m [Tok.dig d, Tok.us, Tok.dig d'] = intOfToks m [Tok.dig d, Tok.dig d'] ∧
    intOfToks m [Tok.dig d, Tok.us] = none ∧
    intOfToks m [Tok.us, Tok.dig d] = none ∧
    intOfToks m [Tok.dig d, Tok.us, Tok.us, Tok.dig d'] = none := by
  refine ⟨?_, ?_, ?_, ?_⟩ <;> simp [intOfToks, dropSp, digitsGo, allSp]

/-- the extended `int()` reads every string of the first generation's subset
    `[+-]?[0-9]+` (within the digit limit) as the same number — with the interpreter
    tables of this run (a per-run obligation: `asciiOK` is decided on them) -/
theorem c01_int_extends_ascii (s : String) (i : Int)
    (hlim : s.toList.length ≤ Generated.c01IntMaxStrDigits) (h : pyIntOfStr s = some i) :
    genRt.intOfStr s = some i :=
  intOfStr_extends genRt (by decide) s i (Or.inr hlim) h

/-- lookup order of `getattr`: a data descriptor of the class (property) wins over
    the instance; the instance wins over class attributes and over `__getattr__`;
    without a property and without `__getattr__` the only failure is AttributeError. -/
theorem c01_getattr_order (k : KEnv) (h : Heap) (cur : Val) (n : String)
    (hm : modelled h cur = true) :
    (∀ b v, k.findMro (cur.clsName h) (fun i => assocGet i.props n) = some b →
      runBehav k h b cur (.str n) = .ok v → pyGetattr2 k h cur (.str n) = .ok v) ∧
    (∀ v, k.findMro (cur.clsName h) (fun i => assocGet i.props n) = none →
      k.findMro (cur.clsName h) (fun i => indexOf? i.fields n) = none →
      instAttr h cur n = some v → pyGetattr2 k h cur (.str n) = .ok v) ∧
    (∀ e, k.findMro (cur.clsName h) (fun i => assocGet i.props n) = none →
      k.findMro (cur.clsName h) (·.fallback) = none →
      pyGetattr2 k h cur (.str n) = .err e → e = exc "AttributeError") :=
  ⟨fun b v hp hb => getattr_descriptor_first k h cur n b v hm hp hb,
   fun v hp hf hi => getattr_instance_second k h cur n v hm hp hf hi,
   fun e hp hfb he => getattr_plain_errors k h cur n e hp hfb he⟩

/-- a namedtuple field and its index reach the *same object* -/
theorem c01_namedtuple_field_is_item (k : KEnv) (h : Heap) (a : Nat) (c : String) (xs : List Val)
    (n : String) (i : Nat) (ha : h[a]? = some (.tuple c xs))
    (hnp : k.findMro c (fun ci => assocGet ci.props n) = none)
    (hf : k.findMro c (fun ci => indexOf? ci.fields n) = some i) (hi : i < xs.length) :
    pyGetattr2 k h (.ref a) (.str n) = pyGetitem2 k h (.ref a) (.int i) :=
  getattr_field_eq_item k h a c xs n i ha hnp hf hi

/-- **The extension is conservative.** For classes without class-level behaviour
    and a name that is no class attribute (the bound of the first-generation
    kernel), `getattr` is the first-generation `pyGetattr`; for a scalar key and
    no `__missing__`, subscription is the first-generation `pyGetitem`. -/
theorem c01_kernel_conservative (k : KEnv) (h : Heap) (cur : Val) (hm : modelled h cur = true) :
    (∀ n, k.info = [] → k.hasClassAttr (cur.clsName h) n = false →
      pyGetattr2 k h cur (.str n) = accOf (pyGetattr h cur (.str n))) ∧
    (∀ key, k.info = [] → scalarKey key = true →
      pyGetitem2 k h cur key = accOf (pyGetitem h cur key)) :=
  ⟨fun n hi hn => getattr2_conservative k h cur n hm hi hn,
   fun key hi hk => getitem2_conservative k h cur key hm hi hk⟩

/-! ### non-vacuity: concrete inputs meet every hypothesis -/

private def exHeap : Heap :=
  [ .dict "dict" [(.str "a", .ref 1)],                 -- 0: {'a': [..]}
    .list "list" [.int 10, .ref 2],                    -- 1: [10, row]
    .inst "Row" [("b", .none), ("_tab", .ref 3)],      -- 2: Row(b=None, _tab={...})
    .dict "dict" [(.str "x", .ref 4)],                 -- 3: the private table
    .tuple "Pt" [.int 1, .ref 0],                      -- 4: Pt(a=1, b=<0>)
    .dict "Counter" [] ]                               -- 5: Counter()

private def exClasses : ClassTable :=
  [("Row", ["Row", "Rec", "_ObjStyleKeys", "object"]), ("Pt", ["Pt", "tuple", "_AbstractIterable", "object"]),
   ("Counter", ["Counter", "dict", "_AbstractIterable", "_ObjStyleKeys", "object"])]

private def exInfo : List (String × ClsInfo) :=
  [("Pt", { fields := ["a", "b"], attrs := [("_fields", "const", "")] }), ("Counter", { missing := some (.const (.int 0)) })]

private def exEnv : Env := genEnv2 exClasses exInfo [] (fun _ _ _ _ => .beyond)

private def exSteps : List (String × Val) := [("P", .str "a"), ("P", .str "1"), ("P", .str "b")]

example : WF2 exEnv = true ∧ wfSteps exSteps = true ∧ defaultReg.coherent exEnv.k.ct = true := by decide
example : walk2 exEnv defaultTable exHeap exSteps 0 (.ref 0) = .ok .none := by decide
example : walk2 exEnv defaultTable exHeap [("P", .str "a"), ("P", .str "7"), ("P", .str "b")] 0 (.ref 0)
    = .fail 1 (exc "IndexError") := by decide
example : walk2 exEnv defaultTable exHeap [("P", .str "a"), ("[", .int 1), (".", .str "zz")] 0 (.ref 0)
    = .fail 2 (exc "AttributeError") := by decide
example : (walk2 exEnv defaultTable exHeap exSteps 0 (.ref 0)).inDomain = true := by decide

/-- the seed scenario: `x` is not an attribute of the Row instance; once a
    private-table handler is registered for its *base class* Rec it is reached -/
example : walk2 exEnv defaultTable exHeap [("P", .str "x")] 0 (.ref 2) = .fail 0 (exc "AttributeError") := by
  decide
example : walk2 exEnv (defaultTable.register "Rec" (some (.table "_tab")) false) exHeap
    [("P", .str "x"), ("P", .str " ٠_١ "), ("[", .str "a")] 0 (.ref 2) = .ok (.ref 1) := by decide
/-- an exact registration for Rec does not reach the subclass Row -/
example : walk2 exEnv (defaultTable.register "Rec" (some (.table "_tab")) true) exHeap
    [("P", .str "x")] 0 (.ref 2) = .fail 0 (exc "AttributeError") := by decide
/-- `get=False`: no handler — UnregisteredTarget, the segment is not applied -/
example : walk2 exEnv (defaultTable.register "Rec" (some .off) false) exHeap
    [("P", .str "a"), ("P", .int 1), ("P", .str "x")] 0 (.ref 0) = .noHandler 2 := by decide
/-- class attributes are reached with their identity: the bound method of *this* dict, the
    classmethod of its class, the very tuple in `Pt.__dict__`, the class itself; an access
    on one is outside the domain -/
example : walk2 exEnv defaultTable exHeap [(".", .str "keys")] 0 (.ref 0) = .ok (.sent "bm|r0|keys") := by
  decide
example : walk2 exEnv defaultTable exHeap [(".", .str "fromkeys")] 0 (.ref 3)
    = .ok (.sent "cm|dict|fromkeys") := by decide
example : walk2 exEnv defaultTable exHeap [(".", .str "_fields")] 0 (.ref 4) = .ok (.sent "ca|Pt|_fields") := by
  decide
example : walk2 exEnv defaultTable exHeap [("P", .str "__class__")] 0 (.ref 2) = .ok (.sent "ty|Row") := by
  decide
example : walk2 exEnv defaultTable exHeap [("P", .str "real")] 0 (.int 7) = .ok opaqueVal := by decide
example : walk2 exEnv defaultTable exHeap [(".", .str "__class__"), (".", .str "__name__")] 0 (.ref 2)
    = .beyond 1 := by decide
/-- `__missing__` (Counter) and namedtuple fields -/
example : walk2 exEnv defaultTable exHeap [("P", .str "nope")] 0 (.ref 5) = .ok (.int 0) := by decide
example : walk2 exEnv defaultTable exHeap [(".", .str "b"), ("P", .str "a")] 0 (.ref 4) = .ok (.ref 1) := by
  decide
/-- an accessor written with glom: the handler registered for Rec reads the private table with a
    nested glom call; a missing key is the inner PathAccessError, carried by the *outer* failure at
    the outer index (here 1) — not the inner path, not the inner index 0 -/
example : walk2 exEnv (defaultTable.register "Rec" (some (.glomTable "_tab")) false) exHeap
    [("[", .int 1), ("P", .str "x"), ("P", .int 0)] 0 (.ref 1) = .ok (.int 1) := by decide
example : walk2 exEnv (defaultTable.register "Rec" (some (.glomTable "_tab")) false) exHeap
    [("[", .int 1), ("P", .str "nope"), ("P", .int 0)] 0 (.ref 1) = .fail 1 ⟨"PathAccessError"⟩ := by decide
/-- a plain segment on a namedtuple is an index, so a field name is a ValueError of `int()` -/
example : walk2 exEnv defaultTable exHeap [("P", .str "b")] 0 (.ref 4) = .fail 0 (exc "ValueError") := by
  decide

/-! ### forced hypotheses: the counter-examples without them -/

/-- what the registry would be if `register` only dropped the memo entries of the
    registered type itself -/
private def registerKeepingMemo (r : Reg) (c : String) (hn : Option Handler) (ex : Bool) : Reg :=
  { tbl := r.tbl.register c hn ex, cache := r.cache.filter (·.1 != c) }

private def warmReg : Reg := (defaultReg.getHandler exEnv.k.ct "Row").2

/-- **coherence is forced**: after an access to a Row instance and a registration
    for its base class that keeps the memo, `get_handler` answers the stale
    `getattr`, not the handler the table gives -/
example :
    let r := registerKeepingMemo warmReg "Rec" (some (.table "_tab")) false
    r.coherent exEnv.k.ct = false ∧
    (r.getHandler exEnv.k.ct "Row").1 = some .getattr ∧
    r.tbl.nearest exEnv.k.ct "Row" = some (.table "_tab") := by decide
/-- a `False` remembered by a raise_exc=False lookup is coherent, and the next plain segment
    on that type still ends in UnregisteredTarget (not in a call of `False`) -/
example :
    let r := (defaultReg.register "Rec" (some .off) false).probe exEnv.k.ct "Row"
    r.cache = [("Row", .off)] ∧ r.coherent exEnv.k.ct = true ∧
    (r.getHandler exEnv.k.ct "Row").1 = none := by decide
/-- … while `register` as it is re-establishes it -/
example : (warmReg.register "Rec" (some (.table "_tab")) false).coherent exEnv.k.ct = true := by decide

/-- **`Exception` is forced** in `c01_handler_failure_is_pae`: a handler raising
    KeyboardInterrupt is not an access failure, the exception escapes unchanged -/
example : walk2 exEnv (defaultTable.register "Rec" (some (.raises "KeyboardInterrupt")) false) exHeap
    [("P", .str "x")] 0 (.ref 2) = .escapes 0 ⟨"KeyboardInterrupt"⟩ := by decide

end Glom.Props.C01
