import Glom.Lemmas.C01
import Glom.Model.C01Env
/-
  C01 — Path access returns the addressed object or pinpoints the failing segment.

  Property theorems only; helper lemmas are in `Glom/Lemmas/C01.lean`.
  Every theorem is for *all* heaps (any sharing, any cycles), all targets, all
  step lists of any length, and all environments whose extracted facts satisfy
  the decidable predicate `WF`; `c01_facts_wf` discharges `WF` for the facts
  regenerated from /repo on this run.
-/
namespace Glom.Props.C01
open Glom Glom.C01

/-- **Facts obligation** (re-checked on every run against the regenerated
    tables): the `.`/`[`/`P` branches of `_t_eval` perform getattr / subscription /
    the registered handler and turn every exception those primitives can raise
    into a PathAccessError; PathAccessError's MRO contains GlomError, KeyError,
    IndexError and AttributeError. -/
theorem c01_facts_wf : ∀ uc, WF (genEnv uc) = true := by
  intro uc
  have : WF (genEnv uc) = WF (genEnv []) := rfl
  rw [this]; decide

/-- PathAccessError is a GlomError and catchable as KeyError, IndexError, AttributeError. -/
theorem c01_pae_bases :
    let m := ClassTable.mro Generated.excTable "PathAccessError"
    "GlomError" ∈ m ∧ "KeyError" ∈ m ∧ "IndexError" ∈ m ∧ "AttributeError" ∈ m := by
  decide

/-- **Refinement.** `_t_eval` on the flat ops tuple (index stepping by 2,
    `part_idx = i // 2`) is the left-to-right walk: same object on success
    (the same `Val`, i.e. the same address — identity, not a copy), on failure
    a PathAccessError with the index of the first failing segment and the
    underlying exception; and it touches exactly the segments the walk touches. -/
theorem c01_refines_walk (env : TEnv) (hwf : WF env = true) (h : Heap)
    (steps : List (String × Val)) (hs : wfSteps steps = true) (target : Val) :
    tEval env h (Val.sent "T" :: flatOfSteps steps) target =
      outOfWalk (walk env h steps 0 target) (walkTouched env h steps 0 target) := by
  have := tLoop_eq_walk env hwf h (Val.sent "T") steps [] target [] hs
  simpa [tEval] using this

/-- Success returns the object reached by applying the segments left to right. -/
theorem c01_ok_iff_reaches (env : TEnv) (hwf : WF env = true) (h : Heap)
    (steps : List (String × Val)) (hs : wfSteps steps = true) (target v : Val) :
    (tEval env h (Val.sent "T" :: flatOfSteps steps) target).res = .ok v ↔
      Reaches env h target steps v := by
  rw [c01_refines_walk env hwf h steps hs]
  constructor
  · intro hr
    cases hw : walk env h steps 0 target with
    | ok v' => rw [hw] at hr; simp [outOfWalk] at hr; subst hr; exact walk_ok_reaches _ _ _ _ _ _ hw
    | fail k e => rw [hw] at hr; simp [outOfWalk] at hr
    | unsupported => rw [hw] at hr; simp [outOfWalk] at hr
  · intro hr; rw [reaches_walk_ok env h hr 0]; rfl

/-- Failure pinpoints the first segment that cannot be accessed: a
    PathAccessError with part index `k` carrying the underlying exception `e`
    is raised iff segments `0..k-1` succeed one after the other and segment `k`
    applied to the value they reach raises `e`. -/
theorem c01_pae_first (env : TEnv) (hwf : WF env = true) (h : Heap)
    (steps : List (String × Val)) (hs : wfSteps steps = true) (target : Val) (k : Nat) (e : PyExc)
    (hr : (tEval env h (Val.sent "T" :: flatOfSteps steps) target).res = .error (.pae k e)) :
    k < steps.length ∧
    ∃ u, Reaches env h target (steps.take k) u ∧
      ∃ s, steps[k]? = some s ∧ refAccess env h s.1 u s.2 = some (.error e) := by
  rw [c01_refines_walk env hwf h steps hs] at hr
  cases hw : walk env h steps 0 target with
  | ok v' => rw [hw] at hr; simp [outOfWalk] at hr
  | unsupported => rw [hw] at hr; simp [outOfWalk] at hr
  | fail k' e' =>
    rw [hw] at hr; simp [outOfWalk] at hr
    obtain ⟨rfl, rfl⟩ := hr
    simpa using walk_fail_first env h steps 0 target k' e' hw

/-- No later segment is touched: on a failure at `k` exactly the accesses
    `0, 1, …, k` ran, in that order; on success exactly `0 … n-1`. -/
theorem c01_prefix_only (env : TEnv) (hwf : WF env = true) (h : Heap)
    (steps : List (String × Val)) (hs : wfSteps steps = true) (target : Val) :
    let out := tEval env h (Val.sent "T" :: flatOfSteps steps) target
    (∀ k e, out.res = .error (.pae k e) → out.touched.map (·.1) = List.range (k + 1)) ∧
    (∀ v, out.res = .ok v → out.touched.map (·.1) = List.range steps.length) := by
  simp only
  rw [c01_refines_walk env hwf h steps hs]
  constructor
  · intro k e hr
    cases hw : walk env h steps 0 target with
    | ok v' => rw [hw] at hr; simp [outOfWalk] at hr
    | unsupported => rw [hw] at hr; simp [outOfWalk] at hr
    | fail k' e' =>
      rw [hw] at hr; simp [outOfWalk] at hr
      obtain ⟨rfl, rfl⟩ := hr
      have := walkTouched_fail env h steps 0 target k' e' hw
      simp [outOfWalk, this, List.range_eq_range']
  · intro v hr
    cases hw : walk env h steps 0 target with
    | fail k e => rw [hw] at hr; simp [outOfWalk] at hr
    | unsupported => rw [hw] at hr; simp [outOfWalk] at hr
    | ok v' =>
      have := walkTouched_ok env h steps 0 target v' hw
      simp [outOfWalk, this, List.range_eq_range']

/-- With the default registrations in force no access failure escapes as
    anything but a PathAccessError (no `raised`, no `badSpec`). -/
theorem c01_only_pae (env : TEnv) (hwf : WF env = true) (h : Heap)
    (steps : List (String × Val)) (hs : wfSteps steps = true) (target : Val) :
    match (tEval env h (Val.sent "T" :: flatOfSteps steps) target).res with
    | .ok _ | .error (.pae _ _) | .error .unregistered => True
    | _ => False := by
  rw [c01_refines_walk env hwf h steps hs]
  cases walk env h steps 0 target <;> simp [outOfWalk]

/-- A dotted string denotes the same path as `Path(seg₀, …, segₙ)`: for
    segments free of `'.'` that are not `*`/`**`, `Path.from_text('.'.join(segs))`
    builds exactly the ops tuple of `Path(*segs)`. -/
theorem c01_text_eq_path (segs : List (List Char)) (hne : segs ≠ [])
    (hnd : ∀ s ∈ segs, '.' ∉ s) (hns : ∀ s ∈ segs, s ≠ ['*'] ∧ s ≠ ['*', '*']) :
    flatOfParts (partsOfText (intercalateDot segs)) =
      flatOfParts (segs.map (fun s => Part.seg (Val.str (String.ofList s)))) := by
  unfold partsOfText
  rw [splitDot_intercalate segs hne hnd]
  congr 1
  apply List.map_congr_left
  intro s hs
  simp [(hns s hs).1, (hns s hs).2]

/-- `Path('a', T.b, T['c'])`: parts are flattened in order, each `T` part
    contributing its own steps, each plain part a `P` step. -/
theorem c01_mixed (a b : List Part) :
    stepsOfParts (a ++ b) = stepsOfParts a ++ stepsOfParts b := by
  induction a with
  | nil => rfl
  | cons p r ih => cases p <;> simp [stepsOfParts, ih]

/-- **Checker theorem** — the form in which the property is also evaluated on
    the implementation's observation by the correspondence driver. -/
theorem c01_model_checks (env : TEnv) (hwf : WF env = true) (h : Heap)
    (steps : List (String × Val)) (hs : wfSteps steps = true) (target : Val)
    (hsup : walk env h steps 0 target ≠ .unsupported) :
    let out := tEval env h (Val.sent "T" :: flatOfSteps steps) target
    checkC01 env h steps target (observe env out) (some (touchedAddrs out.touched)) = true := by
  simp only
  rw [c01_refines_walk env hwf h steps hs]
  obtain ⟨_, _, _, hflags⟩ := WF_parts hwf
  unfold checkC01
  cases hw : walk env h steps 0 target with
  | ok v => simp [outOfWalk, observe, isSubseq_refl]
  | fail k e => simp [outOfWalk, observe, hflags, isSubseq_refl]
  | unsupported => exact absurd hw hsup

/-! ### non-vacuity: concrete inputs meet every hypothesis -/

private def exHeap : Heap :=
  [ .dict "dict" [(.str "a", .ref 1)],                 -- 0: {'a': [..]}
    .list "list" [.int 10, .ref 2],                    -- 1: [10, obj]
    .inst "Obj" [("b", .none)] ]                       -- 2: obj.b = None

private def exSteps : List (String × Val) := [("P", .str "a"), ("P", .str "1"), ("P", .str "b")]

example : WF (genEnv []) = true ∧ wfSteps exSteps = true := by decide
example : walk (genEnv []) exHeap exSteps 0 (.ref 0) = .ok .none := by decide
example : walk (genEnv []) exHeap [("P", .str "a"), ("P", .str "7"), ("P", .str "b")] 0 (.ref 0)
    = .fail 1 (exc "IndexError") := by decide
example : walk (genEnv []) exHeap [("P", .str "a"), ("[", .int 1), (".", .str "zz")] 0 (.ref 0)
    = .fail 2 (exc "AttributeError") := by decide
example : walk (genEnv []) exHeap exSteps 0 (.ref 0) ≠ .unsupported := by decide

end Glom.Props.C01
