import Glom.Lemmas.C05TextTree
/-
  C05 — the lift from the rows of `_unpack_stack` to the rendered TEXT: the text
  `format_target_spec_trace` produces for an evaluation tree satisfies the clauses of `checkC05`.

  Domain: every well-formed evaluation tree (`Tree.wf`, as in Props/C05Spine), every width, every
  error text function — the texts of specs, targets and errors are parameters (`Info.spec`,
  `Info.target`, `errText`), with the hypotheses a clause needs on them stated where it needs them:
    * a spec / target text has no line break (`NoNL`; Python's `repr` of the values the model of
      bbrepr covers has none — line breaks inside strings are escaped);
    * (clause 5 only) the lines of an error text carry no `Spec:` label after gutter characters
      (`ErrLabelFree`) — an error text is printed verbatim, so a label line inside it would be read
      as a line of the trace.
-/
set_option linter.unusedSimpArgs false
namespace Glom.Props.C05
open Glom.C05

/-- **clause 2 of `checkC05` holds of the model's text**: the spec of every call the root error
    propagated through (`spine (callsOf evs) e`) is shown on a `Spec:` line, and these lines occur
    in evaluation order — for every well-formed tree, every width, every error texts.
    Hypothesis: spec texts have no line break. -/
theorem c05_text_clause2 (t : Tree) (hwf : t.wf = true) (errText : Nat → Str) (width : Nat)
    (hrepr : ∀ c, c ∈ callsOf (events t) → NoNL c.spec) :
    clause2 (spine (callsOf (events t)) t.err) (traceLines t errText width) = true := by
  have hwf' := hwf
  simp only [Tree.wf, Bool.and_eq_true] at hwf'
  obtain ⟨hc, ho⟩ := hwf'
  have hren := renderable_top t hc
  unfold clause2 traceLines
  rw [traceText_toList]
  -- the `Spec:` lines of the rendered rows are among the `Spec:` lines of the text, in order
  have hsub := SLT_sublist (replay (events t)) errText t.err width _ 1 0 none true hren
    (fun p _ f hf => frames_NoNL_spec t hc hrepr _ f hf)
  apply subseqBy_of_sublist _ _ hsub
  -- and the rendered rows contain the path of the root error, in order
  have hstart : startOK t.err 1 t.root 1 = true := by simp [startOK, Tree.root, segRes, Kids.startsChained]
  have hsp : (spine (callsOf (events t)) t.err).map (·.idx) = spineAt t.err 1 t.root 1 := by
    rw [spine_events t ho]
    simp [spineAt, Tree.root, spineK]
  have key := spine_in_text t hwf width _ _ 1 0 hstart (Nat.le_refl _) hren
  rw [← hsp, subseqBy_map] at key
  rw [← key]
  apply subseqBy_congr
  intro c hcm shown
  have hcc : c ∈ callsOf (events t) := (List.mem_filter.mp hcm).1
  rw [callsOf_events] at hcc
  obtain ⟨f, hf, hs⟩ := call_frameAt t.root none 0 none 1 c hcc
  have hidx : 1 ≤ c.idx := callsK_idx_ge t.root none 1 c hcc
  simp only [MF, (replay_frames t hc).2 c.idx hidx, hf, hs.1, hs.2.2.2]


/-! ### clause 1 -/

/-- **clause 1 of `checkC05` holds of the model's text**: the text begins with a `Target:` line that
    shows the root target.  Hypothesis: the root target's text has no line break. -/
theorem c05_text_clause1 (t : Tree) (hwf : t.wf = true) (errText : Nat → Str) (width : Nat)
    (root : CallInfo) (hroot : (callsOf (events t)).head? = some root) (hrepr : NoNL root.target) :
    clause1 root (traceLines t errText width) = true := by
  have hwf' := hwf
  simp only [Tree.wf, Bool.and_eq_true] at hwf'
  obtain ⟨hc, _⟩ := hwf'
  obtain ⟨r, rest, hrows, hr1⟩ := unpack_root_head t hwf
  -- the root call and its frame
  have hroot' : root ∈ callsK none 1 t.root ∧ root.idx = 1 := by
    rw [callsOf_events] at hroot
    simp only [callsK, Tree.root, List.head?_cons, Option.some.injEq] at hroot
    subst hroot
    exact ⟨by simp [callsK, Tree.root], rfl⟩
  obtain ⟨f, hf, hs⟩ := call_frameAt t.root none 0 none 1 root hroot'.1
  rw [hroot'.2] at hf
  have hfs : (replay (events t))[r.frame]? = some f := by rw [hr1, (replay_frames t hc).2 1 (by omega)]; exact hf
  unfold clause1 traceLines
  rw [traceText_toList, formatTrace_succ]
  simp only [beq_self_eq_true, if_true, hrows, allSegs, hfs]
  -- the first segment is the root's `Target:` line
  have hseg : ∃ more, rowSegs errText t.err width 0 true
      (fun b p l => formatTrace (replay (events t)) errText t.err width ((replay (events t)).size + 1) b (0 + 1) p l) f r none =
      traceLine 0 width "Target".toList (tickOf 0) f.target f.tlen :: more := by
    unfold rowSegs
    rw [if_pos (by simp)]
    exact ⟨_, rfl⟩
  obtain ⟨more, hmore⟩ := hseg
  rw [hmore]
  have hnl : NoNL (traceLine 0 width "Target".toList (tickOf 0) f.target f.tlen) := by
    rw [traceLine_eq]
    apply NoNL_append (Gut_NoNL (Gut_append (Gut_indentOf 0) (Gut_tickOf 0)))
    apply NoNL_append
    · intro c hc hn; subst hn; simp at hc
    · apply formatValue_NoNL
      rw [← hs.2.1]; exact hrepr
  have hlines : (splitLines (joinLines ((traceLine 0 width "Target".toList (tickOf 0) f.target f.tlen :: more) ++
      allSegs (replay (events t)) errText t.err width 0 true
        (fun b p l => formatTrace (replay (events t)) errText t.err width ((replay (events t)).size + 1) b (0 + 1) p l)
        rest (some f.tid)))).head? = some (traceLine 0 width "Target".toList (tickOf 0) f.target f.tlen) := by
    rw [splitLines_joinLines _ (by simp), List.cons_append, List.flatMap_cons, splitLines_noNL _ hnl]
    rfl
  rw [hlines]
  simp only []
  rw [traceLine_eq, afterLabel_gutter _ _ _ (Gut_append (Gut_indentOf 0) (Gut_tickOf 0)), afterLabel_target_self]
  simp only []
  rw [hs.2.1, hs.2.2.1]
  exact showsValue_formatValue _ _ _


/-! ### clause 5 -/

/-- **clause 5 of `checkC05` holds of the model's text**: every `Spec:` line of nesting depth 0 shows
    a call that raised or a completed step of a chain a later step of which raised — nothing that
    returned normally is listed below the failing spec.
    Hypotheses: spec and target texts have no line break; no line of an error text is read as a
    `Spec:` line (an error text is printed verbatim). -/
theorem c05_text_clause5 (t : Tree) (hwf : t.wf = true) (errText : Nat → Str) (width : Nat)
    (hrepr : ∀ c, c ∈ callsOf (events t) → NoNL c.spec ∧ NoNL c.target) (herr : ErrLabelFree errText) :
    nothingReturnedBelow (events t) (callsOf (events t)) (spine (callsOf (events t)) t.err)
      (traceLines t errText width) = true := by
  have hwf' := hwf
  simp only [Tree.wf, Bool.and_eq_true] at hwf'
  obtain ⟨hc, ho⟩ := hwf'
  have hop : onePath t.err t.root = true := by simpa [Tree.root, onePath] using ho
  have hren := renderable_top t hc
  have hfs := frames_one_line t hc hrepr
  have hstart : startOK t.err 1 t.root 1 = true := by simp [startOK, Tree.root, segRes, Kids.startsChained]
  have hsz : 1 < 1 + t.root.size := by simp [Tree.root, Kids.size]; omega
  unfold nothingReturnedBelow traceLines
  simp only []
  rw [filterMap_filter_top, traceText_toList]
  have htop := top_specs (replay (events t)) errText t.err width ((replay (events t)).size + 1) 1 none true hfs herr hren
  unfold linesMap at htop
  rw [htop]
  apply foldl_ok_true _ _ _ _ rfl
  intro shown hshown
  right
  obtain ⟨r, hrm, hsh⟩ := List.mem_filterMap.mp hshown
  obtain ⟨r', hm', hfr, _, _⟩ := unpack_mem_rowsAt t hc 1 (by omega) hsz r hrm
  have hrange := rowsAt_frame_range t.root 1 1 r' hm' (by omega)
  have herr' := rowsAt_all_error t.err t.root 1 1 hop hstart r' hm'
  have hcur : r'.error = ((replay (events t))[r'.frame]?).bind (·.curError) := by
    apply unpackLoop_error (replay (events t)) (replay (events t)).size 1 [] (by simp) r'
    rw [loop_rowsAt t hc 1 (by omega) hsz]
    exact hm'
  rw [hfr] at hsh
  cases hf : (replay (events t))[r'.frame]? with
  | none => rw [hf] at hsh; simp at hsh
  | some f =>
    rw [hf] at hsh hcur
    simp only [Option.map_some, Option.some.injEq] at hsh
    simp only [Option.bind_some] at hcur
    have hfa : frameAt 0 none 1 t.root r'.frame = some f := by
      rw [← (replay_frames t hc).2 r'.frame hrange.1]; exact hf
    obtain ⟨c, hcm, hidx, hs⟩ := frameAt_call t.root none 0 none 1 r'.frame f hfa
    simp only [List.any_eq_true, Bool.and_eq_true]
    refine ⟨c, by rw [callsOf_events]; exact hcm, ?_, ?_⟩
    · rw [← hsh, hs.1, hs.2.2.2]
      exact showsValue_formatValue _ _ _
    · rw [hidx]
      apply roc_of_curError (callsOf (events t)) (chainedEnters (events t)) t.root none 0 none 1 r'.frame f _ hfa
        (by rw [← hcur]; exact herr') hrange.1
      · rw [callsOf_events, callsK_length]; omega
      · intro c' hc'; rw [callsOf_events]; exact hc'
      · intro pd hpd; rw [chainedEnters_events]; exact hpd


/-! ### clause 4 -/

/-- **clause 4 of `checkC05` holds of the model's text**: for every call the root error propagated
    through, every direct sub-evaluation that raised another error (a failed branch that was
    caught) has its spec on a `Spec:` line, and the text of the error that ended it occurs in the
    trace — also when the branch is a chain whose later step failed (the line of the failing step
    is among the rows rendered from the head of its chain segment) and when the single failed
    branch of the call is shown linearly below it.
    Hypothesis: spec texts have no line break. -/
theorem c05_text_clause4 (t : Tree) (hwf : t.wf = true) (errText : Nat → Str) (width : Nat)
    (hrepr : ∀ c, c ∈ callsOf (events t) → NoNL c.spec) :
    clause4 (callsOf (events t)) (spine (callsOf (events t)) t.err) errText t.err
      (traceText (events t) errText t.err width).toList (traceLines t errText width) = true := by
  have hwf' := hwf
  simp only [Tree.wf, Bool.and_eq_true] at hwf'
  obtain ⟨hc, ho⟩ := hwf'
  have hren := renderable_top t hc
  have hsub := SLT_sublist (replay (events t)) errText t.err width _ 1 0 none true hren
    (fun p _ f hf => frames_NoNL_spec t hc hrepr _ f hf)
  unfold clause4
  simp only [List.all_eq_true, Bool.and_eq_true, List.any_eq_true]
  intro c hcs b hbf
  have hcc : c ∈ callsOf (events t) := (List.mem_filter.mp hcs).1
  have hcr : c.result = some t.err := by
    have := (List.mem_filter.mp hcs).2
    simpa using this
  obtain ⟨hbc, hbp⟩ := List.mem_filter.mp hbf
  simp only [failedBranches, Bool.and_eq_true, beq_iff_eq] at hbp
  obtain ⟨hbo, hbr⟩ := hbp
  cases hbx : b.result with
  | none => rw [hbx] at hbr; simp at hbr
  | some x =>
    rw [hbx] at hbr
    have hxe : x ≠ t.err := by simpa using hbr
    obtain ⟨⟨pb, hpb, hpbf⟩, ⟨pe, hpe, hpee⟩⟩ := failed_branch_shown t hwf _ hren c b x hcc hcr hbc hbo hbx
    constructor
    · -- its `Spec:` line
      have hbk : b ∈ callsK none 1 t.root := by rw [← callsOf_events]; exact hbc
      obtain ⟨f, hf, hs⟩ := call_frameAt t.root none 0 none 1 b hbk
      have hidx : 1 ≤ b.idx := callsK_idx_ge t.root none 1 b hbk
      have hfs : (replay (events t))[pb.2.frame]? = some f := by
        rw [hpbf, (replay_frames t hc).2 b.idx hidx]; exact hf
      refine ⟨specShown width f pb.1, ?_, ?_⟩
      · unfold traceLines
        rw [traceText_toList]
        apply hsub.subset
        exact List.mem_filterMap.mpr ⟨pb, hpb, by simp [specOfShown, hfs]⟩
      · rw [hs.1, hs.2.2.2]
        exact showsValue_formatValue _ _ _
    · -- the error that ended it
      simp only []
      rw [traceText_toList]
      exact InfAt_isInfix (err_shown (replay (events t)) errText t.err width _ 1 0 none true pe x hren hpe hpee hxe)


/-! ### the clauses together -/

/-- **the lift, partial**: the text the model renders for a well-formed evaluation tree satisfies
    clauses 1, 2, 4 and 5 of `checkC05` — at every width, for all spec / target texts without line
    breaks and all error texts none of whose lines is read as a `Spec:` line.  What remains is
    clause 3 (`clause3 inner lines`: the checker's reading of the target in force at the innermost
    failing spec's line), see below. -/
theorem c05_text_lift_partial (t : Tree) (hwf : t.wf = true) (errText : Nat → Str) (width : Nat)
    (hrepr : ∀ c, c ∈ callsOf (events t) → NoNL c.spec ∧ NoNL c.target) (herr : ErrLabelFree errText) :
    ∃ inner, (spine (callsOf (events t)) t.err).getLast? = some inner ∧
      clausesC05 (events t) errText t.err (traceText (events t) errText t.err width) =
        [true, true, clause3 inner (traceLines t errText width), true, true] := by
  have hroot : ∃ root, (callsOf (events t)).head? = some root := by
    rw [callsOf_events]; simp [callsK, Tree.root]
  obtain ⟨root, hroot⟩ := hroot
  have hrm : root ∈ callsOf (events t) := List.mem_of_mem_head? hroot
  have hspne : spine (callsOf (events t)) t.err ≠ [] := by
    intro h0
    have : (spine (callsOf (events t)) t.err).map (·.idx) = [] := by rw [h0]; rfl
    simp only [Tree.wf, Bool.and_eq_true] at hwf
    rw [spine_events t hwf.2] at this
    simp at this
  obtain ⟨inner, hinner⟩ : ∃ inner, (spine (callsOf (events t)) t.err).getLast? = some inner :=
    ⟨_, List.getLast?_eq_some_getLast hspne⟩
  refine ⟨inner, hinner, ?_⟩
  unfold clausesC05
  simp only [hroot, hinner]
  have h1 := c05_text_clause1 t hwf errText width root hroot (hrepr root hrm).2
  have h2 := c05_text_clause2 t hwf errText width (fun c hc => (hrepr c hc).1)
  have h4 := c05_text_clause4 t hwf errText width (fun c hc => (hrepr c hc).1)
  have h5 := c05_text_clause5 t hwf errText width hrepr herr
  unfold traceLines at h1 h2 h4 h5
  rw [h1, h2, h4, h5]
  rfl

/-- … so the model's text satisfies `checkC05` as soon as it satisfies clause 3 -/
theorem c05_text_check_of_clause3 (t : Tree) (hwf : t.wf = true) (errText : Nat → Str) (width : Nat)
    (hrepr : ∀ c, c ∈ callsOf (events t) → NoNL c.spec ∧ NoNL c.target) (herr : ErrLabelFree errText)
    (h3 : ∀ inner, (spine (callsOf (events t)) t.err).getLast? = some inner →
      clause3 inner (traceLines t errText width) = true) :
    checkC05 (events t) errText t.err (traceText (events t) errText t.err width) = true := by
  obtain ⟨inner, hi, hcl⟩ := c05_text_lift_partial t hwf errText width hrepr herr
  unfold checkC05
  rw [hcl, h3 inner hi]
  rfl

/-! ### the hypotheses are needed -/

private def ii (s t : String) : Info := ⟨s.toList, t.toList, 0, none, none⟩

/-- a spec whose text has a line break: the line shows only its first line -/
def nlTree : Tree := ⟨ii "a\nb" "{}", .nil, 1⟩

theorem c05_text_needs_one_line :
    nlTree.wf = true ∧
    clausesC05 (events nlTree) (fun _ => "E".toList) 1 (traceText (events nlTree) (fun _ => "E".toList) 1 80) =
      [true, false, false, true, false] := by
  decide +kernel

/-- `glom({}, Coalesce('x'))` (Props/C05Spine `oneBranchTree`) where the text of the caught error has
    a line that reads as a `Spec:` line of the trace -/
def labelErrTree : Tree := ⟨ii "Coalesce('x')" "{}", .cons false (ii "'x'" "{}") .nil (some 1) .nil, 2⟩

theorem c05_text_needs_label_free :
    labelErrTree.wf = true ∧
    clausesC05 (events labelErrTree) (fun e => if e = 1 then "E: x\n - Spec: zzz".toList else "F".toList) 2
      (traceText (events labelErrTree) (fun e => if e = 1 then "E: x\n - Spec: zzz".toList else "F".toList) 2 80) =
      [true, true, true, true, false] := by
  decide +kernel

/-! ### non-vacuity -/

/-- `glom({'a': 1}, ('a', Coalesce('x', ('b', 'c'))))` (Props/C05Spine `exTree`): the hypotheses hold and
    so does the whole check, clause 3 included -/
def exTree2 : Tree :=
  ⟨ii "('a', Coalesce('x', ('b', 'c')))" "{'a': 1}",
   .cons false (ii "'a'" "{'a': 1}") .nil none
     (.cons true ⟨"Coalesce('x', ('b', 'c'))".toList, "1".toList, 1, none, none⟩
       (.cons false ⟨"'x'".toList, "1".toList, 1, none, none⟩ .nil (some 1)
         (.cons false ⟨"('b', 'c')".toList, "1".toList, 1, none, none⟩
           (.cons false ⟨"'b'".toList, "1".toList, 1, none, none⟩ .nil none
             (.cons true ⟨"'c'".toList, "1".toList, 1, none, none⟩ .nil (some 2) .nil))
           (some 2) .nil))
       (some 3) .nil),
   3⟩

example : exTree2.wf = true := by decide
example : clausesC05 (events exTree2) (fun e => ("E" ++ toString e).toList) 3
    (traceText (events exTree2) (fun e => ("E" ++ toString e).toList) 3 60) = [true, true, true, true, true] := by
  decide +kernel
example : traceText (events exTree2) (fun e => ("E" ++ toString e).toList) 3 60 =
    " - Target: {'a': 1}\n - Spec: ('a', Coalesce('x', ('b', 'c')))\n - Spec: 'a'\n - Target: 1\n + Spec: Coalesce('x', ('b', 'c'))\n |\\ Spec: 'x'\n |X E1\n |\\ Spec: ('b', 'c')\n || Spec: 'b'\n || Spec: 'c'\n |X E2" := by
  decide +kernel

end Glom.Props.C05
