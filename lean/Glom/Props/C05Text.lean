import Glom.Lemmas.C05TextTree
/-
  C05 — the lift from the rows of `_unpack_stack` to the rendered TEXT: the text
  `format_target_spec_trace` produces for an evaluation tree satisfies the clauses of `checkC05`.

  Domain: every well-formed evaluation tree (`Tree.wf`, as in Props/C05Spine), every width, every
  error text function — the texts of specs, targets and errors are parameters (`Info.spec`,
  `Info.target`, `errText`), with the hypotheses a clause needs on them stated where it needs them:
    * a spec / target text has no line break (`NoNL`; Python's `repr` of the values the model of
      bbrepr covers has none — line breaks inside strings are escaped);
    * (clause 5 only) the lines of an error text carry no `Spec:` label after gutter characters
      (`ErrLabelFree`) — an error text is printed verbatim, so a label line inside it would be read
      as a line of the trace.
-/
set_option linter.unusedSimpArgs false
namespace Glom.Props.C05
open Glom.C05

/-- the text of the model's trace, as the list of its lines -/
def traceLines (t : Tree) (errText : Nat → Str) (width : Nat) : List Str :=
  splitLines (traceText (events t) errText t.err width).toList

theorem traceText_toList (evs : List Ev) (errText : Nat → Str) (e width : Nat) :
    (traceText evs errText e width).toList =
      formatTrace (replay evs) errText e width ((replay evs).size + 2) 1 0 none true := by
  simp [traceText]

/-- the frame store of a well-formed tree can be rendered with the fuel `traceText` gives -/
theorem c05_renderable (t : Tree) (hc : chainOk true t.root = true) :
    Renderable (replay (events t)) ((replay (events t)).size + 2) 1 := by
  apply renderable_tree t hc
  · omega
  · simp [Tree.root, Kids.size]; omega
  · rw [(replay_frames t hc).1]; omega

theorem frames_NoNL_spec (t : Tree) (hc : chainOk true t.root = true)
    (hrepr : ∀ c, c ∈ callsOf (events t) → NoNL c.spec) (j : Nat) (f : Frame)
    (hf : (replay (events t))[j]? = some f) : NoNL f.spec := by
  rcases replay_frame_cases t hc j f hf with ⟨_, h, _⟩ | ⟨_, c, hcm, _, hs⟩
  · rw [h]; intro c hc; simp at hc
  · rw [← hs.1]; exact hrepr c hcm

/-- **clause 2 of `checkC05` holds of the model's text**: the spec of every call the root error
    propagated through (`spine (callsOf evs) e`) is shown on a `Spec:` line, and these lines occur
    in evaluation order — for every well-formed tree, every width, every error texts.
    Hypothesis: spec texts have no line break. -/
theorem c05_text_clause2 (t : Tree) (hwf : t.wf = true) (errText : Nat → Str) (width : Nat)
    (hrepr : ∀ c, c ∈ callsOf (events t) → NoNL c.spec) :
    clause2 (spine (callsOf (events t)) t.err) (traceLines t errText width) = true := by
  have hwf' := hwf
  simp only [Tree.wf, Bool.and_eq_true] at hwf'
  obtain ⟨hc, ho⟩ := hwf'
  have hren := c05_renderable t hc
  unfold clause2 traceLines
  rw [traceText_toList]
  -- the `Spec:` lines of the rendered rows are among the `Spec:` lines of the text, in order
  have hsub := SLT_sublist (replay (events t)) errText t.err width _ 1 0 none true hren
    (fun p _ f hf => frames_NoNL_spec t hc hrepr _ f hf)
  apply subseqBy_of_sublist _ _ hsub
  -- and the rendered rows contain the path of the root error, in order
  have hstart : startOK t.err 1 t.root 1 = true := by simp [startOK, Tree.root, segRes, Kids.startsChained]
  have hsp : (spine (callsOf (events t)) t.err).map (·.idx) = spineAt t.err 1 t.root 1 := by
    rw [spine_events t ho]
    simp [spineAt, Tree.root, spineK]
  have key := spine_in_text t hwf width _ _ 1 0 hstart (Nat.le_refl _) hren
  rw [← hsp, subseqBy_map] at key
  rw [← key]
  apply subseqBy_congr
  intro c hcm shown
  have hcc : c ∈ callsOf (events t) := (List.mem_filter.mp hcm).1
  rw [callsOf_events] at hcc
  obtain ⟨f, hf, hs⟩ := call_frameAt t.root none 0 none 1 c hcc
  have hidx : 1 ≤ c.idx := callsK_idx_ge t.root none 1 c hcc
  simp only [MF, (replay_frames t hc).2 c.idx hidx, hf, hs.1, hs.2.2.2]


/-! ### clause 1 -/

theorem unpack_root_head (t : Tree) (hwf : t.wf = true) :
    ∃ r rest, unpack (replay (events t)) 1 = r :: rest ∧ r.frame = 1 := by
  have hstart : startOK t.err 1 t.root 1 = true := by simp [startOK, Tree.root, segRes, Kids.startsChained]
  rw [unpack_startOK t hwf 1 hstart]
  have hne : (rowsAt 1 t.root 1).head?.map (·.frame) = some 1 := by
    simp only [rowsAt, Tree.root, if_true, Kids.startsChained, Bool.false_eq_true, if_false]
    cases lastHead none (1 + 1) t.kids <;> simp
  have hfr := pushDown_frames (rowsAt 1 t.root 1)
  cases hp : pushDown (rowsAt 1 t.root 1) with
  | nil =>
    rw [hp] at hfr
    cases hr : rowsAt 1 t.root 1 with
    | nil => rw [hr] at hne; simp at hne
    | cons a l => rw [hr] at hfr; simp at hfr
  | cons r rest =>
    refine ⟨r, rest, rfl, ?_⟩
    rw [hp] at hfr
    cases hr : rowsAt 1 t.root 1 with
    | nil => rw [hr] at hne; simp at hne
    | cons a l =>
      rw [hr] at hfr hne
      simp only [List.map_cons, List.cons.injEq] at hfr
      simp only [List.head?_cons, Option.map_some, Option.some.injEq] at hne
      rw [hfr.1, hne]

/-- **clause 1 of `checkC05` holds of the model's text**: the text begins with a `Target:` line that
    shows the root target.  Hypothesis: the root target's text has no line break. -/
theorem c05_text_clause1 (t : Tree) (hwf : t.wf = true) (errText : Nat → Str) (width : Nat)
    (root : CallInfo) (hroot : (callsOf (events t)).head? = some root) (hrepr : NoNL root.target) :
    clause1 root (traceLines t errText width) = true := by
  have hwf' := hwf
  simp only [Tree.wf, Bool.and_eq_true] at hwf'
  obtain ⟨hc, _⟩ := hwf'
  obtain ⟨r, rest, hrows, hr1⟩ := unpack_root_head t hwf
  -- the root call and its frame
  have hroot' : root ∈ callsK none 1 t.root ∧ root.idx = 1 := by
    rw [callsOf_events] at hroot
    simp only [callsK, Tree.root, List.head?_cons, Option.some.injEq] at hroot
    subst hroot
    exact ⟨by simp [callsK, Tree.root], rfl⟩
  obtain ⟨f, hf, hs⟩ := call_frameAt t.root none 0 none 1 root hroot'.1
  rw [hroot'.2] at hf
  have hfs : (replay (events t))[r.frame]? = some f := by rw [hr1, (replay_frames t hc).2 1 (by omega)]; exact hf
  unfold clause1 traceLines
  rw [traceText_toList, formatTrace_succ]
  simp only [beq_self_eq_true, if_true, hrows, allSegs, hfs]
  -- the first segment is the root's `Target:` line
  have hseg : ∃ more, rowSegs errText t.err width 0 true
      (fun b p l => formatTrace (replay (events t)) errText t.err width ((replay (events t)).size + 1) b (0 + 1) p l) f r none =
      traceLine 0 width "Target".toList (tickOf 0) f.target f.tlen :: more := by
    unfold rowSegs
    rw [if_pos (by simp)]
    exact ⟨_, rfl⟩
  obtain ⟨more, hmore⟩ := hseg
  rw [hmore]
  have hnl : NoNL (traceLine 0 width "Target".toList (tickOf 0) f.target f.tlen) := by
    rw [traceLine_eq]
    apply NoNL_append (Gut_NoNL (Gut_append (Gut_indentOf 0) (Gut_tickOf 0)))
    apply NoNL_append
    · intro c hc hn; subst hn; simp at hc
    · apply formatValue_NoNL
      rw [← hs.2.1]; exact hrepr
  have hlines : (splitLines (joinLines ((traceLine 0 width "Target".toList (tickOf 0) f.target f.tlen :: more) ++
      allSegs (replay (events t)) errText t.err width 0 true
        (fun b p l => formatTrace (replay (events t)) errText t.err width ((replay (events t)).size + 1) b (0 + 1) p l)
        rest (some f.tid)))).head? = some (traceLine 0 width "Target".toList (tickOf 0) f.target f.tlen) := by
    rw [splitLines_joinLines _ (by simp), List.cons_append, List.flatMap_cons, splitLines_noNL _ hnl]
    rfl
  rw [hlines]
  simp only []
  rw [traceLine_eq, afterLabel_gutter _ _ _ (Gut_append (Gut_indentOf 0) (Gut_tickOf 0)), afterLabel_target_self]
  simp only []
  rw [hs.2.1, hs.2.2.1]
  exact showsValue_formatValue _ _ _


/-! ### clause 5 -/

theorem frames_one_line (t : Tree) (hc : chainOk true t.root = true)
    (hrepr : ∀ c, c ∈ callsOf (events t) → NoNL c.spec ∧ NoNL c.target) : FramesOneLine (replay (events t)) := by
  intro j f hf
  rcases replay_frame_cases t hc j f hf with ⟨_, h1, h2⟩ | ⟨_, c, hcm, _, hs⟩
  · rw [h1, h2]; exact ⟨fun c hc => by simp at hc, fun c hc => by simp at hc⟩
  · rw [← hs.1, ← hs.2.1]; exact hrepr c hcm

/-- **clause 5 of `checkC05` holds of the model's text**: every `Spec:` line of nesting depth 0 shows
    a call that raised or a completed step of a chain a later step of which raised — nothing that
    returned normally is listed below the failing spec.
    Hypotheses: spec and target texts have no line break; no line of an error text is read as a
    `Spec:` line (an error text is printed verbatim). -/
theorem c05_text_clause5 (t : Tree) (hwf : t.wf = true) (errText : Nat → Str) (width : Nat)
    (hrepr : ∀ c, c ∈ callsOf (events t) → NoNL c.spec ∧ NoNL c.target) (herr : ErrLabelFree errText) :
    nothingReturnedBelow (events t) (callsOf (events t)) (spine (callsOf (events t)) t.err)
      (traceLines t errText width) = true := by
  have hwf' := hwf
  simp only [Tree.wf, Bool.and_eq_true] at hwf'
  obtain ⟨hc, ho⟩ := hwf'
  have hop : onePath t.err t.root = true := by simpa [Tree.root, onePath] using ho
  have hren := c05_renderable t hc
  have hfs := frames_one_line t hc hrepr
  have hstart : startOK t.err 1 t.root 1 = true := by simp [startOK, Tree.root, segRes, Kids.startsChained]
  have hsz : 1 < 1 + t.root.size := by simp [Tree.root, Kids.size]; omega
  unfold nothingReturnedBelow traceLines
  simp only []
  rw [filterMap_filter_top, traceText_toList]
  have htop := top_specs (replay (events t)) errText t.err width ((replay (events t)).size + 1) 1 none true hfs herr hren
  unfold linesMap at htop
  rw [htop]
  apply foldl_ok_true _ _ _ _ rfl
  intro shown hshown
  right
  obtain ⟨r, hrm, hsh⟩ := List.mem_filterMap.mp hshown
  obtain ⟨r', hm', hfr, _, _⟩ := unpack_mem_rowsAt t hc 1 (by omega) hsz r hrm
  have hrange := rowsAt_frame_range t.root 1 1 r' hm' (by omega)
  have herr' := rowsAt_all_error t.err t.root 1 1 hop hstart r' hm'
  have hcur : r'.error = ((replay (events t))[r'.frame]?).bind (·.curError) := by
    apply unpackLoop_error (replay (events t)) (replay (events t)).size 1 [] (by simp) r'
    rw [loop_rowsAt t hc 1 (by omega) hsz]
    exact hm'
  rw [hfr] at hsh
  cases hf : (replay (events t))[r'.frame]? with
  | none => rw [hf] at hsh; simp at hsh
  | some f =>
    rw [hf] at hsh hcur
    simp only [Option.map_some, Option.some.injEq] at hsh
    simp only [Option.bind_some] at hcur
    have hfa : frameAt 0 none 1 t.root r'.frame = some f := by
      rw [← (replay_frames t hc).2 r'.frame hrange.1]; exact hf
    obtain ⟨c, hcm, hidx, hs⟩ := frameAt_call t.root none 0 none 1 r'.frame f hfa
    simp only [List.any_eq_true, Bool.and_eq_true]
    refine ⟨c, by rw [callsOf_events]; exact hcm, ?_, ?_⟩
    · rw [← hsh, hs.1, hs.2.2.2]
      exact showsValue_formatValue _ _ _
    · rw [hidx]
      apply roc_of_curError (callsOf (events t)) (chainedEnters (events t)) t.root none 0 none 1 r'.frame f _ hfa
        (by rw [← hcur]; exact herr') hrange.1
      · rw [callsOf_events, callsK_length]; omega
      · intro c' hc'; rw [callsOf_events]; exact hc'
      · intro pd hpd; rw [chainedEnters_events]; exact hpd

end Glom.Props.C05
