import Glom.Lemmas.C05TextTree
import Glom.Lemmas.C05ReadTree
/-
  C05 — THE LIFT from the rows of `_unpack_stack` to the rendered TEXT: the text
  `format_target_spec_trace` produces for an evaluation tree satisfies `checkC05`, every clause.

  Domain: every well-formed evaluation tree (`Tree.wf`, as in Props/C05Spine; the driver checks on
  every recorded real evaluation that it is one), every width, every error text function.  The
  texts of specs, targets and errors are parameters (`Info.spec`, `Info.target`, `errText`: any
  functions), with the hypotheses a clause needs on them stated where it needs them:
    * a spec / target text has no line break (`NoNL`) — met by the model of bbrepr for every value
      and every limits record (`c05_repr_one_line`, Props/C05Repr: `str.__repr__` escapes line
      breaks), given that of the opaque leaves;
    * the lines of an error text are passed by the reader of the checker (`ErrLabelFree` for
      clause 5, `ErrQuiet` for clause 3): no `Target:` / `Spec:` label after gutter characters, no `\`
      mark at a depth > 0 — an error text is printed verbatim, so such a line inside it would be
      read as a line of the trace (Python's own exception texts have none; the text of a NESTED
      glom error does);
    * (clause 3) the identity of a target determines its text (`TidOK`), and no call entered after
      the innermost failing call has a spec that, as rendered, reads as the innermost failing spec.
  Every hypothesis is shown necessary by a concrete tree (`c05_text_needs_…`, by `decide`), and
  satisfiable (the `example`s at the end).  The driver evaluates the hypotheses on every recorded
  evaluation (`liftHypsOK`, Spec/C05Lift.lean: they hold on ~90 % of the generated cases) and
  re-checks the conclusion there.

    c05_text_clause1   the text begins with the root target
    c05_text_clause2   the specs of the calls the root error propagated through, in order
    c05_text_clause3   the target in force at the innermost failing spec's line is the one it received
    c05_text_clause4   every failed branch of a call on the path: its spec line and its error text
    c05_text_clause5   every top-level `Spec:` line shows a call that raised / a step of a chain that raised
    c05_text_clause6   every `+ Spec:` line (a spec shown with branches) shows a call that raised: no stale branches
    c05_text_check     all of them: `checkC05 (events t) errText e (traceText (events t) errText e width)`
    c05_text_lift_partial   clauses 1, 2, 4, 5 without the hypotheses of clause 3

  Method: the text is described generically (Lemmas/C05Text.lean, for every frame store that can be
  rendered: the pieces of a text `allSegs`, the marks `\` / `X` only touch gutters `GPre`, the
  `Spec:` lines of a text are those of its rendered rows `SLT_sublist` / `SLT_mem_shown`, error texts
  `err_shown`, the lines of a branch are nested or quiet `nested_lines` / `branch_text`), the reader of
  clause 3 as a fold (Lemmas/C05Read.lean), and the rows of a tree at every start that is rendered
  (Lemmas/C05TextTree.lean, C05ReadTree.lean: by induction along the path of the root error, using
  `rowsAt_spine` and the closed form of the frame store).
-/
set_option linter.unusedSimpArgs false
namespace Glom.Props.C05
open Glom.C05

/-- **clause 2 of `checkC05` holds of the model's text**: the spec of every call the root error
    propagated through (`spine (callsOf evs) e`) is shown on a `Spec:` line, and these lines occur
    in evaluation order — for every well-formed tree, every width, every error texts.
    Hypothesis: spec texts have no line break. -/
theorem c05_text_clause2 (t : Tree) (hwf : t.wf = true) (errText : Nat → Str) (width : Nat)
    (hrepr : ∀ c, c ∈ callsOf (events t) → NoNL c.spec) :
    clause2 (spine (callsOf (events t)) t.err) (traceLines t errText width) = true := by
  have hwf' := hwf
  simp only [Tree.wf, Bool.and_eq_true] at hwf'
  obtain ⟨hc, ho⟩ := hwf'
  have hren := renderable_top t hc
  unfold clause2 traceLines
  rw [traceText_toList]
  -- the `Spec:` lines of the rendered rows are among the `Spec:` lines of the text, in order
  have hsub := SLT_sublist (replay (events t)) errText t.err width _ 1 0 none true hren
    (fun p _ f hf => frames_NoNL_spec t hc hrepr _ f hf)
  apply subseqBy_of_sublist _ _ hsub
  -- and the rendered rows contain the path of the root error, in order
  have hstart : startOK t.err 1 t.root 1 = true := by simp [startOK, Tree.root, segRes, Kids.startsChained]
  have hsp : (spine (callsOf (events t)) t.err).map (·.idx) = spineAt t.err 1 t.root 1 := by
    rw [spine_events t ho]
    simp [spineAt, Tree.root, spineK]
  have key := spine_in_text t hwf width _ _ 1 0 hstart (Nat.le_refl _) hren
  rw [← hsp, subseqBy_map] at key
  rw [← key]
  apply subseqBy_congr
  intro c hcm shown
  have hcc : c ∈ callsOf (events t) := (List.mem_filter.mp hcm).1
  rw [callsOf_events] at hcc
  obtain ⟨f, hf, hs⟩ := call_frameAt t.root none 0 none 1 c hcc
  have hidx : 1 ≤ c.idx := callsK_idx_ge t.root none 1 c hcc
  simp only [MF, (replay_frames t hc).2 c.idx hidx, hf, hs.1, hs.2.2.2]


/-! ### clause 1 -/

/-- **clause 1 of `checkC05` holds of the model's text**: the text begins with a `Target:` line that
    shows the root target.  Hypothesis: the root target's text has no line break. -/
theorem c05_text_clause1 (t : Tree) (hwf : t.wf = true) (errText : Nat → Str) (width : Nat)
    (root : CallInfo) (hroot : (callsOf (events t)).head? = some root) (hrepr : NoNL root.target) :
    clause1 root (traceLines t errText width) = true := by
  have hwf' := hwf
  simp only [Tree.wf, Bool.and_eq_true] at hwf'
  obtain ⟨hc, _⟩ := hwf'
  obtain ⟨r, rest, hrows, hr1⟩ := unpack_root_head t hwf
  -- the root call and its frame
  have hroot' : root ∈ callsK none 1 t.root ∧ root.idx = 1 := by
    rw [callsOf_events] at hroot
    simp only [callsK, Tree.root, List.head?_cons, Option.some.injEq] at hroot
    subst hroot
    exact ⟨by simp [callsK, Tree.root], rfl⟩
  obtain ⟨f, hf, hs⟩ := call_frameAt t.root none 0 none 1 root hroot'.1
  rw [hroot'.2] at hf
  have hfs : (replay (events t))[r.frame]? = some f := by rw [hr1, (replay_frames t hc).2 1 (by omega)]; exact hf
  unfold clause1 traceLines
  rw [traceText_toList, formatTrace_succ]
  simp only [beq_self_eq_true, if_true, hrows, allSegs, hfs]
  -- the first segment is the root's `Target:` line
  have hseg : ∃ more, rowSegs errText t.err width 0 true
      (fun b p l => formatTrace (replay (events t)) errText t.err width ((replay (events t)).size + 1) b (0 + 1) p l) f r none =
      traceLine 0 width "Target".toList (tickOf 0) f.target f.tlen :: more := by
    unfold rowSegs
    rw [if_pos (by simp)]
    exact ⟨_, rfl⟩
  obtain ⟨more, hmore⟩ := hseg
  rw [hmore]
  have hnl : NoNL (traceLine 0 width "Target".toList (tickOf 0) f.target f.tlen) := by
    rw [traceLine_eq]
    apply NoNL_append (Gut_NoNL (Gut_append (Gut_indentOf 0) (Gut_tickOf 0)))
    apply NoNL_append
    · intro c hc hn; subst hn; simp at hc
    · apply formatValue_NoNL
      rw [← hs.2.1]; exact hrepr
  have hlines : (splitLines (joinLines ((traceLine 0 width "Target".toList (tickOf 0) f.target f.tlen :: more) ++
      allSegs (replay (events t)) errText t.err width 0 true
        (fun b p l => formatTrace (replay (events t)) errText t.err width ((replay (events t)).size + 1) b (0 + 1) p l)
        rest (some f.tid)))).head? = some (traceLine 0 width "Target".toList (tickOf 0) f.target f.tlen) := by
    rw [splitLines_joinLines _ (by simp), List.cons_append, List.flatMap_cons, splitLines_noNL _ hnl]
    rfl
  rw [hlines]
  simp only []
  rw [traceLine_eq, afterLabel_gutter _ _ _ (Gut_append (Gut_indentOf 0) (Gut_tickOf 0)), afterLabel_target_self]
  simp only []
  rw [hs.2.1, hs.2.2.1]
  exact showsValue_formatValue _ _ _


/-! ### clause 5 -/

/-- **clause 5 of `checkC05` holds of the model's text**: every `Spec:` line of nesting depth 0 shows
    a call that raised or a completed step of a chain a later step of which raised — nothing that
    returned normally is listed below the failing spec.
    Hypotheses: spec and target texts have no line break; no line of an error text is read as a
    `Spec:` line (an error text is printed verbatim). -/
theorem c05_text_clause5 (t : Tree) (hwf : t.wf = true) (errText : Nat → Str) (width : Nat)
    (hrepr : ∀ c, c ∈ callsOf (events t) → NoNL c.spec ∧ NoNL c.target) (herr : ErrLabelFree errText) :
    nothingReturnedBelow (events t) (callsOf (events t)) (spine (callsOf (events t)) t.err)
      (traceLines t errText width) = true := by
  have hwf' := hwf
  simp only [Tree.wf, Bool.and_eq_true] at hwf'
  obtain ⟨hc, ho⟩ := hwf'
  have hop : onePath t.err t.root = true := by simpa [Tree.root, onePath] using ho
  have hren := renderable_top t hc
  have hfs := frames_one_line t hc hrepr
  have hstart : startOK t.err 1 t.root 1 = true := by simp [startOK, Tree.root, segRes, Kids.startsChained]
  have hsz : 1 < 1 + t.root.size := by simp [Tree.root, Kids.size]; omega
  unfold nothingReturnedBelow traceLines
  simp only []
  rw [filterMap_filter_top, traceText_toList]
  have htop := top_specs (replay (events t)) errText t.err width ((replay (events t)).size + 1) 1 none true hfs herr hren
  unfold linesMap at htop
  rw [htop]
  apply foldl_ok_true _ _ _ _ rfl
  intro shown hshown
  right
  obtain ⟨r, hrm, hsh⟩ := List.mem_filterMap.mp hshown
  obtain ⟨r', hm', hfr, _, _⟩ := unpack_mem_rowsAt t hc 1 (by omega) hsz r hrm
  have hrange := rowsAt_frame_range t.root 1 1 r' hm' (by omega)
  have herr' := rowsAt_all_error t.err t.root 1 1 hop hstart r' hm'
  have hcur : r'.error = ((replay (events t))[r'.frame]?).bind (·.curError) := by
    apply unpackLoop_error (replay (events t)) (replay (events t)).size 1 [] (by simp) r'
    rw [loop_rowsAt t hc 1 (by omega) hsz]
    exact hm'
  rw [hfr] at hsh
  cases hf : (replay (events t))[r'.frame]? with
  | none => rw [hf] at hsh; simp at hsh
  | some f =>
    rw [hf] at hsh hcur
    simp only [Option.map_some, Option.some.injEq] at hsh
    simp only [Option.bind_some] at hcur
    have hfa : frameAt 0 none 1 t.root r'.frame = some f := by
      rw [← (replay_frames t hc).2 r'.frame hrange.1]; exact hf
    obtain ⟨c, hcm, hidx, hs⟩ := frameAt_call t.root none 0 none 1 r'.frame f hfa
    simp only [List.any_eq_true, Bool.and_eq_true]
    refine ⟨c, by rw [callsOf_events]; exact hcm, ?_, ?_⟩
    · rw [← hsh, hs.1, hs.2.2.2]
      exact showsValue_formatValue _ _ _
    · rw [hidx]
      apply roc_of_curError (callsOf (events t)) (chainedEnters (events t)) t.root none 0 none 1 r'.frame f _ hfa
        (by rw [← hcur]; exact herr') hrange.1
      · rw [callsOf_events, callsK_length]; omega
      · intro c' hc'; rw [callsOf_events]; exact hc'
      · intro pd hpd; rw [chainedEnters_events]; exact hpd


/-! ### clause 4 -/

/-- **clause 4 of `checkC05` holds of the model's text**: for every call the root error propagated
    through, every direct sub-evaluation that raised another error (a failed branch that was
    caught) has its spec on a `Spec:` line, and the text of the error that ended it occurs in the
    trace — also when the branch is a chain whose later step failed (the line of the failing step
    is among the rows rendered from the head of its chain segment) and when the single failed
    branch of the call is shown linearly below it.
    Hypothesis: spec texts have no line break. -/
theorem c05_text_clause4 (t : Tree) (hwf : t.wf = true) (errText : Nat → Str) (width : Nat)
    (hrepr : ∀ c, c ∈ callsOf (events t) → NoNL c.spec) :
    clause4 (callsOf (events t)) (spine (callsOf (events t)) t.err) errText t.err
      (traceText (events t) errText t.err width).toList (traceLines t errText width) = true := by
  have hwf' := hwf
  simp only [Tree.wf, Bool.and_eq_true] at hwf'
  obtain ⟨hc, ho⟩ := hwf'
  have hren := renderable_top t hc
  have hsub := SLT_sublist (replay (events t)) errText t.err width _ 1 0 none true hren
    (fun p _ f hf => frames_NoNL_spec t hc hrepr _ f hf)
  unfold clause4
  simp only [List.all_eq_true, Bool.and_eq_true, List.any_eq_true]
  intro c hcs b hbf
  have hcc : c ∈ callsOf (events t) := (List.mem_filter.mp hcs).1
  have hcr : c.result = some t.err := by
    have := (List.mem_filter.mp hcs).2
    simpa using this
  obtain ⟨hbc, hbp⟩ := List.mem_filter.mp hbf
  simp only [failedBranches, Bool.and_eq_true, beq_iff_eq] at hbp
  obtain ⟨hbo, hbr⟩ := hbp
  cases hbx : b.result with
  | none => rw [hbx] at hbr; simp at hbr
  | some x =>
    rw [hbx] at hbr
    have hxe : x ≠ t.err := by simpa using hbr
    obtain ⟨⟨pb, hpb, hpbf⟩, ⟨pe, hpe, hpee⟩⟩ := failed_branch_shown t hwf _ hren c b x hcc hcr hbc hbo hbx
    constructor
    · -- its `Spec:` line
      have hbk : b ∈ callsK none 1 t.root := by rw [← callsOf_events]; exact hbc
      obtain ⟨f, hf, hs⟩ := call_frameAt t.root none 0 none 1 b hbk
      have hidx : 1 ≤ b.idx := callsK_idx_ge t.root none 1 b hbk
      have hfs : (replay (events t))[pb.2.frame]? = some f := by
        rw [hpbf, (replay_frames t hc).2 b.idx hidx]; exact hf
      refine ⟨specShown width f pb.1, ?_, ?_⟩
      · unfold traceLines
        rw [traceText_toList]
        apply hsub.subset
        exact List.mem_filterMap.mpr ⟨pb, hpb, by simp [specOfShown, hfs]⟩
      · rw [hs.1, hs.2.2.2]
        exact showsValue_formatValue _ _ _
    · -- the error that ended it
      simp only []
      rw [traceText_toList]
      exact InfAt_isInfix (err_shown (replay (events t)) errText t.err width _ 1 0 none true pe x hren hpe hpee hxe)


/-! ### clause 3 -/

/-- **clause 3 of `checkC05` holds of the model's text**: reading the text the way its indentation
    asks (`targetsAtLastSpec`: a `Target:` line sets the target in force at its depth, the first
    line of a branch inherits the target in force one level up), the target in force at the last
    line that shows the innermost failing spec shows the target that spec received.
    Hypotheses (`C3Hyp`):
      * spec and target texts have no line break;
      * the lines of error texts are passed by the reader (`ErrQuiet`: no `Target:` / `Spec:` label,
        no `\` mark at a depth > 0) — an error text is printed verbatim;
      * the identity of a target determines its text (`TidOK`: the `Target:` line of a row is left
        out when the target IS the previous row's);
      * no call entered after the innermost failing call has a spec that, as rendered, reads as
        the innermost failing spec (the clause looks at the LAST line showing that spec). -/
theorem c05_text_clause3 (t : Tree) (hwf : t.wf = true) (errText : Nat → Str) (width : Nat) (inner : CallInfo)
    (hinner : (spine (callsOf (events t)) t.err).getLast? = some inner) (H : C3Hyp t errText width inner) :
    clause3 inner (traceLines t errText width) = true := by
  have hwf' := hwf
  simp only [Tree.wf, Bool.and_eq_true] at hwf'
  obtain ⟨hc, ho⟩ := hwf'
  have hren := renderable_top t hc
  have hstart : startOK t.err 1 t.root 1 = true := by simp [startOK, Tree.root, segRes, Kids.startsChained]
  have hsp : (spine (callsOf (events t)) t.err).map (·.idx) = spineAt t.err 1 t.root 1 := by
    rw [spine_events t ho]
    simp [spineAt, Tree.root, spineK]
  have hlast : (spineAt t.err 1 t.root 1).getLast? = some inner.idx := by
    rw [← hsp, List.getLast?_map, hinner]; rfl
  have him : inner ∈ callsOf (events t) := (List.mem_filter.mp (List.mem_of_getLast? hinner)).1
  have key := read_path t hwf errText width inner H him _ _ 1 0 none ([], []) hstart (by omega) (Nat.le_refl _) hlast hren
    (Or.inl ⟨rfl, rfl⟩)
  obtain ⟨x, hx1, hx2⟩ := key
  unfold clause3 targetsAtLastSpec traceLines
  rw [go_eq, traceText_toList]
  exact List.any_eq_true.mpr ⟨x, hx1, hx2⟩

/-! ### clause 6 -/

/-- **clause 6 of `checkC05` holds of the model's text**: every `+ Spec:` line — a spec shown with
    branches below it — shows a call that RAISED.  What failed inside a spec that then completed
    normally (a Switch / Match-dict key that matched through a later alternative, a completed chain
    step) is forgiven by `chain_child`: such a spec never shows branches, so no abandoned
    alternative leaks into the trace of a later error.
    By `c05_frames`: a frame handed on by `chain_child` has CHILD_ERRORS ⊆ [its LAST_CHILD_SCOPE]
    (shown linearly); every other rendered frame has a CUR_ERROR, which is its call's own outcome.
    Hypotheses: spec and target texts have no line break; the lines of error texts are quiet. -/
theorem c05_text_clause6 (t : Tree) (hwf : t.wf = true) (errText : Nat → Str) (width : Nat)
    (hrepr : ∀ c, c ∈ callsOf (events t) → NoNL c.spec ∧ NoNL c.target) (herr : ErrQuiet errText) :
    clause6 (callsOf (events t)) (traceLines t errText width) = true := by
  have hwf' := hwf
  simp only [Tree.wf, Bool.and_eq_true] at hwf'
  obtain ⟨hc, ho⟩ := hwf'
  have hren := renderable_top t hc
  have hfs := frames_one_line t hc hrepr
  have hsz : 1 < 1 + t.root.size := by simp [Tree.root, Kids.size]; omega
  unfold clause6 traceLines
  rw [traceText_toList]
  simp only [List.all_eq_true, List.any_eq_true, Bool.and_eq_true]
  intro shown hshown
  obtain ⟨p, hp, hbne, f, hf, rfl⟩ := PLT_mem_shown (replay (events t)) errText t.err width hfs herr _ 1 0 none true hren shown hshown
  -- the root call's frame has a CUR_ERROR (the root error), so every rendered frame has one
  have hroot : (((replay (events t))[1]?).bind (·.curError)).isSome = true := by
    rw [(replay_frames t hc).2 1 (by omega)]
    simp [frameAt, Tree.root, Kids.startsChained]
  have hcur := shownRows_cur t hc _ 1 0 (by omega) hsz hroot p hp
  have hge := shownRows_frame_ge t hc _ 1 0 (by omega) hsz p hp
  rw [hf] at hcur
  simp only [Option.bind_some] at hcur
  -- the row's branches are those of its frame
  have hbr : p.2.branches = branchesOf (replay (events t)) p.2.frame := by
    have key : ∀ (fuel h d : Nat) (q : Nat × Row), q ∈ shownRows (replay (events t)) fuel h d →
        q.2.branches = branchesOf (replay (events t)) q.2.frame := by
      intro fuel
      induction fuel with
      | zero => intro h d q hq; simp [shownRows] at hq
      | succ fuel ih =>
        intro h d q hq
        rw [shownRows_succ] at hq
        obtain ⟨r, hr, hq⟩ := List.mem_flatMap.mp hq
        rcases List.mem_cons.mp hq with hq | hq
        · subst hq; exact unpack_branches _ h r hr
        · obtain ⟨b, _, hq⟩ := List.mem_flatMap.mp hq
          exact ih b (d + 1) q hq
    exact key _ 1 0 p hp
  have hfa : frameAt 0 none 1 t.root p.2.frame = some f := by
    rw [← (replay_frames t hc).2 p.2.frame (by omega)]; exact hf
  rw [hbr] at hbne
  simp only [branchesOf, hf] at hbne
  obtain ⟨c, hcm, hidx, hres, hs⟩ := frameAt_branching_raised t.root none 0 none 1 p.2.frame f hfa hbne hcur
  refine ⟨c, by rw [callsOf_events]; exact hcm, ?_, hres⟩
  unfold specShown
  rw [hs.1, hs.2.2.2]
  exact showsValue_formatValue _ _ _

/-! ### the clauses together -/

/-- **THE LIFT: the text the model renders for a well-formed evaluation tree satisfies `checkC05`**
    — every clause, at every width, by induction over the rows and over the nesting of the
    branches.  The texts are parameters (`Info.spec`, `Info.target`, `errText`); the hypotheses on
    them:
      * `hrepr`  spec and target texts have no line break (the model of bbrepr meets this:
                 `c05_repr_one_line`);
      * `herr`   the lines of error texts are passed by the reader (`ErrQuiet`);
      * `htid`   the identity of a target determines its text (`TidOK`);
      * `hU`     no call entered after the innermost failing call has a spec that, as rendered (at
                 a depth it can be rendered at), reads as the innermost failing spec.
    `hrepr` is needed for clauses 1, 2, 4, 5 (`c05_text_needs_one_line`), `herr` for 3, 5 and 6
    (`c05_text_needs_label_free`, `c05_text_needs_quiet_errors`), `htid` and `hU` for clause 3 only
    (`c05_text_needs_tid`, `c05_text_needs_distinct_spec`). -/
theorem c05_text_check (t : Tree) (hwf : t.wf = true) (errText : Nat → Str) (width : Nat)
    (hrepr : ∀ c, c ∈ callsOf (events t) → NoNL c.spec ∧ NoNL c.target) (herr : ErrQuiet errText)
    (htid : TidOK (replay (events t)))
    (hU : ∀ inner, (spine (callsOf (events t)) t.err).getLast? = some inner →
      ∀ c, c ∈ callsOf (events t) → inner.idx < c.idx → ∀ d', d' < c.idx →
        showsValue inner.spec inner.slen (formatValue c.spec c.slen ((width : Int) - ((d' + 9 : Nat) : Int))) = false) :
    checkC05 (events t) errText t.err (traceText (events t) errText t.err width) = true := by
  have hc : chainOk true t.root = true := by
    simp only [Tree.wf, Bool.and_eq_true] at hwf; exact hwf.1
  have hroot : ∃ root, (callsOf (events t)).head? = some root := by
    rw [callsOf_events]; simp [callsK, Tree.root]
  obtain ⟨root, hroot⟩ := hroot
  have hrm : root ∈ callsOf (events t) := List.mem_of_mem_head? hroot
  have hspne : spine (callsOf (events t)) t.err ≠ [] := by
    intro h0
    have : (spine (callsOf (events t)) t.err).map (·.idx) = [] := by rw [h0]; rfl
    simp only [Tree.wf, Bool.and_eq_true] at hwf
    rw [spine_events t hwf.2] at this
    simp at this
  obtain ⟨inner, hinner⟩ : ∃ inner, (spine (callsOf (events t)) t.err).getLast? = some inner :=
    ⟨_, List.getLast?_eq_some_getLast hspne⟩
  unfold checkC05 clausesC05
  simp only [hroot, hinner]
  have h1 := c05_text_clause1 t hwf errText width root hroot (hrepr root hrm).2
  have h2 := c05_text_clause2 t hwf errText width (fun c hc => (hrepr c hc).1)
  have h3 := c05_text_clause3 t hwf errText width inner hinner
    ⟨frames_one_line t hc hrepr, herr, htid, hU inner hinner⟩
  have h4 := c05_text_clause4 t hwf errText width (fun c hc => (hrepr c hc).1)
  have h5 := c05_text_clause5 t hwf errText width hrepr herr.labelFree
  have h6 := c05_text_clause6 t hwf errText width hrepr herr
  unfold traceLines at h1 h2 h3 h4 h5 h6
  rw [h1, h2, h3, h4, h5, h6]
  rfl

/-- **the lift without the hypotheses of clause 3**: clauses 1, 2, 4 and 5 hold of the model's text as
    soon as spec / target texts have no line break and no line of an error text reads as a `Spec:`
    line (`ErrLabelFree`) — whatever target identities and later specs are. -/
theorem c05_text_lift_partial (t : Tree) (hwf : t.wf = true) (errText : Nat → Str) (width : Nat)
    (hrepr : ∀ c, c ∈ callsOf (events t) → NoNL c.spec ∧ NoNL c.target) (herr : ErrLabelFree errText) :
    ∃ inner, (spine (callsOf (events t)) t.err).getLast? = some inner ∧
      clausesC05 (events t) errText t.err (traceText (events t) errText t.err width) =
        [true, true, clause3 inner (traceLines t errText width), true, true,
         clause6 (callsOf (events t)) (traceLines t errText width)] := by
  have hroot : ∃ root, (callsOf (events t)).head? = some root := by
    rw [callsOf_events]; simp [callsK, Tree.root]
  obtain ⟨root, hroot⟩ := hroot
  have hrm : root ∈ callsOf (events t) := List.mem_of_mem_head? hroot
  have hspne : spine (callsOf (events t)) t.err ≠ [] := by
    intro h0
    have : (spine (callsOf (events t)) t.err).map (·.idx) = [] := by rw [h0]; rfl
    simp only [Tree.wf, Bool.and_eq_true] at hwf
    rw [spine_events t hwf.2] at this
    simp at this
  obtain ⟨inner, hinner⟩ : ∃ inner, (spine (callsOf (events t)) t.err).getLast? = some inner :=
    ⟨_, List.getLast?_eq_some_getLast hspne⟩
  refine ⟨inner, hinner, ?_⟩
  unfold clausesC05
  simp only [hroot, hinner]
  have h1 := c05_text_clause1 t hwf errText width root hroot (hrepr root hrm).2
  have h2 := c05_text_clause2 t hwf errText width (fun c hc => (hrepr c hc).1)
  have h4 := c05_text_clause4 t hwf errText width (fun c hc => (hrepr c hc).1)
  have h5 := c05_text_clause5 t hwf errText width hrepr herr
  unfold traceLines at h1 h2 h4 h5
  rw [h1, h2, h4, h5]
  rfl

/-! ### the hypotheses are needed -/

private def ii (s t : String) : Info := ⟨s.toList, t.toList, 0, none, none⟩

/-- a spec whose text has a line break: the line shows only its first line -/
def nlTree : Tree := ⟨ii "a\nb" "{}", .nil, 1⟩

theorem c05_text_needs_one_line :
    nlTree.wf = true ∧
    clausesC05 (events nlTree) (fun _ => "E".toList) 1 (traceText (events nlTree) (fun _ => "E".toList) 1 80) =
      [true, false, false, true, false, true] := by
  decide +kernel

/-- `glom({}, Coalesce('x'))` (Props/C05Spine `oneBranchTree`) where the text of the caught error has
    a line that reads as a `Spec:` line of the trace -/
def labelErrTree : Tree := ⟨ii "Coalesce('x')" "{}", .cons false (ii "'x'" "{}") .nil (some 1) .nil, 2⟩

theorem c05_text_needs_label_free :
    labelErrTree.wf = true ∧
    clausesC05 (events labelErrTree) (fun e => if e = 1 then "E: x\n - Spec: zzz".toList else "F".toList) 2
      (traceText (events labelErrTree) (fun e => if e = 1 then "E: x\n - Spec: zzz".toList else "F".toList) 2 80) =
      [true, true, true, true, false, true] := by
  decide +kernel

/-- a chain `(p, S)` whose second step has the same spec text `S` as the call itself, a different
    target, and fails; the call catches that and raises the root error itself: the LAST line
    showing `S` is the step's, under the step's target -/
def sameSpecTree : Tree :=
  ⟨⟨"S".toList, "A".toList, 1, none, none⟩,
   .cons false ⟨"p".toList, "A".toList, 1, none, none⟩ .nil none
     (.cons true ⟨"S".toList, "B".toList, 2, none, none⟩ .nil (some 1) .nil),
   2⟩

/-- **`hU` is needed for clause 3** -/
theorem c05_text_needs_distinct_spec :
    sameSpecTree.wf = true ∧
    clausesC05 (events sameSpecTree) (fun _ => "E".toList) 2
      (traceText (events sameSpecTree) (fun _ => "E".toList) 2 80) = [true, true, false, true, true, true] := by
  decide +kernel

/-- a chain whose second step receives a target with another text but the same identity: no
    `Target:` line is written for it -/
def sameTidTree : Tree :=
  ⟨⟨"X".toList, "A".toList, 1, none, none⟩,
   .cons false ⟨"p".toList, "A".toList, 1, none, none⟩ .nil none
     (.cons true ⟨"q".toList, "B".toList, 1, none, none⟩ .nil (some 9) .nil),
   9⟩

/-- **`htid` is needed for clause 3** -/
theorem c05_text_needs_tid :
    sameTidTree.wf = true ∧
    clausesC05 (events sameTidTree) (fun _ => "E".toList) 9
      (traceText (events sameTidTree) (fun _ => "E".toList) 9 80) = [true, true, false, true, true, true] := by
  decide +kernel

/-- two branches; the text of the error that ended the first has a line that reads as a `Target:`
    line; the second raises the root error -/
def targetErrTree : Tree :=
  ⟨ii "Or(a, b)" "A",
   .cons false (ii "a" "A") .nil (some 1) (.cons false (ii "b" "A") .nil (some 2) .nil),
   2⟩

/-- **`herr` (no `Target:` label in an error text) is needed for clause 3** -/
theorem c05_text_needs_quiet_errors :
    targetErrTree.wf = true ∧
    clausesC05 (events targetErrTree) (fun e => if e = 1 then "E\n - Target: Z".toList else "F".toList) 2
      (traceText (events targetErrTree) (fun e => if e = 1 then "E\n - Target: Z".toList else "F".toList) 2 80) =
      [true, true, false, true, true, true] := by
  decide +kernel

/-! ### clause 6 is what `chain_child`'s forgiving is for -/

/-- `_glom` / `chain_child` with the forgiving left out: a frame handed on by `chain_child` keeps its
    CHILD_ERRORS (C05-s10: the `del …[CHILD_ERRORS][:]` moved out of `chain_child` into the tuple
    handler, so that Switch and the Match-dict handler no longer forgive) -/
def stepNoForgive (s : RState) : Ev → RState
  | .enter parent flagged spec target tid tlen slen =>
    let fs0 := if flagged then modFrame s.frames parent (fun p => { p with noPy := true }) else s.frames
    let id := fs0.size
    let fs1 := fs0.push { spec, target, tid, tlen, slen, up := parent }
    let fs2 := modFrame fs1 parent (fun p => { p with lastChild := some id })
    { frames := fs2, stack := id :: s.stack }
  | e => step s e

/-- `glom({'b': 1}, Switch([(Or('a', 'b'), 'zz')]))`: the key `Or('a', 'b')` matches through its second
    alternative (`'a'` failed, error 1, recovered), then the value `'zz'`, chained onto the key, fails
    with the root error 2 -/
def switchKeyTree : Tree :=
  ⟨ii "Switch([(Or('a', 'b'), 'zz')])" "{'b': 1}",
   .cons false (ii "Or('a', 'b')" "{'b': 1}")
     (.cons false (ii "'a'" "{'b': 1}") .nil (some 1) (.cons false (ii "'b'" "{'b': 1}") .nil none .nil)) none
     (.cons true (ii "'zz'" "{'b': 1}") .nil (some 2) .nil),
   2⟩

/-- **without the forgiving the trace shows a stale branch and clause 6 fails; with it the text is
    the linear descent Switch → key → value and every clause holds** -/
theorem c05_stale_branch_counterexample :
    switchKeyTree.wf = true ∧
    clausesC05 (events switchKeyTree) (fun _ => "E".toList) 2
      (traceText (events switchKeyTree) (fun _ => "E".toList) 2 80) = [true, true, true, true, true, true] ∧
    (let fs := ((events switchKeyTree).foldl stepNoForgive { frames := #[rootFrame] }).frames
     let text := String.ofList (formatTrace fs (fun _ => "E".toList) 2 80 (fs.size + 2) 1 0 none true)
     text = " - Target: {'b': 1}\n - Spec: Switch([(Or('a', 'b'), 'zz')])\n + Spec: Or('a', 'b')\n |\\ Spec: 'a'\n |X E\n |\\ Spec: 'zz'" ∧
     clausesC05 (events switchKeyTree) (fun _ => "E".toList) 2 text = [true, true, true, true, true, false]) := by
  decide +kernel

/-! ### non-vacuity -/

/-- `glom({'a': 1}, ('a', Coalesce('x', ('b', 'c'))))` (Props/C05Spine `exTree`): the hypotheses hold and
    so does the whole check, clause 3 included -/
def exTree2 : Tree :=
  ⟨ii "('a', Coalesce('x', ('b', 'c')))" "{'a': 1}",
   .cons false (ii "'a'" "{'a': 1}") .nil none
     (.cons true ⟨"Coalesce('x', ('b', 'c'))".toList, "1".toList, 1, none, none⟩
       (.cons false ⟨"'x'".toList, "1".toList, 1, none, none⟩ .nil (some 1)
         (.cons false ⟨"('b', 'c')".toList, "1".toList, 1, none, none⟩
           (.cons false ⟨"'b'".toList, "1".toList, 1, none, none⟩ .nil none
             (.cons true ⟨"'c'".toList, "1".toList, 1, none, none⟩ .nil (some 2) .nil))
           (some 2) .nil))
       (some 3) .nil),
   3⟩

example : exTree2.wf = true := by decide
example : clausesC05 (events exTree2) (fun e => ("E" ++ toString e).toList) 3
    (traceText (events exTree2) (fun e => ("E" ++ toString e).toList) 3 60) = [true, true, true, true, true, true] := by
  decide +kernel
example : traceText (events exTree2) (fun e => ("E" ++ toString e).toList) 3 60 =
    " - Target: {'a': 1}\n - Spec: ('a', Coalesce('x', ('b', 'c')))\n - Spec: 'a'\n - Target: 1\n + Spec: Coalesce('x', ('b', 'c'))\n |\\ Spec: 'x'\n |X E1\n |\\ Spec: ('b', 'c')\n || Spec: 'b'\n || Spec: 'c'\n |X E2" := by
  decide +kernel


/-- the hypotheses of `c05_text_check` are satisfiable: `exTree2` with one-line error texts -/
example : checkC05 (events exTree2) (fun _ => "E".toList) 3 (traceText (events exTree2) (fun _ => "E".toList) 3 60) = true := by
  have hc : chainOk true exTree2.root = true := by decide
  apply c05_text_check exTree2 (by decide) (fun _ => "E".toList) 60
  · -- no line breaks
    have : ∀ c, c ∈ callsOf (events exTree2) → (c.spec.all (· != '\n') && c.target.all (· != '\n')) = true := by decide
    intro c hcm
    have h := this c hcm
    simp only [Bool.and_eq_true, List.all_eq_true, bne_iff_ne, ne_eq] at h
    exact ⟨fun x hx => h.1 x hx, fun x hx => h.2 x hx⟩
  · -- quiet error texts
    intro e l hl
    have : l = "E".toList := by simpa [splitLines] using hl
    subst this
    decide
  · -- target identities
    exact tidOK_of_infos exTree2 hc (by decide)
  · -- no later spec reads as the innermost failing one
    intro inner hinner c hcm hlt d' hd'
    have hi : inner.idx = 3 ∧ inner.spec = "Coalesce('x', ('b', 'c'))".toList ∧ inner.slen = none := by
      have : (spine (callsOf (events exTree2)) exTree2.err).getLast?.map (fun c => (c.idx, c.spec, c.slen)) =
          some (3, "Coalesce('x', ('b', 'c'))".toList, none) := by decide
      rw [hinner] at this
      simp only [Option.map_some, Option.some.injEq, Prod.mk.injEq] at this
      exact this
    obtain ⟨hi1, hi2, hi3⟩ := hi
    rw [hi1] at hlt
    rw [hi2, hi3]
    have hall : ∀ c, c ∈ callsOf (events exTree2) → 3 < c.idx → c.idx ≤ 7 ∧ c.spec.length ≤ 12 ∧ c.slen = none ∧
        c.spec ≠ "Coalesce('x', ('b', 'c'))".toList := by decide
    obtain ⟨h7, hlen, hsl, hne⟩ := hall c hcm hlt
    have hfit : formatValue c.spec c.slen ((60 : Nat) - ((d' + 9 : Nat) : Int)) = c.spec := by
      rw [formatValue_eq, if_neg (by omega)]
    rw [hfit]
    -- a full spec text: it would have to be the innermost failing spec itself, or end in `...`
    have hshow : ∀ s : Str, s ≠ "Coalesce('x', ('b', 'c'))".toList →
        (∀ pre, s ≠ pre ++ "...".toList) → showsValue "Coalesce('x', ('b', 'c'))".toList none s = false := by
      intro s h1 h2
      simp only [showsValue, Bool.or_eq_false_iff, Bool.and_eq_false_iff]
      refine ⟨by simpa using h1, Or.inl ?_⟩
      cases hsx : isSuffix "...".toList s with
      | false => rfl
      | true =>
        exfalso
        unfold isSuffix at hsx
        obtain ⟨r, hr⟩ := (isPrefix_iff _ _).mp hsx
        have := congrArg List.reverse hr
        simp only [List.reverse_reverse, List.reverse_append] at this
        exact h2 r.reverse this
    apply hshow c.spec hne
    have hspecs : ∀ c, c ∈ callsOf (events exTree2) → 3 < c.idx → (isSuffix "...".toList c.spec) = false := by decide
    intro pre hp
    have := hspecs c hcm hlt
    rw [hp, isSuffix_append_self] at this
    exact absurd this (by simp)

end Glom.Props.C05
