import Glom.Lemmas.C18
import Glom.Model.C18Env
import Glom.Model.C01Env
/-
  C18 — T and Path are faithful values: repr, pickle and slicing round-trip.

  Property theorems only; helper lemmas are in `Glom/Lemmas/C18.lean`.
  Every theorem is for all literal types `L` (a literal argument is one atomic
  token: that `eval` of its `bbrepr` text gives the value back is CPython's,
  trusted), all roots, all step lists of any length and any nesting of T
  arguments, all `Int` index / slice triples, and all fact tables satisfying
  `WF`; `c18_facts_wf` discharges `WF` for what the extractor read from /repo.

  Hypotheses, each with a satisfying example at the end of the file:
    * `WF F`           the three switches of `_format_t` are on, the pickling
                       tables name T, S, A, `Path.__getitem__` slices the steps
    * `validT steps`   a T expression: attribute / item / call / wildcard steps
                       whose arguments are literals or nested T expressions
                       without `'P'` steps; no keyword twice in a call
    * `validP steps`   the same with plain Path segments allowed at top level
    * `aOk root steps` an `A`-rooted Path has no call / wildcard step: such a Path cannot
                       be built (`_t_child` raises BadSpec), and `Path.__init__` — which
                       `eval` of the text runs — refuses it likewise
  `c18_path_root_counterexample` keeps the shape of `_format_path` before commit 2a7aadd
  (`WF` requires the new one): `repr(Path(S.a, 'b'))` was `"Path(T.a, 'b')"`.
  Arithmetic-operator reprs are outside the property.
-/
namespace Glom.Props.C18
open Glom Glom.C18

/-- **Facts obligation** (re-checked on every run): `_format_t` prints a dunder
    attribute as `.__('name')`, the empty tuple index as `()`, a one-element
    tuple index with a trailing comma; `__getstate__`/`__setstate__` map exactly
    the roots T, S, A; `Path.__getitem__` indexes / slices the tuple of steps;
    `__len__`, `values`, `items` are the expected expressions on `__ops__`. -/
theorem c18_facts_wf : WF genFacts = true := by decide

/-- **`eval(repr(t))` for T expressions** rooted anywhere (T, S, A): the text is
    read back as a T expression with the same root and the same steps (keyword
    arguments as a dict: in key order), and that object has the same repr. -/
theorem c18_roundtrip_t {L : Type} (F : Facts) (hwf : WF F = true) (root : String)
    (steps : List (Step L)) (hv : validT steps = true) :
    parseObj (fmtT F.fmt root steps) = some (.tobj root (normSteps steps)) ∧
    reprObj F.fmt (.tobj root (normSteps steps)) = fmtT F.fmt root steps := by
  rw [wf_fmt hwf]
  exact ⟨parseObj_fmtT root steps hv, fmtT_norm F1 root steps⟩

/-- **`eval(repr(p))` for Paths** rooted anywhere (T, S, A): the text is read back as
    an object with the same root and the same steps — a Path, or a T expression when
    the path has no plain segment (`Path(T.a)` reprs as `T.a`, DESIGN §6.6) — and that
    object has the same repr.  A root other than T is written as (the start of) the
    first part: `Path(S.a, 'b')`, `Path(S, 'a')`, `Path(S)`. -/
theorem c18_roundtrip_path {L : Type} (F : Facts) (hwf : WF F = true) (root : String)
    (steps : List (Step L)) (hv : validP steps = true) (hA : aOk root steps = true) :
    ∃ y, parseObj (fmtPath F.fmt root steps) = some y ∧ y.root = root ∧
      y.steps = normSteps steps ∧ reprObj F.fmt y = fmtPath F.fmt root steps := by
  rw [wf_fmt hwf]
  exact parseObj_fmtPath_repr root steps hv hA

/-- normalising only reorders keyword arguments: it changes neither the repr … -/
theorem c18_norm_same_repr {L : Type} (F : FmtFacts) (root : String) (steps : List (Step L)) :
    fmtT F root (normSteps steps) = fmtT F root steps ∧
    fmtPath F root (normSteps steps) = fmtPath F root steps :=
  ⟨fmtT_norm F root steps, fmtPath_norm F root steps⟩

/-- … nor, as a dict, the keyword arguments of a call: same keys, same values -/
theorem c18_norm_kwargs_perm {α : Type} (kwargs : List (String × α)) :
    (sortKw kwargs).Perm kwargs :=
  List.mergeSort_perm kwargs _

/-- **Pickling**: `__setstate__(__getstate__())` gives back root and steps for the
    roots T, S, A (pickling of the argument values themselves is `pickle`'s). -/
theorem c18_pickle {L : Type} (F : Facts) (hwf : WF F = true) (root : String)
    (hr : root ∈ ["T", "S", "A"]) (steps : List (Step L)) :
    (getstate F.getstateRoots root steps).bind (setstate F.setstateRoots) = some (root, steps) :=
  pickle_roundtrip F hwf root hr steps

/-- **Sequence laws**: `len`, `p[i]`, `p[a:b:c]`, `values()`, `items()`, `==`,
    `startswith`, `Path(p, q)` and `from_t`, computed the way `Path` computes them on
    the flat tuple `__ops__`, are the same operations on the list of steps — for
    every root, every list of steps and ALL `i, a, b, c : Int` (Python's slice
    semantics, negative steps and out-of-range bounds included). -/
theorem c18_seq_laws {α : Type} [DecidableEq α] (root : String) (steps : List (String × α))
    (op : SeqOp α) : seqModel root steps op = seqRef root steps op :=
  seqModel_eq_ref root steps op

/-- the checker form of `c18_seq_laws` used by the correspondence driver -/
theorem c18_seq_checks {α : Type} [DecidableEq α] (root : String) (steps : List (String × α))
    (op : SeqOp α) : checkSeq root steps op (seqModel root steps op) = true := by
  simp [checkSeq, c18_seq_laws]

/-- Python's slice semantics as modelled: every selected position exists, the
    length is `len(range(*slice.indices(n)))`, `xs[:]` is `xs`, slicing commutes
    with mapping the elements. -/
theorem c18_pyslice {α β : Type} (xs : List α) (a b c : Option Int) :
    (∀ ys, pySlice xs a b c = some ys →
      ys.length = sliceLen (sliceStart xs.length (c.getD 1) a) (sliceStop xs.length (c.getD 1) b)
        (c.getD 1)) ∧
    (c.getD 1 ≠ 0 → ∀ i ∈ sliceIdx xs.length a b (c.getD 1), i < xs.length) ∧
    (pySlice xs a b c = none ↔ c.getD 1 = 0) ∧
    pySlice xs none none none = some xs ∧
    (∀ f : α → β, pySlice (xs.map f) a b c = (pySlice xs a b c).map (List.map f)) := by
  refine ⟨fun ys h => pySlice_length xs a b c ys h, fun h => sliceIdx_lt _ a b _ h, ?_,
    pySlice_full xs, fun f => pySlice_map f xs a b c⟩
  simp only [pySlice]
  split <;> simp_all

/-- `Path(p, q)` of two Paths has the root of `p` and the steps of `p` followed by those of `q`
    (`q` rooted at T; on an `A` path only attribute / item / segment steps can be appended). -/
theorem c18_concat_steps {L : Type} (root : String) (p q : List (Step L))
    (hA : root = "A" → ∀ st ∈ q, st.okOnA = true) :
    pathInit [.path root p, .path "T" q] = some (root, p ++ q) := by
  rw [pathInit_rooted_path root p _
    (by intro x hx; simp only [List.mem_singleton] at hx; subst hx; rfl)
    (by intro hr st hst; simp only [List.flatMap_cons, List.flatMap_nil, List.append_nil,
          partSteps] at hst; exact hA hr st hst)]
  simp [partSteps]

/-- renumber the failing segment of the second half -/
def shiftErr (n : Nat) : Except C01.TErr Val → Except C01.TErr Val
  | .error (.pae k e) => .error (.pae (k + n) e)
  | r => r

/-- **`glom(t, Path(p, q)) = glom(glom(t, p), q)`** for wildcard-free paths, on every
    heap (sharing, cycles), for paths of any length: the same object on success;
    a failure inside `p` is the same failure; a failure inside `q` is the same
    failure with its segment number counted from the start of the joined path. -/
theorem c18_concat (env : C01.TEnv) (hwf : C01.WF env = true) (h : Heap)
    (p q : List (String × Val)) (hp : C01.wfSteps p = true) (hq : C01.wfSteps q = true)
    (t : Val) :
    (C01.tEval env h (.sent "T" :: C01.flatOfSteps (p ++ q)) t).res =
      match (C01.tEval env h (.sent "T" :: C01.flatOfSteps p) t).res with
      | .ok v => shiftErr p.length (C01.tEval env h (.sent "T" :: C01.flatOfSteps q) v).res
      | .error e => .error e := by
  have hev : ∀ (s : List (String × Val)) (u : Val), C01.wfSteps s = true →
      (C01.tEval env h (.sent "T" :: C01.flatOfSteps s) u).res =
        (C01.outOfWalk (C01.walk env h s 0 u) []).res := by
    intro s u hs
    have := C01.tLoop_eq_walk env hwf h (Val.sent "T") s [] u [] hs
    simp only [List.nil_append, List.length_nil, Nat.mul_zero, Nat.add_zero] at this
    simp only [C01.tEval, this]
    cases C01.walk env h s 0 u <;> rfl
  rw [hev (p ++ q) t (by rw [wfSteps_append, hp, hq]; rfl), hev p t hp, walk_append]
  cases hw : C01.walk env h p 0 t with
  | fail k e => rfl
  | unsupported => rfl
  | ok v =>
    simp only [C01.outOfWalk]
    rw [hev q v hq, Nat.zero_add]
    have := walk_shift env h q 0 p.length v
    rw [Nat.zero_add] at this
    rw [this]
    cases C01.walk env h q 0 v <;> rfl

/-- **Checker theorem** — the form in which the round-trip property is also evaluated
    on the implementation's observation by the correspondence driver: for every valid
    object the model's own observation (text, eval(text), repr of that, pickle round
    trip) satisfies the checker. -/
theorem c18_model_checks {L : Type} [BEq (Step L)] [ReflBEq (Step L)] (F : Facts)
    (hwf : WF F = true) (render : List (Tok L) → String) (x : C18.Obj L)
    (hv : validObj x = true) : checkRepr x (observeRepr F render x) = true := by
  have hp := pickleObj_valid F hwf x hv
  cases x with
  | tobj r s =>
    simp only [validObj, Bool.and_eq_true] at hv
    obtain ⟨h1, h2⟩ := c18_roundtrip_t F hwf r s hv.2
    simp only [reprObj] at h2
    simp [checkRepr, observeRepr, reprObj, h1, h2, hp, sameObj, sameOps, Obj.root, Obj.steps]
  | pobj r s =>
    simp only [validObj, Bool.and_eq_true] at hv
    obtain ⟨⟨_, hvs⟩, hA⟩ := hv
    obtain ⟨y, h1, h2, h3, h4⟩ := c18_roundtrip_path F hwf r s hvs hA
    have h4' : reprObj F.fmt y = reprObj F.fmt (.pobj r s) := h4
    have h2' : y.root = (Obj.pobj r s : C18.Obj L).root := h2
    have h3' : y.steps = normSteps (Obj.pobj r s : C18.Obj L).steps := h3
    have h1' : parseObj (reprObj F.fmt (.pobj r s)) = some y := h1
    simp only [checkRepr, observeRepr, h1', hp, Option.map_some, h4', h2', h3']
    simp [sameObj, sameOps]

end Glom.Props.C18

/-! ### non-vacuity: concrete inputs meet every hypothesis; counter-examples without them -/

namespace Glom.C18.Examples
open Glom Glom.C18 Glom.Props.C18

/-- `T.a[1,].__('x')(1, S.q, z=2, b=T).__star__()[:2]` -/
def exT : List (Step String) :=
  [.attr ['a'], .items [.one (.lit "1")], .attr ['_', '_', 'x'],
   .call [.lit "1", .t "S" [.attr ['q']]] [("z", .lit "2"), ("b", .t "T" [])],
   .star, .item (.slice none (some (.lit "2")) none)]

example : validT exT = true := by
  simp [exT, validT, validStep, validItem, validArg, Step.isSeg]

example : validObj (.tobj "S" exT) = true := by
  simp [exT, validObj, validT, validStep, validItem, validArg, Step.isSeg]

/-- `Path('a', T.b.__star__(), 2)` -/
def exP : List (Step String) := [.seg "'a'", .attr ['b'], .star, .seg "2"]

example : validP exP = true := by simp [exP, validP, validStep]

/-- `Path(S, 'a', T.b.__star__(), 2)` and `Path(A.b, 'a')` are valid objects -/
example : validObj (.pobj "S" exP) = true := by
  simp [exP, validObj, validP, validStep, aOk]

example : validObj (.pobj "A" [.attr ['b'], .seg "'a'"] : C18.Obj String) = true := by
  simp [validObj, validP, validStep, aOk, Step.okOnA]

/-- the hypotheses of `c18_concat` are those of C01 -/
example : C01.WF (C01.genEnv []) = true ∧
    C01.wfSteps [("P", .str "a"), ("[", .int 1)] = true ∧ C01.wfSteps [(".", .str "b")] = true := by
  decide

/-- the formatter of the tree before commit 0224102 -/
def F0 : FmtFacts := ⟨false, false, false, false⟩

/-- the formatter between commits 0224102 and 2a7aadd: `_format_path` is not given the root -/
def FP : FmtFacts := ⟨true, true, true, false⟩

end Glom.C18.Examples

namespace Glom.Props.C18
open Glom Glom.C18 Glom.C18.Examples

/-- Without `WF` (the switches of `_format_t` off, as before commit 0224102) the round trip
    fails: `T[(v,)]` is printed `T[v]` and read back as the index `v`; `T[()]` is printed
    `T[]`, which is not an expression; `T.__('x')` is printed `T.__x`, which T refuses. -/
theorem c18_wf_counterexample (v : String) :
    parseObj (fmtT F0 "T" [.items [.one (.lit v)]]) = some (.tobj "T" [.item (.one (.lit v))]) ∧
    parseObj (fmtT F0 "T" [(.items [] : Step String)]) = none ∧
    parseObj (fmtT F0 "T" [(.attr ['_', '_', 'x'] : Step String)]) = none := by
  refine ⟨?_, ?_, ?_⟩
  · simp [fmtT, fmtSteps, assembleT, Step.isSeg, fmtStep, fmtItem, fmtArg, F0, joinSep, parseObj,
      parseSteps_br, parseIndex_def, isUnitTok, splitOn, Tok.isComma, parseItem_def, Tok.isColon,
      parseArg_lit, consOpt, parseSteps_nil]
  · simp [fmtT, fmtSteps, assembleT, Step.isSeg, fmtStep, F0, joinSep, parseObj, parseSteps_br,
      parseIndex_def, isUnitTok, splitOn, parseItem_def, consOpt, parseArg]
  · simp [fmtT, fmtSteps, assembleT, Step.isSeg, fmtStep, F0, parseObj]
    rw [parseSteps]
    all_goals simp [isDunder, dunder]

/-- Without `WF` (the shape of `_format_path` before commit 2a7aadd, which was not given the
    root): the text of `Path(S.a, 'b')` was `Path(T.a, 'b')`, read back with root `T` — a
    different object, evaluated against the target instead of the scope; and `Path(S.a)` was
    printed `T.a`. -/
theorem c18_path_root_counterexample (v : String) :
    parseObj (fmtPath FP "S" [.attr ['a'], .seg v]) = some (.pobj "T" [.attr ['a'], .seg v]) ∧
    fmtPath FP "S" [(.attr ['a'] : Step String)] = fmtT FP "T" [.attr ['a']] := by
  have hd : parseSteps [(Tok.dot ['a'] : Tok String)] = some [.attr ['a']] := by
    rw [parseSteps_dot _ _ (by decide), parseSteps_nil]; rfl
  constructor
  · simp [fmtPath, FP, fmtSteps, assemblePath, groupSteps, Step.isSeg, effRoot, withRootPart,
      partToks, groupToks, fmtStep, isDunder, dunder, joinSep, parseObj, splitOn, Tok.isComma,
      dropTrailingEmpty, allSome, parsePart, hd, objOfParts, pathInit, pathStep, tChild]
  · simp [fmtPath, fmtT, FP, fmtSteps, assemblePath, assembleT, groupSteps, Step.isSeg, effRoot,
      fmtStep, isDunder, dunder]

end Glom.Props.C18
