import Glom.Lemmas.C18
import Glom.Model.C18Env
import Glom.Model.C01Env
/-
  C18 — T and Path are faithful values: repr, pickle and slicing round-trip.

  Property theorems only; helper lemmas are in `Glom/Lemmas/C18.lean`.
  Every theorem is for all scalar types `L` (a scalar argument — int, str, bytes,
  float, None, True, False, Ellipsis, a builtin name — is one atomic token: that
  Python's lexer reads its repr text back as the value is CPython's, trusted),
  all roots, all step lists of any length and any nesting of containers
  (tuples, lists, sets, frozensets, dicts), slice objects, nested T expressions
  and nested Path objects in every argument position, all `Int` index / slice
  triples, and all fact tables satisfying `WF`; `c18_facts_wf` discharges `WF`
  for what the extractor read from /repo.

  Hypotheses, each with a satisfying example at the end of the file:
    * `WF F`           the three switches of `_format_t` are on, `_format_path` is given the
                       root, the pickling tables name T, S, A, `Path.__getitem__` slices the
                       steps, every size limit of the `_BBRepr` instance is >= `sys.maxsize`, plain
                       segments are printed by `bbrepr`, `_format_path` marks its runs of T steps
    * `validArg a`     an argument: a scalar, a container of arguments (a set / frozenset in
                       printed order, a dict in printed key order), a slice object, a nested
                       T expression without `'P'` steps, a nested Path; an index that is a
                       tuple is a step of its own kind (`items`), a slice object as an index or
                       an element of a tuple index is `Item.slice`; no keyword twice in a
                       call; a `'P'` segment is neither a T nor a Path (`Path.__init__`
                       flattens those)
    * `validT steps` / `validP steps`    the steps of a T expression / of a Path
    * `aOk root steps` an `A`-rooted Path has no call / wildcard step: such a Path cannot
                       be built (`_t_child` raises BadSpec), and `Path.__init__` — which
                       `eval` of the text runs — refuses it likewise
    * `fitsObj S F lim x`   nothing in `x` exceeds a limit of `reprlib` (`lim`), every scalar
                       is an expression (a finite float), the arguments printed by the
                       builtin `repr` (plain Path segments, parts of slice objects) hold no
                       builtin function and no set of two or more elements.  Forced:
                       `c18_cut_counterexample`, `c18_nonfinite_counterexample`,
                       `c18_overlong_counterexample`.  `c18_within_maxsize`: whatever is no larger
                       than `sys.maxsize` — every Python object — is inside the instance's limits.
  `c18_path_root_counterexample` keeps the shape of `_format_path` before commit 2a7aadd
  (`WF` requires the new one): `repr(Path(S.a, 'b'))` was `"Path(T.a, 'b')"`.
  Arithmetic-operator reprs are outside the property.
-/
namespace Glom.Props.C18
open Glom Glom.C18

/-- **Facts obligation** (re-checked on every run): `_format_t` prints a dunder
    attribute as `.__('name')`, the empty tuple index as `()`, a one-element
    tuple index with a trailing comma; `__getstate__`/`__setstate__` map exactly
    the roots T, S, A; `Path.__getitem__` indexes / slices the tuple of steps;
    `__len__`, `values`, `items` are the expected expressions on `__ops__`; the
    instance `bbrepr` is bound to is a `reprlib.Repr` whose every int attribute
    (every size limit of this Python's reprlib) is at least `sys.maxsize`, whose
    fillvalue is `...` and whose `repr` / `repr1` are reprlib's. -/
theorem c18_facts_wf : WF genFacts = true := by decide

/-- **`eval(bbrepr(a))` for every argument** of the grammar — scalars, tuples (`()`,
    `(x,)`), lists, sets (`set()`), frozensets (`frozenset()`, `frozenset({…})`), dicts,
    slice objects, nested T expressions, nested Paths, at any depth: the text is read back as
    the same argument (keyword arguments inside it as dicts; a nested Path without plain
    segments as the T expression it prints as), and that argument has the same text. -/
theorem c18_roundtrip_arg {L : Type} (F : Facts) (hwf : WF F = true) (a : Arg L)
    (hv : validArg a = true) :
    parseArg (fmtArg F.fmt a) = some (normArg a) ∧ fmtArg F.fmt (normArg a) = fmtArg F.fmt a := by
  rw [wf_fmt hwf]
  exact ⟨parseArg_fmt a hv, fmtArg_norm F1 rfl a⟩

/-- **`eval(repr(t))` for T expressions** rooted anywhere (T, S, A): the text is
    read back as a T expression with the same root and the same steps (keyword
    arguments as a dict: in key order), and that object has the same repr. -/
theorem c18_roundtrip_t {L : Type} (F : Facts) (hwf : WF F = true) (root : String)
    (steps : List (Step L)) (hv : validT steps = true) :
    parseObj (fmtT F.fmt root steps) = some (.tobj root (normSteps steps)) ∧
    reprObj F.fmt (.tobj root (normSteps steps)) = fmtT F.fmt root steps := by
  rw [wf_fmt hwf]
  exact ⟨parseObj_fmtT root steps hv, fmtT_norm F1 rfl root steps⟩

/-- **`eval(repr(p))` for Paths** rooted anywhere (T, S, A): the text is read back as
    an object with the same root and the same steps — a Path, or a T expression when
    the path has no plain segment (`Path(T.a)` reprs as `T.a`, DESIGN §6.6) — and that
    object has the same repr.  A root other than T is written as (the start of) the
    first part: `Path(S.a, 'b')`, `Path(S, 'a')`, `Path(S)`. -/
theorem c18_roundtrip_path {L : Type} (F : Facts) (hwf : WF F = true) (root : String)
    (steps : List (Step L)) (hv : validP steps = true) (hA : aOk root steps = true) :
    ∃ y, parseObj (fmtPath F.fmt root steps) = some y ∧ y.root = root ∧
      y.steps = normSteps steps ∧ reprObj F.fmt y = fmtPath F.fmt root steps := by
  rw [wf_fmt hwf]
  exact parseObj_fmtPath_repr root steps hv hA

/-- normalising only reorders keyword arguments (and names a segment-free nested Path by the
    T expression it prints as): it does not change the repr (and the keyword arguments stay the same
    dict: `sortKw_perm`) -/
theorem c18_norm_same_repr {L : Type} (F : FmtFacts) (hF : F.pathRootAware = true) (root : String)
    (steps : List (Step L)) :
    fmtT F root (normSteps steps) = fmtT F root steps ∧
    fmtPath F root (normSteps steps) = fmtPath F root steps :=
  ⟨fmtT_norm F hF root steps, fmtPath_norm F hF root steps⟩

/-- **`reprlib`'s limits lose nothing inside them**: when no scalar, container, nesting depth or
    nested instance of `x` exceeds its limit (`fitsObj`), the pass that models `repr1`'s cuts is
    the identity and the repr glom computes is the unlimited formatter's. -/
theorem c18_limits_lose_nothing {L : Type} (S : ScalarOps L) (F : FmtFacts) (lim : Limits)
    (x : C18.Obj L) (h : fitsObj S F lim x = true) :
    x.steps.map (truncStep S F lim) = x.steps ∧ reprLim S F lim x = reprObj F x :=
  ⟨truncSteps_of_fits S F lim x.steps h, reprLim_of_fits S F lim x h⟩

/-- **No object reaches a limit** of the `_BBRepr` instance read from /repo (facts obligation: each
    is at least `sys.maxsize`, commit de451ae): whatever has at most `sys.maxsize` digits /
    characters / elements / levels — in CPython every `len()` and every text is bounded by it — is
    inside the limits; plain segments are printed like every other literal (`plainSeg = false`). -/
theorem c18_within_maxsize (F : Facts) (hwf : WF F = true) (x : C18.Obj Scalar)
    (h : fitsObj pyScalar F.fmt (Limits.uniform F.sysMaxsize false) x = true) :
    fitsObj pyScalar F.fmt F.lim x = true := by
  have hle := wf_limits_ge hwf
  rw [wf_plainSeg hwf] at hle
  exact fitsSteps_mono pyScalar F.fmt _ _ hle (pyScalar_fits_mono _ _ hle) x.steps h

/-- … in particular everything up to 2^31 − 1, on every CPython -/
theorem c18_within_min_limit (F : Facts) (hwf : WF F = true) (x : C18.Obj Scalar)
    (h : fitsObj pyScalar F.fmt (Limits.uniform minLimit false) x = true) :
    fitsObj pyScalar F.fmt F.lim x = true := by
  have hle := uniform_le minLimit F.sysMaxsize false (wf_sysMaxsize hwf)
  exact c18_within_maxsize F hwf x
    (fitsSteps_mono pyScalar F.fmt _ _ hle (pyScalar_fits_mono _ _ hle) x.steps h)

/-- **`eval(repr(x))` of what glom prints**, limits included: for every valid object inside the
    limits of the instance, the text glom computes is read back as an object with the same root
    and steps (normalised), which glom prints the same way. -/
theorem c18_repr_roundtrip {L : Type} (S : ScalarOps L) (F : Facts) (hwf : WF F = true)
    (x : C18.Obj L) (hv : validObj x = true) (hf : fitsObj S F.fmt F.lim x = true) :
    ∃ y, parseObj (reprLim S F.fmt F.lim x) = some y ∧ y.root = x.root ∧
      y.steps = normSteps x.steps ∧ reprLim S F.fmt F.lim y = reprLim S F.fmt F.lim x := by
  have hF : F.fmt.pathRootAware = true := by rw [wf_fmt hwf]; rfl
  rw [reprLim_of_fits S F.fmt F.lim x hf]
  have hfit : ∀ y : C18.Obj L, y.steps = normSteps x.steps → fitsObj S F.fmt F.lim y = true := by
    intro y hy
    unfold fitsObj
    rw [hy]
    exact fitsSteps_norm S F.fmt hF F.lim x.steps hf
  cases x with
  | tobj r s =>
    simp only [validObj, Bool.and_eq_true, Bool.or_eq_true] at hv
    rcases hv.2 with hvt | ⟨⟨hseg, hvp⟩, hA⟩
    · obtain ⟨h1, h2⟩ := c18_roundtrip_t F hwf r s hvt
      refine ⟨_, h1, rfl, rfl, ?_⟩
      rw [reprLim_of_fits S F.fmt F.lim _ (hfit _ rfl)]
      exact h2
    · -- the `path_t` of a Path: printed (and read back) as that Path
      obtain ⟨y, h1, h2, h3, h4⟩ := c18_roundtrip_path F hwf r s hvp hA
      have hfp : reprObj F.fmt (.tobj r s) = fmtPath F.fmt r s := fmtT_seg F.fmt r s hseg
      rw [hfp]
      refine ⟨y, h1, h2, h3, ?_⟩
      rw [reprLim_of_fits S F.fmt F.lim y (hfit y h3)]
      exact h4
  | pobj r s =>
    simp only [validObj, Bool.and_eq_true] at hv
    obtain ⟨y, h1, h2, h3, h4⟩ := c18_roundtrip_path F hwf r s hv.1.2 hv.2
    refine ⟨y, h1, h2, h3, ?_⟩
    rw [reprLim_of_fits S F.fmt F.lim y (hfit y h3)]
    exact h4

/-- **Pickling**: `__setstate__(__getstate__())` gives back root and steps for the
    roots T, S, A (pickling of the argument values themselves is `pickle`'s). -/
theorem c18_pickle {L : Type} (F : Facts) (hwf : WF F = true) (root : String)
    (hr : root ∈ ["T", "S", "A"]) (steps : List (Step L)) :
    (getstate F.getstateRoots root steps).bind (setstate F.setstateRoots) = some (root, steps) :=
  pickle_roundtrip F hwf root hr steps

/-- **Sequence laws**: `len`, `p[i]`, `p[a:b:c]`, `values()`, `items()`, `==`,
    `startswith`, `Path(p, q)` and `from_t`, computed the way `Path` computes them on
    the flat tuple `__ops__`, are the same operations on the list of steps — for
    every root, every list of steps and ALL `i, a, b, c : Int` (Python's slice
    semantics, negative steps and out-of-range bounds included). -/
theorem c18_seq_laws {α : Type} [DecidableEq α] (root : String) (steps : List (String × α))
    (op : SeqOp α) : seqModel root steps op = seqRef root steps op :=
  seqModel_eq_ref root steps op

/-- the checker form of `c18_seq_laws` used by the correspondence driver -/
theorem c18_seq_checks {α : Type} [DecidableEq α] (root : String) (steps : List (String × α))
    (op : SeqOp α) : checkSeq root steps op (seqModel root steps op) = true := by
  simp [checkSeq, c18_seq_laws]

/-- **The results of the sequence operations are faithful values too**: pickling / deep-copying what
    `p[i]`, `p[a:b:c]` (empty selections included), `from_t()`, `Path(p, q)`, `values()`, `items()`, `len`,
    `==`, `startswith` return — for a T-, S- or A-rooted path — gives the same operation on the list of
    steps back: the pickle state of a Path depends on root and steps only, not on which root object
    `Path.__getitem__` / `from_t` put into the new `__ops__` (seeded change C18-s11). -/
theorem c18_seq_pickle {α : Type} [DecidableEq α] (F : Facts) (hwf : WF F = true) (root : String)
    (hr : root ∈ ["T", "S", "A"]) (steps : List (String × α)) (op : SeqOp α) :
    pickleRes F.getstateRoots F.setstateRoots (seqModel root steps op) = seqRef root steps op := by
  rw [c18_seq_laws]
  exact pickleRes_ref F hwf root hr steps op

/-- `Path(p, q)` of two Paths has the root of `p` and the steps of `p` followed by those of `q`
    (`q` rooted at T; on an `A` path only attribute / item / segment steps can be appended). -/
theorem c18_concat_steps {L : Type} (root : String) (p q : List (Step L))
    (hA : root = "A" → ∀ st ∈ q, st.okOnA = true) :
    pathInit [.path root p, .path "T" q] = some (root, p ++ q) := by
  rw [pathInit_rooted_path root p _
    (by intro x hx; simp only [List.mem_singleton] at hx; subst hx; rfl)
    (by intro hr st hst; simp only [List.flatMap_cons, List.flatMap_nil, List.append_nil,
          partSteps] at hst; exact hA hr st hst)]
  simp [partSteps]

/-- renumber the failing segment of the second half -/
def shiftErr (n : Nat) : Except C01.TErr Val → Except C01.TErr Val
  | .error (.pae k e) => .error (.pae (k + n) e)
  | r => r

/-- **`glom(t, Path(p, q)) = glom(glom(t, p), q)`** for wildcard-free paths, on every
    heap (sharing, cycles), for paths of any length: the same object on success;
    a failure inside `p` is the same failure; a failure inside `q` is the same
    failure with its segment number counted from the start of the joined path. -/
theorem c18_concat (env : C01.TEnv) (hwf : C01.WF env = true) (h : Heap)
    (p q : List (String × Val)) (hp : C01.wfSteps p = true) (hq : C01.wfSteps q = true)
    (t : Val) :
    (C01.tEval env h (.sent "T" :: C01.flatOfSteps (p ++ q)) t).res =
      match (C01.tEval env h (.sent "T" :: C01.flatOfSteps p) t).res with
      | .ok v => shiftErr p.length (C01.tEval env h (.sent "T" :: C01.flatOfSteps q) v).res
      | .error e => .error e := by
  have hev : ∀ (s : List (String × Val)) (u : Val), C01.wfSteps s = true →
      (C01.tEval env h (.sent "T" :: C01.flatOfSteps s) u).res =
        (C01.outOfWalk (C01.walk env h s 0 u) []).res := by
    intro s u hs
    have := C01.tLoop_eq_walk env hwf h (Val.sent "T") s [] u [] hs
    simp only [List.nil_append, List.length_nil, Nat.mul_zero, Nat.add_zero] at this
    simp only [C01.tEval, this]
    cases C01.walk env h s 0 u <;> rfl
  rw [hev (p ++ q) t (by rw [wfSteps_append, hp, hq]; rfl), hev p t hp, walk_append]
  cases hw : C01.walk env h p 0 t with
  | fail k e => rfl
  | unsupported => rfl
  | ok v =>
    simp only [C01.outOfWalk]
    rw [hev q v hq, Nat.zero_add]
    have := walk_shift env h q 0 p.length v
    rw [Nat.zero_add] at this
    rw [this]
    cases C01.walk env h q 0 v <;> rfl

/-- **Checker theorem** — the form in which the round-trip property is also evaluated
    on the implementation's observation by the correspondence driver: for every valid
    object inside the limits the model's own observation (text, eval(text), repr of that,
    pickle round trip) satisfies the checker. -/
theorem c18_model_checks {L : Type} [BEq (Step L)] [ReflBEq (Step L)] (S : ScalarOps L) (F : Facts)
    (hwf : WF F = true) (x : C18.Obj L)
    (hv : validObj x = true) (hf : fitsObj S F.fmt F.lim x = true) :
    checkRepr x (observeRepr S F x) = true := by
  have hp := pickleObj_valid F hwf x hv
  obtain ⟨y, h1, h2, h3, h4⟩ := c18_repr_roundtrip S F hwf x hv hf
  simp only [checkRepr, observeRepr, h1, hp, Option.map_some, h4, h2, h3]
  simp [sameObj, sameOps]
  cases x <;> rfl

end Glom.Props.C18

/-! ### non-vacuity: concrete inputs meet every hypothesis; counter-examples without them -/

namespace Glom.C18.Examples
open Glom Glom.C18 Glom.Props.C18

/-- `T.a[1,].__('x')(1, S.q, z=2, b=T).__star__()[:2]` -/
def exT : List (Step Scalar) :=
  [.attr ['a'], .items [.one (.lit (.int 1))], .attr ['_', '_', 'x'],
   .call [.lit (.int 1), .t "S" [.attr ['q']]] [("z", .lit (.int 2)), ("b", .t "T" [])],
   .star, .item (.slice none (some (.lit (.int 2))) none)]

example : validT exT = true := by
  simp [exT, validT, validStep, validItem, validArg, Step.isSeg, Arg.isSliceObj, Item.isAtom]

example : validObj (.tobj "S" exT) = true := by
  simp [exT, validObj, validT, validStep, validItem, validArg, Step.isSeg, Arg.isSliceObj, Item.isAtom]

/-- `T(10**40, [(), (1,), {'k': {2, 3}}, frozenset(), b'x'], slice(1, None, 2))['q' * 31]`:
    every literal kind of the grammar, past reprlib's default limits, inside the instance's -/
def exLit : List (Step Scalar) :=
  [.call [.lit (.int (10 ^ 40)),
          .seq .list [.seq .tuple [], .seq .tuple [.lit (.int 1)],
                      .dict [(.lit (.str [107]), .seq .set [.lit (.int 2), .lit (.int 3)])],
                      .seq .frozenset [], .lit (.bytes [120])],
          .sliceObj (.lit (.int 1)) (.lit .none) (.lit (.int 2))] [],
   .item (.one (.lit (.str (List.replicate 31 113))))]

example : validT exLit = true := by
  simp [exLit, validT, validStep, validItem, validArg, Step.isSeg, Arg.isSliceObj, Arg.isTuple, Item.isAtom]

/-- `Path('a', T.b.__star__(), 2)` -/
def exP : List (Step Scalar) :=
  [.seg (.lit (.str [97])), .attr ['b'], .star, .seg (.lit (.int 2))]

example : validP exP = true := by simp [exP, validP, validStep, validArg, Arg.isSegArg]

/-- `Path(S, 'a', T.b.__star__(), 2)` and `Path(A.b, 'a')` are valid objects -/
example : validObj (.pobj "S" exP) = true := by
  simp [exP, validObj, validP, validStep, validArg, Arg.isSegArg, aOk]

example : validObj (.pobj "A" [.attr ['b'], .seg (.lit (.str [97]))] : C18.Obj Scalar) = true := by
  simp [validObj, validP, validStep, validArg, Arg.isSegArg, aOk, Step.okOnA]

/-- a nested Path with a wildcard as a call argument: `T(Path('a', T.b.__star__(), 2))` -/
example : validT [.call [.path "T" exP] []] = true := by
  simp [exP, validT, validStep, validArg, Arg.isSegArg, aOk, Step.isSeg]

/-- inside the limits: `Path('a', T.b.__star__(), 2)` … -/
example : fitsObj pyScalar F1 (Limits.uniform minLimit false) (.tobj "T" exP) = true := by
  simp [exP, fitsObj, fitsSteps, fitsStep, fitsArg, fitsLit, pyScalar, Obj.steps, nameFits, isDunder, dunder,
    Limits.uniform, minLimit, Limits.segLevel, Scalar.fits]
  decide

/-- `T(10**40, [(), (1,), {'k': {2, 3}}, frozenset(), b'x'])['q' * 31]` -/
def exBig : List (Step Scalar) :=
  [.call [.lit (.int (10 ^ 40)),
          .seq .list [.seq .tuple [], .seq .tuple [.lit (.int 1)],
                      .dict [(.lit (.str [107]), .seq .set [.lit (.int 2), .lit (.int 3)])],
                      .seq .frozenset [], .lit (.bytes [120])]] [],
   .item (.one (.lit (.str (List.replicate 31 113))))]

/-- … and an int of 41 digits, a 31-character string (both past reprlib's defaults), nested containers -/
example : fitsObj pyScalar F1 (Limits.uniform minLimit false) (.tobj "T" exBig) = true := by
  simp [exBig, fitsObj, fitsSteps, fitsStep, fitsItem, fitsArg, fitsLit, pyScalar, Obj.steps,
    Limits.uniform, minLimit, Limits.maxOf, Scalar.fits, Scalar.text]
  decide

/-- the hypotheses of `c18_concat` are those of C01 -/
example : C01.WF (C01.genEnv []) = true ∧
    C01.wfSteps [("P", .str "a"), ("[", .int 1)] = true ∧ C01.wfSteps [(".", .str "b")] = true := by
  decide

/-- the formatter of the tree before commit 0224102 -/
def F0 : FmtFacts := ⟨false, false, false, false⟩

/-- the formatter between commits 0224102 and 2a7aadd: `_format_path` is not given the root -/
def FP : FmtFacts := ⟨true, true, true, false⟩

end Glom.C18.Examples

namespace Glom.Props.C18
open Glom Glom.C18 Glom.C18.Examples

/-- **Outside the limits** (`fitsObj` is forced): a scalar that `reprlib` cuts — an int of more than
    `maxlong` digits, a string whose repr is longer than `maxstring`, … (seeded change C18-s9:
    `maxlong` left at 40) — is printed as a text that `eval` does not read back as the object:
    for every scalar type, every limit table and every scalar that does not fit. -/
theorem c18_cut_counterexample {L : Type} (S : ScalarOps L) (F : Facts) (hwf : WF F = true) (lim : Limits)
    (root : String) (v : L) (h : S.fits lim v = false) :
    parseObj (reprLim S F.fmt lim (.tobj root [.item (.one (.lit v))])) = none := by
  rw [wf_fmt hwf]
  simp [reprLim, truncStep, truncItem, truncArg, truncLit, h, fmtT, fmtSteps, assembleT, Step.isSeg,
    fmtStep, fmtItem, fmtArg, parseObj, parseArg_root, parseSteps_br, parseIndex_def, isUnitTok, splitOn,
    Tok.isComma, parseItem_def, Tok.isColon, parseArg_bad, consOpt]

/-- **A float without a literal** (`inf`, `-inf`, `nan`) is printed as a name that is not bound:
    `eval(repr(T(inf)))` fails, whatever the limits — finite floats are the property's domain. -/
theorem c18_nonfinite_counterexample {L : Type} (S : ScalarOps L) (F : Facts) (hwf : WF F = true)
    (lim : Limits) (root : String) (v : L) (h : S.evaluable v = false) :
    parseObj (reprLim S F.fmt lim (.tobj root [.call [.lit v] []])) = none := by
  rw [wf_fmt hwf]
  by_cases hf : S.fits lim v = true
  · simp [reprLim, truncStep, truncArg, truncLit, h, hf, fmtT, fmtSteps, assembleT, Step.isSeg,
      fmtStep, fmtArg, parseObj, parseArg_root, parseSteps_par, parseCall_def, splitOn,
      Tok.isComma, parseArg_bad, consOpt, sortKw, joinSep, dropTrailingEmpty, stripKw, allSome, callOf]
  · have hf' : S.fits lim v = false := by simpa using hf
    simp [reprLim, truncStep, truncArg, truncLit, hf', fmtT, fmtSteps, assembleT, Step.isSeg,
      fmtStep, fmtArg, parseObj, parseArg_root, parseSteps_par, parseCall_def, splitOn,
      Tok.isComma, parseArg_bad, consOpt, sortKw, joinSep, dropTrailingEmpty, stripKw, allSome, callOf]

/-- **A container longer than its limit** loses the elements after the limit: with `maxlist = 2`
    the list `[a, b, c]` is printed `[a, b, ...]`, which is not read back as the object (Python
    reads `...` as `Ellipsis`: another list). -/
theorem c18_overlong_counterexample {L : Type} (S : ScalarOps L) (F : Facts) (hwf : WF F = true)
    (lim : Limits) (hl : lim.maxlist = 2) (hlev : lim.maxlevel = 6)
    (hfit : ∀ v, S.fits lim v = true) (hev : ∀ v, S.evaluable v = true) (root : String) (a b c : L) :
    parseObj (reprLim S F.fmt lim (.tobj root [.call [.seq .list [.lit a, .lit b, .lit c]] []])) = none ∧
    fitsObj S F.fmt lim (.tobj root [.call [.seq .list [.lit a, .lit b, .lit c]] []]) = false := by
  rw [wf_fmt hwf]
  constructor
  · simp [reprLim, truncStep, truncArg, truncLit, hfit, hev, hl, hlev, Limits.maxOf, fmtT, fmtSteps,
      assembleT, Step.isSeg, fmtStep, fmtArg, wrapSeq, parseObj, parseArg_root, parseSteps_par,
      parseCall_def, splitOn, Tok.isComma, parseArg_br, parseElems_def, parseArg_fill, parseArg_lit,
      consOpt, sortKw, joinSep, dropTrailingEmpty, stripKw, allSome, callOf]
  · simp [fitsObj, fitsSteps, fitsStep, fitsArg, Obj.steps, hl, hlev, Limits.maxOf]

/-- Without `WF` (the switches of `_format_t` off, as before commit 0224102) the round trip
    fails: `T[(v,)]` is printed `T[v]` and read back as the index `v`; `T[()]` is printed
    `T[]`, which is not an expression; `T.__('x')` is printed `T.__x`, which T refuses. -/
theorem c18_wf_counterexample {L : Type} (v : L) :
    parseObj (fmtT F0 "T" [.items [.one (.lit v)]]) = some (.tobj "T" [.item (.one (.lit v))]) ∧
    parseObj (fmtT F0 "T" [(.items [] : Step L)]) = none ∧
    parseObj (fmtT F0 "T" [(.attr ['_', '_', 'x'] : Step L)]) = none := by
  refine ⟨?_, ?_, ?_⟩
  · simp [fmtT, fmtSteps, assembleT, Step.isSeg, fmtStep, fmtItem, fmtArg, F0, joinSep, parseObj,
      parseArg_root, parseSteps_br, parseIndex_def, isUnitTok, splitOn, Tok.isComma, parseItem_def,
      Tok.isColon, parseArg_lit, consOpt, parseSteps_nil]
  · simp [fmtT, fmtSteps, assembleT, Step.isSeg, fmtStep, F0, joinSep, parseObj, parseArg_root,
      parseSteps_br, parseIndex_def, isUnitTok, splitOn, parseItem_def, consOpt, parseArg]
  · simp [fmtT, fmtSteps, assembleT, Step.isSeg, fmtStep, F0, parseObj, parseArg_root]
    rw [parseSteps]
    all_goals simp [isDunder, dunder]

/-- Without `WF` (the shape of `_format_path` before commit 2a7aadd, which was not given the
    root): the text of `Path(S.a, 'b')` was `Path(T.a, 'b')`, read back with root `T` — a
    different object, evaluated against the target instead of the scope; and `Path(S.a)` was
    printed `T.a`. -/
theorem c18_path_root_counterexample {L : Type} (v : L) :
    parseObj (fmtPath FP "S" [.attr ['a'], .seg (.lit v)]) =
      some (.pobj "T" [.attr ['a'], .seg (.lit v)]) ∧
    fmtPath FP "S" [(.attr ['a'] : Step L)] = fmtT FP "T" [.attr ['a']] := by
  have hd : parseSteps [(Tok.dot ['a'] : Tok L)] = some [.attr ['a']] := by
    rw [parseSteps_dot _ _ (by decide), parseSteps_nil]; rfl
  constructor
  · simp [fmtPath, FP, fmtSteps, assemblePath, groupSteps, Step.isSeg, effRoot, withRootPart,
      partToks, groupToks, fmtStep, fmtArg, isDunder, dunder, joinSep, parseObj, parseArg_path,
      parseElems_def, splitOn, Tok.isComma, dropTrailingEmpty, allSome, parseArg_root, parseArg_lit, hd,
      pathOfParts, partOfArg, pathInit, pathStep, tChild]
  · simp [fmtPath, fmtT, FP, fmtSteps, assemblePath, assembleT, groupSteps, Step.isSeg, effRoot,
      fmtStep, isDunder, dunder]

end Glom.Props.C18
