import Glom.Lemmas.C15
import Glom.Model.C15Env
/-
  C15 — Fold, Sum, Flatten, Merge equal plain-Python reductions and mutate no input.

  Property theorems only; helper lemmas are in `Glom/Lemmas/C15.lean`.

  The model (`Glom/Model/C15.lean`) runs on a heap of objects with addresses:
  `init()` allocates (or returns an immutable immediate), `ret += v` mutates the
  accumulator object IN PLACE, `a + b` allocates.  The reference
  (`Glom/Spec/C15.lean`) is a pure `functools.reduce` over VALUES that reads
  element contents from the ORIGINAL heap `h0` only.  Every theorem is for all
  closed heaps (any sharing, any cycles through mutable containers), all
  targets, sub-specs, item counts and histories (`h` is any heap reached by
  earlier evaluations, `Ctx h0 h`), with no size bound.

  The target's iteration is the handler the registry names AT THE TIME OF THE CALL:
  every evaluation theorem is for an arbitrary handler table `env.lk` (class → handler),
  and the history theorems (`c15_memo_invisible`, `c15_history`, `c15_history_checks`,
  `c15_register_immediate`) relate the code that exists — `get_handler` with its memo,
  `register` — to the memo-free answer of the tables of the moment, for every class
  hierarchy `H`, every registry and every interleaving of evaluations and registrations.

  Standing hypotheses (each with a satisfiability `example` and, where forced
  by the proof, the counter-example without it, at the end of the file):
    closedHeap h0         no dangling references, no chain objects among the inputs
    target / sub-spec keys point into h0
    init allocates        `init()` returns a new object or an immutable immediate
                          (`InitOK`: … and a copying factory copies a list / tuple / dict of h0)
    HandlerLaw h0 env     every `iterate` handler only READS input objects and yields input values
                          (true of the catalogue: `c15_catalogue_handlers_lawful`)
    op lawful             `op` writes to nothing but its accumulator (`OpLaw`; the element-poking
                          operator of the catalogue is the counter-example)
    noMarkers h0 / NM     (special-case theorems only) no generator involved raises midway
    WFConv env            the extracted `except` clauses (c15_facts_wf, re-checked every run)
    WF env                … and chain objects are iterated with `iter` (flatten(levels ≥ 2) only)
    CacheOK H r           the registry's memo holds first-lookup answers only (true of every
                          registry reached from a fresh one: `c15_reachable_cache_ok`)
-/
namespace Glom.Props.C15
open Glom Glom.C15

/-- **Facts obligation** (re-checked on every run against the tables regenerated
    from /repo): list/tuple/dict/OrderedDict and `_AbstractIterable` are registered
    for `iterate` with `iter`, `object` is not; `_AbstractIterable` refuses str and
    bytes; Fold.glomit turns UnregisteredTarget into FoldError; FoldError is a
    GlomError; `init()` is called inside `_fold` (never in a constructor of Fold,
    Sum, Flatten); the three `_fold` bodies, the constructor defaults and
    `flatten()`'s spec construction have the shape the model transcribes. -/
theorem c15_facts_wf : WFConv genEnv = true ∧ WFSrc genSrc = true ∧
    defaultsOK (pureLk C13.builtinHier (genReg C13.builtinHier)) = true := by decide

/-- the environment the correspondence driver evaluates the checker in (the documented
    behaviour, hard-coded) is well-formed too, and on the builtin hierarchy the registry built
    from the extracted registration sequences IS the documented one -/
theorem c15_spec_env_wf : WFConv specEnv = true ∧
    defaultsOK (pureLk C13.builtinHier (specReg C13.builtinHier)) = true ∧
    genReg C13.builtinHier = specReg C13.builtinHier := by decide

/-- **Fold = functools.reduce.**  `Fold(sub, init, op)` evaluated on any heap `h`
    reached by earlier evaluations: with `items = iterate(glom(target, sub))` and
    `sv0 = init()` as a value, the outcome is `List.foldlM` (= `functools.reduce` in the
    exception monad) of the operator over the items — the same error, the same
    immediate, or an object at a NEW address holding exactly the reduced content.
    (`guardOp`: an iterator that raises instead of yielding raises out of the loop.)
    `items` are `target_iter` of the sub-spec's result under the handler table `env.lk`:
    which handler that table names is the registry's business (C13, `c15_memo_invisible`),
    how `T[…]` sub-specs evaluate is C01's. -/
theorem c15_fold_eq_foldl (env : Env) (hwf : WFConv env = true) {h0 h : Heap} (c : Ctx h0 h) (hH : HandlerLaw h0 env)
    (sub : List Val) (init : Init) (op : Op) (hinit : InitOK h0 init) (hop : op ≠ .pokeElem) (target : Val)
    (hsub : ∀ k ∈ sub, Val.inb h0.length k = true) (ht : Val.inb h0.length target = true)
    (items : List Val) (hitems : refItems env h0 sub target = .ok items)
    (sv0 : SV) (hsv : initSV h0 init = some sv0) :
    let out := glomit env (mkFold sub init op) h target
    match items.foldlM (foldStep (guardOp (pyOp op)) h0) sv0 with
    | .error e => out.1 = .error e
    | .ok (.imm v) => out.1 = .ok v
    | .ok (.cell o) => ∃ a, out.1 = .ok (.ref a) ∧ h.length ≤ a ∧ out.2[a]? = some o := by
  have hg := (glomit_spec c env hH (WFConv_parts hwf).1 (mkFold sub init op) hinit hop hsub ht).2
  simp only [refSpec, mkFold, hitems, refKind, withInit, hsv, refReduce_eq_foldlM] at hg
  simp only [mkFold]
  cases hr : items.foldlM (foldStep (guardOp (pyOp op)) h0) sv0 with
  | error e => rw [hr] at hg; exact hg
  | ok sv =>
    rw [hr] at hg
    cases sv with
    | imm v => exact hg.1
    | cell o => obtain ⟨a, h1, h2, h3, _⟩ := hg; exact ⟨a, h1, h2, h3⟩

/-- **Sum = sum.**  On int / bool items `Sum()` returns their integer sum. -/
theorem c15_sum (env : Env) (hwf : WFConv env = true) {h0 h : Heap} (c : Ctx h0 h) (hH : HandlerLaw h0 env)
    (sub : List Val) (target : Val)
    (hsub : ∀ k ∈ sub, Val.inb h0.length k = true) (ht : Val.inb h0.length target = true)
    (items : List Val) (hitems : refItems env h0 sub target = .ok items)
    (is : List Int) (hints : allInts items = some is) :
    (glomit env (mkSum sub .int) h target).1 = .ok (.int is.sum) := by
  have hg := (glomit_spec c env hH (WFConv_parts hwf).1 (mkSum sub .int) (InitOK.plain h0 rfl rfl rfl)
    (by simp [mkSum]) hsub ht).2
  simp only [refSpec, mkSum, hitems, refKind, withInit, initSV,
    refReduce_guard_fold _ h0 items _ (allInts_nm hints), reduce_iadd_int h0 items is 0 hints,
    RefRes.ofSV, Int.zero_add] at hg
  exact hg.1

/-- **Flatten = chain.from_iterable.**  Eager `Flatten()` (`init=list`: the one `init` whose `+=`
    accepts every iterable — for any other `init` the reference is the `+=` loop itself, reading
    6.x) returns a NEW list holding the concatenation of the items' own items (the very same
    element objects: the copy is shallow), or raises TypeError when an item is not iterable.
    (`noMarkers`, `NM`: no generator involved raises midway.) -/
theorem c15_flatten_eq_join (env : Env) (hwf : WFConv env = true) {h0 h : Heap} (c : Ctx h0 h) (hH : HandlerLaw h0 env)
    (sub : List Val) (target : Val)
    (hsub : ∀ k ∈ sub, Val.inb h0.length k = true) (ht : Val.inb h0.length target = true)
    (items : List Val) (hitems : refItems env h0 sub target = .ok items)
    (hnm : noMarkers h0 = true) (hni : NM items) :
    let out := glomit env (mkFlatten sub (.init .list)) h target
    match joinWith (rawIter1 h0) items with
    | some ys => ∃ a, out.1 = .ok (.ref a) ∧ h.length ≤ a ∧ out.2[a]? = some (.list "list" ys)
    | none => out.1 = .error typeErr := by
  have hg := (glomit_spec c env hH (WFConv_parts hwf).1 (mkFlatten sub (.init .list))
    (InitOK.plain h0 rfl rfl rfl) (by simp [mkFlatten]) hsub ht).2
  have hin := refItems_inb c.closed hH hsub ht hitems
  simp only [refSpec, mkFlatten, hitems, refKind, withInit, initSV, refReduce_guard_fold _ h0 items _ hni,
    reduce_iadd_list h0 c.closed hnm items [] hin hni,
    joinWith_raw_eq c.closed hin, Bool.false_eq_true, if_false, List.nil_append] at hg
  simp only [mkFlatten]
  cases hj : joinWith (rawIter1 h0) items with
  | none => rw [hj] at hg; exact hg
  | some ys => rw [hj] at hg; obtain ⟨a, h1, h2, h3, _⟩ := hg; exact ⟨a, h1, h2, h3⟩

/-- **The copy is shallow** (reading 6.x(e): "results of separate evaluations share no state" is
    about the result CONTAINERS): what eager `Flatten()` puts into its new list are the very
    element objects of the inputs — input values, nothing allocated for them — so two evaluations
    return distinct lists (`c15_independent`) holding the same element objects. -/
theorem c15_result_shallow (env : Env) {h0 : Heap} (hc : closedHeap h0 = true) (hH : HandlerLaw h0 env)
    (sub : List Val) (target : Val)
    (hsub : ∀ k ∈ sub, Val.inb h0.length k = true) (ht : Val.inb h0.length target = true)
    (items : List Val) (hitems : refItems env h0 sub target = .ok items)
    (ys : List Val) (hj : joinWith (rawIter1 h0) items = some ys) :
    (∀ x ∈ items, Val.inb h0.length x = true) ∧ (∀ y ∈ ys, Val.inb h0.length y = true) :=
  ⟨refItems_inb hc hH hsub ht hitems, joinWith_inb hc hj⟩

/-- **Lazy = eager.**  What `Flatten(init='lazy')` shows once consumed is what eager
    `Flatten()` shows: the same items in the same order, or the same TypeError. -/
theorem c15_lazy_eq_eager (env : Env) (h0 : Heap) (hc : closedHeap h0 = true) (hH : HandlerLaw h0 env)
    (sub : List Val) (target : Val)
    (hsub : ∀ k ∈ sub, Val.inb h0.length k = true) (ht : Val.inb h0.length target = true)
    (hnm : noMarkers h0 = true) (hni : ∀ items, refItems env h0 sub target = .ok items → NM items) :
    expectR env h0 (.flatten sub .lazy) target =
      match expectR env h0 (.flatten sub (.init .list)) target with
      | .fresh (.list _ ys) => .fresh (.tuple "chain" ys)
      | r => r := by
  simp only [expectR, refProg, refSpec, mkFlatten]
  cases hitems : refItems env h0 sub target with
  | error e => cases e <;> rfl
  | ok items =>
    have hin := refItems_inb hc hH hsub ht hitems
    simp only [refKind, withInit, initSV, refReduce_guard_fold _ h0 items _ (hni items hitems),
      reduce_iadd_list h0 hc hnm items [] hin (hni items hitems), joinWith_raw_eq hc hin,
      Bool.false_eq_true, if_false, if_true, List.nil_append, showRef, showNew, beq_self_eq_true]
    cases hj : joinWith (rawIter1 h0) items with
    | none => rfl
    | some ys =>
      have := (firstRaise_none_iff ys).mpr (joinWith_nm hnm (hni items hitems) hj)
      simp only [this, RefRes.ofSV]

/-- **flatten(levels = n+1) = join^(n+1).**  The default `flatten()` with `levels = n+1`
    returns a NEW list holding the (n+1)-fold `chain.from_iterable` of the items, or
    raises TypeError when some level meets a non-iterable; `levels = 0` returns the
    target itself; negative levels raise ValueError. -/
theorem c15_levels (env : Env) (hwf : WF env = true) {h0 h : Heap} (c : Ctx h0 h) (hH : HandlerLaw h0 env)
    (hiter : env.run "iter" = rawIter)
    (sub : List Val) (n : Nat) (target : Val)
    (hsub : ∀ k ∈ sub, Val.inb h0.length k = true) (ht : Val.inb h0.length target = true)
    (items : List Val) (hitems : refItems env h0 sub target = .ok items)
    (hnm : noMarkers h0 = true) (hni : NM items) :
    let out := flattenFn env sub (.init .list) ((n : Int) + 1) h target
    match joinN h0 (n + 1) items with
    | some ys => ∃ a, out.1 = .ok (.ref a) ∧ h.length ≤ a ∧ out.2[a]? = some (.list "list" ys)
    | none => out.1 = .error typeErr := by
  obtain ⟨hcatch, hchain, _⟩ := WF_parts hwf hiter
  have hg := (flattenFn_spec c env hH (levels := (n : Int) + 1) (fun _ => hchain) hcatch sub (.init .list)
    (Or.inr (InitOK.plain h0 rfl rfl rfl)) hsub ht).2
  have h0l : (((n : Int) + 1) == 0) = false := by
    simp only [beq_eq_false_iff_ne, ne_eq]; omega
  have hneg : ¬ ((n : Int) + 1) < 0 := by omega
  have htn : ((n : Int) + 1).toNat - 1 = n := by omega
  rw [refFlattenFn_pos env h0 sub _ _ target h0l hneg rfl, hitems, htn] at hg
  simp only at hg
  have hin := refItems_inb c.closed hH hsub ht hitems
  rw [joinN_succ']
  cases hj : joinN h0 n items with
  | none => rw [hj] at hg; exact hg
  | some zs =>
    rw [hj] at hg
    have hz := joinN_inb c.closed n items zs hin hj
    simp only [refAfter, refKind, mkFlatten, withInit, initSV,
      refReduce_guard_fold _ h0 zs _ (joinN_nm hnm n items zs hni hj), reduce_iadd_list h0 c.closed hnm zs [] hz (joinN_nm hnm n items zs hni hj),
      joinWith_raw_eq c.closed hz, Bool.false_eq_true, if_false, List.nil_append] at hg
    cases hj2 : joinWith (rawIter1 h0) zs with
    | none => simp only [hj2, RefRes.ofSV] at hg ⊢; exact hg
    | some ys =>
      simp only [hj2, RefRes.ofSV] at hg ⊢
      obtain ⟨a, h1, h2, h3, _⟩ := hg; exact ⟨a, h1, h2, h3⟩

/-- **Merge: last writer wins.**  `Merge()` / `merge()` over dict items returns a NEW dict
    in which every key maps to the value of the LAST pair (over all items, in order)
    carrying that key. -/
theorem c15_merge_last_wins (env : Env) (hwf : WFConv env = true) {h0 h : Heap} (c : Ctx h0 h) (hH : HandlerLaw h0 env)
    (sub : List Val) (target : Val)
    (hsub : ∀ k ∈ sub, Val.inb h0.length k = true) (ht : Val.inb h0.length target = true)
    (items : List Val) (hitems : refItems env h0 sub target = .ok items)
    (ds : List (List (Val × Val))) (hds : dictsOf h0 items = some ds) :
    let out := mergeFn env sub .dict .none h target
    ∃ a es, out.1 = .ok (.ref a) ∧ h.length ≤ a ∧ out.2[a]? = some (.dict "dict" es) ∧
      ∀ k, dictLookup es k = lastPair ds.flatten k := by
  have hg := (mergeFn_spec c env hH (WFConv_parts hwf).1 sub .dict .none (Or.inr (InitOK.plain h0 rfl rfl rfl))
    hsub ht).2
  have hop : refMergeOp h0 .dict .none = .ok (.update "dict") := rfl
  simp only [refMerge, hop, refSpec, hitems, refKind, withInit, initSV,
    refReduce_guard_merge _ h0 items _ (dictsOf_nm hds),
    reduce_update_dicts h0 "dict" (by decide) items ds [] hds, RefRes.ofSV] at hg
  obtain ⟨a, h1, h2, h3, _⟩ := hg
  refine ⟨a, _, h1, h2, h3, ?_⟩
  intro k
  rw [dictLookup_applyPairs]
  cases lastPair ds.flatten k <;> rfl

/-- **Frame.**  Running one spec object on any sequence of targets leaves every
    pre-existing object exactly as it was. -/
theorem c15_frame (env : Env) (hwf : WF env = true) (h0 : Heap) (hH : HandlerLaw h0 env)
    (hiter : env.run "iter" = rawIter) (p : Prog) (targets : List Val)
    (hcase : wfCase h0 targets = true) (hp : (progVals p).all (Val.inb h0.length) = true)
    (hinit : p.initAllocates = true) (hw : p.initWF h0 = true) (hlaw : p.opLawful = true)
    (hctor : ctorErr p = none) :
    ∀ a, a < h0.length → (runProg env p targets h0).2[a]? = h0[a]? := by
  simp only [wfCase, Bool.and_eq_true] at hcase
  exact (runProg_spec env hwf h0 hcase.1 hH hiter p ⟨allInb hp, hinit, hw, hlaw, hctor⟩ targets
    (allInb hcase.2)).1.2

/-- **Fresh.**  A container a spec object returns did not exist before this evaluation:
    its address is beyond everything allocated so far — the inputs AND the results of
    all earlier evaluations of the same spec object. -/
theorem c15_fresh (env : Env) (hwf : WFConv env = true) {h0 h : Heap} (c : Ctx h0 h) (hH : HandlerLaw h0 env)
    (s : FoldSpec) (hinit : InitOK h0 s.init) (hop : s.op ≠ .pokeElem) (target : Val)
    (hsub : ∀ k ∈ s.sub, Val.inb h0.length k = true) (ht : Val.inb h0.length target = true)
    (a : Nat) (hres : (glomit env s h target).1 = .ok (.ref a)) :
    h.length ≤ a ∧ a < (glomit env s h target).2.length := by
  have hg := (glomit_spec c env hH (WFConv_parts hwf).1 s hinit hop hsub ht).2
  cases hr : refSpec env h0 s target with
  | err e => rw [hr] at hg; simp only [ResRel] at hg; rw [hg] at hres; cases hres
  | imm v =>
    rw [hr] at hg; obtain ⟨h1, hn⟩ := hg
    rw [h1] at hres; injection hres with hres; exact absurd hres (hn a)
  | same v => exact absurd hr (refSpec_not_same env h0 s target v)
  | new o =>
    rw [hr] at hg; obtain ⟨a', h1, h2, h3, _⟩ := hg
    rw [h1] at hres; injection hres with hres; injection hres with hres; subst hres
    exact ⟨h2, get_lt h3⟩

/-- **Independence.**  Evaluating the same spec object twice: the second result is a
    different object and the second evaluation leaves the first result untouched. -/
theorem c15_independent (env : Env) (hwf : WFConv env = true) (h0 : Heap) (hc : closedHeap h0 = true)
    (hH : HandlerLaw h0 env) (s : FoldSpec) (hinit : InitOK h0 s.init) (hop : s.op ≠ .pokeElem) (t1 t2 : Val)
    (hsub : ∀ k ∈ s.sub, Val.inb h0.length k = true)
    (ht1 : Val.inb h0.length t1 = true) (ht2 : Val.inb h0.length t2 = true) (a1 a2 : Nat) :
    let e1 := glomit env s h0 t1
    let e2 := glomit env s e1.2 t2
    e1.1 = .ok (.ref a1) → e2.1 = .ok (.ref a2) → a1 ≠ a2 ∧ e2.2[a1]? = e1.2[a1]? := by
  intro e1 e2 hr1 hr2
  have c0 := Ctx.base hc
  have g1 := glomit_spec c0 env hH (WFConv_parts hwf).1 s hinit hop hsub ht1
  have c1 : Ctx h0 e1.2 := c0.step (Nat.le_refl _) g1.1
  have f1 : h0.length ≤ a1 ∧ a1 < e1.2.length := c15_fresh env hwf c0 hH s hinit hop t1 hsub ht1 a1 hr1
  have f2 : e1.2.length ≤ a2 ∧ a2 < e2.2.length := c15_fresh env hwf c1 hH s hinit hop t2 hsub ht2 a2 hr2
  have g2 := glomit_spec c1 env hH (WFConv_parts hwf).1 s hinit hop hsub ht2
  exact ⟨by omega, g2.1.2 a1 f1.2⟩

/-- **Checker theorem** — the form in which the property is evaluated on the
    implementation's observation by the correspondence driver: the model's own
    observation passes. -/
theorem c15_model_checks (env : Env) (hwf : WF env = true) (h0 : Heap) (hH : HandlerLaw h0 env)
    (hiter : env.run "iter" = rawIter) (p : Prog) (targets : List Val)
    (hcase : wfCase h0 targets = true) (hp : (progVals p).all (Val.inb h0.length) = true)
    (hinit : p.initAllocates = true) (hw : p.initWF h0 = true) (hlaw : p.opLawful = true)
    (hctor : ctorErr p = none) :
    checkC15 env h0 p targets (observe env h0.length (runProg env p targets h0)) = true := by
  have hcase' := hcase
  simp only [wfCase, Bool.and_eq_true] at hcase'
  have hs := runProg_spec env hwf h0 hcase'.1 hH hiter p ⟨allInb hp, hinit, hw, hlaw, hctor⟩ targets
    (allInb hcase'.2)
  simp only [checkC15, Prog.hyps, hinit, hlaw, observe, hs.2, take_of_frame rfl hs.1]
  simp

/-! ### arbitrary `init` / `op`; Merge with a custom `op`; every `init` of flatten(); errors -/

/-- **Fold with ANY lawful factory and operator = functools.reduce.**  For every `init` that
    allocates (`InitLaw`: an immediate, or a NEW object, on every call) and every `op` that reads
    only its operands, mutates at most the accumulator, and returns an immediate or a container of
    its own (`OpLaw`) — in-place operators (`+=`, `append`, `update`) and pure ones (`+`, `cons`)
    alike — `Fold._fold` leaves every existing object alone and returns exactly
    `functools.reduce(op, items, init())`: the same error, the same immediate, or an object at a
    NEW address holding the reduced content. -/
theorem c15_fold_any_op {h0 h : Heap} (c : Ctx h0 h) {ini : InitFn} {sv0 : SV} (I : InitLaw h0 ini sv0)
    {f : OpFn} (L : OpLaw h0 f) {items : List Val} (hi : ∀ x ∈ items, Val.inb h0.length x = true) :
    let out := foldWith ini f items h
    (∀ a, a < h.length → out.2[a]? = h[a]?) ∧
    match items.foldlM (foldStep f h0) sv0 with
    | .error e => out.1 = .error e
    | .ok (.imm v) => out.1 = .ok v
    | .ok (.cell o) => ∃ a, out.1 = .ok (.ref a) ∧ h.length ≤ a ∧ out.2[a]? = some o := by
  have hg := foldWith_spec c I L hi
  refine ⟨hg.1.2, ?_⟩
  have hr := hg.2
  rw [refReduce_eq_foldlM] at hr
  cases hf : items.foldlM (foldStep f h0) sv0 with
  | error e => rw [hf] at hr; exact hr
  | ok sv =>
    rw [hf] at hr
    cases sv with
    | imm v => exact hr.1
    | cell o => obtain ⟨a, h1, h2, h3, _⟩ := hr; exact ⟨a, h1, h2, h3⟩

/-- **Merge with ANY lawful factory and operator**: `op(ret, v)` is called for its effect, its
    result dropped; the object `init()` returned comes back, holding the successive merges. -/
theorem c15_merge_any_op {h0 h : Heap} (c : Ctx h0 h) {ini : InitFn} {sv0 : SV} (I : InitLaw h0 ini sv0)
    {f : OpFn} (L : OpLaw h0 f) {items : List Val} (hi : ∀ x ∈ items, Val.inb h0.length x = true) :
    let out := mergeWith ini f items h
    (∀ a, a < h.length → out.2[a]? = h[a]?) ∧
    match items.foldlM (mergeStep f h0) sv0 with
    | .error e => out.1 = .error e
    | .ok (.imm v) => out.1 = .ok v
    | .ok (.cell o) => ∃ a, out.1 = .ok (.ref a) ∧ h.length ≤ a ∧ out.2[a]? = some o := by
  have hg := mergeWith_spec c I L hi
  refine ⟨hg.1.2, ?_⟩
  have hr := hg.2
  rw [refReduce_eq_foldlM] at hr
  cases hf : items.foldlM (mergeStep f h0) sv0 with
  | error e => rw [hf] at hr; exact hr
  | ok sv =>
    rw [hf] at hr
    cases sv with
    | imm v => exact hr.1
    | cell o => obtain ⟨a, h1, h2, h3, _⟩ := hr; exact ⟨a, h1, h2, h3⟩

/-- every operator but the element-poking one, and every allocating factory of the catalogue, meets
    the laws: `+=` (list: extend in place; Acc: append in place; tuple / str / numbers: a new
    value), `+`, Count's lambda, `dict.update` / `OrderedDict.update` / `Acc.update`,
    `list.extend`, `list.append`, `first_wins`, `append`, `cons`, `{**a, **b}`, the operator that
    raises UnregisteredTarget; with the loop's own check (`guardOp`) they still do;
    `int`, `float`, `str`, `list`, `tuple`, `dict`, `OrderedDict`, `Acc`, `set`, a copying factory.
    `lambda a, v: (v.append(0), a)[1]` — an operator that writes to its ELEMENT — does not
    (`c15_element_writing_op_counterexample`). -/
theorem c15_catalogue_lawful (h0 : Heap) :
    (∀ op : Op, op ≠ .pokeElem → OpLaw h0 (pyOp op) ∧ OpLaw h0 (guardOp (pyOp op))) ∧
    (∀ i : Init, InitOK h0 i → ∃ sv, initSV h0 i = some sv ∧ InitLaw h0 (callInit i) sv) :=
  ⟨fun op hop => ⟨pyOp_law h0 op hop, guardOp_law (pyOp_law h0 op hop)⟩, fun _ hi => callInit_law hi⟩

/-- the `iterate` handlers of the catalogue (`iter`, reversed, tail, as-a-list, the `items`
    attribute, a raising one) meet `HandlerLaw` on every closed heap, in the extracted and in the
    documented environment, under every handler table; `iter` is Python's `iter`. -/
theorem c15_catalogue_handlers_lawful (h0 : Heap) (hc : closedHeap h0 = true) (H : Hier) (r : Reg) :
    HandlerLaw h0 genEnv ∧ HandlerLaw h0 specEnv ∧
    HandlerLaw h0 (envOf H genEnv r) ∧ HandlerLaw h0 (envOf H specEnv r) ∧
    genEnv.run "iter" = rawIter ∧ specEnv.run "iter" = rawIter :=
  ⟨runHandler_law hc rfl, runHandler_law hc rfl, runHandler_law hc rfl, runHandler_law hc rfl,
   by funext h v; simp [genEnv, runHandler], by funext h v; simp [specEnv, runHandler]⟩

/-- **Merge(op=first_wins): first writer wins.**  With the user operator
    `lambda d, v: [d.setdefault(k, x) for k, x in v.items()]` every key maps to the value of the
    FIRST pair (over all items, in order) carrying it. -/
theorem c15_merge_first_wins (env : Env) (hwf : WFConv env = true) {h0 h : Heap} (c : Ctx h0 h) (hH : HandlerLaw h0 env)
    (sub : List Val) (target : Val)
    (hsub : ∀ k ∈ sub, Val.inb h0.length k = true) (ht : Val.inb h0.length target = true)
    (items : List Val) (hitems : refItems env h0 sub target = .ok items)
    (ds : List (List (Val × Val))) (hds : dictsOf h0 items = some ds) :
    let out := mergeFn env sub .dict .firstWins h target
    ∃ a es, out.1 = .ok (.ref a) ∧ h.length ≤ a ∧ out.2[a]? = some (.dict "dict" es) ∧
      ∀ k, dictLookup es k = firstPair ds.flatten k := by
  have hg := (mergeFn_spec c env hH (WFConv_parts hwf).1 sub .dict .firstWins
    (Or.inr (InitOK.plain h0 rfl rfl rfl)) hsub ht).2
  have hop : refMergeOp h0 .dict .firstWins = .ok .firstWins := rfl
  simp only [refMerge, hop, refSpec, hitems, refKind, withInit, initSV,
    refReduce_guard_merge _ h0 items _ (dictsOf_nm hds),
    reduce_firstWins_dicts h0 "dict" items ds [] hds, RefRes.ofSV] at hg
  obtain ⟨a, h1, h2, h3, _⟩ := hg
  refine ⟨a, _, h1, h2, h3, ?_⟩
  intro k
  rw [dictLookup_setDefaults]
  rfl

/-- **flatten(levels = n+1, init) for EVERY init** (by induction over the levels): `n` times
    `chain.from_iterable`, then exactly what `Flatten(init)` does with the joined items — `init()`
    called once, at the last level only. -/
theorem c15_levels_any_init (env : Env) (hwf : WF env = true) {h0 h : Heap} (c : Ctx h0 h) (hH : HandlerLaw h0 env)
    (hiter : env.run "iter" = rawIter)
    (sub : List Val) (init : InitArg) (hinit : InitArgOK h0 init) (hnc : init ≠ .init .notCallable)
    (n : Nat) (target : Val)
    (hsub : ∀ k ∈ sub, Val.inb h0.length k = true) (ht : Val.inb h0.length target = true)
    (items : List Val) (hitems : refItems env h0 sub target = .ok items) :
    let out := flattenFn env sub init ((n : Int) + 1) h target
    (∀ a, a < h.length → out.2[a]? = h[a]?) ∧
    ResRel h0.length h.length out
      (match joinN h0 n items with
       | none => .err typeErr
       | some ys => refKind h0 (mkFlatten [] init) ys) := by
  obtain ⟨hcatch, hchain, _⟩ := WF_parts hwf hiter
  have hg := flattenFn_spec c env hH (levels := (n : Int) + 1) (fun _ => hchain) hcatch sub init (Or.inr hinit)
    hsub ht
  have h0l : (((n : Int) + 1) == 0) = false := by
    simp only [beq_eq_false_iff_ne, ne_eq]; omega
  have hneg : ¬ ((n : Int) + 1) < 0 := by omega
  have htn : ((n : Int) + 1).toNat - 1 = n := by omega
  rw [refFlattenFn_pos env h0 sub _ _ target h0l hneg (by simpa using hnc), hitems, htn] at hg
  refine ⟨hg.1.2, ?_⟩
  have := hg.2
  simp only [refAfter] at this
  cases hj : joinN h0 n items with
  | none => rw [hj] at this; exact this
  | some ys => rw [hj] at this; exact this

/-- **FoldError — for the target, and only for the target.**  Against ANY registry state with a
    consistent memo (a `False` remembered by an earlier `raise_exc=False` lookup included), a
    target whose class the TABLES give no `iterate` handler makes Fold / Sum / Flatten / Merge
    raise FoldError — a GlomError: `init()` is not called, nothing is allocated, the tables are
    as they were. -/
theorem c15_fold_error (H : Hier) (env : Env) (hwf : WFConv env = true) (s : FoldSpec) (r : Reg)
    (hc : CacheOK H r) (h : Heap) (target t : Val)
    (hsub : evalSub h s.sub target = .ok t)
    (hun : C13.resolve H r "iterate" (t.clsName h) = some none) :
    (glomitR H env s r h target).1 = (.error .fold, h) ∧ C13.EqC (glomitR H env s r h target).2 r ∧
    errR env .fold = .err "FoldError" true := by
  obtain ⟨hcatch, _, hglom⟩ := WFConv_parts hwf
  obtain ⟨b1, b2, _⟩ := glomitR_bridge H env s r h target hc
  refine ⟨?_, b2, by simp [errR, hglom]⟩
  rw [b1]
  have hcatch' : regLookup (envOf H env r).foldCatch "UnregisteredTarget" = some "FoldError" := hcatch
  simp [glomit, hsub, targetIter, applyHandler, envOf, pureLk, hun, convertIterErr, hcatch]

/-- **A handler that raises is a TypeError, not a FoldError**: `target_iter` looks the handler up
    OUTSIDE its `try` (UnregisteredTarget → Fold.glomit's `except` → FoldError) and calls it
    INSIDE (`except Exception` → TypeError, which Fold.glomit does not catch) — against any
    registry state; `init()` is not called, nothing is allocated. -/
theorem c15_handler_error (H : Hier) (env : Env) (hwf : WFConv env = true) (s : FoldSpec) (r : Reg)
    (hc : CacheOK H r) (h : Heap) (target t : Val) (hn : String)
    (hsub : evalSub h s.sub target = .ok t)
    (hlk : C13.resolve H r "iterate" (t.clsName h) = some (some hn))
    (hrun : env.run hn h t = none) :
    (glomitR H env s r h target).1 = (.error typeErr, h) ∧ errR env typeErr = .err "TypeError" false := by
  obtain ⟨_, hiter, _⟩ := WFConv_parts hwf
  have hne : env.excTable.isSub "TypeError" "GlomError" = false := by
    simp only [WFConv, Bool.and_eq_true, Bool.not_eq_eq_eq_not, Bool.not_true] at hwf
    exact hwf.1.2
  obtain ⟨b1, _, _⟩ := glomitR_bridge H env s r h target hc
  constructor
  · rw [b1]
    have hrun' : (envOf H env r).run hn h t = none := hrun
    simp [glomit, hsub, targetIter, applyHandler, envOf, pureLk, hlk, hrun, handlerFailure, hiter,
      convertIterErr, typeErr]
  · simp [errR, typeErr, hne]

/-- **An exception raised INSIDE the loop is not the target's** (6be71d7): when the iterator raises
    an exception of class `cl` after yielding `pre` — UnregisteredTarget included, as
    `glom(t, Iter([T]))` does at a non-iterable element — Fold raises `cl`, not FoldError: only the
    call of `target_iter` is inside Fold.glomit's `try`.  (An UnregisteredTarget raised by `op`
    is the `.error` case of `c15_fold_eq_foldl`.) -/
theorem c15_loop_error_propagates (env : Env) (hwf : WFConv env = true) {h0 h : Heap} (c : Ctx h0 h)
    (hH : HandlerLaw h0 env)
    (sub : List Val) (init : Init) (op : Op) (hinit : InitOK h0 init) (hop : op ≠ .pokeElem) (target : Val)
    (hsub : ∀ k ∈ sub, Val.inb h0.length k = true) (ht : Val.inb h0.length target = true)
    (pre post : List Val) (v : Val) (cl : String)
    (hitems : refItems env h0 sub target = .ok (pre ++ v :: post)) (hm : raiseMarker v = some cl)
    (sv0 sv : SV) (hsv : initSV h0 init = some sv0)
    (hpre : pre.foldlM (foldStep (guardOp (pyOp op)) h0) sv0 = .ok sv) :
    (glomit env (mkFold sub init op) h target).1 = .error (.raised cl) := by
  have := c15_fold_eq_foldl env hwf c hH sub init op hinit hop target hsub ht _ hitems sv0 hsv
  have hf : (pre ++ v :: post).foldlM (foldStep (guardOp (pyOp op)) h0) sv0 = .error (.raised cl) := by
    rw [List.foldlM_append, hpre]
    simp [List.foldlM_cons, foldStep, guardOp, hm, bind, Except.bind, Except.map]
  simp only [hf] at this
  exact this

/-! ### the target's iteration is the handler registered AT THE TIME OF THE CALL -/

/-- **The memo is invisible.**  One `Fold.glomit` against the registry — `get_handler` consults and
    writes the memo `_type_cache` — is the evaluation under the handler table the registry's
    TABLES denote at that moment (`pureLk`: the answer a first lookup would give); it changes the
    memo only, and keeps it consistent.  For every class hierarchy, registry state and spec. -/
theorem c15_memo_invisible (H : Hier) (env : Env) (s : FoldSpec) (r : Reg) (hc : CacheOK H r)
    (h : Heap) (target : Val) :
    (glomitR H env s r h target).1 = glomit (envOf H env r) s h target ∧
    C13.EqC (glomitR H env s r h target).2 r ∧ CacheOK H (glomitR H env s r h target).2 :=
  glomitR_bridge H env s r h target hc

/-- … the same for the module-level `flatten()` (every level's lookup goes through the memo) and
    `merge()`. -/
theorem c15_memo_invisible_fn (H : Hier) (env : Env) (r : Reg) (hc : CacheOK H r) (h : Heap) (target : Val)
    (sub : List Val) :
    (∀ (init : InitArg) (l : Int),
      (flattenFnR H env sub init l r h target).1 = flattenFn (envOf H env r) sub init l h target ∧
      C13.EqC (flattenFnR H env sub init l r h target).2 r ∧ CacheOK H (flattenFnR H env sub init l r h target).2) ∧
    (∀ (init : Init) (op : MergeOpArg),
      (mergeFnR H env sub init op r h target).1 = mergeFn (envOf H env r) sub init op h target ∧
      C13.EqC (mergeFnR H env sub init op r h target).2 r ∧ CacheOK H (mergeFnR H env sub init op r h target).2) :=
  ⟨fun init l => flattenFnR_bridge H env sub init l r h target hc,
   fun init op => mergeFnR_bridge H env sub init op r h target hc⟩

/-- **A registration takes effect for the very next evaluation**, exact or not, whatever was
    evaluated (and memoised) before: after `register(cls, iterate=hn, exact=e)` the handler table
    names `hn` for `cls`, and `register(cls, iterate=False)` makes instances of `cls`
    unregistered targets (FoldError). -/
theorem c15_register_immediate (H : Hier) (r : Reg) (cls : String) (e : Bool) (kw : List (String × Option String))
    (hd : Option String) (hk : C13.odGet "iterate" kw = some hd) :
    pureLk H (C13.register H r cls e kw) cls =
      match hd with
      | some hn => .ok hn
      | none => .error .unregistered := by
  simp only [pureLk, resolve_register_self H r cls e kw "iterate" hd hk]
  cases hd <;> rfl

/-- every registry a process starts from has a consistent (empty) memo, and EVERY run keeps it so —
    whatever the program (Merge and refused constructors included), whatever the history
    (evaluations, registrations, `raise_exc=False` lookups that remember a `False`); when the spec
    object got built, the final registry differs from "the registrations alone" in its memo only -/
theorem c15_reachable_cache_ok (H : Hier) (S : C13.Setup) (d : Bool) (env : Env) (p : Prog)
    (events : List Event) (h : Heap) :
    CacheOK H (C13.freshReg H S d) ∧
    CacheOK H (runHistory H env p events (C13.freshReg H S d) h).2.2 ∧
    ((runHistory H env p events (C13.freshReg H S d) h).2.2 = C13.freshReg H S d ∨
      C13.EqC (runHistory H env p events (C13.freshReg H S d) h).2.2
        (events.foldl (regAfter H) (C13.freshReg H S d))) := by
  have h0 : CacheOK H (C13.freshReg H S d) := CacheOK.of_empty (freshReg_cache H S d)
  exact ⟨h0, runHistory_reg H env p events _ h h0⟩

/-- **Histories.**  One spec object, any interleaving of evaluations, `register(…)` calls and
    non-raising lookups on the registry the evaluations use (the default registry, a Glommer's),
    any class hierarchy: no pre-existing object changes, and an observer sees, for EVERY
    evaluation, exactly the reference reduction over the iteration the registry's tables name at
    that moment — the registrations made so far, nothing remembered from earlier lookups; a spec
    class whose constructor refuses its arguments evaluates nothing. -/
theorem c15_history (H : Hier) (env : Env) (hconv : WFConv env = true) (h0 : Heap) (hH : HandlerLaw h0 env)
    (hiter : env.run "iter" = rawIter) (p : Prog) (events : List Event)
    (hcase : wfCase h0 (Event.targets events) = true) (hp : (progVals p).all (Val.inb h0.length) = true)
    (hinit : p.initAllocates = true) (hw : p.initWF h0 = true) (hlaw : p.opLawful = true)
    (r : Reg) (hcr : CacheOK H r)
    (hchain : p.usesChain = false ∨ chainIterAlong H env events r = true) :
    (∀ a, a < h0.length → (runHistory H env p events r h0).2.1[a]? = h0[a]?) ∧
    observeAll env h0.length (runHistory H env p events r h0).2.1 [] (runHistory H env p events r h0).1 =
      expectHistory H env h0 p events r := by
  simp only [wfCase, Bool.and_eq_true] at hcase
  obtain ⟨hcatch, hconvI, _⟩ := WFConv_parts hconv
  have := runHistory_spec H env hconv h0 hcase.1 p (allInb hp) hinit hw hlaw events (allInb hcase.2) r hcr
    (histOK_of_bool hH hiter hcatch hconvI events r hchain)
  exact ⟨this.1.2, this.2⟩

/-- **Checker theorem for histories** — the form in which the property is evaluated on the
    implementation's observation by the correspondence driver: the observation of the model
    (memo and all) passes the memo-free checker. -/
theorem c15_history_checks (H : Hier) (env : Env) (hconv : WFConv env = true) (h0 : Heap)
    (hH : HandlerLaw h0 env) (hiter : env.run "iter" = rawIter) (p : Prog) (events : List Event)
    (hcase : wfCase h0 (Event.targets events) = true) (hp : (progVals p).all (Val.inb h0.length) = true)
    (hinit : p.initAllocates = true) (hw : p.initWF h0 = true) (hlaw : p.opLawful = true)
    (r : Reg) (hcr : CacheOK H r)
    (hchain : p.usesChain = false ∨ chainIterAlong H env events r = true) :
    let out := runHistory H env p events r h0
    checkC15R H env r h0 p events (observe env h0.length (out.1, out.2.1)) = true := by
  have hs := c15_history H env hconv h0 hH hiter p events hcase hp hinit hw hlaw r hcr hchain
  have hf : Frame h0.length h0 (runHistory H env p events r h0).2.1 := by
    simp only [wfCase, Bool.and_eq_true] at hcase
    obtain ⟨hcatch, hconvI, _⟩ := WFConv_parts hconv
    exact (runHistory_spec H env hconv h0 hcase.1 p (allInb hp) hinit hw hlaw events (allInb hcase.2) r hcr
      (histOK_of_bool hH hiter hcatch hconvI events r hchain)).1
  simp only [checkC15R, Prog.hyps, hinit, hlaw, observe, hs.2, take_of_frame rfl hf]
  simp

/-! ### lazy Flatten is a pull transducer -/

/-- **Laziness.**  `k` nested `chain.from_iterable` objects over a source iterator — what
    `Flatten(init='lazy')` (`k = 1`) and `flatten(levels=k, init='lazy')` return — ask the source
    for NOTHING when they are made, and then behave, `next()` by `next()`, exactly as the
    reference says: the leaves of the `k`-fold join in depth-first order, each one pulled when
    the source has been asked for the items up to the one it descends from and not one more; a
    value that has to be iterated and is not iterable raises TypeError at that point, after the
    leaves before it; StopIteration when the source is exhausted.  For every heap, every `k` and
    every source (no size bound). -/
theorem c15_lazy_pulls (h0 : Heap) (k : Nat) (xs : List Val) :
    Lazy.lazyRun h0 k xs = Lazy.refLazyRun h0 k xs := by
  simp only [Lazy.lazyRun, Lazy.refLazyRun, Lazy.srcLen_init, Nat.sub_self]
  rw [Lazy.pulls_eq_stackObs h0 xs.length _ _ rfl, Lazy.stackObs_init]
  simp

/-- **Lazy = eager, value for value**: when every level is iterable, what the lazy object yields,
    pulled to the end, is the `k`-fold `chain.from_iterable` of the source items — what eager
    `Flatten` / `flatten(levels=k)` put into their result (`c15_flatten_eq_join`, `c15_levels`) —
    and it ends in StopIteration with the whole source consumed. -/
theorem c15_lazy_values (h0 : Heap) (k : Nat) (xs ys : List Val) (hj : joinN h0 k xs = some ys) :
    Lazy.pulledValues (Lazy.lazyRun h0 k xs).2 = ys ∧ Lazy.endsInStop (Lazy.lazyRun h0 k xs).2 = true := by
  rw [c15_lazy_pulls]
  have := Lazy.refPulls_values h0 k xs.length xs
  rw [Lazy.seqLeaves_ok_join h0 k xs ys hj] at this
  exact this

/-- **The lazy objects of the glom model ARE the pull machine.**  What `flatten(levels=k+1,
    init='lazy')` of the model returns — a chain cell, shown consumed, or the TypeError of a level
    that met a non-iterable — is what an observer sees who runs the pull machine over the same
    `k+1` levels and the same items to its end (`Lazy.showRun`): the chain cells of `runFold`'s
    lazy branch denote `initStack (k+1) items`.  Together with `c15_history` (model = `expectR`)
    this ties `flattenFn … .lazy` to `Lazy.lazyRun`; `k = 0` is `Flatten(init='lazy')`. -/
theorem c15_lazy_link (env : Env) (h0 : Heap) (sub : List Val) (k : Nat) (target : Val) (items : List Val)
    (hitems : refItems env h0 sub target = .ok items) (hnm : noMarkers h0 = true) (hni : NM items) :
    expectR env h0 (.flattenFn sub .lazy ((k : Int) + 1)) target =
      Lazy.showRun env (Lazy.lazyRun h0 (k + 1) items) ∧
    expectR env h0 (.flatten sub .lazy) target = Lazy.showRun env (Lazy.lazyRun h0 1 items) := by
  have hrun : ∀ n : Nat, Lazy.showRun env (Lazy.lazyRun h0 n items) =
      match joinN h0 n items with
      | some ys => .fresh (.tuple "chain" ys)
      | none => errR env typeErr := by
    intro n
    rw [c15_lazy_pulls]
    have hv := Lazy.refPulls_values h0 n items.length items
    simp only [Lazy.showRun, Lazy.refLazyRun, hv.1, hv.2, Lazy.joinN_of_leaves h0 n items]
    cases (Lazy.seqLeaves (Lazy.leaves h0 n) items).2 <;> rfl
  have hshow : ∀ ys : List Val, NM ys → showNew env h0 (.tuple "chain" ys) =
      match joinWith (rawIter1 h0) ys with
      | some zs => .fresh (.tuple "chain" zs)
      | none => errR env typeErr := by
    intro ys hys
    simp only [showNew, beq_self_eq_true, if_true]
    cases hj : joinWith (rawIter1 h0) ys with
    | none => rfl
    | some zs => simp only [(firstRaise_none_iff zs).mpr (joinWith_nm hnm hys hj)]
  constructor
  · have h0l : (((k : Int) + 1) == 0) = false := by
      simp only [beq_eq_false_iff_ne, ne_eq]; omega
    have hneg : ¬ ((k : Int) + 1) < 0 := by omega
    have htn : ((k : Int) + 1).toNat - 1 = k := by omega
    rw [hrun, joinN_succ']
    simp only [expectR, refProg]
    rw [refFlattenFn_pos env h0 sub _ _ target h0l hneg rfl, hitems, htn]
    simp only
    cases hj : joinN h0 k items with
    | none => rfl
    | some ys =>
      simp only [refAfter, refKind, mkFlatten, if_true, showRef]
      exact hshow ys (joinN_nm hnm k items ys hni hj)
  · rw [hrun]
    simp only [expectR, refProg, refSpec, hitems, refKind, mkFlatten, if_true, showRef, joinN]
    rw [hshow items hni]
    cases joinWith (rawIter1 h0) items <;> rfl

/-- the model's run passes the lazy checker (the form evaluated on the implementation's observation) -/
theorem c15_lazy_checks (h0 : Heap) (k : Nat) (xs : List Val) :
    Lazy.checkLazy h0 k xs (Lazy.lazyRun h0 k xs) = true := by
  simp [Lazy.checkLazy, c15_lazy_pulls]

/-! ### non-vacuity: concrete inputs meet every hypothesis; counter-examples without them -/

/-- the handler table of the default registrations, written out (it meets `defaultsOK`, as the
    registry built from the extracted registration sequences does: `c15_facts_wf`) -/
private def exLk (c : String) : Except IterErr String :=
  if ["list", "tuple", "dict", "OrderedDict", "set", "frozenset", "generator", "chain", "Acc"].contains c then .ok "iter"
  else .error .unregistered

private def exEnv : Env := { genEnv with lk := exLk }

example : defaultsOK exEnv.lk = true ∧ WF exEnv = true := by decide

/-- `L0 = [1, 2]`, `L1 = (3,)`, `D = {'k': 0}`, `T = [L0, L1, 'ab', D]`, `M = [{'a': 1}, {'a': 2, 'b': 3}]` -/
private def exHeap : Heap :=
  [ .list "list" [.int 1, .int 2],                          -- 0
    .tuple "tuple" [.int 3],                                -- 1
    .dict "dict" [(.str "k", .int 0)],                      -- 2
    .list "list" [.ref 0, .ref 1, .str "ab", .ref 2],       -- 3
    .dict "dict" [(.str "a", .int 1)],                      -- 4
    .dict "dict" [(.str "a", .int 2), (.str "b", .int 3)],  -- 5
    .list "list" [.ref 4, .ref 5] ]                         -- 6

example : wfCase exHeap [.ref 3, .ref 3] = true := by decide
example : Prog.initAllocates (.flatten [] (.init .list)) = true := by decide
example : refItems exEnv exHeap [] (.ref 3) = .ok [.ref 0, .ref 1, .str "ab", .ref 2] := by decide
-- eager Flatten: a new list, the element objects themselves, str and dict iterated like Python does
example : refSpec exEnv exHeap (mkFlatten [] (.init .list)) (.ref 3) =
    .new (.list "list" [.int 1, .int 2, .int 3, .str "a", .str "b", .str "k"]) := by decide
-- evaluated twice on the same target: two different new objects (addresses 7 and 8), input untouched
example : (runProg exEnv (.flatten [] (.init .list)) [.ref 3, .ref 3] exHeap).1 = [.ok (.ref 7), .ok (.ref 8)] := by
  decide
example : (runProg exEnv (.flatten [] (.init .list)) [.ref 3, .ref 3] exHeap).2.take 7 = exHeap := by decide
example : allInts [.int 1, .bool true, .int 5] = some [1, 1, 5] := by decide
example : dictsOf exHeap [.ref 4, .ref 5] = some [[(.str "a", .int 1)], [(.str "a", .int 2), (.str "b", .int 3)]] := by
  decide
example : (mergeFn exEnv [] .dict .none exHeap (.ref 6)).2[7]? = some (.dict "dict" []) ∧     -- test_init garbage
    (mergeFn exEnv [] .dict .none exHeap (.ref 6)).2[8]? =
      some (.dict "dict" [(.str "a", .int 2), (.str "b", .int 3)]) := by decide
example : joinN exHeap 2 [.ref 6] = some [.str "a", .str "a", .str "b"] := by decide
-- targets without an `iterate` handler
example : targetIter exEnv exHeap (.int 5) = .error .unregistered ∧
    targetIter exEnv exHeap (.str "abc") = .error .unregistered ∧
    targetIter exEnv exHeap .none = .error .unregistered ∧
    targetIter exEnv [.inst "Obj" []] (.ref 0) = .error .unregistered := by decide

/-- Hypothesis "init allocates" is needed: `L = [1]; glom([L], Fold(T, init=lambda: L))`
    extends `L` with itself — the INPUT object is mutated and returned (the real glom
    does exactly this; the correspondence runs such cases and agrees).  An `init` that
    hands out a shared object is the caller's aliasing, as with `functools.reduce`. -/
theorem c15_shared_init_counterexample :
    let h0 : Heap := [.list "list" [.int 1], .list "list" [.ref 0]]
    let out := runProg exEnv (.fold [] (.shared (.ref 0)) .iadd) [.ref 1] h0
    out.1 = [.ok (.ref 0)] ∧ out.2[0]? = some (.list "list" [.int 1, .int 1]) ∧ out.2[0]? ≠ h0[0]? := by
  decide

/-- Hypothesis "closed heap" is needed (a model artefact — Python has no dangling
    references): a dangling `ref 1` inside the input gets captured by the accumulator
    allocated at address 1, so the model's `+=` reads the accumulator itself where the
    reference (on `h0`) sees a non-iterable. -/
theorem c15_closed_heap_counterexample :
    let h0 : Heap := [.list "list" [.ref 1]]
    closedHeap h0 = false ∧
    (runProg exEnv (.flatten [] (.init .list)) [.ref 0] h0).1 = [.ok (.ref 1)] ∧
    refSpec exEnv h0 (mkFlatten [] (.init .list)) (.ref 0) = .err typeErr := by
  decide

/-- The law `OpLaw.ok` is needed: an operator that hands back its ELEMENT (`lambda a, v: v`) makes
    Fold return an input object — aliasing of the caller's making, as with `functools.reduce`. -/
theorem c15_op_returning_element_counterexample :
    let h0 : Heap := [.list "list" [.int 1], .list "list" [.ref 0]]
    let last : OpFn := fun _ _ v => .ok (.value (.imm v))
    (foldWith (callInit .list) last [.ref 0] h0).1 = .ok (.ref 0) ∧
    ¬ OpLaw h0 last := by
  refine ⟨rfl, ?_⟩
  intro L
  have := (L.ok (h := []) (sv := .imm .none) (v := .ref 0) (r := .value (.imm (.ref 0)))
    (by intro a; simp) rfl).1
  exact this 0 rfl

/-- The extracted `except UnregisteredTarget → FoldError` is needed: without the clause the same
    target raises UnregisteredTarget. -/
theorem c15_catch_needed_counterexample :
    let env : Env := { exEnv with foldCatch := [] }
    (glomit env (mkSum [] .int) [] (.int 5)).1 = .error (.raised "UnregisteredTarget") ∧
    (glomit exEnv (mkSum [] .int) [] (.int 5)).1 = .error .fold := by decide

-- floats: ONE IEEE-754 addition per step, left to right (`functools.reduce(operator.add, …)`):
-- 0.1 + 0.2 = 0.30000000000000004
example : (glomit exEnv (mkSum [] .int) [.list "list" [.float "3fb999999999999a", .float "3fc999999999999a"]]
    (.ref 0)).1 = .ok (.float "3fd3333333333334") := by decide
-- order matters: [1e16, 1.0, 1.0] sums to 1e16, [1.0, 1.0, 1e16] to 1.0000000000000002e16
-- (the builtin `sum()` of CPython ≥ 3.12 compensates and answers 1.0000000000000002e16 for both)
example : (glomit exEnv (mkSum [] .float)
      [.list "list" [.float "4341c37937e08000", .float "3ff0000000000000", .float "3ff0000000000000"]] (.ref 0)).1 =
      .ok (.float "4341c37937e08000") ∧
    (glomit exEnv (mkSum [] .float)
      [.list "list" [.float "3ff0000000000000", .float "3ff0000000000000", .float "4341c37937e08000"]] (.ref 0)).1 =
      .ok (.float "4341c37937e08001") := by decide
-- an int start turns float at the first float addend; bool counts as int; inf - inf is NaN
example : (glomit exEnv (mkSum [] .int) [.list "list" [.int 1, .bool true, .float "3fe0000000000000"]] (.ref 0)).1 =
      .ok (.float "4004000000000000") ∧
    (glomit exEnv (mkSum [] .int) [.list "list" [.float "7ff0000000000000", .float "fff0000000000000"]] (.ref 0)).1 =
      .ok (.float "7ff8000000000000") := by decide
-- a copying factory: every evaluation starts from a NEW copy of `[1, 2]` (addresses 2 and 3), the original untouched
example : (runProg exEnv (.fold [] (.copyOf (.ref 0)) .append) [.ref 1, .ref 1]
      [.list "list" [.int 1, .int 2], .list "list" [.int 7]]) =
    ([.ok (.ref 2), .ok (.ref 3)],
     [.list "list" [.int 1, .int 2], .list "list" [.int 7], .list "list" [.int 1, .int 2, .int 7],
      .list "list" [.int 1, .int 2, .int 7]]) := by decide

/-- a history on a small hierarchy: `Box` is iterable (walks `names`); after one Flatten it is
    registered exactly with the handler `h:items`; the next Flatten of the SAME object walks
    `items` — the lookup memoised by the first evaluation does not survive the registration. -/
private def exHier : Hier := (C13.HierTab.toHier
  { mro := [("object", ["object"]), ("list", ["list", "object"]), ("Box", ["Box", "object"]),
            ("_AbstractIterable", ["_AbstractIterable", "object"])]
    inst := [("object", "object"), ("list", "list"), ("list", "object"), ("list", "_AbstractIterable"),
             ("Box", "Box"), ("Box", "object"), ("Box", "_AbstractIterable")]
    sub := [("object", "object"), ("list", "list"), ("list", "object"), ("Box", "Box"), ("Box", "object"),
            ("_AbstractIterable", "_AbstractIterable"), ("_AbstractIterable", "object")]
    auto := [("auto_iterate", [("object", "False"), ("list", "iter"), ("Box", "iter"), ("_AbstractIterable", "False")]),
             ("auto_get", [("object", "getattr"), ("list", "getattr"), ("Box", "getattr"),
                           ("_AbstractIterable", "getattr")])] })

private def exBoxHeap : Heap :=
  [ .list "list" [.int 1], .list "list" [.int 2], .list "list" [.ref 0],     -- names = [[1]]
    .list "list" [.ref 1],                                                     -- items = [[2]]
    .inst "Box" [("names", .ref 2), ("items", .ref 3)] ]

example :
    let out := runProgR exHier genEnv (.flatten [] (.init .list))
      [.eval (.ref 4), .register "Box" true [("iterate", some "h:items")], .eval (.ref 4)]
      (specReg exHier) exBoxHeap
    out.1 = [.ok (.ref 5), .ok (.ref 6)] ∧
    out.2.1[5]? = some (.list "list" [.int 1]) ∧ out.2.1[6]? = some (.list "list" [.int 2]) ∧
    -- the first evaluation DID memoise `Box → iter`
    (glomitR exHier genEnv (mkFlatten [] (.init .list)) (specReg exHier) exBoxHeap (.ref 4)).2.cache =
      [(("Box", "iterate"), some "iter")] := by decide

-- laziness: `flatten(gen([[1], [], [2, 3]], []]), levels=1, init='lazy')`: nothing fetched at creation; 1 after
-- one item; 2 and 3 after the third (the empty second item is fetched on the way); stop after all four
example : Lazy.refLazyRun [.list "list" [.int 1], .list "list" [], .list "list" [.int 2, .int 3]] 1
      [.ref 0, .ref 1, .ref 2, .ref 1] =
    (0, [.item (.int 1) 1, .item (.int 2) 3, .item (.int 3) 3, .stop 4]) := by decide
-- two lazy levels over `[[[1], 5], [[2]]]`: 1 is yielded, then 5 is not iterable: TypeError, the second item not fetched
example : Lazy.refLazyRun [.list "list" [.int 1], .list "list" [.ref 0, .int 5], .list "list" [.int 2],
      .list "list" [.ref 2]] 2 [.ref 1, .ref 3] =
    (0, [.item (.int 1) 1, .error 1]) := by decide

/-- The law `OpLaw.noOther` is needed, and "no element of the input is mutated" is a statement about
    glom, not about the caller's `op`: `Fold(T, init=list, op=lambda a, v: (v.append(0), a)[1])`
    appends to every ELEMENT of its target (the real glom does exactly this; the correspondence
    runs such cases and the model agrees). -/
theorem c15_element_writing_op_counterexample :
    let h0 : Heap := [.list "list" [.int 1], .list "list" [.ref 0]]
    let out := runProg exEnv (.fold [] .list .pokeElem) [.ref 1] h0
    out.1 = [.ok (.ref 2)] ∧ out.2[0]? = some (.list "list" [.int 1, .int 0]) ∧ out.2[0]? ≠ h0[0]? ∧
    ¬ OpLaw h0 (pyOp .pokeElem) := by
  refine ⟨by decide, by decide, by decide, ?_⟩
  intro L
  exact L.noOther (h := [.list "list" [.int 1], .list "list" [.ref 0]]) (sv := .cell (.list "list" []))
    (v := .ref 0) (a := 0) (o := .list "list" [.int 1, .int 0]) rfl

-- 6be71d7: an UnregisteredTarget raised INSIDE the loop is not turned into a FoldError —
-- by the iterator (a generator that raises after yielding [1]) …
example : (glomit exEnv (mkFlatten [] (.init .list))
      [.list "list" [.int 1], .tuple "generator" [.ref 0, .sent "!raise:UnregisteredTarget", .ref 0]] (.ref 1)).1 =
    .error (.raised "UnregisteredTarget") := by decide
-- … or by the operator (`lambda a, v: a + list(v)` raising UnregisteredTarget for the int) …
example : (glomit exEnv (mkFold [] .list .addSeq) [.list "list" [.int 1], .list "list" [.ref 0, .int 3]] (.ref 1)).1 =
    .error (.raised "UnregisteredTarget") := by decide
-- … while the int as the TARGET is a FoldError
example : (glomit exEnv (mkFold [] .list .addSeq) [] (.int 3)).1 = .error .fold := by decide
-- 8b51f6e: a `False` remembered by `get_handler('iterate', 5, raise_exc=False)` does not turn the
-- FoldError of the next Fold into a TypeError
example :
    (runHistory exHier genEnv (.sum [] .int) [.probe "object", .eval (.ref 0)] (specReg exHier)
      [.inst "object" []]).1 = [.error .fold] ∧
    (getHandler15 exHier (specReg exHier) "iterate" "object" false).1.cache = [(("object", "iterate"), none)] := by
  decide
-- constructors: `Fold(T, init=5, op=5)`, `Flatten(init='LAZY')`, `Merge(op=5)`, `flatten(levels=None)`
example : ctorErr (.fold [] .notCallable .notCallable) = some typeErr ∧
    ctorErr (.flatten [] (.init .notCallable)) = some typeErr ∧
    (mkMerge [] .dict .notCallable []).1 = .error (.raised "ValueError") ∧
    (oddCall .levelsNone [] (.int 1)).1 = .error typeErr ∧
    (oddCall (.levelsFloat "0000000000000000") [] (.int 1)).1 = .ok (.int 1) ∧       -- levels=0.0
    (oddCall (.levelsFloat "bff8000000000000") [] (.int 1)).1 = .error (.raised "ValueError") ∧  -- -1.5
    (oddCall (.levelsFloat "4000000000000000") [] (.int 1)).1 = .error typeErr := by decide     -- 2.0
-- reading 6.x(b): `Flatten(init=tuple)` over lists, `Flatten(init=set)`: the `+=` of the init type decides
example : (glomit exEnv (mkFlatten [] (.init .tuple)) [.list "list" [.int 1], .list "list" [.ref 0]] (.ref 1)).1 =
      .error typeErr ∧
    (glomit exEnv (mkFlatten [] (.init .set)) [.set "set" [.int 1], .list "list" [.ref 0]] (.ref 1)).1 =
      .error typeErr := by decide

end Glom.Props.C15
