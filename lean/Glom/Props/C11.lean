import Glom.Lemmas.C11l
import Glom.Model.C11Env
/-
  C11 — assign obeys the lens laws and fails atomically.

  Property theorems only; helper lemmas are in `Glom/Lemmas/C11{,b,c}.lean`.
  Every theorem is for *all* heaps (any sharing, any cycles, any size), all
  targets, all destination paths of any length, all values, and all environments
  whose extracted facts satisfy the decidable predicate `WF`; `c11_facts_wf`
  discharges `WF` for the facts regenerated from /repo on this run.

  `assign env sroot sref missing h target orig vs` is the model of
  `glom(target, Assign(path, val, missing=missing))` (Glom/Model/C11.lean);
  `refAssign` is the plain-Python prescription (Glom/Spec/C11.lean).
-/
namespace Glom.Props.C11
open Glom Glom.Mut Glom.C11

/-- The hypotheses shared by the wildcard-free theorems, as one decidable test (`covered`,
    Glom/Spec/C11.lean; the driver evaluates it per case): well-formed facts, every class has a
    registered `get`, item / attribute / plain-segment steps only, a modelled value kind, and —
    only when a `missing` factory is given — `missingOK` (path arguments are immediate values). -/
abbrev Hyps (env : MEnv) (h : Heap) (target : Val) (sroot : Bool) (orig : List Step)
    (vs : ValSpec) (missing : Missing) : Prop :=
  covered env h target sroot orig vs missing = true

/-- **Facts obligation** (re-checked on every run against the regenerated tables):
    `_assign_op` performs `dest[arg] = val` for `[`, `setattr(dest, arg, val)` for `.`, and calls
    the handler `get_handler('assign', dest)` returns (looked up outside any `try`) for a plain
    segment — which classes each branch's `except` clause names is taken from the table by the
    model, the property only needs *an* error; in the default `assign` registrations the duck types
    carry `object`'s handler (so "nearest registered class of the MRO" is `_get_closest_type`'s
    answer); `_t_eval` has the `*` / `**` branches; PathAssignError is a GlomError; plus C01's
    obligation on the access branches. -/
theorem c11_facts_wf : ∀ uc fl, WF (genEnv uc fl) = true := by
  intro uc fl
  have : WF (genEnv uc fl) = WF (genEnv [] []) := rfl
  rw [this]; decide

/-- **Facts obligation, the registry of the builtin kinds**: the prescription computes "the plain Python
    assignment" with tables fixed by the kind of the object (`naturalAssignReg`: dict → `d[k] = v`,
    list → `l[int(k)] = v`, tuple → not assignable, any other object → `setattr`), not with what the
    implementation's registry holds; on every builtin class — and on subclasses through their MRO —
    the `assign` registrations read from the implementation (the results of `_assign_autodiscover`
    for the default types) select the same handler. -/
theorem c11_facts_natural :
    regAgrees Generated.targetClassTable Generated.defaultReg_assign naturalAssignReg = true ∧
    regAgrees (Generated.targetClassTable ++ [("DictSub", ["DictSub", "dict", "object"]),
        ("ListSub", ["ListSub", "list", "object"]), ("TupleSub", ["TupleSub", "tuple", "object"]),
        ("Obj2", ["Obj2", "Obj", "object"])])
      Generated.defaultReg_assign naturalAssignReg = true := by decide

/-- **Facts obligation, shape part**: `Assign.glomit` wraps exactly the parent fetch in
    `try … except PathAccessError` and re-raises unless `missing`; `Assign.__init__` accepts
    exactly the final ops `[ . P`; `_apply_for_each` flattens `layers - 1` times, then iterates;
    `TType.__stars__` counts `x` / `X` over the *operator* slots `__ops__[1::2]` only (a segment
    that is merely *named* 'x' is not a wildcard — the model's `stars`); no method of `Assign` /
    `Delete` other than `__init__` stores into `self` (a spec object is an immutable term in the
    model: re-using it — one evaluation after the other, or one in the middle of the other,
    `assignAuxR` — cannot change its meaning); the loop of `_t_eval` over the entries a wildcard
    produced evaluates the rest of the path once per entry, in order. -/
theorem c11_facts_shape :
    Generated.assignGlomitCatch = (["PathAccessError"], "reraise-unless-missing") ∧
    Generated.finalOpsAllowed.lookup "Assign" = some "[.P" ∧
    Generated.applyForEachShape = "flatten layers-1 then iterate" ∧
    Generated.starsShape = "count x/X over the operator slots __ops__[1::2]" ∧
    Generated.specSelfWrites.filter (·.1 == "Assign") = [] ∧
    Generated.starLoopShape = "rest evaluated once per entry in order; PathAccessError skips the entry" := by
  decide

/-- **Facts obligation, the value**: `arg_val` evaluates `val` with one fresh `_ArgValuator` per call,
    whose `mode` is the function `argEval` models: exact list / dict objects through a memo keyed by
    identity that is consulted first, filled *before* the children are evaluated (cycles) and
    **never dropped** (a container reachable by two routes is rebuilt once — the stored value has the
    sharing structure of the literal, `c11_copy_once`), exact tuple / set / frozenset objects rebuilt
    per occurrence, everything else itself. -/
theorem c11_facts_argval :
    Generated.argValuatorShape = "memo by id, entered first, never dropped" ∧
    Generated.argValShape = "one fresh _ArgValuator per call" := by decide

/-- **Facts obligation, S-rooted destinations**: `Assign.__init__` passes its path through
    `_s_first_item`, which re-spells a first step written `S.name` / `Path(S, name)` as `S[name]` —
    for exactly the ops `_t_eval` hands to `_s_first_magic` when such a path is *read*: the
    destination an Assign keeps is the path as it is evaluated (`readSteps`), so "reading the path"
    and "assigning to the path" speak about the same scope variable. -/
theorem c11_facts_s_first (sroot : Bool) (steps : List Step) :
    initPath (genSFirst "Assign") sroot steps = readSteps sroot steps ∧
    Generated.sFirstMagicOps = [".", "P"] := by
  refine ⟨?_, by decide⟩
  have ht : genSFirst "Assign" = [(".", "["), ("P", "[")] := by decide
  rw [ht]
  exact initPath_eq_readSteps sroot steps

/-- **Same object**: whatever `assign` returns is the target it was given (identity — the same
    `Val`, i.e. the same address).  For *every* input: wildcards, S-rooted, any `missing`. -/
theorem c11_same_object (env : MEnv) (sroot : Bool) (sref : Val) (missing : Missing) (h : Heap)
    (target : Val) (orig : List Step) (vs : ValSpec) (r : Val)
    (hok : (assign env sroot sref missing h target orig vs).2 = .ok r) : r = target :=
  assignAux_same env sroot sref missing _ _ _ _ _ _ hok

/-- **Refinement** (all three clauses at once): the model's outcome is the prescription of the
    plain-Python nested assignment — on success the same object, exactly the heap `pySet` gives
    and exactly the prescribed number of factory calls; otherwise an error with every pre-existing
    cell preserved. -/
theorem c11_refines {env : MEnv} {h : Heap} {target : Val} {sroot : Bool} {orig : List Step}
    {vs : ValSpec} {missing : Missing} (hy : Hyps env h target sroot orig vs missing) (sref : Val) :
    Refines h target (assign env sroot sref missing h target orig vs)
      (refAssign env h target (if sroot then sref else target) orig vs missing) :=
  by
    obtain ⟨hwf, hc, hs, hv, hvu, hm⟩ := covered_parts hy
    exact assign_spec hwf hc sroot sref missing h target orig vs hs hv hvu hm

/-- **Refinement, from the spec as written**: `glom(target, Assign(path, val, missing))` — with
    `Assign.__init__`'s re-spelling of the first step of an S-rooted path — refines the
    plain-Python assignment along the path *as it is read* (`S.a` ≡ `S['a']`). -/
theorem c11_refines_spec {env : MEnv} {h : Heap} {target : Val} {sroot : Bool} {orig : List Step}
    {vs : ValSpec} {missing : Missing}
    (hy : Hyps env h target sroot (readSteps sroot orig) vs missing) (sref : Val) :
    Refines h target (assign env sroot sref missing h target (initPath (genSFirst "Assign") sroot orig) vs)
      (refAssign env h target (if sroot then sref else target) (readSteps sroot orig) vs missing) := by
  rw [(c11_facts_s_first sroot orig).1]
  exact c11_refines hy sref

/-- **Equals plain Python**: a successful assign leaves exactly the heap of the corresponding
    nested item / attribute assignment (`refAssign … = .ok h' …`), and conversely the model
    succeeds whenever the plain assignment can be carried out. -/
theorem c11_eq_python {env : MEnv} {h : Heap} {target : Val} {sroot : Bool} {orig : List Step}
    {vs : ValSpec} {missing : Missing} (hy : Hyps env h target sroot orig vs missing) (sref : Val) :
    let out := assign env sroot sref missing h target orig vs
    let ref := refAssign env h target (if sroot then sref else target) orig vs missing
    (∀ r, out.2 = .ok r → ∃ hid n, ref = .ok out.1.heap hid n) ∧
    (∀ h' hid n, ref = .ok h' hid n → out.2 = .ok target ∧ out.1.heap = h') := by
  have hr := c11_refines hy sref
  simp only
  constructor
  · intro r hok
    cases href : refAssign env h target (if sroot then sref else target) orig vs missing with
    | ok h' hid n =>
      rw [href] at hr
      exact ⟨hid, n, by rw [hr.2.1]⟩
    | fail a => rw [href] at hr; obtain ⟨⟨e, he⟩, _⟩ := hr; rw [he] at hok; cases hok
    | unsupported => rw [href] at hr; exact hr.elim
  · intro h' hid n href
    rw [href] at hr
    exact ⟨hr.1, hr.2.1⟩

/-- **Atomicity**: if an assignment through a wildcard-free path cannot be completed — missing
    parent, immutable container, read-only property, raising `__setattr__`/`__setitem__`,
    failing value spec, raising factory, unassignable fresh object, … — an error is raised and
    every cell that existed before the call is exactly as it was (objects the factory created
    are garbage). -/
theorem c11_atomic {env : MEnv} {h : Heap} {target : Val} {sroot : Bool} {orig : List Step}
    {vs : ValSpec} {missing : Missing} (hy : Hyps env h target sroot orig vs missing) (sref : Val)
    (e : MErr) (herr : (assign env sroot sref missing h target orig vs).2 = .error e) :
    ∀ b, b < h.length → (assign env sroot sref missing h target orig vs).1.heap[b]? = h[b]? := by
  have hr := c11_refines hy sref
  cases href : refAssign env h target (if sroot then sref else target) orig vs missing with
  | ok h' hid n => rw [href] at hr; rw [hr.1] at herr; cases herr
  | fail a => rw [href] at hr; exact hr.2.1
  | unsupported => rw [href] at hr; exact hr.elim

/-- the model never ends without either returning the target or raising -/
theorem c11_fail_raises {env : MEnv} {h : Heap} {target : Val} {sroot : Bool} {orig : List Step}
    {vs : ValSpec} {missing : Missing} (hy : Hyps env h target sroot orig vs missing) (sref : Val)
    (a : Bool) (href : refAssign env h target (if sroot then sref else target) orig vs missing = .fail a) :
    ∃ e, (assign env sroot sref missing h target orig vs).2 = .error e := by
  have hr := c11_refines hy sref
  rw [href] at hr
  exact hr.1

/-- **Frame**: after a successful assign every pre-existing cell other than the one the parent
    path stops at (`d`: the parent object, or with `missing` the last existing object) is
    unchanged — existing intermediate values are never replaced, nothing off the path is touched. -/
theorem c11_frame {env : MEnv} {h : Heap} {target : Val} {sroot : Bool} {orig : List Step}
    {vs : ValSpec} {missing : Missing} (hy : Hyps env h target sroot orig vs missing) (sref : Val)
    (r : Val) (hok : (assign env sroot sref missing h target orig vs).2 = .ok r) :
    let root := if sroot then sref else target
    ∃ d, (matchesOf env h orig.dropLast 0 root = .ok [d] ∨
          ∃ k e, matchesOf env h orig.dropLast 0 root = .fail k e d) ∧
      ∀ b, b < h.length → d ≠ .ref b →
        (assign env sroot sref missing h target orig vs).1.heap[b]? = h[b]? := by
  intro root
  have hr := c11_refines hy sref
  cases href : refAssign env h target root orig vs missing with
  | fail a => rw [href] at hr; obtain ⟨⟨e, he⟩, _⟩ := hr; rw [he] at hok; cases hok
  | unsupported => rw [href] at hr; exact hr.elim
  | ok h' hid n =>
    rw [href] at hr
    obtain ⟨_, hheap, _, _⟩ := hr
    rw [hheap]
    have hpw : C01.wfSteps orig.dropLast = true :=
      wfSteps_sub (covered_parts hy).2.2.1 (fun s hs => mem_of_mem_dropLast hs)
    have hpns : hasStar orig.dropLast = false := wfSteps_noStar hpw
    obtain ⟨op, arg, v, _, _, hcase⟩ := refAssign_ok_cases href
    rcases hcase with ⟨ds, hm, hseq, _⟩ | ⟨k, e, stop, kind, op', arg', h1, c, hid', w, _, hm, _, hbt, hr', rfl⟩
    · -- the parent exists
      have hspec := fetch_spec (covered_parts hy).1 (covered_parts hy).2.1 h orig.dropLast (wfSteps_wfStar hpw) (.inl hpns) 0 root
      rw [hm] at hspec
      obtain ⟨nest, _, hu, hlv⟩ := hspec
      rw [stars_zero hpns] at hu
      obtain ⟨d, rfl⟩ := uniform0_leaf hu
      simp only [Nest.leaves] at hlv
      subst hlv
      refine ⟨d, .inl hm, ?_⟩
      simp only [seqAssign] at hseq
      cases hr' : refAssignOp env h op d arg v with
      | none => simp [hr'] at hseq
      | some r' =>
        cases r' with
        | error e => simp [hr'] at hseq
        | ok w =>
          simp only [hr'] at hseq
          injection hseq with hseq
          injection hseq with e1 _
          subst e1
          intro b _ hb
          exact (refAssignOp_frame hr').2 b hb
    · -- the walk stops at `stop`: the tail is built on fresh cells and attached at `stop`
      refine ⟨stop, .inr ⟨k, e, hm⟩, ?_⟩
      obtain ⟨hp, _, _, _⟩ := buildTail_spec env kind v _ _ _ _ _ _ hbt
      intro b hlt hb
      rw [(refAssignOp_frame hr').2 b hb, hp b hlt]

/-- **Put-get** (`_partial`: for destinations whose parent exists; when `missing` creates
    segments the same statement is covered by `c11_eq_python` + the correspondence only):
    after a successful assign, reading the destination path yields the assigned value — under
    the hypotheses the proof forces: the parent path does not pass through the written object
    `d` before reaching it (`hnv`; false only for cyclic targets, see the counter-example below),
    path arguments are immediate values, the `get` / `assign` registrations pair up, and Python
    stored the value where the cell can show it (`hnh`: not a hidden attribute of a container
    subclass; `hsc`: not an *attribute* of the scope's ChainMap object — an item binding
    `Assign(S[name], v)` in the scope frame is covered: a later step of the chain reads it back). -/
theorem c11_put_get_partial {env : MEnv} {h : Heap} {target : Val} {sroot : Bool} {orig : List Step}
    {vs : ValSpec} {missing : Missing} (hy : Hyps env h target sroot orig vs missing) (sref : Val)
    (hp : pairedRegs env = true) (has : argsScalar orig = true) (d v : Val)
    (hm : matchesOf env h orig.dropLast 0 (if sroot then sref else target) = .ok [d])
    (hsc : isScope env h d = false ∨ ∃ a, orig.getLast? = some ("[", a))
    (hnv : d ∉ visits env h orig.dropLast (if sroot then sref else target))
    (hv : refVal env h target vs = some v) (r : Val)
    (hok : (assign env sroot sref missing h target orig vs).2 = .ok r)
    (hnh : (assign env sroot sref missing h target orig vs).1.hidden = false) :
    matchesOf env (assign env sroot sref missing h target orig vs).1.heap orig 0
      (if sroot then sref else target) = .ok [v] := by
  have hr := c11_refines hy sref
  obtain ⟨_, _, hs, _, _, _⟩ := covered_parts hy
  cases href : refAssign env h target (if sroot then sref else target) orig vs missing with
  | fail a => rw [href] at hr; obtain ⟨⟨e, he⟩, _⟩ := hr; rw [he] at hok; cases hok
  | unsupported => rw [href] at hr; exact hr.elim
  | ok h' hid n =>
    rw [href] at hr
    obtain ⟨_, hheap, _, hhid, _⟩ := hr
    rw [hheap]
    rw [hhid] at hnh
    subst hnh
    obtain ⟨op, arg, v', hl, hv', hcase⟩ := refAssign_ok_cases href
    rw [hv] at hv'
    injection hv' with hv'
    subst hv'
    rcases hcase with ⟨ds, hm', hseq, _⟩ | ⟨k, e, stop, kind, op', arg', h1, c, hid', w, _, hm', _, _, _, _⟩
    · rw [hm] at hm'
      injection hm' with hm'
      subst hm'
      simp only [seqAssign] at hseq
      cases hra : refAssignOp env h op d arg v with
      | none => simp [hra] at hseq
      | some ra =>
        cases ra with
        | error e => simp [hra] at hseq
        | ok w =>
          simp only [hra] at hseq
          injection hseq with hseq
          injection hseq with e1 e2
          subst e1
          have hwh : w.hidden = false := by simpa using e2.symm
          have hfr := refAssignOp_frame hra
          have hpw : C01.wfSteps orig.dropLast = true :=
            wfSteps_sub hs (fun s hs' => mem_of_mem_dropLast hs')
          have hpns := wfSteps_noStar hpw
          have horig := dropLast_append_getLast? hl
          have hlastw : C01.wfSteps [(op, arg)] = true := (wfSteps_iff orig).1 hs _ (getLast?_mem hl)
          have hargk : ∀ a, arg ≠ .ref a := argsScalar_sub has (op, arg) (getLast?_mem hl)
          have hpas : argsScalar orig.dropLast = true :=
            argsScalar_of (fun t ht => argsScalar_sub has t (mem_of_mem_dropLast ht))
          -- the parent path reads the same cells after the write
          have hpre : matchesOf env w.heap orig.dropLast 0 (if sroot then sref else target) = .ok [d] := by
            rw [matchesOf_congr_visits orig.dropLast hpns hpas 0 _ ?_, hm]
            intro c hc a hca
            subst hca
            exact hfr.2 a (fun e => hnv (by rw [e]; exact hc))
          rw [horig, matchesOf_append_ok _ _ hpns 0 _ d hpre]
          have hsc' : isScope env h d = false ∨ op = "[" := by
            rcases hsc with h1 | ⟨a, ha⟩
            · exact .inl h1
            · rw [hl] at ha; injection ha with ha; injection ha with ha _; exact .inr ha
          have hrt := refAssign_roundtrip hp hlastw hargk hsc' hwh hra
          have hopb : (op == "." || op == "[" || op == "P") = true := by
            rcases (wfSteps_op hlastw).1 with rfl | rfl | rfl <;> simp
          have hnx := (wfSteps_op hlastw).2.1
          simp [matchesOf, hnx, hopb, hrt]
    · rw [hm] at hm'; cases hm'

/-- **Read-back in the same chain** (put-get as it is observed on the implementation): in
    `glom(target, (Assign(path, val, missing=…), readPath))` the second step reads, in the heap the
    assignment left, exactly what `readPath` addresses in the heap of the plain-Python assignment —
    for S-rooted paths starting from the frame the destination was bound in, so a scope variable
    created by the Assign (also one created through `missing` when the *first* segment was
    absent) is found by later steps; after a failed Assign the read does not run.  For every
    read path of access steps and wildcards (wildcards: no class standing for the scope). -/
theorem c11_read_checks {env : MEnv} {h : Heap} {target : Val} {sroot : Bool} {orig : List Step}
    {vs : ValSpec} {missing : Missing} (hy : Hyps env h target sroot orig vs missing) (sref : Val)
    (rd : List Step) (hrd : wfStar (readSteps sroot rd) = true)
    (hns : hasStar (readSteps sroot rd) = false ∨ noScope env = true) :
    checkRead env h target (if sroot then sref else target) orig vs missing (readSteps sroot rd)
      (assignThenRead env sroot sref missing h target orig vs rd).1.1.heap
      (observeRead env (assignThenRead env sroot sref missing h target orig vs rd).2) = true := by
  have hr := c11_refines hy sref
  obtain ⟨hwf, hc, _, _, _, _⟩ := covered_parts hy
  unfold checkRead checkReadRef assignThenRead
  cases href : refAssign env h target (if sroot then sref else target) orig vs missing with
  | unsupported => rfl
  | fail a =>
    rw [href] at hr
    obtain ⟨⟨e, he⟩, _⟩ := hr
    simp only [he, observeRead]
  | ok h' hid n =>
    cases hid with
    | true => rfl
    | false =>
    rw [href] at hr
    obtain ⟨h1, h2, _⟩ := hr
    simp only [h1, h2]
    generalize readSteps sroot rd = rs at hrd hns ⊢
    have hns' : hasStar rs = false ∨ ∀ c, isScope env h' c = false := by
      rcases hns with a | a
      · exact .inl a
      · exact .inr (noScope_isScope a h')
    have hspec := fetch_spec hwf hc h' rs hrd hns' 0 (if sroot then sref else target)
    cases hm : matchesOf env h' rs 0 (if sroot then sref else target) with
    | ok ds =>
      rw [hm] at hspec
      obtain ⟨nest, hf, hu, hl⟩ := hspec
      simp [hf, observeRead, hu, hl]
    | fail k e stop =>
      rw [hm] at hspec
      simp [hspec, observeRead, observeErr]
    | unreg => rw [hm] at hspec; exact hspec.elim
    | unsupported => rfl


/-- **`missing`**: when the walk stops at segment `k` and a factory is given, a successful
    assign made exactly one factory call per absent segment — `orig.length - 1 - k` of them —;
    the new chain is **attached last**: in the model's log of heap events every event but the
    last concerns a cell created during this call (factory allocations and writes into fresh
    objects), the last one is the single write to a pre-existing cell (`AttachLast`); and (by
    `c11_frame`) no existing intermediate value is replaced: that pre-existing cell is the object
    the walk stopped at. -/
theorem c11_missing {env : MEnv} {h : Heap} {target : Val} {sroot : Bool} {orig : List Step}
    {vs : ValSpec} {kind : String} (hy : Hyps env h target sroot orig vs (.factory kind))
    (sref : Val) (r : Val)
    (hok : (assign env sroot sref (.factory kind) h target orig vs).2 = .ok r)
    (k : Nat) (e : PyExc) (stop : Val)
    (hstop : matchesOf env h orig.dropLast 0 (if sroot then sref else target) = .fail k e stop) :
    (assign env sroot sref (.factory kind) h target orig vs).1.calls = orig.length - 1 - k ∧
    AttachLast h (assign env sroot sref (.factory kind) h target orig vs).1.log := by
  have hr := c11_refines hy sref
  cases href : refAssign env h target (if sroot then sref else target) orig vs (.factory kind) with
  | fail a => rw [href] at hr; obtain ⟨⟨e', he⟩, _⟩ := hr; rw [he] at hok; cases hok
  | unsupported => rw [href] at hr; exact hr.elim
  | ok h' hid n =>
    rw [href] at hr
    obtain ⟨_, _, hcalls, _, hlog⟩ := hr
    refine ⟨?_, hlog⟩
    rw [hcalls]
    obtain ⟨op, arg, v, hl, _, hcase⟩ := refAssign_ok_cases href
    rcases hcase with ⟨ds, hm, _, _⟩ | ⟨k', e', stop', kind', op', arg', h1, c, hid', w, hk, hm, hok', hbt, _, _⟩
    · rw [hstop] at hm; cases hm
    · rw [hstop] at hm
      injection hm with e1 _ _
      subst e1
      have hdrop : hasStar (orig.drop (k + 1)) = false :=
        wfSteps_noStar (wfSteps_sub (covered_parts hy).2.2.1 (fun s hs => List.mem_of_mem_drop hs))
      obtain ⟨_, _, _, hn⟩ := buildTail_spec env kind' v _ _ _ _ _ _ hbt
      rw [hn hdrop]
      have hklt : k < orig.length := by
        have := List.getElem?_eq_some_iff.1 hok'
        obtain ⟨hlt, _⟩ := this
        exact hlt
      simp; omega

/-- **Wildcards**: when the parent path contains `*`, `assign` performs the assignment at every
    addressed object (`matchesOf`: children in order, those on which a later segment cannot be
    accessed silently dropped), in order, each on the heap the previous one left; the first
    assignment that fails raises. -/
theorem c11_star {env : MEnv} (hwf : WF env = true) (hc : classesOK env = true)
    (hns : noScope env = true) (sref : Val) (missing : Missing) (h : Heap) (target : Val)
    (orig : List Step) (op : String) (arg : Val) (hl : orig.getLast? = some (op, arg))
    (hfin : finalOk op = true) (hw : wfStar orig.dropLast = true) (vs : ValSpec)
    (hvs : valWf vs = true) (hvu : valUnsupported h vs = false) (v : Val)
    (hv : refVal env h target vs = some v) (ds : List Val)
    (hm : matchesOf env h orig.dropLast 0 target = .ok ds) :
    let out := assign env false sref missing h target orig vs
    match seqAssign env op arg v h false ds with
    | some (h', hid) => out.2 = .ok target ∧ out.1.heap = h' ∧ out.1.hidden = hid ∧ out.1.calls = 0
    | none => ∃ e, out.2 = .error e := by
  have hvs' : ValWF ({ heap := h } : St).heap vs := by
    cases vs with
    | path s => exact hvs
    | lit v => simpa [valUnsupported, ValWF] using hvu
    | val v => trivial
  have hev := evalVal_spec hwf hc { heap := h } target vs hvs'
  simp only [hv] at hev
  have hspec := fetch_spec hwf hc h orig.dropLast hw (.inr (noScope_isScope hns h)) 0 target
  rw [hm] at hspec
  obtain ⟨nest, hf, hu, hlv⟩ := hspec
  simp only [assign]
  rw [assignAux_fetch_ok hl hfin hev (by simpa using hf), applyForEach_spec _ _ _ _ hu, hlv]
  have hs := seqM_assign hwf hfin arg v ds { heap := h }
  simp only at hs
  cases hsa : seqAssign env op arg v h false ds with
  | none =>
    rw [hsa] at hs
    obtain ⟨st', e, hrun⟩ := hs
    simp [hrun]
  | some res =>
    obtain ⟨h', hid⟩ := res
    rw [hsa] at hs
    obtain ⟨st', hrun, h1, h2, h3⟩ := hs
    simp [hrun, h1, h2, h3]

/-- **Checker theorem for wildcard destinations** (T-rooted, `*` only, the parent's matches exist, the
    value is defined): `checkC11` holds of the model's observation — every match assigned in order,
    or an error (nothing is prescribed for the heap of a wildcard assignment that fails half-way). -/
theorem c11_star_model_checks {env : MEnv} (hwf : WF env = true) (hc : classesOK env = true)
    (hns : noScope env = true) (sref : Val) (missing : Missing) (h : Heap) (target : Val)
    (orig : List Step) (op : String) (arg : Val) (hl : orig.getLast? = some (op, arg))
    (hfin : finalOk op = true) (hw : wfStar orig.dropLast = true) (hst : hasStar orig = true)
    (vs : ValSpec) (hvs : valWf vs = true) (hvu : valUnsupported h vs = false) (v : Val)
    (hv : refVal env h target vs = some v) (ds : List Val)
    (hm : matchesOf env h orig.dropLast 0 target = .ok ds) :
    checkC11 env h target target orig vs missing (observe env (assign env false sref missing h target orig vs)) =
      true := by
  have hstar := c11_star hwf hc hns sref missing h target orig op arg hl hfin hw vs hvs hvu v hv ds hm
  simp only at hstar
  unfold checkC11 checkRef refAssign
  simp only [hl, hfin, Bool.not_true, Bool.false_eq_true, if_false, hvu, hv, hm, hst]
  cases hsa : seqAssign env op arg v h false ds with
  | some res =>
    obtain ⟨h', hid⟩ := res
    rw [hsa] at hstar
    obtain ⟨h1, h2, h3, h4⟩ := hstar
    simp [observe, h1, h2, h3, h4, maskCells]
  | none =>
    rw [hsa] at hstar
    obtain ⟨e, h1⟩ := hstar
    simp [observe, h1, observeErr_isErr env e]

/-- **Checker theorem** — the form in which the property is also evaluated on the
    implementation's observation by the correspondence driver. -/
theorem c11_model_checks {env : MEnv} {h : Heap} {target : Val} {sroot : Bool} {orig : List Step}
    {vs : ValSpec} {missing : Missing} (hy : Hyps env h target sroot orig vs missing) (sref : Val) :
    checkC11 env h target (if sroot then sref else target) orig vs missing
      (observe env (assign env sroot sref missing h target orig vs)) = true := by
  have hr := c11_refines hy sref
  unfold checkC11 checkRef
  cases href : refAssign env h target (if sroot then sref else target) orig vs missing with
  | unsupported => rw [href] at hr; exact hr.elim
  | ok h' hid n =>
    rw [href] at hr
    obtain ⟨h1, h2, h3, h4, _⟩ := hr
    simp [observe, h1, h2, h3, h4, maskCells]
  | fail a =>
    rw [href] at hr
    obtain ⟨⟨e, he⟩, hp, hl⟩ := hr
    simp only [observe, he, maskCells, List.foldl_nil, pres_take hp hl, beq_self_eq_true, Bool.or_true,
      Bool.and_true]
    cases e <;> rfl

/-! ### literals in `val` position: `arg_val` rebuilds exact lists / dicts / tuples / sets -/

/-- The hypotheses of the theorems about a literal value (`coveredLit`, evaluated per case by the
    driver): as `Hyps`, and `arg_val`'s recursion on the literal ends within the fuel. -/
abbrev HypsLit (env : MEnv) (fuel : Nat) (h : Heap) (target : Val) (orig : List Step) (v : Val)
    (missing : Missing) : Prop :=
  coveredLit env fuel h target orig v missing = true

/-- **`arg_val` leaves everything that exists alone**: whatever the literal looks like (nesting,
    sharing, cycles, T leaves that fail) and however the evaluation ends, every cell that existed
    before — the target and the literal itself — is exactly as it was; the evaluation only creates
    cells and fills the cells it created; it calls no factory. -/
theorem c11_argval_fresh (env : MEnv) (target : Val) (fuel : Nat) (h : Heap) (v : Val) :
    let out := argEval env target fuel { heap := h } [] v
    (∀ b, b < h.length → out.1.heap[b]? = h[b]?) ∧ h.length ≤ out.1.heap.length ∧
      (∀ ev ∈ out.1.log, evNew h.length ev) ∧ out.1.calls = 0 := by
  have hok := argEval_ok env target fuel { heap := h } [] v
  exact ⟨hok.pres, hok.len, logExt_nil hok.log, hok.calls⟩

/-- **One rebuilt object per distinct original** (what seeded change C11-s9 breaks): at the end of an
    `arg_val` evaluation the memo `cache` relates pairwise distinct original lists / dicts to
    pairwise distinct cells, all of them created during the call — a list / dict of the literal that
    is reachable by several routes, or through a cycle, has exactly ONE rebuilt counterpart
    (`keys`: no original occurs twice; `vals`: no counterpart is shared by two originals) — see
    `c11_copy_iso` for what the counterparts hold … -/
theorem c11_copy_once (env : MEnv) (target : Val) (fuel : Nat) (h : Heap) (v : Val) :
    let out := argEval env target fuel { heap := h } [] v
    (out.2.1.map (·.1)).Nodup ∧ (out.2.1.map (·.2)).Nodup ∧
      ∀ p ∈ out.2.1, h.length ≤ p.2 ∧ p.2 < out.1.heap.length := by
  have hi : MemoInv h.length ({ heap := h } : St) [] :=
    ⟨Nat.le_refl _, fun p hp => by simp at hp, by simp, by simp⟩
  obtain ⟨hinv, _⟩ := argEval_memo env target h.length fuel { heap := h } [] v hi
  exact ⟨hinv.keys, hinv.vals, hinv.fresh⟩

/-- … and **every** evaluation of an exact list / dict — the first, which rebuilds it, and each later
    one, from whatever route — returns the counterpart the memo holds for it (entries are never
    dropped: `argEval_ext`), so two occurrences of one original are one object in the stored value. -/
theorem c11_copy_memo (env : MEnv) (target : Val) (fuel : Nat) (st : St) (m : Memo) (a : Nat)
    (hreb : (∃ xs, st.heap[a]? = some (.list "list" xs)) ∨ (∃ es, st.heap[a]? = some (.dict "dict" es)))
    (st' : St) (m' : Memo) (w : Val)
    (hr : argEval env target fuel st m (.ref a) = (st', m', .ok w)) :
    (∃ b, w = .ref b ∧ (a, b) ∈ m') ∧ ∃ ext, m' = ext ++ m := by
  refine ⟨argEval_ref_memo env target fuel st m a hreb st' m' w hr, ?_⟩
  have := argEval_ext env target fuel st m (.ref a)
  rw [hr] at this
  exact this

/-- **The rebuilt value has the shape and the sharing of the literal** (the full statement behind
    `c11_copy_once`): for a heap in which every stored reference points into the heap (`ClosedHeap`:
    true of the heap of a program) and a literal `v` in it, if `arg_val` returns `w` with memo `M` and
    heap `H`, then
    * `w` is the counterpart of `v` (`Img`): `v` itself when `v` is a scalar, an object or a subclass
      instance; the value of the path when `v` is a T-expression; the memo's cell for an exact list /
      dict; a new tuple / set whose items are the counterparts of `v`'s items;
    * every memo entry `(a, b)` is **closed** (`Closed`): the rebuilt cell `b` is a list whose items
      are, position by position, the counterparts of the items of the original list `a` (a dict
      whose entries are those of the rebuilt `(key, value)` pairs, in order);
    * and (`c11_copy_once`) the memo is a partial injection.
    So two routes to one original list / dict — a shared sub-container, a cycle — arrive at ONE
    rebuilt cell, and distinct originals at distinct cells: the graph below `w` is isomorphic to the
    graph below `v`, exact tuples / sets unfolded per occurrence. -/
theorem c11_copy_iso (env : MEnv) (target : Val) (fuel : Nat) (h : Heap) (v : Val)
    (hc : ClosedHeap h) (hv : inH h v) (st' : St) (m' : Memo) (w : Val)
    (hr : argEval env target fuel { heap := h } [] v = (st', m', .ok w)) :
    Img env target h st'.heap m' fuel v w ∧ ∀ p ∈ m', Closed env target h st'.heap m' p := by
  have hg : Good h ({ heap := h } : St) [] :=
    ⟨Pres.refl _, Nat.le_refl _, ⟨Nat.le_refl _, fun p hp => by simp at hp, by simp, by simp⟩⟩
  obtain ⟨hs, hi⟩ := argEval_iso env target h hc fuel { heap := h } [] v st' m' w hg hv hr
  exact ⟨hi, fun p hp => hs.closed p hp (by simp)⟩

/-- **Refinement for a literal value**: `glom(target, Assign(path, literal, missing))` is the plain
    nested assignment of what arg mode makes of the literal; otherwise an error with every
    pre-existing cell preserved (also when a T leaf of the literal cannot be evaluated, or a
    rebuilt key is unhashable). -/
theorem c11_lit_refines {env : MEnv} {fuel : Nat} {h : Heap} {target : Val} {orig : List Step} {v : Val}
    {missing : Missing} (hy : HypsLit env fuel h target orig v missing) (sroot : Bool) (sref : Val) :
    Refines h target (assignLit env sroot sref missing fuel h target orig v)
      (refAssignU env fuel h target (if sroot then sref else target) orig (.lit v) missing) := by
  obtain ⟨hwf, hc, hs, hm, hfu⟩ := coveredLit_parts hy
  exact assignLit_spec hwf hc sroot sref missing fuel h target orig v hs hm hfu

/-- **Atomicity with a literal value**: if the assignment cannot be completed for any reason — the
    literal's evaluation included — an error is raised and every cell that existed before the call
    is exactly as it was (rebuilt containers and factory objects are garbage). -/
theorem c11_lit_atomic {env : MEnv} {fuel : Nat} {h : Heap} {target : Val} {orig : List Step} {v : Val}
    {missing : Missing} (hy : HypsLit env fuel h target orig v missing) (sroot : Bool) (sref : Val)
    (e : MErr) (herr : (assignLit env sroot sref missing fuel h target orig v).2 = .error e) :
    ∀ b, b < h.length → (assignLit env sroot sref missing fuel h target orig v).1.heap[b]? = h[b]? := by
  have hr := c11_lit_refines hy sroot sref
  cases href : refAssignU env fuel h target (if sroot then sref else target) orig (.lit v) missing with
  | ok h' hid n => rw [href] at hr; rw [hr.1] at herr; cases herr
  | fail a => rw [href] at hr; exact hr.2.1
  | unsupported => rw [href] at hr; exact hr.elim

/-- **Checker theorem for a literal value** — the form evaluated on the implementation's observation. -/
theorem c11_lit_model_checks {env : MEnv} {fuel : Nat} {h : Heap} {target : Val} {orig : List Step}
    {v : Val} {missing : Missing} (hy : HypsLit env fuel h target orig v missing) (sroot : Bool)
    (sref : Val) :
    checkC11U env fuel h target (if sroot then sref else target) orig (.lit v) missing
      (observe env (assignLit env sroot sref missing fuel h target orig v)) = true := by
  have hr := c11_lit_refines hy sroot sref
  unfold checkC11U checkRef
  cases href : refAssignU env fuel h target (if sroot then sref else target) orig (.lit v) missing with
  | unsupported => rw [href] at hr; exact hr.elim
  | ok h' hid n =>
    rw [href] at hr
    obtain ⟨h1, h2, h3, h4, _⟩ := hr
    simp [observe, h1, h2, h3, h4, maskCells]
  | fail a =>
    rw [href] at hr
    obtain ⟨⟨e, he⟩, hp, hl⟩ := hr
    simp only [observe, he, maskCells, List.foldl_nil, pres_take hp hl, beq_self_eq_true, Bool.or_true,
      Bool.and_true]
    cases e <;> rfl

/-! ### exact errors, user registrations, overlapping evaluations -/

/-- **Exact outcome at the parent** (every container kind, every registered handler — the `assign`
    table is a parameter of the environment —, negative and out-of-range list indices, tuple /
    frozenset / str parents): when the parent path of a wildcard-free destination addresses `d`, the
    call does exactly what the final step's assignment primitive does on `d` — Python's own
    `d[arg] = v` for `T[..]`, `setattr` for `T.attr`, the handler registered for `type(d)` for a plain
    segment —: its heap on success; on an exception `e` a `PathAssignError(e)` exactly when the
    `except` clause of that branch of `_assign_op` (extracted) names `e`'s class, else `e` itself;
    `UnregisteredTarget` when the type has no `assign` handler (registered as `False`). -/
theorem c11_exact_outcome {env : MEnv} {h : Heap} {target : Val} {sroot : Bool} {orig : List Step}
    {vs : ValSpec} {missing : Missing} (hy : Hyps env h target sroot orig vs missing) (sref : Val)
    (d v : Val) (op : String) (arg : Val) (hl : orig.getLast? = some (op, arg))
    (hm : matchesOf env h orig.dropLast 0 (if sroot then sref else target) = .ok [d])
    (hv : refVal env h target vs = some v) :
    assign env sroot sref missing h target orig vs =
      match refAssignOp env h op d arg v with
      | some (.ok w) => (({ heap := h } : St).wrote w, .ok target)
      | some (.error e) => ({ heap := h }, .error (assignErr env op arg e))
      | none => ({ heap := h }, .error .unregistered) := by
  obtain ⟨hwf, hc, hs, hvw, hvu, _⟩ := covered_parts hy
  have hlastw : C01.wfSteps [(op, arg)] = true := (wfSteps_iff orig).1 hs _ (getLast?_mem hl)
  have hfin : finalOk op = true := finalOk_of_wfSteps hlastw
  have hvs' : ValWF ({ heap := h } : St).heap vs := by
    cases vs with
    | path s => exact hvw
    | lit v => simpa [valUnsupported, ValWF] using hvu
    | val v => trivial
  have hev := evalVal_spec hwf hc { heap := h } target vs hvs'
  simp only [hv] at hev
  have hpw : C01.wfSteps orig.dropLast = true := wfSteps_sub hs (fun s hs' => mem_of_mem_dropLast hs')
  have hpns := wfSteps_noStar hpw
  have hspec := fetch_spec hwf hc h orig.dropLast (wfSteps_wfStar hpw) (.inl hpns) 0
    (if sroot then sref else target)
  rw [hm] at hspec
  obtain ⟨nest, hf, hu, hlv⟩ := hspec
  rw [stars_zero hpns] at hu
  obtain ⟨d', rfl⟩ := uniform0_leaf hu
  simp only [Nest.leaves] at hlv
  injection hlv with hlv _
  subst hlv
  unfold assign
  rw [assignAux_fetch_ok hl hfin hev hf]
  simp only [stars_zero hpns, applyForEach, beq_self_eq_true, if_true]
  rw [assignOp_eq hwf hfin]
  cases refAssignOp env h op d' arg v with
  | none => rfl
  | some r => cases r <;> rfl

/-- **Facts obligation, which error**: the `except` clauses of `_assign_op` agree with the reading of
    `refErr` — the `[` and `.` branches catch nothing (Python's exception leaves `glom()` as it is),
    the plain-segment branch turns every exception a handler can raise into a PathAssignError — for
    every registry. -/
theorem c11_facts_wrap (uc : ClassTable) (fl : List (String × List String)) (ur : UReg) :
    assignWrapOK (genEnv uc fl ur) = true := by
  have : assignWrapOK (genEnv uc fl ur) = assignWrapOK (genEnv [] []) := rfl
  rw [this]; decide

/-- **Which error** (checked on the implementation as part of `holds`): when an assignment through a
    wildcard-free path raises, the exception is the one the reading prescribes (`refErr`) —
    ValueError from the constructor; `PathAccessError(e, part_idx = k)` where the parent path (no
    factory) or the value's path stops; for a failing final step `PathAssignError(e, dest_name)` if it
    is a plain segment and Python's own `e` if it is `T[..]` / `T.attr`; UnregisteredTarget for a
    type without handler — and otherwise (inside the `missing` backfill) some error. -/
theorem c11_error_class {env : MEnv} {h : Heap} {target : Val} {sroot : Bool} {orig : List Step}
    {vs : ValSpec} {missing : Missing} (hy : Hyps env h target sroot orig vs missing)
    (hw : assignWrapOK env = true) (sref : Val) (e : MErr)
    (herr : (assign env sroot sref missing h target orig vs).2 = .error e) :
    errMatches env (refErr env h target (if sroot then sref else target) orig vs missing)
      (observeErr env e) = true := by
  obtain ⟨hwf, hc, hs, hvw, hvu, _⟩ := covered_parts hy
  have hany : errMatches env .any (observeErr env e) = true := observeErr_isErr env e
  unfold refErr
  cases hl : orig.getLast? with
  | none =>
    have : orig = [] := by simpa using hl
    subst this
    simp only [assign, assignAux_nil] at herr
    injection herr with herr; subst herr
    simp [errMatches, observeErr]
  | some last =>
    obtain ⟨op, arg⟩ := last
    have hlastw : C01.wfSteps [(op, arg)] = true := (wfSteps_iff orig).1 hs _ (getLast?_mem hl)
    have hfin : finalOk op = true := finalOk_of_wfSteps hlastw
    have hons : hasStar orig = false := wfSteps_noStar hs
    simp only [hfin, Bool.not_true, Bool.false_eq_true, if_false, hvu, hons]
    have hvs' : ValWF ({ heap := h } : St).heap vs := by
      cases vs with
      | path s => exact hvw
      | lit v => simpa [valUnsupported, ValWF] using hvu
      | val v => trivial
    have hev := evalVal_spec hwf hc { heap := h } target vs hvs'
    simp only at hev
    cases hrv : refVal env h target vs with
    | none =>
      simp only
      cases vs with
      | lit v => exact hany
      | val v => exact hany
      | path s =>
        simp only
        cases hms : matchesOf env h s 0 target with
        | fail k e0 stop =>
          simp only
          have hsp := fetch_spec hwf hc h s (wfSteps_wfStar hvw) (.inl (wfSteps_noStar hvw)) 0 target
          rw [hms] at hsp
          simp only at hsp
          have : evalVal env ({ heap := h } : St) target (.path s) = ({ heap := h }, .error (.pae k e0)) := by
            simp [evalVal, hsp]
          simp only [assign] at herr
          rw [assignAux_val_err hl hfin this] at herr
          injection herr with herr; subst herr
          simp [errMatches, observeErr]
        | ok ds => exact hany
        | unreg => exact hany
        | unsupported => exact hany
    | some v =>
      simp only
      cases hmo : matchesOf env h orig.dropLast 0 (if sroot then sref else target) with
      | unreg => exact hany
      | unsupported => exact hany
      | fail k e0 stop =>
        simp only
        cases missing with
        | factory kind => exact hany
        | none =>
          simp only
          rw [hrv] at hev
          have hpw : C01.wfSteps orig.dropLast = true := wfSteps_sub hs (fun s hs' => mem_of_mem_dropLast hs')
          have hspec := fetch_spec hwf hc h orig.dropLast (wfSteps_wfStar hpw) (.inl (wfSteps_noStar hpw)) 0
            (if sroot then sref else target)
          rw [hmo] at hspec
          simp only at hspec
          simp only [assign] at herr
          rw [assignAux_fetch_pae_none hl hfin hev hspec] at herr
          injection herr with herr; subst herr
          simp [errMatches, observeErr]
      | ok ds =>
        cases ds with
        | nil => exact hany
        | cons d rest =>
          cases rest with
          | cons d2 r2 => exact hany
          | nil =>
            simp only
            have eo := c11_exact_outcome hy sref d v op arg hl hmo hrv
            cases hra : refAssignOp env h op d arg v with
            | none =>
              rw [hra] at eo; rw [eo] at herr
              injection herr with herr; subst herr
              simp [errMatches, observeErr]
            | some res =>
              cases res with
              | ok w => exact hany
              | error e1 =>
                rw [hra] at eo; rw [eo] at herr
                injection herr with herr; subst herr
                simp only [errMatches]
                simp only [finalOk, Bool.or_eq_true, beq_iff_eq] at hfin
                rcases hfin with (rfl | rfl) | rfl
                · simp [(assignErr_reading hw arg e1).1, observeErr]
                · simp [(assignErr_reading hw arg e1).2.1, observeErr]
                · have hmem : e1.cls ∈ assignHandlerExcs := by
                    simp only [refAssignOp] at hra
                    simp at hra
                    obtain ⟨hn, _, hap⟩ := hra
                    exact applyAssignHandler_exc hap
                  simp [(assignErr_reading hw arg e1).2.2 hmem, observeErr]


/-- **Checker theorem, error part**: `checkErr` (evaluated on the implementation's observation as part
    of `holds`) is true of the model's observation. -/
theorem c11_err_checks {env : MEnv} {h : Heap} {target : Val} {sroot : Bool} {orig : List Step}
    {vs : ValSpec} {missing : Missing} (hy : Hyps env h target sroot orig vs missing)
    (hw : assignWrapOK env = true) (sref : Val) :
    checkErr env h target (if sroot then sref else target) orig vs missing
      (observe env (assign env sroot sref missing h target orig vs)) = true := by
  unfold checkErr observe
  cases hr : (assign env sroot sref missing h target orig vs).2 with
  | ok v => simp [ObsRes.isErr]
  | error e => simp [c11_error_class hy hw sref e hr]

/-- **Facts obligation with user registrations**: the branch tables do not depend on the registry;
    registrations of user classes (anything but `object` and the two duck types) in front of the
    default `assign` table keep the environment well-formed — the theorems hold for every such
    registry (the handler table is a parameter). -/
theorem c11_facts_wf_ureg (uc : ClassTable) (fl : List (String × List String)) (ur : UReg)
    (hu : ur.assign.all (fun p => p.1 != "object" && p.1 != "_AbstractIterable" && p.1 != "_ObjStyleKeys") = true) :
    WF (genEnv uc fl ur) = true := by
  have hfind : ∀ (name : String), (name = "object" ∨ name = "_AbstractIterable" ∨ name = "_ObjStyleKeys") →
      (ur.assign ++ Generated.defaultReg_assign).find? (·.1 == name) =
        Generated.defaultReg_assign.find? (·.1 == name) := by
    intro name hn
    rw [List.find?_append]
    have : ur.assign.find? (·.1 == name) = none := by
      rw [List.find?_eq_none]
      intro p hp
      have := List.all_eq_true.1 hu p hp
      simp only [Bool.and_eq_true, bne_iff_ne, ne_eq] at this
      rcases hn with rfl | rfl | rfl <;> simp [this]
    rw [this]; rfl
  have hv : virtualLikeObject (ur.assign ++ Generated.defaultReg_assign) =
      virtualLikeObject Generated.defaultReg_assign := by
    simp only [virtualLikeObject, hfind "object" (.inl rfl), List.all_cons, List.all_nil, Bool.and_true,
      hfind "_AbstractIterable" (.inr (.inl rfl)), hfind "_ObjStyleKeys" (.inr (.inr rfl))]
  have h0 := c11_facts_wf [] []
  have hsplit : WF (genEnv uc fl ur) =
      (virtualLikeObject (ur.assign ++ Generated.defaultReg_assign) &&
        (C01.WF (genEnv [] []).t && C01.dispatchOf (genEnv [] []).t "x" == some ("star", []) &&
         C01.dispatchOf (genEnv [] []).t "X" == some ("starstar", []) &&
         assignKind (genEnv [] []) "[" "setitem" && assignKind (genEnv [] []) "." "setattr" &&
         assignKind (genEnv [] []) "P" "handler" &&
         (genEnv [] []).t.excTable.isSub "PathAssignError" "GlomError")) := by
    simp only [WF, Bool.and_assoc]; rfl
  rw [hsplit, hv]
  simp only [WF, Bool.and_assoc] at h0
  exact h0

/-- **Put-put** (`_partial`: for destinations whose parent exists, under the hypotheses put-get
    needs — the parent path does not pass through the written object, immediate path arguments):
    assigning twice through the same path is assigning the last value once — the second call
    succeeds, returns the target, and leaves exactly the heap (and hidden flag) of
    `assign(target, path, v2)` on the original target.  For every path length (the walk of the
    parent path after the first write is the walk before it, `matchesOf_congr_visits`, an
    induction over the path) and every container kind / registered handler. -/
theorem c11_put_put_partial {env : MEnv} {h : Heap} {target : Val} {sroot : Bool} {orig : List Step}
    {missing : Missing} {v1 : Val} (v2 : Val)
    (hy : Hyps env h target sroot orig (.val v1) missing) (sref : Val)
    (has : argsScalar orig = true) (d : Val)
    (hm : matchesOf env h orig.dropLast 0 (if sroot then sref else target) = .ok [d])
    (hnv : d ∉ visits env h orig.dropLast (if sroot then sref else target)) (r : Val)
    (hok : (assign env sroot sref missing h target orig (.val v1)).2 = .ok r) :
    let h1 := (assign env sroot sref missing h target orig (.val v1)).1.heap
    (assign env sroot sref missing h1 target orig (.val v2)).2 = .ok target ∧
    (assign env sroot sref missing h1 target orig (.val v2)).1.heap =
      (assign env sroot sref missing h target orig (.val v2)).1.heap ∧
    (assign env sroot sref missing h1 target orig (.val v2)).1.hidden =
      (assign env sroot sref missing h target orig (.val v2)).1.hidden := by
  obtain ⟨hwf, hc, hs, _, _, hmo⟩ := covered_parts hy
  have hcov : ∀ (hh : Heap) (v : Val), Hyps env hh target sroot orig (.val v) missing := by
    intro hh v
    have hi := covered_intSafe hy
    simp only [Hyps, covered, hwf, hc, hs, hmo, hi, valWf, valUnsupported, Bool.and_self, Bool.not_false]
  cases hl : orig.getLast? with
  | none =>
    have : orig = [] := by simpa using hl
    subst this
    simp [assign, assignAux] at hok
  | some last =>
    obtain ⟨op, arg⟩ := last
    have e1 := c11_exact_outcome hy sref d v1 op arg hl hm rfl
    have hargk : ∀ a, arg ≠ .ref a := argsScalar_sub has (op, arg) (getLast?_mem hl)
    cases hr1 : refAssignOp env h op d arg v1 with
    | none => rw [hr1] at e1; rw [e1] at hok; cases hok
    | some r1 =>
      cases r1 with
      | error e => rw [hr1] at e1; rw [e1] at hok; cases hok
      | ok w1 =>
        rw [hr1] at e1
        obtain ⟨w2, w2', hr2, hr2', hse⟩ := refAssignOp_twice v2 hargk hr1
        have hh1 : (assign env sroot sref missing h target orig (.val v1)).1.heap = w1.heap := by
          rw [e1]; rfl
        simp only [hh1]
        -- the parent path reads the same cells after the first write
        have hpw : C01.wfSteps orig.dropLast = true := wfSteps_sub hs (fun s hs' => mem_of_mem_dropLast hs')
        have hpns := wfSteps_noStar hpw
        have hpas : argsScalar orig.dropLast = true :=
          argsScalar_of (fun t ht => argsScalar_sub has t (mem_of_mem_dropLast ht))
        have hfr := refAssignOp_frame hr1
        have hpre : matchesOf env w1.heap orig.dropLast 0 (if sroot then sref else target) = .ok [d] := by
          rw [matchesOf_congr_visits orig.dropLast hpns hpas 0 _ ?_, hm]
          intro c hc' a hca
          subst hca
          exact hfr.2 a (fun e => hnv (by rw [e]; exact hc'))
        have ea := c11_exact_outcome (hcov w1.heap v2) sref d v2 op arg hl hpre rfl
        have eb := c11_exact_outcome (hcov h v2) sref d v2 op arg hl hm rfl
        rw [hr2'] at ea
        rw [hr2] at eb
        rw [ea, eb]
        exact ⟨rfl, by simp [St.wrote, hse.1], by simp [St.wrote, hse.2]⟩


/-- **Overlapping evaluations of one spec object** (what seeded change C11-s8 breaks): when the
    `missing` factory, at the first call this evaluation makes of it, evaluates the SAME Assign
    object on another record (leaving state `st'`), this evaluation goes on exactly as if it had
    been started alone from `st'` — same value `val` (the one IT evaluated), same break point —,
    provided the nested evaluation did not change what this one had read before calling the
    factory (two records that share nothing).  Nothing of an evaluation is kept on the spec
    object (`c11_facts_shape`: no method but `__init__` stores into `self`). -/
theorem c11_reenter_first (env : MEnv) (inner : St → St × Except MErr Val) (sroot : Bool) (sref : Val)
    (kind : String) (fuel : Nat) (st : St) (target : Val) (orig : List Step) (vs : ValSpec)
    (op : String) (arg val : Val) (k : Nat) (e : PyExc)
    (hl : orig.getLast? = some (op, arg)) (hfin : finalOk op = true)
    (hmono : st.calls ≤ (inner st).1.calls)
    (hv : evalVal env st target vs = (st, .ok val))
    (hv' : evalVal env (inner st).1 target vs = ((inner st).1, .ok val))
    (hf : fetch env st.heap orig.dropLast 0 (if sroot then sref else target) = .error (.pae k e))
    (hf' : fetch env (inner st).1.heap orig.dropLast 0 (if sroot then sref else target) = .error (.pae k e)) :
    assignAuxR env (reenterHook st.calls inner) sroot sref kind (fuel + 1) st target orig vs =
      assignAux env sroot sref (.factory kind) (fuel + 1) (inner st).1 target orig vs :=
  assignAuxR_first env inner sroot sref kind fuel st target orig vs op arg val k e hl hfin hmono hv hv' hf hf'

/-- **Overlapping evaluations on records that share nothing** (`c11_reenter_first` with its hypotheses
    discharged from the heap BEFORE the calls): one Assign object; this evaluation (on `target`) needs
    the factory (its parent walk stops at segment `k`); at its first call the factory evaluates the
    same spec object on `target2`.  If the object the nested evaluation writes (`d2`: the parent it
    reaches on `target2`, or the object where its own walk stops) is not among the objects this
    evaluation's value path and parent walk visit, and those are objects of the heap (`hin`), then
    this evaluation is exactly the evaluation carried out alone after the nested one: it assigns
    the value IT evaluated.  (`vs`: a path / `T` value or an evaluated value; sequential semantics
    of the two calls then follow from `c11_refines` for each.) -/
theorem c11_reenter_disjoint {env : MEnv} {h : Heap} {target target2 : Val} {orig : List Step}
    {vs : ValSpec} {kind : String}
    (hy : Hyps env h target false orig vs (.factory kind))
    (hy2 : Hyps env h target2 false orig vs (.factory kind))
    (hnl : ∀ v, vs ≠ .lit v) (hasv : ∀ s, vs = .path s → argsScalar s = true)
    (sref : Val) (op : String) (arg : Val) (hl : orig.getLast? = some (op, arg))
    (val : Val) (hval : refVal env h target vs = some val)
    (k : Nat) (e : PyExc) (stop : Val) (hstop : matchesOf env h orig.dropLast 0 target = .fail k e stop)
    (hin : ∀ c, (c ∈ visits env h orig.dropLast target ∨ ∃ s, vs = .path s ∧ c ∈ visits env h s target) →
      ∀ a, c = .ref a → a < h.length)
    (hdis : ∀ d2, (matchesOf env h orig.dropLast 0 target2 = .ok [d2] ∨
        ∃ k' e', matchesOf env h orig.dropLast 0 target2 = .fail k' e' d2) →
      d2 ∉ visits env h orig.dropLast target ∧ ∀ s, vs = .path s → d2 ∉ visits env h s target) :
    let inner := fun st => assignAux env false sref (.factory kind) (orig.length + 1) st target2 orig vs
    assignAuxR env (reenterHook 0 inner) false sref kind (orig.length + 1) { heap := h } target orig vs =
      assignAux env false sref (.factory kind) (orig.length + 1) (inner { heap := h }).1 target orig vs := by
  intro inner
  obtain ⟨hwf, hc, hs, hvw, hvu, hmo⟩ := covered_parts hy
  have has : argsScalar orig = true := by simpa [missingOK] using (by simpa [missingOK] using hmo : argsScalar orig = true ∧ freshNotScope env = true).1
  have hlastw : C01.wfSteps [(op, arg)] = true := (wfSteps_iff orig).1 hs _ (getLast?_mem hl)
  have hfin : finalOk op = true := finalOk_of_wfSteps hlastw
  have hpw : C01.wfSteps orig.dropLast = true := wfSteps_sub hs (fun s hs' => mem_of_mem_dropLast hs')
  have hpas : argsScalar orig.dropLast = true :=
    argsScalar_of (fun t ht => argsScalar_sub has t (mem_of_mem_dropLast ht))
  -- the nested evaluation is an ordinary `assign` on the other record
  have hinner : inner { heap := h } = assign env false sref (.factory kind) h target2 orig vs := rfl
  -- it leaves every cell this evaluation reads as it was
  have hcells : ∀ c, (c ∈ visits env h orig.dropLast target ∨ ∃ s, vs = .path s ∧ c ∈ visits env h s target) →
      ∀ a, c = .ref a → (inner { heap := h }).1.heap[a]? = h[a]? := by
    intro c hcv a hca
    have halt := hin c hcv a hca
    rw [hinner]
    cases hres : (assign env false sref (.factory kind) h target2 orig vs).2 with
    | error e' => exact c11_atomic hy2 sref e' hres a halt
    | ok r =>
      obtain ⟨d, hd, hfr⟩ := c11_frame hy2 sref r hres
      simp only [Bool.false_eq_true, if_false] at hd
      have hnd := hdis d hd
      apply hfr a halt
      intro hde
      subst hca
      rcases hcv with hcv | ⟨s, hs', hcv⟩
      · exact hnd.1 (by rw [hde]; exact hcv)
      · exact hnd.2 s hs' (by rw [hde]; exact hcv)
  -- what this evaluation read before calling the factory
  have hvs' : ValWF ({ heap := h } : St).heap vs := by
    cases vs with
    | path s => exact hvw
    | lit v => exact absurd rfl (hnl v)
    | val v => trivial
  have hev := evalVal_spec hwf hc { heap := h } target vs hvs'
  simp only [hval] at hev
  have hspec := fetch_spec hwf hc h orig.dropLast (wfSteps_wfStar hpw) (.inl (wfSteps_noStar hpw)) 0 target
  rw [hstop] at hspec
  simp only at hspec
  have hf' : fetch env (inner { heap := h }).1.heap orig.dropLast 0 target = .error (.pae k e) := by
    rw [fetch_congr_visits hwf hc orig.dropLast hpw hpas target (fun c hc' => hcells c (.inl hc')), hspec]
  have hv' : evalVal env (inner { heap := h }).1 target vs = ((inner { heap := h }).1, .ok val) := by
    have h2 := evalVal_congr_visits hwf hc (st := { heap := h }) (st' := (inner { heap := h }).1) target vs hvw
      (fun v hv => absurd hv (hnl v)) hasv (fun s hs' c hc' => hcells c (.inr ⟨s, hs', hc'⟩))
    rw [hev] at h2
    have h1 := evalVal_fst env (inner { heap := h }).1 target vs
    exact Prod.ext h1 h2
  have hmono : ({ heap := h } : St).calls ≤ (inner { heap := h }).1.calls := Nat.zero_le _
  have := c11_reenter_first env inner false sref kind orig.length { heap := h } target orig vs op arg val k e
    hl hfin hmono hev hv' (by simpa using hspec) (by simpa using hf')
  exact this

/-- … and once the factory has been called more often than the call at which it re-enters, the
    rest of the evaluation (every nested tail Assign included) is the plain one. -/
theorem c11_reenter_spent (env : MEnv) (at_ : Nat) (inner : St → St × Except MErr Val) (sroot : Bool)
    (sref : Val) (kind : String) (fuel : Nat) (st : St) (target : Val) (orig : List Step) (vs : ValSpec)
    (h : at_ < st.calls) :
    assignAuxR env (reenterHook at_ inner) sroot sref kind fuel st target orig vs =
      assignAux env sroot sref (.factory kind) fuel st target orig vs :=
  assignAuxR_spent env at_ inner sroot sref kind fuel st target orig vs h

/-- **An evaluation from any state is the evaluation from the bare heap** (sequential re-use of a
    spec object, the evaluation nested in a factory, the evaluation after `arg_val`): the model
    reads nothing of its state but the heap; factory calls, events and flags are added to what
    was there. -/
theorem c11_from_any_state (env : MEnv) (sroot : Bool) (sref : Val) (missing : Missing) (fuel : Nat)
    (st : St) (target : Val) (orig : List Step) (vs : ValSpec) :
    assignAux env sroot sref missing fuel st target orig vs =
      (St.shift st (assignAux env sroot sref missing fuel st.bare target orig vs).1,
       (assignAux env sroot sref missing fuel st.bare target orig vs).2) :=
  assignAux_from env sroot sref missing fuel st target orig vs

/-! ### non-vacuity: concrete inputs meet every hypothesis; forced hypotheses have counter-examples -/

private def exEnv : MEnv := genEnv [] []

private def exHeap : Heap :=
  [ .dict "dict" [(.str "a", .ref 1), (.str "t", .ref 3)],   -- 0: {'a': [..], 't': (..)}
    .list "list" [.int 10, .ref 2],                          -- 1: [10, obj]
    .inst "Obj" [("b", .none)],                              -- 2: obj.b = None
    .tuple "tuple" [.int 1] ]                                -- 3: (1,)

private def exPath : List Step := [("P", .str "a"), ("P", .str "1"), ("P", .str "b")]
private def exMissingPath : List Step := [("P", .str "n"), ("P", .str "m"), ("P", .str "z")]

/-- every hypothesis of `Hyps` holds for a concrete three-segment assignment -/
example : Hyps exEnv exHeap (.ref 0) false exPath (.lit (.int 5)) .none := by decide
/-- … and with a `missing` factory and a T-valued, shared value -/
example : Hyps exEnv exHeap (.ref 0) false exMissingPath (.path [("[", .str "a"), ("[", .int 1)])
    (.factory "dict") := by decide

/-- success: `assign(t, 'a.1.b', 5)` sets the attribute of the object at address 2, nothing else -/
example : (assign exEnv false .none .none exHeap (.ref 0) exPath (.lit (.int 5))).2 = .ok (.ref 0) ∧
    (assign exEnv false .none .none exHeap (.ref 0) exPath (.lit (.int 5))).1.heap =
      exHeap.set 2 (.inst "Obj" [("b", .int 5)]) := by decide
/-- `missing=dict`: two absent segments, two factory calls, value shared with `t['a'][1]` -/
example :
    let out := assign exEnv false .none (.factory "dict") exHeap (.ref 0) exMissingPath (.path [("[", .str "a"), ("[", .int 1)])
    out.2 = .ok (.ref 0) ∧ out.1.calls = 2 ∧
    out.1.heap[4]? = some (.dict "dict" [(.str "m", .ref 5)]) ∧
    out.1.heap[5]? = some (.dict "dict" [(.str "z", .ref 2)]) := by decide
/-- … and the heap events in order: two factory allocations, the value into the inner fresh dict,
    the inner dict into the outer one, and only then the single write to the pre-existing target -/
example : (assign exEnv false .none (.factory "dict") exHeap (.ref 0) exMissingPath
      (.path [("[", .str "a"), ("[", .int 1)])).1.log =
    [.alloc 4, .alloc 5, .write 5, .write 4, .write 0] := by decide
/-- atomic failure: assigning below the tuple raises and leaves the heap as it was -/
example : (assign exEnv false .none .none exHeap (.ref 0) [("P", .str "t"), ("P", .str "0")]
      (.lit (.int 5))).2 = .error .unregistered := by decide
example : (assign exEnv false .none (.factory "dict") exHeap (.ref 0)
      [("P", .str "t"), ("P", .str "5"), ("P", .str "x")] (.lit (.int 5))).2 = .error .unregistered ∧
    (assign exEnv false .none (.factory "dict") exHeap (.ref 0)
      [("P", .str "t"), ("P", .str "5"), ("P", .str "x")] (.lit (.int 5))).1.heap.take 4 = exHeap := by
  decide

/-- **Counter-example for `hnv`** (forced by the proof; inherent, not a defect — plain Python
    behaves the same): on the cyclic target `d = {}; d['a'] = d` the parent path `'a'` passes
    through `d` itself, `assign(d, 'a.a', 5)` overwrites the slot the path traverses, and
    reading `'a.a'` afterwards fails at segment 1.  (Run on the real glom by the corpus case
    `cyclic-put-get` of harness/props/c11.py on every check.) -/
theorem c11_put_get_cyclic_counterexample :
    let h : Heap := [.dict "dict" [(.str "a", .ref 0)]]
    let path : List Step := [("P", .str "a"), ("P", .str "a")]
    let out := assign exEnv false .none .none h (.ref 0) path (.lit (.int 5))
    (.ref 0 : Val) ∈ visits exEnv h path.dropLast (.ref 0) ∧
    out.2 = .ok (.ref 0) ∧ out.1.heap = [.dict "dict" [(.str "a", .int 5)]] ∧
    matchesOf exEnv out.1.heap path 0 (.ref 0) = .fail 1 (exc "AttributeError") (.int 5) := by decide

/-- the put-get hypotheses are satisfiable -/
example : pairedRegs exEnv = true ∧ argsScalar exPath = true ∧
    matchesOf exEnv exHeap exPath.dropLast 0 (.ref 0) = .ok [.ref 2] ∧
    isScope exEnv exHeap (.ref 2) = false ∧
    (.ref 2 : Val) ∉ visits exEnv exHeap exPath.dropLast (.ref 0) := by decide

/-- regression (repaired defect b8830a0): when a segment is created the value is stored as it
    is — `assign(t, 'n.z', T['a'], missing=dict)` shares `t['a']`, exactly like plain Python -/
example :
    let out := assign exEnv false .none (.factory "dict") exHeap (.ref 0) [("P", .str "n"), ("P", .str "z")] (.path [("[", .str "a")])
    out.2 = .ok (.ref 0) ∧ out.1.heap[4]? = some (.dict "dict" [(.str "z", .ref 1)]) ∧
    out.1.heap.length = 5 := by decide

private def sEnv : MEnv := genEnv [("Scope", ["Scope", "object"])] [("Scope", ["scope"])]
private def sHeap : Heap := [.dict "dict" [], .dict "Scope" [(.str "d", .ref 0)]]
private def sPath : List Step := [("[", .str "d"), ("[", .str "n"), ("[", .str "z")]

/-- the hypotheses are satisfiable for an S-rooted destination with a `missing` factory -/
example : Hyps sEnv sHeap (.ref 0) true sPath (.lit (.int 5)) (.factory "dict") := by decide
/-- regression (repaired defect ca55bea):
    `glom(t, Assign(S['d']['n']['z'], 5, missing=dict), scope={'d': {}})` gives `d == {'n': {'z': 5}}` -/
example :
    let out := assign sEnv true (.ref 1) (.factory "dict") sHeap (.ref 0) sPath (.lit (.int 5))
    out.2 = .ok (.ref 0) ∧ out.1.heap[0]? = some (.dict "dict" [(.str "n", .ref 2)]) ∧
      out.1.heap[2]? = some (.dict "dict" [(.str "z", .int 5)]) := by decide

/-- seeded change C11-s7's class: the *first* segment of an S-rooted destination is absent
    (`glom(t, (Assign(S['cfg']['a'], 5, missing=dict), S['cfg']['a']), scope={'d': {}})`): one factory
    call, the fresh dict is bound in the scope frame (cell 1), and the read-back finds the value -/
example :
    let r := assignThenRead sEnv true (.ref 1) (.factory "dict") sHeap (.ref 0)
      [("[", .str "cfg"), ("[", .str "a")] (.lit (.int 5)) [("[", .str "cfg"), ("[", .str "a")]
    r.1.2 = .ok (.ref 0) ∧ r.1.1.calls = 1 ∧
    r.1.1.heap[1]? = some (.dict "Scope" [(.str "d", .ref 0), (.str "cfg", .ref 2)]) ∧
    r.1.1.heap[2]? = some (.dict "dict" [(.str "a", .int 5)]) ∧
    ReadObs.beq (observeRead sEnv r.2) (.ok (.leaf (.int 5))) = true := by decide
/-- `glom(t, (Assign(S.cfg.a, 5, missing=dict), S.cfg.a))` (repaired defect 94a9ae1: the first step
    of an S-rooted destination names the scope variable, as it does when the path is read) -/
example :
    let r := assignThenRead sEnv true (.ref 1) (.factory "dict") sHeap (.ref 0)
      (initPath (genSFirst "Assign") true [(".", .str "cfg"), ("[", .str "a")]) (.lit (.int 5))
      [(".", .str "cfg"), ("[", .str "a")]
    r.1.2 = .ok (.ref 0) ∧
    r.1.1.heap[1]? = some (.dict "Scope" [(.str "d", .ref 0), (.str "cfg", .ref 2)]) ∧
    ReadObs.beq (observeRead sEnv r.2) (.ok (.leaf (.int 5))) = true := by decide
/-- … and the hypotheses of `c11_read_checks` / of put-get hold for it -/
example : Hyps sEnv sHeap (.ref 0) true [("[", .str "cfg"), ("[", .str "a")] (.lit (.int 5)) (.factory "dict") ∧
    wfStar [("[", .str "cfg"), ("[", .str "a")] = true := by decide

/-- **Counter-example for `missingOK` (immediate path arguments)** — forced by the proof, *not*
    reachable in Python: with a dangling heap reference used as a key (address 1 does not exist
    yet), the object the factory creates gets exactly that address, the key turns from hashable
    into an unhashable dict between the first fetch and the re-fetch of the prefix, and the model
    (like the code would) fails where the prescription, computed on the original heap, succeeds.
    A Python program cannot hold a reference to an object that does not exist yet (reading
    issue, not a defect: the harness' heaps are closed, and `argsScalar` holds for every path
    whose segments are strings / ints / None / bools). -/
theorem c11_dangling_key_counterexample :
    let h : Heap := [.dict "dict" [(.ref 1, .ref 0)]]
    let path : List Step := [("[", .ref 1), ("[", .str "n"), ("[", .str "z")]
    missingOK exEnv path (.factory "dict") = false ∧
    (assign exEnv false .none (.factory "dict") h (.ref 0) path (.lit (.int 5))).2 =
      .error (.pae 0 (exc "TypeError")) ∧
    refAssign exEnv h (.ref 0) (.ref 0) path (.lit (.int 5)) (.factory "dict") =
      .ok [.dict "dict" [(.ref 1, .ref 0), (.str "n", .ref 1)], .dict "dict" [(.str "z", .int 5)]]
        false 1 := by decide

/-- put-put on the concrete target: `assign(t, 'a.1.b', 5)` then `assign(t, 'a.1.b', 6)` = the latter alone -/
example :
    let h1 := (assign exEnv false .none .none exHeap (.ref 0) exPath (.val (.int 5))).1.heap
    (assign exEnv false .none .none h1 (.ref 0) exPath (.val (.int 6))).1.heap =
      (assign exEnv false .none .none exHeap (.ref 0) exPath (.val (.int 6))).1.heap := by decide

/-- a factory that returns a non-container: `assign({}, 'n.z', 5, missing=int)` cannot attach anything to
    `0` (the registered handler of `int` is `object`'s `setattr`: AttributeError → PathAssignError); with a
    wildcard, `assign(t, 'n.*.z', 5, missing=str)` there is nothing to assign and `''` itself is stored -/
example :
    (assign exEnv false .none (.factory "int") exHeap (.ref 0) [("P", .str "n"), ("P", .str "z")]
      (.lit (.int 5))).2 = .error (.passign (exc "AttributeError") (.str "z")) ∧
    (assign exEnv false .none (.factory "str") exHeap (.ref 0) [("P", .str "n"), ("x", .none), ("P", .str "z")]
      (.lit (.int 5))).1.heap[0]? =
      some (.dict "dict" [(.str "a", .ref 1), (.str "t", .ref 3), (.str "n", .str "")]) := by decide

/-! overlapping evaluations of one spec object -/

/-- two records `A = {'src': 1}`, `B = {'src': 2}` and one spec `Assign('out.value', T['src'], missing=dict)`
    whose factory, at its first call, evaluates the spec on `B`: each record gets ITS OWN value -/
private def rHeap : Heap := [.dict "dict" [(.str "src", .int 1)], .dict "dict" [(.str "src", .int 2)]]
private def rPath : List Step := [("P", .str "out"), ("P", .str "value")]
private def rVal : ValSpec := .path [("[", .str "src")]

example :
    let inner := fun st => assignAux exEnv false .none (.factory "dict") 3 st (.ref 1) rPath rVal
    let out := assignAuxR exEnv (reenterHook 0 inner) false .none "dict" 3 { heap := rHeap } (.ref 0) rPath rVal
    out.2 = .ok (.ref 0) ∧ out.1.calls = 2 ∧
    out.1.heap = [.dict "dict" [(.str "src", .int 1), (.str "out", .ref 3)],
                  .dict "dict" [(.str "src", .int 2), (.str "out", .ref 2)],
                  .dict "dict" [(.str "value", .int 2)], .dict "dict" [(.str "value", .int 1)]] := by decide

/-- the hypotheses of `c11_reenter_disjoint` hold for it -/
example :
    Hyps exEnv rHeap (.ref 0) false rPath rVal (.factory "dict") ∧
    Hyps exEnv rHeap (.ref 1) false rPath rVal (.factory "dict") ∧
    refVal exEnv rHeap (.ref 0) rVal = some (.int 1) ∧
    matchesOf exEnv rHeap rPath.dropLast 0 (.ref 0) = .fail 0 (exc "KeyError") (.ref 0) ∧
    matchesOf exEnv rHeap rPath.dropLast 0 (.ref 1) = .fail 0 (exc "KeyError") (.ref 1) ∧
    visits exEnv rHeap rPath.dropLast (.ref 0) = [.ref 0] ∧
    visits exEnv rHeap [("[", .str "src")] (.ref 0) = [.ref 0] := by decide

/-! literal containers in `val` position -/

private def lEnv : MEnv := genEnv [("TLeaf", ["TLeaf", "object"])] [("TLeaf", ["tleaf"])]

/-- `t = {'cfg': {}, 'src': 7}`; the literal `v = [q, q, v, T['src']]` with `q = []` mentioned twice
    and `v` containing itself -/
private def lHeap : Heap :=
  [ .dict "dict" [(.str "cfg", .ref 1), (.str "src", .int 7)],   -- 0: the target
    .dict "dict" [],                                              -- 1: t['cfg']
    .list "list" [.ref 3, .ref 3, .ref 2, .ref 4],               -- 2: the literal
    .list "list" [],                                              -- 3: q
    .inst "TLeaf" [("[", .str "src")] ]                           -- 4: T['src']

private def lPath : List Step := [("P", .str "cfg"), ("P", .str "queues")]

/-- the hypotheses are satisfiable for a literal with sharing, a cycle and a T leaf -/
example : HypsLit lEnv 32 lHeap (.ref 0) lPath (.ref 2) .none := by decide
/-- … and with a `missing` factory -/
example : HypsLit lEnv 32 lHeap (.ref 0) [("P", .str "n"), ("P", .str "z")] (.ref 2) (.factory "dict") := by
  decide

/-- `assign(t, 'cfg.queues', v)`: the stored value is a NEW list whose first two entries are ONE new
    list (the sharing of `q`), whose third entry is the new list itself (the cycle), whose fourth is
    `t['src']`; the literal is untouched -/
example :
    let out := assignLit lEnv false .none .none 32 lHeap (.ref 0) lPath (.ref 2)
    out.2 = .ok (.ref 0) ∧
    out.1.heap[1]? = some (.dict "dict" [(.str "queues", .ref 5)]) ∧
    out.1.heap[5]? = some (.list "list" [.ref 6, .ref 6, .ref 5, .int 7]) ∧
    out.1.heap[6]? = some (.list "list" []) ∧ out.1.heap.length = 7 ∧
    out.1.heap.take 5 = (lHeap.set 1 (.dict "dict" [(.str "queues", .ref 5)])) := by decide

/-- the memo at the end of that evaluation: two originals, two counterparts -/
example : (argEval lEnv (.ref 0) 32 { heap := lHeap } [] (.ref 2)).2.1 = [(3, 6), (2, 5)] := by decide

/-- a T leaf that cannot be evaluated: PathAccessError, nothing changed -/
example :
    let h := lHeap.set 4 (.inst "TLeaf" [("[", .str "zz")])
    let out := assignLit lEnv false .none .none 32 h (.ref 0) lPath (.ref 2)
    out.2 = .error (.pae 0 (exc "KeyError")) ∧ out.1.heap.take 5 = h := by decide

/-- tuples are rebuilt per occurrence (no memo): `(x, x)` with `x = (1,)` becomes two new tuples -/
example :
    let h : Heap := [.dict "dict" [], .tuple "tuple" [.ref 2, .ref 2], .tuple "tuple" [.int 1]]
    let out := assignLit lEnv false .none .none 32 h (.ref 0) [("P", .str "k")] (.ref 1)
    out.2 = .ok (.ref 0) ∧ out.1.heap[5]? = some (.tuple "tuple" [.ref 3, .ref 4]) ∧
    out.1.heap[0]? = some (.dict "dict" [(.str "k", .ref 5)]) := by decide

/-- a subclass instance is stored as it is (and keeps pointing into the literal) -/
example :
    let h : Heap := [.dict "dict" [], .list "ListSub" [.ref 2], .list "list" []]
    let out := assignLit lEnv false .none .none 32 h (.ref 0) [("P", .str "k")] (.ref 1)
    out.2 = .ok (.ref 0) ∧ out.1.heap = h.set 0 (.dict "dict" [(.str "k", .ref 1)]) := by decide

/-- the hypotheses of `c11_copy_iso` hold for the literal of the examples (a shared list, a cycle, a T leaf) -/
example : ClosedHeap lHeap ∧ inH lHeap (.ref 2) := by
  constructor
  · intro a o ha x hx
    have hlt : a < 5 := (List.getElem?_eq_some_iff.1 ha).1
    match a, hlt with
    | 0, _ => simp [lHeap] at ha; subst ha; simp [cellVals] at hx; rcases hx with rfl | rfl | rfl | rfl <;> simp [inH, lHeap]
    | 1, _ => simp [lHeap] at ha; subst ha; simp [cellVals] at hx
    | 2, _ => simp [lHeap] at ha; subst ha; simp [cellVals] at hx; rcases hx with rfl | rfl | rfl <;> simp [inH, lHeap]
    | 3, _ => simp [lHeap] at ha; subst ha; simp [cellVals] at hx
    | 4, _ => simp [lHeap] at ha; subst ha; simp [cellVals] at hx; subst hx; simp [inH]
  · simp [inH, lHeap]

/-- **Counter-example for the fuel hypothesis** (forced; not reachable in Python): a "tuple that contains
    itself" — a heap no Python program can build — has no memo to stop the recursion; the model
    answers "unmodelled" for every fuel, the prescription is `unsupported` -/
theorem c11_tuple_cycle_counterexample (fuel : Nat) :
    let h : Heap := [.dict "dict" [], .tuple "tuple" [.ref 1]]
    (argEval lEnv (.ref 0) fuel { heap := h } [] (.ref 1)).2.2 = .error .unmodelled := by
  intro h
  have key : ∀ (n : Nat) (st : St) (m : Memo), st.heap[1]? = some (.tuple "tuple" [.ref 1]) →
      (argEval lEnv (.ref 0) n st m (.ref 1)).2.2 = .error .unmodelled := by
    intro n
    induction n with
    | zero => intro st m _; rfl
    | succ k ih =>
      intro st m hst
      have := ih st m hst
      simp only [argEval, hst, argList]
      cases hr : argEval lEnv (.ref 0) k st m (.ref 1) with
      | mk st1 r1 =>
        obtain ⟨m1, r⟩ := r1
        rw [hr] at this
        simp only at this
        subst this
        rfl
  exact key fuel { heap := h } [] rfl

end Glom.Props.C11
