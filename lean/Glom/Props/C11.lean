import Glom.Lemmas.C11d
import Glom.Model.C11Env
/-
  C11 — assign obeys the lens laws and fails atomically.

  Property theorems only; helper lemmas are in `Glom/Lemmas/C11{,b,c}.lean`.
  Every theorem is for *all* heaps (any sharing, any cycles, any size), all
  targets, all destination paths of any length, all values, and all environments
  whose extracted facts satisfy the decidable predicate `WF`; `c11_facts_wf`
  discharges `WF` for the facts regenerated from /repo on this run.

  `assign env sroot sref missing h target orig vs` is the model of
  `glom(target, Assign(path, val, missing=missing))` (Glom/Model/C11.lean);
  `refAssign` is the plain-Python prescription (Glom/Spec/C11.lean).
-/
namespace Glom.Props.C11
open Glom Glom.Mut Glom.C11

/-- The hypotheses shared by the wildcard-free theorems, as one decidable test (`covered`,
    Glom/Spec/C11.lean; the driver evaluates it per case): well-formed facts, every class has a
    registered `get`, item / attribute / plain-segment steps only, a modelled value kind, and —
    only when a `missing` factory is given — `missingOK` (path arguments are immediate values). -/
abbrev Hyps (env : MEnv) (h : Heap) (target : Val) (sroot : Bool) (orig : List Step)
    (vs : ValSpec) (missing : Missing) : Prop :=
  covered env h target sroot orig vs missing = true

/-- **Facts obligation** (re-checked on every run against the regenerated tables):
    `_assign_op` performs `dest[arg] = val` for `[`, `setattr(dest, arg, val)` for `.`, and calls
    the handler `get_handler('assign', dest)` returns (looked up outside any `try`) for a plain
    segment — which classes each branch's `except` clause names is taken from the table by the
    model, the property only needs *an* error; in the default `assign` registrations the duck types
    carry `object`'s handler (so "nearest registered class of the MRO" is `_get_closest_type`'s
    answer); `_t_eval` has the `*` / `**` branches; PathAssignError is a GlomError; plus C01's
    obligation on the access branches. -/
theorem c11_facts_wf : ∀ uc fl, WF (genEnv uc fl) = true := by
  intro uc fl
  have : WF (genEnv uc fl) = WF (genEnv [] []) := rfl
  rw [this]; decide

/-- **Facts obligation, shape part**: `Assign.glomit` wraps exactly the parent fetch in
    `try … except PathAccessError` and re-raises unless `missing`; `Assign.__init__` accepts
    exactly the final ops `[ . P`; `_apply_for_each` flattens `layers - 1` times, then iterates;
    `TType.__stars__` counts `x` / `X` over the *operator* slots `__ops__[1::2]` only (a segment
    that is merely *named* 'x' is not a wildcard — the model's `stars`); no method of `Assign` /
    `Delete` other than `__init__` stores into `self` (a spec object is an immutable term in the
    model: re-using it cannot change its meaning). -/
theorem c11_facts_shape :
    Generated.assignGlomitCatch = (["PathAccessError"], "reraise-unless-missing") ∧
    Generated.finalOpsAllowed.lookup "Assign" = some "[.P" ∧
    Generated.applyForEachShape = "flatten layers-1 then iterate" ∧
    Generated.starsShape = "count x/X over the operator slots __ops__[1::2]" ∧
    Generated.specSelfWrites.filter (·.1 == "Assign") = [] := by decide

/-- **Facts obligation, S-rooted destinations**: `Assign.__init__` passes its path through
    `_s_first_item`, which re-spells a first step written `S.name` / `Path(S, name)` as `S[name]` —
    for exactly the ops `_t_eval` hands to `_s_first_magic` when such a path is *read*: the
    destination an Assign keeps is the path as it is evaluated (`readSteps`), so "reading the path"
    and "assigning to the path" speak about the same scope variable. -/
theorem c11_facts_s_first (sroot : Bool) (steps : List Step) :
    initPath (genSFirst "Assign") sroot steps = readSteps sroot steps ∧
    Generated.sFirstMagicOps = [".", "P"] := by
  refine ⟨?_, by decide⟩
  have ht : genSFirst "Assign" = [(".", "["), ("P", "[")] := by decide
  rw [ht]
  exact initPath_eq_readSteps sroot steps

/-- **Same object**: whatever `assign` returns is the target it was given (identity — the same
    `Val`, i.e. the same address).  For *every* input: wildcards, S-rooted, any `missing`. -/
theorem c11_same_object (env : MEnv) (sroot : Bool) (sref : Val) (missing : Missing) (h : Heap)
    (target : Val) (orig : List Step) (vs : ValSpec) (r : Val)
    (hok : (assign env sroot sref missing h target orig vs).2 = .ok r) : r = target :=
  assignAux_same env sroot sref missing _ _ _ _ _ _ hok

/-- **Refinement** (all three clauses at once): the model's outcome is the prescription of the
    plain-Python nested assignment — on success the same object, exactly the heap `pySet` gives
    and exactly the prescribed number of factory calls; otherwise an error with every pre-existing
    cell preserved. -/
theorem c11_refines {env : MEnv} {h : Heap} {target : Val} {sroot : Bool} {orig : List Step}
    {vs : ValSpec} {missing : Missing} (hy : Hyps env h target sroot orig vs missing) (sref : Val) :
    Refines h target (assign env sroot sref missing h target orig vs)
      (refAssign env h target (if sroot then sref else target) orig vs missing) :=
  by
    obtain ⟨hwf, hc, hs, hv, hvu, hm⟩ := covered_parts hy
    exact assign_spec hwf hc sroot sref missing h target orig vs hs hv hvu hm

/-- **Refinement, from the spec as written**: `glom(target, Assign(path, val, missing))` — with
    `Assign.__init__`'s re-spelling of the first step of an S-rooted path — refines the
    plain-Python assignment along the path *as it is read* (`S.a` ≡ `S['a']`). -/
theorem c11_refines_spec {env : MEnv} {h : Heap} {target : Val} {sroot : Bool} {orig : List Step}
    {vs : ValSpec} {missing : Missing}
    (hy : Hyps env h target sroot (readSteps sroot orig) vs missing) (sref : Val) :
    Refines h target (assign env sroot sref missing h target (initPath (genSFirst "Assign") sroot orig) vs)
      (refAssign env h target (if sroot then sref else target) (readSteps sroot orig) vs missing) := by
  rw [(c11_facts_s_first sroot orig).1]
  exact c11_refines hy sref

/-- **Equals plain Python**: a successful assign leaves exactly the heap of the corresponding
    nested item / attribute assignment (`refAssign … = .ok h' …`), and conversely the model
    succeeds whenever the plain assignment can be carried out. -/
theorem c11_eq_python {env : MEnv} {h : Heap} {target : Val} {sroot : Bool} {orig : List Step}
    {vs : ValSpec} {missing : Missing} (hy : Hyps env h target sroot orig vs missing) (sref : Val) :
    let out := assign env sroot sref missing h target orig vs
    let ref := refAssign env h target (if sroot then sref else target) orig vs missing
    (∀ r, out.2 = .ok r → ∃ hid n, ref = .ok out.1.heap hid n) ∧
    (∀ h' hid n, ref = .ok h' hid n → out.2 = .ok target ∧ out.1.heap = h') := by
  have hr := c11_refines hy sref
  simp only
  constructor
  · intro r hok
    cases href : refAssign env h target (if sroot then sref else target) orig vs missing with
    | ok h' hid n =>
      rw [href] at hr
      exact ⟨hid, n, by rw [hr.2.1]⟩
    | fail a => rw [href] at hr; obtain ⟨⟨e, he⟩, _⟩ := hr; rw [he] at hok; cases hok
    | unsupported => rw [href] at hr; exact hr.elim
  · intro h' hid n href
    rw [href] at hr
    exact ⟨hr.1, hr.2.1⟩

/-- **Atomicity**: if an assignment through a wildcard-free path cannot be completed — missing
    parent, immutable container, read-only property, raising `__setattr__`/`__setitem__`,
    failing value spec, raising factory, unassignable fresh object, … — an error is raised and
    every cell that existed before the call is exactly as it was (objects the factory created
    are garbage). -/
theorem c11_atomic {env : MEnv} {h : Heap} {target : Val} {sroot : Bool} {orig : List Step}
    {vs : ValSpec} {missing : Missing} (hy : Hyps env h target sroot orig vs missing) (sref : Val)
    (e : MErr) (herr : (assign env sroot sref missing h target orig vs).2 = .error e) :
    ∀ b, b < h.length → (assign env sroot sref missing h target orig vs).1.heap[b]? = h[b]? := by
  have hr := c11_refines hy sref
  cases href : refAssign env h target (if sroot then sref else target) orig vs missing with
  | ok h' hid n => rw [href] at hr; rw [hr.1] at herr; cases herr
  | fail a => rw [href] at hr; exact hr.2.1
  | unsupported => rw [href] at hr; exact hr.elim

/-- the model never ends without either returning the target or raising -/
theorem c11_fail_raises {env : MEnv} {h : Heap} {target : Val} {sroot : Bool} {orig : List Step}
    {vs : ValSpec} {missing : Missing} (hy : Hyps env h target sroot orig vs missing) (sref : Val)
    (a : Bool) (href : refAssign env h target (if sroot then sref else target) orig vs missing = .fail a) :
    ∃ e, (assign env sroot sref missing h target orig vs).2 = .error e := by
  have hr := c11_refines hy sref
  rw [href] at hr
  exact hr.1

/-- **Frame**: after a successful assign every pre-existing cell other than the one the parent
    path stops at (`d`: the parent object, or with `missing` the last existing object) is
    unchanged — existing intermediate values are never replaced, nothing off the path is touched. -/
theorem c11_frame {env : MEnv} {h : Heap} {target : Val} {sroot : Bool} {orig : List Step}
    {vs : ValSpec} {missing : Missing} (hy : Hyps env h target sroot orig vs missing) (sref : Val)
    (r : Val) (hok : (assign env sroot sref missing h target orig vs).2 = .ok r) :
    let root := if sroot then sref else target
    ∃ d, (matchesOf env h orig.dropLast 0 root = .ok [d] ∨
          ∃ k e, matchesOf env h orig.dropLast 0 root = .fail k e d) ∧
      ∀ b, b < h.length → d ≠ .ref b →
        (assign env sroot sref missing h target orig vs).1.heap[b]? = h[b]? := by
  intro root
  have hr := c11_refines hy sref
  cases href : refAssign env h target root orig vs missing with
  | fail a => rw [href] at hr; obtain ⟨⟨e, he⟩, _⟩ := hr; rw [he] at hok; cases hok
  | unsupported => rw [href] at hr; exact hr.elim
  | ok h' hid n =>
    rw [href] at hr
    obtain ⟨_, hheap, _, _⟩ := hr
    rw [hheap]
    have hpw : C01.wfSteps orig.dropLast = true :=
      wfSteps_sub (covered_parts hy).2.2.1 (fun s hs => mem_of_mem_dropLast hs)
    have hpns : hasStar orig.dropLast = false := wfSteps_noStar hpw
    obtain ⟨op, arg, v, _, _, hcase⟩ := refAssign_ok_cases href
    rcases hcase with ⟨ds, hm, hseq, _⟩ | ⟨k, e, stop, kind, op', arg', h1, c, hid', w, _, hm, _, hbt, hr', rfl⟩
    · -- the parent exists
      have hspec := fetch_spec (covered_parts hy).1 (covered_parts hy).2.1 h orig.dropLast (wfSteps_wfStar hpw) (.inl hpns) 0 root
      rw [hm] at hspec
      obtain ⟨nest, _, hu, hlv⟩ := hspec
      rw [stars_zero hpns] at hu
      obtain ⟨d, rfl⟩ := uniform0_leaf hu
      simp only [Nest.leaves] at hlv
      subst hlv
      refine ⟨d, .inl hm, ?_⟩
      simp only [seqAssign] at hseq
      cases hr' : refAssignOp env h op d arg v with
      | none => simp [hr'] at hseq
      | some r' =>
        cases r' with
        | error e => simp [hr'] at hseq
        | ok w =>
          simp only [hr'] at hseq
          injection hseq with hseq
          injection hseq with e1 _
          subst e1
          intro b _ hb
          exact (refAssignOp_frame hr').2 b hb
    · -- the walk stops at `stop`: the tail is built on fresh cells and attached at `stop`
      refine ⟨stop, .inr ⟨k, e, hm⟩, ?_⟩
      obtain ⟨hp, _, _, _, _⟩ := buildTail_spec env kind v _ _ _ _ _ _ hbt
      intro b hlt hb
      rw [(refAssignOp_frame hr').2 b hb, hp b hlt]

/-- **Put-get** (`_partial`: for destinations whose parent exists; when `missing` creates
    segments the same statement is covered by `c11_eq_python` + the correspondence only):
    after a successful assign, reading the destination path yields the assigned value — under
    the hypotheses the proof forces: the parent path does not pass through the written object
    `d` before reaching it (`hnv`; false only for cyclic targets, see the counter-example below),
    path arguments are immediate values, the `get` / `assign` registrations pair up, and Python
    stored the value where the cell can show it (`hnh`: not a hidden attribute of a container
    subclass; `hsc`: not an *attribute* of the scope's ChainMap object — an item binding
    `Assign(S[name], v)` in the scope frame is covered: a later step of the chain reads it back). -/
theorem c11_put_get_partial {env : MEnv} {h : Heap} {target : Val} {sroot : Bool} {orig : List Step}
    {vs : ValSpec} {missing : Missing} (hy : Hyps env h target sroot orig vs missing) (sref : Val)
    (hp : pairedRegs env = true) (has : argsScalar orig = true) (d v : Val)
    (hm : matchesOf env h orig.dropLast 0 (if sroot then sref else target) = .ok [d])
    (hsc : isScope env h d = false ∨ ∃ a, orig.getLast? = some ("[", a))
    (hnv : d ∉ visits env h orig.dropLast (if sroot then sref else target))
    (hv : refVal env h target vs = some v) (r : Val)
    (hok : (assign env sroot sref missing h target orig vs).2 = .ok r)
    (hnh : (assign env sroot sref missing h target orig vs).1.hidden = false) :
    matchesOf env (assign env sroot sref missing h target orig vs).1.heap orig 0
      (if sroot then sref else target) = .ok [v] := by
  have hr := c11_refines hy sref
  obtain ⟨_, _, hs, _, _, _⟩ := covered_parts hy
  cases href : refAssign env h target (if sroot then sref else target) orig vs missing with
  | fail a => rw [href] at hr; obtain ⟨⟨e, he⟩, _⟩ := hr; rw [he] at hok; cases hok
  | unsupported => rw [href] at hr; exact hr.elim
  | ok h' hid n =>
    rw [href] at hr
    obtain ⟨_, hheap, _, hhid, _⟩ := hr
    rw [hheap]
    rw [hhid] at hnh
    subst hnh
    obtain ⟨op, arg, v', hl, hv', hcase⟩ := refAssign_ok_cases href
    rw [hv] at hv'
    injection hv' with hv'
    subst hv'
    rcases hcase with ⟨ds, hm', hseq, _⟩ | ⟨k, e, stop, kind, op', arg', h1, c, hid', w, _, hm', _, _, _, _⟩
    · rw [hm] at hm'
      injection hm' with hm'
      subst hm'
      simp only [seqAssign] at hseq
      cases hra : refAssignOp env h op d arg v with
      | none => simp [hra] at hseq
      | some ra =>
        cases ra with
        | error e => simp [hra] at hseq
        | ok w =>
          simp only [hra] at hseq
          injection hseq with hseq
          injection hseq with e1 e2
          subst e1
          have hwh : w.hidden = false := by simpa using e2.symm
          have hfr := refAssignOp_frame hra
          have hpw : C01.wfSteps orig.dropLast = true :=
            wfSteps_sub hs (fun s hs' => mem_of_mem_dropLast hs')
          have hpns := wfSteps_noStar hpw
          have horig := dropLast_append_getLast? hl
          have hlastw : C01.wfSteps [(op, arg)] = true := (wfSteps_iff orig).1 hs _ (getLast?_mem hl)
          have hargk : ∀ a, arg ≠ .ref a := argsScalar_sub has (op, arg) (getLast?_mem hl)
          have hpas : argsScalar orig.dropLast = true :=
            argsScalar_of (fun t ht => argsScalar_sub has t (mem_of_mem_dropLast ht))
          -- the parent path reads the same cells after the write
          have hpre : matchesOf env w.heap orig.dropLast 0 (if sroot then sref else target) = .ok [d] := by
            rw [matchesOf_congr_visits orig.dropLast hpns hpas 0 _ ?_, hm]
            intro c hc a hca
            subst hca
            exact hfr.2 a (fun e => hnv (by rw [e]; exact hc))
          rw [horig, matchesOf_append_ok _ _ hpns 0 _ d hpre]
          have hsc' : isScope env h d = false ∨ op = "[" := by
            rcases hsc with h1 | ⟨a, ha⟩
            · exact .inl h1
            · rw [hl] at ha; injection ha with ha; injection ha with ha _; exact .inr ha
          have hrt := refAssign_roundtrip hp hlastw hargk hsc' hwh hra
          have hopb : (op == "." || op == "[" || op == "P") = true := by
            rcases (wfSteps_op hlastw).1 with rfl | rfl | rfl <;> simp
          have hnx := (wfSteps_op hlastw).2.1
          simp [matchesOf, hnx, hopb, hrt]
    · rw [hm] at hm'; cases hm'

/-- **Read-back in the same chain** (put-get as it is observed on the implementation): in
    `glom(target, (Assign(path, val, missing=…), readPath))` the second step reads, in the heap the
    assignment left, exactly what `readPath` addresses in the heap of the plain-Python assignment —
    for S-rooted paths starting from the frame the destination was bound in, so a scope variable
    created by the Assign (also one created through `missing` when the *first* segment was
    absent) is found by later steps; after a failed Assign the read does not run.  For every
    read path of access steps and wildcards (wildcards: no class standing for the scope). -/
theorem c11_read_checks {env : MEnv} {h : Heap} {target : Val} {sroot : Bool} {orig : List Step}
    {vs : ValSpec} {missing : Missing} (hy : Hyps env h target sroot orig vs missing) (sref : Val)
    (rd : List Step) (hrd : wfStar (readSteps sroot rd) = true)
    (hns : hasStar (readSteps sroot rd) = false ∨ noScope env = true) :
    checkRead env h target (if sroot then sref else target) orig vs missing (readSteps sroot rd)
      (observeRead env (assignThenRead env sroot sref missing h target orig vs rd).2) = true := by
  have hr := c11_refines hy sref
  obtain ⟨hwf, hc, _, _, _, _⟩ := covered_parts hy
  unfold checkRead assignThenRead
  cases href : refAssign env h target (if sroot then sref else target) orig vs missing with
  | unsupported => rfl
  | fail a =>
    rw [href] at hr
    obtain ⟨⟨e, he⟩, _⟩ := hr
    simp only [he, observeRead]
  | ok h' hid n =>
    cases hid with
    | true => rfl
    | false =>
    rw [href] at hr
    obtain ⟨h1, h2, _⟩ := hr
    simp only [h1, h2]
    generalize readSteps sroot rd = rs at hrd hns ⊢
    have hns' : hasStar rs = false ∨ ∀ c, isScope env h' c = false := by
      rcases hns with a | a
      · exact .inl a
      · exact .inr (noScope_isScope a h')
    have hspec := fetch_spec hwf hc h' rs hrd hns' 0 (if sroot then sref else target)
    cases hm : matchesOf env h' rs 0 (if sroot then sref else target) with
    | ok ds =>
      rw [hm] at hspec
      obtain ⟨nest, hf, hu, hl⟩ := hspec
      simp [hf, observeRead, hu, hl]
    | fail k e stop =>
      rw [hm] at hspec
      simp [hspec, observeRead, observeErr]
    | unreg => rw [hm] at hspec; exact hspec.elim
    | unsupported => rfl

/-- a path whose first step is spelled `S[name]` is evaluated as it is written -/
theorem c11_sMagic_item (arg : Val) (r : List Step) (sroot : Bool) :
    readSteps sroot (("[", arg) :: r) = ("[", arg) :: r := by
  cases sroot <;> simp [readSteps, sMagic]

/-- **`missing`**: when the walk stops at segment `k` and a factory is given, a successful
    assign made exactly one factory call per absent segment — `orig.length - 1 - k` of them —;
    the new chain is **attached last**: in the model's log of heap events every event but the
    last concerns a cell created during this call (factory allocations and writes into fresh
    objects), the last one is the single write to a pre-existing cell (`AttachLast`); and (by
    `c11_frame`) no existing intermediate value is replaced: that pre-existing cell is the object
    the walk stopped at. -/
theorem c11_missing {env : MEnv} {h : Heap} {target : Val} {sroot : Bool} {orig : List Step}
    {vs : ValSpec} {kind : String} (hy : Hyps env h target sroot orig vs (.factory kind))
    (sref : Val) (r : Val)
    (hok : (assign env sroot sref (.factory kind) h target orig vs).2 = .ok r)
    (k : Nat) (e : PyExc) (stop : Val)
    (hstop : matchesOf env h orig.dropLast 0 (if sroot then sref else target) = .fail k e stop) :
    (assign env sroot sref (.factory kind) h target orig vs).1.calls = orig.length - 1 - k ∧
    AttachLast h (assign env sroot sref (.factory kind) h target orig vs).1.log := by
  have hr := c11_refines hy sref
  cases href : refAssign env h target (if sroot then sref else target) orig vs (.factory kind) with
  | fail a => rw [href] at hr; obtain ⟨⟨e', he⟩, _⟩ := hr; rw [he] at hok; cases hok
  | unsupported => rw [href] at hr; exact hr.elim
  | ok h' hid n =>
    rw [href] at hr
    obtain ⟨_, _, hcalls, _, hlog⟩ := hr
    refine ⟨?_, hlog⟩
    rw [hcalls]
    obtain ⟨op, arg, v, hl, _, hcase⟩ := refAssign_ok_cases href
    rcases hcase with ⟨ds, hm, _, _⟩ | ⟨k', e', stop', kind', op', arg', h1, c, hid', w, hk, hm, hok', hbt, _, _⟩
    · rw [hstop] at hm; cases hm
    · rw [hstop] at hm
      injection hm with e1 _ _
      subst e1
      have hdrop : hasStar (orig.drop (k + 1)) = false :=
        wfSteps_noStar (wfSteps_sub (covered_parts hy).2.2.1 (fun s hs => List.mem_of_mem_drop hs))
      obtain ⟨_, _, _, _, hn⟩ := buildTail_spec env kind' v _ _ _ _ _ _ hbt
      rw [hn hdrop]
      have hklt : k < orig.length := by
        have := List.getElem?_eq_some_iff.1 hok'
        obtain ⟨hlt, _⟩ := this
        exact hlt
      simp; omega

/-- **Wildcards**: when the parent path contains `*`, `assign` performs the assignment at every
    addressed object (`matchesOf`: children in order, those on which a later segment cannot be
    accessed silently dropped), in order, each on the heap the previous one left; the first
    assignment that fails raises. -/
theorem c11_star {env : MEnv} (hwf : WF env = true) (hc : classesOK env = true)
    (hns : noScope env = true) (sref : Val) (missing : Missing) (h : Heap) (target : Val)
    (orig : List Step) (op : String) (arg : Val) (hl : orig.getLast? = some (op, arg))
    (hfin : finalOk op = true) (hw : wfStar orig.dropLast = true) (vs : ValSpec)
    (hvs : valWf vs = true) (hvu : valUnsupported h vs = false) (v : Val)
    (hv : refVal env h target vs = some v) (ds : List Val)
    (hm : matchesOf env h orig.dropLast 0 target = .ok ds) :
    let out := assign env false sref missing h target orig vs
    match seqAssign env op arg v h false ds with
    | some (h', hid) => out.2 = .ok target ∧ out.1.heap = h' ∧ out.1.hidden = hid ∧ out.1.calls = 0
    | none => ∃ e, out.2 = .error e := by
  have hvs' : ValWF ({ heap := h } : St).heap vs := by
    cases vs with
    | path s => exact hvs
    | lit v => simpa [valUnsupported, ValWF] using hvu
    | val v => trivial
  have hev := evalVal_spec hwf hc { heap := h } target vs hvs'
  simp only [hv] at hev
  have hspec := fetch_spec hwf hc h orig.dropLast hw (.inr (noScope_isScope hns h)) 0 target
  rw [hm] at hspec
  obtain ⟨nest, hf, hu, hlv⟩ := hspec
  simp only [assign]
  rw [assignAux_fetch_ok hl hfin hev (by simpa using hf), applyForEach_spec _ _ _ _ hu, hlv]
  have hs := seqM_assign hwf hfin arg v ds { heap := h }
  simp only at hs
  cases hsa : seqAssign env op arg v h false ds with
  | none =>
    rw [hsa] at hs
    obtain ⟨st', e, hrun⟩ := hs
    simp [hrun]
  | some res =>
    obtain ⟨h', hid⟩ := res
    rw [hsa] at hs
    obtain ⟨st', hrun, h1, h2, h3⟩ := hs
    simp [hrun, h1, h2, h3]

/-- **Checker theorem** — the form in which the property is also evaluated on the
    implementation's observation by the correspondence driver. -/
theorem c11_model_checks {env : MEnv} {h : Heap} {target : Val} {sroot : Bool} {orig : List Step}
    {vs : ValSpec} {missing : Missing} (hy : Hyps env h target sroot orig vs missing) (sref : Val) :
    checkC11 env h target (if sroot then sref else target) orig vs missing
      (observe env (assign env sroot sref missing h target orig vs)) = true := by
  have hr := c11_refines hy sref
  unfold checkC11
  cases href : refAssign env h target (if sroot then sref else target) orig vs missing with
  | unsupported => rw [href] at hr; exact hr.elim
  | ok h' hid n =>
    rw [href] at hr
    obtain ⟨h1, h2, h3, h4, _⟩ := hr
    simp [observe, h1, h2, h3, h4]
  | fail a =>
    rw [href] at hr
    obtain ⟨⟨e, he⟩, hp, hl⟩ := hr
    simp only [observe, he, pres_take hp hl, beq_self_eq_true, Bool.or_true, Bool.and_true]
    cases e <;> rfl

/-! ### non-vacuity: concrete inputs meet every hypothesis; forced hypotheses have counter-examples -/

private def exEnv : MEnv := genEnv [] []

private def exHeap : Heap :=
  [ .dict "dict" [(.str "a", .ref 1), (.str "t", .ref 3)],   -- 0: {'a': [..], 't': (..)}
    .list "list" [.int 10, .ref 2],                          -- 1: [10, obj]
    .inst "Obj" [("b", .none)],                              -- 2: obj.b = None
    .tuple "tuple" [.int 1] ]                                -- 3: (1,)

private def exPath : List Step := [("P", .str "a"), ("P", .str "1"), ("P", .str "b")]
private def exMissingPath : List Step := [("P", .str "n"), ("P", .str "m"), ("P", .str "z")]

/-- every hypothesis of `Hyps` holds for a concrete three-segment assignment -/
example : Hyps exEnv exHeap (.ref 0) false exPath (.lit (.int 5)) .none := by decide
/-- … and with a `missing` factory and a T-valued, shared value -/
example : Hyps exEnv exHeap (.ref 0) false exMissingPath (.path [("[", .str "a"), ("[", .int 1)])
    (.factory "dict") := by decide

/-- success: `assign(t, 'a.1.b', 5)` sets the attribute of the object at address 2, nothing else -/
example : (assign exEnv false .none .none exHeap (.ref 0) exPath (.lit (.int 5))).2 = .ok (.ref 0) ∧
    (assign exEnv false .none .none exHeap (.ref 0) exPath (.lit (.int 5))).1.heap =
      exHeap.set 2 (.inst "Obj" [("b", .int 5)]) := by decide
/-- `missing=dict`: two absent segments, two factory calls, value shared with `t['a'][1]` -/
example :
    let out := assign exEnv false .none (.factory "dict") exHeap (.ref 0) exMissingPath (.path [("[", .str "a"), ("[", .int 1)])
    out.2 = .ok (.ref 0) ∧ out.1.calls = 2 ∧
    out.1.heap[4]? = some (.dict "dict" [(.str "m", .ref 5)]) ∧
    out.1.heap[5]? = some (.dict "dict" [(.str "z", .ref 2)]) := by decide
/-- … and the heap events in order: two factory allocations, the value into the inner fresh dict,
    the inner dict into the outer one, and only then the single write to the pre-existing target -/
example : (assign exEnv false .none (.factory "dict") exHeap (.ref 0) exMissingPath
      (.path [("[", .str "a"), ("[", .int 1)])).1.log =
    [.alloc 4, .alloc 5, .write 5, .write 4, .write 0] := by decide
/-- atomic failure: assigning below the tuple raises and leaves the heap as it was -/
example : (assign exEnv false .none .none exHeap (.ref 0) [("P", .str "t"), ("P", .str "0")]
      (.lit (.int 5))).2 = .error .unregistered := by decide
example : (assign exEnv false .none (.factory "dict") exHeap (.ref 0)
      [("P", .str "t"), ("P", .str "5"), ("P", .str "x")] (.lit (.int 5))).2 = .error .unregistered ∧
    (assign exEnv false .none (.factory "dict") exHeap (.ref 0)
      [("P", .str "t"), ("P", .str "5"), ("P", .str "x")] (.lit (.int 5))).1.heap.take 4 = exHeap := by
  decide

/-- **Counter-example for `hnv`** (forced by the proof; inherent, not a defect — plain Python
    behaves the same): on the cyclic target `d = {}; d['a'] = d` the parent path `'a'` passes
    through `d` itself, `assign(d, 'a.a', 5)` overwrites the slot the path traverses, and
    reading `'a.a'` afterwards fails at segment 1.  (Run on the real glom by the corpus case
    `cyclic-put-get` of harness/props/c11.py on every check.) -/
theorem c11_put_get_cyclic_counterexample :
    let h : Heap := [.dict "dict" [(.str "a", .ref 0)]]
    let path : List Step := [("P", .str "a"), ("P", .str "a")]
    let out := assign exEnv false .none .none h (.ref 0) path (.lit (.int 5))
    (.ref 0 : Val) ∈ visits exEnv h path.dropLast (.ref 0) ∧
    out.2 = .ok (.ref 0) ∧ out.1.heap = [.dict "dict" [(.str "a", .int 5)]] ∧
    matchesOf exEnv out.1.heap path 0 (.ref 0) = .fail 1 (exc "AttributeError") (.int 5) := by decide

/-- the put-get hypotheses are satisfiable -/
example : pairedRegs exEnv = true ∧ argsScalar exPath = true ∧
    matchesOf exEnv exHeap exPath.dropLast 0 (.ref 0) = .ok [.ref 2] ∧
    isScope exEnv exHeap (.ref 2) = false ∧
    (.ref 2 : Val) ∉ visits exEnv exHeap exPath.dropLast (.ref 0) := by decide

/-- regression (repaired defect b8830a0): when a segment is created the value is stored as it
    is — `assign(t, 'n.z', T['a'], missing=dict)` shares `t['a']`, exactly like plain Python -/
example :
    let out := assign exEnv false .none (.factory "dict") exHeap (.ref 0) [("P", .str "n"), ("P", .str "z")] (.path [("[", .str "a")])
    out.2 = .ok (.ref 0) ∧ out.1.heap[4]? = some (.dict "dict" [(.str "z", .ref 1)]) ∧
    out.1.heap.length = 5 := by decide

private def sEnv : MEnv := genEnv [("Scope", ["Scope", "object"])] [("Scope", ["scope"])]
private def sHeap : Heap := [.dict "dict" [], .dict "Scope" [(.str "d", .ref 0)]]
private def sPath : List Step := [("[", .str "d"), ("[", .str "n"), ("[", .str "z")]

/-- the hypotheses are satisfiable for an S-rooted destination with a `missing` factory -/
example : Hyps sEnv sHeap (.ref 0) true sPath (.lit (.int 5)) (.factory "dict") := by decide
/-- regression (repaired defect ca55bea):
    `glom(t, Assign(S['d']['n']['z'], 5, missing=dict), scope={'d': {}})` gives `d == {'n': {'z': 5}}` -/
example :
    let out := assign sEnv true (.ref 1) (.factory "dict") sHeap (.ref 0) sPath (.lit (.int 5))
    out.2 = .ok (.ref 0) ∧ out.1.heap[0]? = some (.dict "dict" [(.str "n", .ref 2)]) ∧
      out.1.heap[2]? = some (.dict "dict" [(.str "z", .int 5)]) := by decide

/-- seeded change C11-s7's class: the *first* segment of an S-rooted destination is absent
    (`glom(t, (Assign(S['cfg']['a'], 5, missing=dict), S['cfg']['a']), scope={'d': {}})`): one factory
    call, the fresh dict is bound in the scope frame (cell 1), and the read-back finds the value -/
example :
    let r := assignThenRead sEnv true (.ref 1) (.factory "dict") sHeap (.ref 0)
      [("[", .str "cfg"), ("[", .str "a")] (.lit (.int 5)) [("[", .str "cfg"), ("[", .str "a")]
    r.1.2 = .ok (.ref 0) ∧ r.1.1.calls = 1 ∧
    r.1.1.heap[1]? = some (.dict "Scope" [(.str "d", .ref 0), (.str "cfg", .ref 2)]) ∧
    r.1.1.heap[2]? = some (.dict "dict" [(.str "a", .int 5)]) ∧
    ReadObs.beq (observeRead sEnv r.2) (.ok (.leaf (.int 5))) = true := by decide
/-- `glom(t, (Assign(S.cfg.a, 5, missing=dict), S.cfg.a))` (repaired defect 94a9ae1: the first step
    of an S-rooted destination names the scope variable, as it does when the path is read) -/
example :
    let r := assignThenRead sEnv true (.ref 1) (.factory "dict") sHeap (.ref 0)
      (initPath (genSFirst "Assign") true [(".", .str "cfg"), ("[", .str "a")]) (.lit (.int 5))
      [(".", .str "cfg"), ("[", .str "a")]
    r.1.2 = .ok (.ref 0) ∧
    r.1.1.heap[1]? = some (.dict "Scope" [(.str "d", .ref 0), (.str "cfg", .ref 2)]) ∧
    ReadObs.beq (observeRead sEnv r.2) (.ok (.leaf (.int 5))) = true := by decide
/-- … and the hypotheses of `c11_read_checks` / of put-get hold for it -/
example : Hyps sEnv sHeap (.ref 0) true [("[", .str "cfg"), ("[", .str "a")] (.lit (.int 5)) (.factory "dict") ∧
    wfStar [("[", .str "cfg"), ("[", .str "a")] = true := by decide

/-- **Counter-example for `missingOK` (immediate path arguments)** — forced by the proof, *not*
    reachable in Python: with a dangling heap reference used as a key (address 1 does not exist
    yet), the object the factory creates gets exactly that address, the key turns from hashable
    into an unhashable dict between the first fetch and the re-fetch of the prefix, and the model
    (like the code would) fails where the prescription, computed on the original heap, succeeds.
    A Python program cannot hold a reference to an object that does not exist yet (reading
    issue, not a defect: the harness' heaps are closed, and `argsScalar` holds for every path
    whose segments are strings / ints / None / bools). -/
theorem c11_dangling_key_counterexample :
    let h : Heap := [.dict "dict" [(.ref 1, .ref 0)]]
    let path : List Step := [("[", .ref 1), ("[", .str "n"), ("[", .str "z")]
    missingOK exEnv path (.factory "dict") = false ∧
    (assign exEnv false .none (.factory "dict") h (.ref 0) path (.lit (.int 5))).2 =
      .error (.pae 0 (exc "TypeError")) ∧
    refAssign exEnv h (.ref 0) (.ref 0) path (.lit (.int 5)) (.factory "dict") =
      .ok [.dict "dict" [(.ref 1, .ref 0), (.str "n", .ref 1)], .dict "dict" [(.str "z", .int 5)]]
        false 1 := by decide

end Glom.Props.C11
