import Glom.Lemmas.C12b
import Glom.Lemmas.C11l
import Glom.Model.C11Env
/-
  C12 — delete removes exactly the addressed element, or nothing.

  Property theorems only; helper lemmas are in `Glom/Lemmas/C12.lean` (and C11's).
  Every theorem is for *all* heaps (sharing, cycles, any size), targets, paths of
  any length in every addressing style (plain segments, `T[...]`, `T.attr`,
  S-rooted), both values of `ignore_missing`, and all environments whose
  extracted facts satisfy `WF`; `c12_facts_wf` discharges `WF` for the tables
  regenerated from /repo's `_del_one` on this run.

  `delete env sroot sref ignore h target orig` is the model of
  `glom(target, Delete(path, ignore_missing=ignore))` (Glom/Model/C12.lean);
  `refDelete` classifies what plain Python's `del` does (Glom/Spec/C12.lean).
-/
namespace Glom.Props.C12
open Glom Glom.Mut Glom.C11 Glom.C12

/-- the hypotheses of the wildcard-free theorems, as one decidable test (`covered`, evaluated by
    the driver per case): well-formed facts, every class has a registered `get`, item /
    attribute / plain-segment steps only -/
abbrev Hyps (env : MEnv) (orig : List Step) : Prop := C12.covered env orig = true

/-- **Facts obligation** (re-checked on every run against the tables regenerated from the AST of
    `Delete._del_one`): the `[` branch performs `del dest[arg]` and its `except` clause names
    classes covering **KeyError and IndexError**, the `.` branch performs `delattr` and catches
    AttributeError, the plain-segment branch calls the registered `delete` handler and catches
    every exception the handlers raise; each raises PathDeleteError; PathDeleteError is a
    PathAssignError and a GlomError; plus C01's obligation on the access branches and the `*`
    branch of `_t_eval`. -/
theorem c12_facts_wf : ∀ uc fl, C12.WF (genEnv uc fl) = true := by
  intro uc fl
  have : C12.WF (genEnv uc fl) = C12.WF (genEnv [] []) := rfl
  rw [this]; decide

/-- **Facts obligation, shape part**: every `except` body of `_del_one` raises only under
    `if not self.ignore_missing`; `Delete.glomit` re-raises the PathAccessError of the parent
    fetch unless `ignore_missing`; `Delete.__init__` accepts exactly the final ops `[ . P`;
    `_apply_for_each` flattens `layers - 1` times and then iterates; `TType.__stars__` counts
    `x` / `X` over the operator slots only; no method of `Assign` / `Delete` other than `__init__`
    stores into `self`; in the default `delete` registrations the duck types carry `object`'s
    handler; the loop of `_t_eval` over the entries a wildcard produced evaluates the rest of the
    path once per ENTRY, in order (the model's `collect` over `children.map`: an entry object that
    occurs twice among the matches is processed twice — `delete([row, row], '*.0')` deletes two
    items of `row`), a PathAccessError skipping the entry. -/
theorem c12_facts_shape :
    Generated.delOneGuards = [("[", "not self.ignore_missing"), (".", "not self.ignore_missing"),
      ("P", "not self.ignore_missing")] ∧
    Generated.deleteGlomitCatch = (["PathAccessError"], "reraise-unless-ignore_missing") ∧
    Generated.finalOpsAllowed.lookup "Delete" = some "[.P" ∧
    Generated.applyForEachShape = "flatten layers-1 then iterate" ∧
    Generated.starsShape = "count x/X over the operator slots __ops__[1::2]" ∧
    Generated.specSelfWrites.filter (·.1 == "Delete") = [] ∧
    virtualLikeObject Generated.defaultReg_delete = true ∧
    Generated.starLoopShape = "rest evaluated once per entry in order; PathAccessError skips the entry" := by
  decide

/-- **Facts obligation, S-rooted paths**: `Delete.__init__` passes its path through
    `_s_first_item` (a first step written `S.name` / `Path(S, name)` is re-spelled `S[name]`, for
    exactly the ops `_t_eval` hands to `_s_first_magic` when the path is read): the path a Delete
    keeps is the path as it is evaluated, `Delete(S.a)` deletes the scope variable `a`. -/
theorem c12_facts_s_first (sroot : Bool) (steps : List Step) :
    initPath (genSFirst "Delete") sroot steps = readSteps sroot steps := by
  have ht : genSFirst "Delete" = [(".", "["), ("P", "[")] := by decide
  rw [ht]
  exact Glom.C11.initPath_eq_readSteps sroot steps

/-- **Facts obligation, the registry of the builtin kinds**: the prescription computes Python's `del`
    with tables fixed by the kind of the object (`naturalDeleteReg`: dict → `del d[k]`, list →
    `del l[int(k)]`, tuple → not deletable, any other object → `delattr`); the `delete` registrations
    read from the implementation (the results of `_delete_autodiscover` for the default types)
    select the same handler on every builtin class and, through the MRO, on subclasses. -/
theorem c12_facts_natural :
    regAgrees Generated.targetClassTable Generated.defaultReg_delete naturalDeleteReg = true ∧
    regAgrees (Generated.targetClassTable ++ [("DictSub", ["DictSub", "dict", "object"]),
        ("ListSub", ["ListSub", "list", "object"]), ("TupleSub", ["TupleSub", "tuple", "object"]),
        ("Obj2", ["Obj2", "Obj", "object"])])
      Generated.defaultReg_delete naturalDeleteReg = true := by decide

/-- **Facts obligation with user registrations**: `_del_one`'s branch table does not depend on the
    registry — the theorems hold for every `delete` handler table (user types registered with any of
    the handler kinds, `False`, or a handler of their own: the table is a parameter of the model). -/
theorem c12_facts_wf_ureg : ∀ uc fl (ur : UReg), C12.WF (genEnv uc fl ur) = true := by
  intro uc fl ur
  have : C12.WF (genEnv uc fl ur) = C12.WF (genEnv [] []) := rfl
  rw [this]; exact c12_facts_wf [] []

/-- **Same object**: whatever `delete` returns is the target it was given — for every input. -/
theorem c12_same_object (env : MEnv) (sroot : Bool) (sref : Val) (ignore : Bool) (h : Heap)
    (target : Val) (orig : List Step) (r : Val)
    (hok : (delete env sroot sref ignore h target orig).2 = .ok r) : r = target := by
  unfold delete at hok
  simp only at hok
  repeat' split at hok
  all_goals first
    | (simp at hok; done)
    | (simp at hok; exact hok.symm)

/-- **Refinement**: the model's outcome is the property's prescription, case by case. -/
theorem c12_refines {env : MEnv} {orig : List Step} (hy : Hyps env orig) (sroot : Bool) (sref : Val)
    (ignore : Bool) (h : Heap) (target : Val) :
    Refines h target ignore (orig.getLast?.map (·.2)) (delete env sroot sref ignore h target orig)
      (refDelete env h (if sroot then sref else target) orig ignore) := by
  obtain ⟨hwf, hc, hs⟩ := C12.covered_parts hy
  exact delete_spec hwf hc sroot sref ignore h target orig hs

/-- **Refinement, from the spec as written**: `glom(target, Delete(path, ignore_missing))` — with
    `Delete.__init__`'s re-spelling of the first step of an S-rooted path — is the prescription
    along the path as it is read (`S.a` ≡ `S['a']`). -/
theorem c12_refines_spec {env : MEnv} {orig : List Step} (sroot : Bool)
    (hy : Hyps env (readSteps sroot orig)) (sref : Val) (ignore : Bool) (h : Heap) (target : Val) :
    Refines h target ignore ((readSteps sroot orig).getLast?.map (·.2))
      (delete env sroot sref ignore h target (initPath (genSFirst "Delete") sroot orig))
      (refDelete env h (if sroot then sref else target) (readSteps sroot orig) ignore) := by
  rw [c12_facts_s_first sroot orig]
  exact c12_refines hy sroot sref ignore h target

/-- **Equals Python's `del`**: when the addressed key / index / attribute exists and can be
    deleted, `delete` returns the target and leaves exactly the heap `del` leaves — for plain
    segments, `T[...]`, `T.attr` and S-rooted paths alike. -/
theorem c12_eq_python {env : MEnv} {orig : List Step} (hy : Hyps env orig) (sroot : Bool) (sref : Val)
    (ignore : Bool) (h : Heap) (target : Val) (h' : Heap) (hid : Bool)
    (href : refDelete env h (if sroot then sref else target) orig ignore = .ok h' hid) :
    (delete env sroot sref ignore h target orig).2 = .ok target ∧
    (delete env sroot sref ignore h target orig).1.heap = h' := by
  have hr := c12_refines hy sroot sref ignore h target
  rw [href] at hr
  exact ⟨hr.1, hr.2.1⟩

/-- **Frame**: a successful wildcard-free `delete` changes at most the cell of the parent object
    `d` — every other cell is exactly as before. -/
theorem c12_frame {env : MEnv} {orig : List Step} (hy : Hyps env orig) (sroot : Bool) (sref : Val)
    (ignore : Bool) (h : Heap) (target : Val) (h' : Heap) (hid : Bool)
    (href : refDelete env h (if sroot then sref else target) orig ignore = .ok h' hid) :
    ∃ d, matchesOf env h orig.dropLast 0 (if sroot then sref else target) = .ok [d] ∧
      (delete env sroot sref ignore h target orig).1.heap.length = h.length ∧
      ∀ b, d ≠ .ref b → (delete env sroot sref ignore h target orig).1.heap[b]? = h[b]? := by
  obtain ⟨hwf, hc, hs⟩ := C12.covered_parts hy
  have hheap := (c12_eq_python hy sroot sref ignore h target h' hid href).2
  rw [hheap]
  have hpns : hasStar orig.dropLast = false :=
    wfSteps_noStar (wfSteps_sub hs (fun s hs' => mem_of_mem_dropLast hs'))
  unfold refDelete at href
  cases hl : orig.getLast? with
  | none => simp [hl] at href
  | some last =>
    obtain ⟨op, arg⟩ := last
    simp only [hl, hpns] at href
    split at href
    · cases href
    · cases hm : matchesOf env h orig.dropLast 0 (if sroot then sref else target) with
      | ok ds =>
        simp only [hm, Bool.false_eq_true, if_false] at href
        split at href
        · rename_i d
          cases hr : refDelOp env h op d arg with
          | none => simp [hr] at href
          | some r =>
            cases r with
            | error e => simp only [hr] at href; split at href <;> cases href
            | ok w =>
              simp only [hr] at href
              injection href with e1 _
              subst e1
              have hfr := refDelOp_frame hr
              exact ⟨d, rfl, hfr.1, hfr.2⟩
        · cases href
      | fail k e stop => simp [hm] at href
      | unreg => simp [hm] at href
      | unsupported => simp [hm] at href

/-- **Later sequence items shift**: deleting index `i` of a list cell leaves the same list
    without that position: earlier items keep their place, later ones move down by one. -/
theorem c12_shift {env : MEnv} {h : Heap} {a : Nat} {c : String} {xs : List Val} {key : Val} {w : Wr}
    (ha : h[a]? = some (.list c xs)) (hd : pyDelitem env h (.ref a) key = .ok w) :
    ∃ i j, asIndex key = some i ∧ pyIdx xs.length i = some j ∧ j < xs.length ∧
      w.heap[a]? = some (.list c (xs.eraseIdx j)) ∧
      ∀ n, (xs.eraseIdx j)[n]? = if n < j then xs[n]? else xs[n + 1]? :=
  pyDelitem_list ha hd

/-- **Missing final element** (this theorem hinges on `c12_facts_wf`): when Python's `del` on the
    addressed key, index or attribute raises KeyError / IndexError / AttributeError, `delete`
    raises a PathDeleteError carrying that exception and the segment, and the heap is unchanged —
    for every addressing style (`'a.b'`, `Path`, `T['b']`, `T.b`, S-rooted). -/
theorem c12_missing_final {env : MEnv} {orig : List Step} (hy : Hyps env orig) (sroot : Bool)
    (sref : Val) (h : Heap) (target : Val) (e : PyExc)
    (href : refDelete env h (if sroot then sref else target) orig false = .missingFinal e) :
    (∃ a, orig.getLast?.map (·.2) = some a ∧
      (delete env sroot sref false h target orig).2 = .error (.pdelete e a)) ∧
    (delete env sroot sref false h target orig).1.heap = h := by
  have hr := c12_refines hy sroot sref false h target
  rw [href] at hr
  obtain ⟨h1, _, h3⟩ := hr
  exact ⟨by simpa using h3, h1⟩

/-- **Missing parent**: when the walk to the parent fails at segment `k`, `delete` raises the
    PathAccessError for that segment and the heap is unchanged. -/
theorem c12_missing_parent {env : MEnv} {orig : List Step} (hy : Hyps env orig) (sroot : Bool)
    (sref : Val) (h : Heap) (target : Val) (k : Nat) (e : PyExc)
    (href : refDelete env h (if sroot then sref else target) orig false = .missingParent k e) :
    (delete env sroot sref false h target orig).2 = .error (.pae k e) ∧
    (delete env sroot sref false h target orig).1.heap = h := by
  have hr := c12_refines hy sroot sref false h target
  rw [href] at hr
  obtain ⟨h1, _, h3⟩ := hr
  exact ⟨by simpa using h3, h1⟩

/-- **`ignore_missing=True`**: a missing final element and a missing parent are both silently
    ignored — the target is returned and the heap is unchanged. -/
theorem c12_ignore_missing {env : MEnv} {orig : List Step} (hy : Hyps env orig) (sroot : Bool)
    (sref : Val) (h : Heap) (target : Val)
    (href : (∃ e, refDelete env h (if sroot then sref else target) orig true = .missingFinal e) ∨
            (∃ k e, refDelete env h (if sroot then sref else target) orig true = .missingParent k e)) :
    (delete env sroot sref true h target orig).2 = .ok target ∧
    (delete env sroot sref true h target orig).1.heap = h := by
  have hr := c12_refines hy sroot sref true h target
  rcases href with ⟨e, href⟩ | ⟨k, e, href⟩
  · rw [href] at hr; obtain ⟨h1, _, h3⟩ := hr; exact ⟨by simpa using h3, h1⟩
  · rw [href] at hr; obtain ⟨h1, _, h3⟩ := hr; exact ⟨by simpa using h3, h1⟩

/-- **Or nothing, and exactly which outcome**: any other deletion fault leaves the heap exactly as it
    was; when the fault is the failure of the `delete` handler registered for a plain segment
    (`silent`: whatever it raises means "cannot be deleted") it is a PathDeleteError, and silently
    ignored under `ignore_missing`; every other fault (`T[..]` / `T.attr` raising RuntimeError /
    TypeError, a type without handler, a path the constructor rejects) is raised whatever
    `ignore_missing` says. -/
theorem c12_fault_unchanged {env : MEnv} {orig : List Step} (hy : Hyps env orig) (sroot : Bool)
    (sref : Val) (ignore : Bool) (h : Heap) (target : Val) (silent : Bool)
    (href : refDelete env h (if sroot then sref else target) orig ignore = .fault silent) :
    (delete env sroot sref ignore h target orig).1.heap = h ∧
    (if silent then
       (if ignore then (delete env sroot sref ignore h target orig).2 = .ok target
        else ∃ e a, (delete env sroot sref ignore h target orig).2 = .error (.pdelete e a))
     else ∃ e, (delete env sroot sref ignore h target orig).2 = .error e) := by
  have hr := c12_refines hy sroot sref ignore h target
  rw [href] at hr
  obtain ⟨h1, _, h3⟩ := hr
  exact ⟨h1, h3⟩

/-- **Wildcards**: when the parent path contains `*`, `delete` deletes at every addressed object
    (`matchesOf`), in order, each on the heap the previous deletion left; under `ignore_missing`
    the matches whose element "cannot be deleted" (`swallowed`) are skipped; the first match whose
    deletion raises ends the call with an error, **the heap being exactly what the deletions before
    it left** — for both values of `ignore_missing`. -/
theorem c12_star {env : MEnv} (hwf : C12.WF env = true) (hc : classesOK env = true)
    (hns : noScope env = true) (sref : Val) (ignore : Bool) (h : Heap) (target : Val)
    (orig : List Step) (op : String) (arg : Val) (hl : orig.getLast? = some (op, arg))
    (hfin : finalOk op = true) (hw : wfStar orig.dropLast = true) (ds : List Val)
    (hm : matchesOf env h orig.dropLast 0 target = .ok ds) :
    let out := delete env false sref ignore h target orig
    match seqDel env ignore op arg h false ds with
    | .ok (h', hid) => out.2 = .ok target ∧ out.1.heap = h' ∧ out.1.hidden = hid
    | .error (h', hid) => (∃ e, out.2 = .error e) ∧ out.1.heap = h' ∧ out.1.hidden = hid := by
  obtain ⟨hwf1, hx, _, _, _⟩ := C12.WF_parts hwf
  have hspec := fetch_spec' hwf1 hx hc h orig.dropLast hw (.inr (noScope_isScope hns h)) 0 target
  rw [hm] at hspec
  obtain ⟨nest, hf, hu, hlv⟩ := hspec
  simp only [delete, hl, hfin, Bool.not_true, Bool.false_eq_true, if_false, hf]
  rw [applyForEach_spec _ _ _ _ hu, hlv]
  have hs := seqM_delete hwf hfin ignore arg ds { heap := h }
  simp only at hs
  cases hsa : seqDel env ignore op arg h false ds with
  | error res =>
    obtain ⟨h', hid⟩ := res
    rw [hsa] at hs
    obtain ⟨st', e, hrun, h1, h2⟩ := hs
    simp [hrun, h1, h2]
  | ok res =>
    obtain ⟨h', hid⟩ := res
    rw [hsa] at hs
    obtain ⟨st', hrun, h1, h2⟩ := hs
    simp [hrun, h1, h2]

/-- **Checker theorem for wildcard paths** (T-rooted, `*` only, the parent's matches exist): `checkC12`
    holds of the model's observation — success with exactly the prescribed heap, or an error with the
    heap the deletions before the failing match left. -/
theorem c12_star_model_checks {env : MEnv} (hwf : C12.WF env = true) (hc : classesOK env = true)
    (hns : noScope env = true) (sref : Val) (ignore : Bool) (h : Heap) (target : Val)
    (orig : List Step) (op : String) (arg : Val) (hl : orig.getLast? = some (op, arg))
    (hfin : finalOk op = true) (hw : wfStar orig.dropLast = true) (hst : hasStar orig.dropLast = true)
    (ds : List Val) (hm : matchesOf env h orig.dropLast 0 target = .ok ds) :
    checkC12 env h target target orig ignore (C12.observe env (delete env false sref ignore h target orig)) = true := by
  have hstar := c12_star hwf hc hns sref ignore h target orig op arg hl hfin hw ds hm
  simp only at hstar
  unfold checkC12 refDelete
  simp only [hl, hfin, Bool.not_true, Bool.false_eq_true, if_false, hm, hst, if_true]
  cases hsa : seqDel env ignore op arg h false ds with
  | ok res =>
    obtain ⟨h', hid⟩ := res
    rw [hsa] at hstar
    obtain ⟨h1, h2, h3⟩ := hstar
    simp [C12.observe, C11.observe, h1, h2, h3]
  | error res =>
    obtain ⟨h', hid⟩ := res
    rw [hsa] at hstar
    obtain ⟨⟨e, h1⟩, h2, h3⟩ := hstar
    simp only [C12.observe, C11.observe, h1, h2, h3, beq_self_eq_true, Bool.and_true]
    exact observeErr_isErr env e

/-- **Delete after assign** (`_partial`: destinations whose parent exists; the hypotheses of put-get:
    the parent path does not pass through the written object, immediate path arguments, a visible
    write, the `assign` / `delete` handlers of the object's type are a pair): deleting through the
    path that was just assigned through is — where the original already had the element —
    deleting the original element (`delete(assign(t, p, v), p)` leaves the heap of
    `delete(t, p)`); and — where the assignment created the element (`del` on the original raises
    KeyError / AttributeError) — **restores the original heap exactly** (also the entry order of
    the dict: a new key is appended, and it is that last entry which is removed).  For every path
    length, container kind and registered handler pair. -/
theorem c12_delete_after_assign_partial {env : MEnv} {orig : List Step} (hy : Hyps env orig)
    (hwf11 : C11.WF env = true) (has : argsScalar orig = true) (sroot : Bool) (sref : Val) (ignore : Bool)
    (h : Heap) (target : Val) (v d : Val) (op : String) (arg : Val)
    (hl : orig.getLast? = some (op, arg))
    (hm : matchesOf env h orig.dropLast 0 (if sroot then sref else target) = .ok [d])
    (hnv : d ∉ visits env h orig.dropLast (if sroot then sref else target))
    (hsc : isScope env h d = false)
    (hpair : ∀ ha hd, nearestHandler env.t.ct env.assignReg (d.clsName h) = some ha →
      nearestHandler env.t.ct env.deleteReg (d.clsName h) = some hd → adPair ha hd = true)
    (hdel : op = "P" → (nearestHandler env.t.ct env.deleteReg (d.clsName h)).isSome)
    (r : Val) (hok : (assign env sroot sref .none h target orig (.val v)).2 = .ok r)
    (hnh : (assign env sroot sref .none h target orig (.val v)).1.hidden = false) :
    let h1 := (assign env sroot sref .none h target orig (.val v)).1.heap
    (∀ w0, refDelOp env h op d arg = some (.ok w0) →
      (delete env sroot sref ignore h1 target orig).2 = .ok target ∧
      (delete env sroot sref ignore h1 target orig).1.heap = (delete env sroot sref ignore h target orig).1.heap) ∧
    (∀ e, refDelOp env h op d arg = some (.error e) → missingExc e = true →
      (delete env sroot sref ignore h1 target orig).2 = .ok target ∧
      (delete env sroot sref ignore h1 target orig).1.heap = h) := by
  obtain ⟨hwf, hc, hs⟩ := C12.covered_parts hy
  have hlastw : C01.wfSteps [(op, arg)] = true := (wfSteps_iff orig).1 hs _ (getLast?_mem hl)
  have hfin : finalOk op = true := finalOk_of_wfSteps hlastw
  have hargk : ∀ a, arg ≠ .ref a := argsScalar_sub has (op, arg) (getLast?_mem hl)
  have hpw : C01.wfSteps orig.dropLast = true := wfSteps_sub hs (fun s hs' => mem_of_mem_dropLast hs')
  have hpns := wfSteps_noStar hpw
  have hpas : argsScalar orig.dropLast = true :=
    argsScalar_of (fun t ht => argsScalar_sub has t (mem_of_mem_dropLast ht))
  have e1 := assign_exact_val (missing := .none) hwf11 hc v hs sref d op arg hl hm
  cases hr1 : refAssignOp env h op d arg v with
  | none => rw [hr1] at e1; rw [e1] at hok; cases hok
  | some r1 =>
    cases r1 with
    | error e => rw [hr1] at e1; rw [e1] at hok; cases hok
    | ok w1 =>
      rw [hr1] at e1
      have hh1 : (assign env sroot sref .none h target orig (.val v)).1.heap = w1.heap := by rw [e1]; rfl
      have hhid : w1.hidden = false := by
        rw [e1] at hnh; simpa [St.wrote] using hnh
      simp only [hh1]
      have hfr := refAssignOp_frame hr1
      have hpre : matchesOf env w1.heap orig.dropLast 0 (if sroot then sref else target) = .ok [d] := by
        rw [matchesOf_congr_visits orig.dropLast hpns hpas 0 _ ?_, hm]
        intro c hc' a hca
        subst hca
        exact hfr.2 a (fun e => hnv (by rw [e]; exact hc'))
      obtain ⟨r0, r1', hd0, hd1, haft⟩ := refDelOp_after_assign hargk hsc hhid hpair hdel hr1
      constructor
      · intro w0 hw0
        rw [hd0] at hw0
        injection hw0 with hw0
        obtain ⟨w', hw', hheap, hhid'⟩ := haft.1 w0 hw0
        rw [hw'] at hd1
        have ra := c12_eq_python hy sroot sref ignore w1.heap target w'.heap w'.hidden
          (refDelete_ok_of hl hfin hpns hpre hd1)
        have rb := c12_eq_python hy sroot sref ignore h target w0.heap w0.hidden
          (refDelete_ok_of hl hfin hpns hm (by rw [hd0, hw0]))
        exact ⟨ra.1, by rw [ra.2, rb.2, hheap]⟩
      · intro e he hme
        rw [hd0] at he
        injection he with he
        obtain ⟨w', hw', hheap, _⟩ := haft.2 e he hme
        rw [hw'] at hd1
        have ra := c12_eq_python hy sroot sref ignore w1.heap target w'.heap w'.hidden
          (refDelete_ok_of hl hfin hpns hpre hd1)
        exact ⟨ra.1, by rw [ra.2, hheap]⟩

/-- **Read-back in the same chain** (how a delete is observed on the implementation, the only way for an
    S-rooted one): in `glom(target, (Delete(path, ignore_missing=…), readPath))` the later step reads, in
    the heap the deletion left, exactly what `readPath` addresses in the heap of Python's `del` — a
    PathAccessError at the deleted element when the read goes through it, the original values when a
    missing / undeletable element was silently ignored; after a Delete that raised the read does not
    run.  S-rooted: the read starts from the scope frame, whose variables a Delete in a chain cannot
    unbind (they live in outer frames: `scope_outer`). -/
theorem c12_read_checks {env : MEnv} {orig : List Step} (hy : Hyps env orig) (sroot : Bool) (sref : Val)
    (ignore : Bool) (h : Heap) (target : Val) (rd : List Step)
    (hrd : wfStar (readSteps sroot rd) = true)
    (hns : hasStar (readSteps sroot rd) = false ∨ noScope env = true) :
    checkReadDel env h (if sroot then sref else target) orig ignore (readSteps sroot rd)
      (deleteThenRead env sroot sref ignore h target orig rd).1.1.heap
      (observeRead env (deleteThenRead env sroot sref ignore h target orig rd).2) = true := by
  obtain ⟨hwf, hc, _⟩ := C12.covered_parts hy
  obtain ⟨hwf1, hx, _, _, _⟩ := C12.WF_parts hwf
  have hr := c12_refines hy sroot sref ignore h target
  have hns' : ∀ H : Heap, hasStar (readSteps sroot rd) = false ∨ ∀ c, isScope env H c = false := by
    intro H
    rcases hns with a | a
    · exact .inl a
    · exact .inr (noScope_isScope a H)
  have key : ∀ H hid, (delete env sroot sref ignore h target orig).2 = .ok target →
      (delete env sroot sref ignore h target orig).1.heap = H →
      checkReadRef env h.length (if sroot then sref else target) (.ok H hid 0) (readSteps sroot rd)
        (deleteThenRead env sroot sref ignore h target orig rd).1.1.heap
        (observeRead env (deleteThenRead env sroot sref ignore h target orig rd).2) = true := by
    intro H hid h1 h2
    cases hid with
    | true => rfl
    | false =>
      simp only [deleteThenRead, h1, h2]
      exact checkReadRef_ok hwf1 hx hc _ _ H 0 _ hrd (hns' H)
  have nrun : ∀ a, (∃ e, (delete env sroot sref ignore h target orig).2 = .error e) →
      checkReadRef env h.length (if sroot then sref else target) (.fail a) (readSteps sroot rd)
        (deleteThenRead env sroot sref ignore h target orig rd).1.1.heap
        (observeRead env (deleteThenRead env sroot sref ignore h target orig rd).2) = true := by
    intro a ⟨e, he⟩
    simp [checkReadRef, deleteThenRead, he, observeRead]
  unfold checkReadDel
  cases href : refDelete env h (if sroot then sref else target) orig ignore with
  | unsupported => rw [href] at hr; exact hr.elim
  | partialFail h' hid => rw [href] at hr; exact hr.elim
  | ok h' hid =>
    rw [href] at hr
    exact key h' hid hr.1 hr.2.1
  | missingFinal e =>
    rw [href] at hr
    obtain ⟨h1, _, h3⟩ := hr
    cases ignore with
    | true => simp only [if_true] at h3; exact key h false h3 h1
    | false =>
      simp only [Bool.false_eq_true, if_false] at h3
      obtain ⟨a, _, h3⟩ := h3
      exact nrun true ⟨_, h3⟩
  | missingParent k e =>
    rw [href] at hr
    obtain ⟨h1, _, h3⟩ := hr
    cases ignore with
    | true => simp only [if_true] at h3; exact key h false h3 h1
    | false => simp only [Bool.false_eq_true, if_false] at h3; exact nrun true ⟨_, h3⟩
  | fault silent =>
    rw [href] at hr
    obtain ⟨h1, _, h3⟩ := hr
    cases silent with
    | false => simp only [Bool.false_eq_true, if_false] at h3; simpa [readRef] using nrun true h3
    | true =>
      simp only [if_true] at h3
      cases ignore with
      | true => simp only [if_true] at h3; exact key h false h3 h1
      | false =>
        simp only [Bool.false_eq_true, if_false] at h3
        obtain ⟨e, a, h3⟩ := h3
        exact nrun true ⟨_, h3⟩

/-- **Checker theorem** — the form in which the property is also evaluated on the
    implementation's observation by the correspondence driver. -/
theorem c12_model_checks {env : MEnv} {orig : List Step} (hy : Hyps env orig) (sroot : Bool)
    (sref : Val) (ignore : Bool) (h : Heap) (target : Val) :
    checkC12 env h target (if sroot then sref else target) orig ignore
      (C12.observe env (delete env sroot sref ignore h target orig)) = true := by
  obtain ⟨hwf, _, _⟩ := C12.covered_parts hy
  have hr := c12_refines hy sroot sref ignore h target
  unfold checkC12
  simp only [C12.observe, C11.observe]
  cases href : refDelete env h (if sroot then sref else target) orig ignore with
  | unsupported => rw [href] at hr; exact hr.elim
  | partialFail h' hid => rw [href] at hr; exact hr.elim
  | ok h' hid =>
    rw [href] at hr
    obtain ⟨h1, h2, h3⟩ := hr
    simp [h1, h2, h3]
  | missingFinal e =>
    rw [href] at hr
    obtain ⟨h1, h2, h3⟩ := hr
    cases ignore with
    | true => simp only [if_true] at h3; simp [h1, h2, h3]
    | false =>
      simp only [Bool.false_eq_true, if_false] at h3
      obtain ⟨a, _, h3⟩ := h3
      have hsub := (WF_exc hwf).1
      simp [h1, h2, h3, observeErr, obsErr, hsub]
  | missingParent k e =>
    rw [href] at hr
    obtain ⟨h1, h2, h3⟩ := hr
    cases ignore with
    | true => simp only [if_true] at h3; simp [h1, h2, h3]
    | false =>
      simp only [Bool.false_eq_true, if_false] at h3
      have hsub := (WF_exc hwf).2
      simp [h1, h2, h3, observeErr, obsErr, hsub]
  | fault silent =>
    rw [href] at hr
    obtain ⟨h1, h2, h3⟩ := hr
    cases silent with
    | true =>
      simp only [if_true] at h3
      cases ignore with
      | true => simp only [if_true] at h3; simp [h1, h2, h3]
      | false =>
        simp only [Bool.false_eq_true, if_false] at h3
        obtain ⟨e, a, h3⟩ := h3
        have hsub := (WF_exc hwf).1
        simp [h1, h2, h3, observeErr, obsErr, hsub]
    | false =>
      simp only [Bool.false_eq_true, if_false] at h3
      obtain ⟨e, h3⟩ := h3
      simp only [h1, h2, h3, beq_self_eq_true, Bool.not_false, Bool.and_self, Bool.true_and, Bool.false_eq_true,
        if_false]
      exact observeErr_isErr env e

/-! ### non-vacuity: concrete inputs meet every hypothesis; the facts obligation is not idle -/

private def exEnv : MEnv := genEnv [] []

private def exHeap : Heap :=
  [ .dict "dict" [(.str "a", .ref 1), (.str "k", .int 7)],   -- 0: {'a': [..], 'k': 7}
    .list "list" [.int 10, .ref 2, .int 30],                 -- 1: [10, obj, 30]
    .inst "Obj" [("b", .none)] ]                             -- 2: obj.b = None

example : Hyps exEnv [("P", .str "a"), ("P", .str "0")] := by decide
example : Hyps exEnv [("[", .str "a"), ("[", .int 1), (".", .str "b")] := by decide

/-- success: `delete(t, 'a.0')` removes the first list item, the later ones shift -/
example : (delete exEnv false .none false exHeap (.ref 0) [("P", .str "a"), ("P", .str "0")]).2 = .ok (.ref 0) ∧
    (delete exEnv false .none false exHeap (.ref 0) [("P", .str "a"), ("P", .str "0")]).1.heap =
      exHeap.set 1 (.list "list" [.ref 2, .int 30]) := by decide
/-- missing final key through `T['zz']`: PathDeleteError(KeyError), heap unchanged (the repaired defect) -/
example : refDelete exEnv exHeap (.ref 0) [("[", .str "zz")] false = .missingFinal (exc "KeyError") ∧
    (delete exEnv false .none false exHeap (.ref 0) [("[", .str "zz")]).2 =
      .error (.pdelete (exc "KeyError") (.str "zz")) := by decide
/-- … ignored under `ignore_missing=True` -/
example : (delete exEnv false .none true exHeap (.ref 0) [("[", .str "zz")]).2 = .ok (.ref 0) ∧
    (delete exEnv false .none true exHeap (.ref 0) [("[", .str "zz")]).1.heap = exHeap := by decide
/-- missing parent -/
example : refDelete exEnv exHeap (.ref 0) [("P", .str "q"), ("P", .str "0")] false =
    .missingParent 0 (exc "KeyError") := by decide
/-- a fault: `del` on a scalar through `T[...]` is a TypeError, raised as it is -/
example : refDelete exEnv exHeap (.ref 0) [("P", .str "k"), ("[", .int 0)] false = .fault false ∧
    (delete exEnv false .none false exHeap (.ref 0) [("P", .str "k"), ("[", .int 0)]).2 =
      .error (.raised (exc "TypeError")) := by decide

/-- the `_del_one` table as it was before commit 0c6b34e: `[` catches IndexError only -/
private def oldEnv : MEnv :=
  { exEnv with delBr := [("[", "delitem", ["IndexError"], "PathDeleteError"),
      (".", "delattr", ["AttributeError"], "PathDeleteError"),
      ("P", "handler", ["Exception"], "PathDeleteError")] }

/-- **Counter-example without the facts obligation** (the defect repaired by 0c6b34e): with the
    old branch table `WF` is false, and `delete({'a': …}, T['zz'])` leaks the KeyError instead of
    raising PathDeleteError — `c12_missing_final` really hinges on the extracted `except` clause. -/
theorem c12_old_table_counterexample :
    C12.WF oldEnv = false ∧
    refDelete oldEnv exHeap (.ref 0) [("[", .str "zz")] false = .missingFinal (exc "KeyError") ∧
    (delete oldEnv false .none false exHeap (.ref 0) [("[", .str "zz")]).2 =
      .error (.raised (exc "KeyError")) ∧
    (delete oldEnv false .none true exHeap (.ref 0) [("[", .str "zz")]).2 =
      .error (.raised (exc "KeyError")) := by decide


/-- delete after assign, concretely: a NEW attribute `a.1.n` is assigned and deleted again — the heap is
    exactly the original one; an EXISTING item `a.0` is assigned and deleted — the heap of `delete(t, 'a.0')` -/
example :
    let pn : List Step := [("P", .str "a"), ("P", .str "1"), ("P", .str "n")]
    let p0 : List Step := [("P", .str "a"), ("P", .str "0")]
    (delete exEnv false .none false (assign exEnv false .none .none exHeap (.ref 0) pn (.val (.int 5))).1.heap
      (.ref 0) pn).1.heap = exHeap ∧
    (delete exEnv false .none false (assign exEnv false .none .none exHeap (.ref 0) p0 (.val (.int 5))).1.heap
      (.ref 0) p0).1.heap = (delete exEnv false .none false exHeap (.ref 0) p0).1.heap := by decide
/-- … and the hypotheses of `c12_delete_after_assign_partial` hold for it: the handlers of every class of
    the heap are pairs, nothing on the way is the scope -/
example :
    C11.WF exEnv = true ∧ argsScalar [("P", .str "a"), ("P", .str "1"), ("P", .str "n")] = true ∧
    matchesOf exEnv exHeap [("P", .str "a"), ("P", .str "1")] 0 (.ref 0) = .ok [.ref 2] ∧
    (.ref 2 : Val) ∉ visits exEnv exHeap [("P", .str "a"), ("P", .str "1")] (.ref 0) ∧
    isScope exEnv exHeap (.ref 2) = false ∧
    nearestHandler exEnv.t.ct exEnv.assignReg "Obj" = some "setattr" ∧
    nearestHandler exEnv.t.ct exEnv.deleteReg "Obj" = some "delattr" ∧ adPair "setattr" "delattr" = true := by
  decide

end Glom.Props.C12
