import Glom.Lemmas.C08Main
import Glom.Lemmas.C08Rebuild
import Glom.Model.Frames
import Glom.Spec.InterpFacts
/-
  C08 — Modes apply exactly to the wrapped spec; Fill and argument mode keep shape.

  Property theorems only.  The interpreter (`Glom/Model/Interp.lean`) stores the
  mode the way glom does — as an entry of the scope's head frame, copied into
  every new child frame, overwritten by Fill/Auto/Match/Group on their own frame
  and reset by `chain_child` — and `annotF` (`Glom/Spec/C08.lean`) is the
  property: the mode at a position is that of the nearest enclosing wrapper,
  else the mode the call started in.  All theorems are for every spec (any
  nesting depth, any width), every target, every `Prims` (Python's part) and
  every fuel.
-/
namespace Glom.Props.C08
open Glom.Interp ScopeAlg

/-- **facts obligation**: the decision logic of the interpreter core extracted from /repo on this
    run has the shape the model mirrors (`Glom/Spec/InterpFacts.lean`) -/
theorem c08_facts_wf : c08FactsWF = true := by decide

/-- The ChainMap-of-frames scope glom uses satisfies the lexical-scoping laws; in particular
    `mode (chain owner lastChild) = mode owner`: the next link of a chain is evaluated in the
    owner's mode, whatever mode the previous link switched to (the repair of defect F4). -/
theorem c08_frames_lawful : LawfulScope Frames := inferInstance

/-- **Mode lexicality, generic.**  For every scope representation satisfying the laws, every
    probe event appended by `_glom(target, spec, scope)` carries the static mode of its position:
    the mode of the nearest enclosing Fill/Auto/Match/Group inside `spec`, else `scope[MODE]`. -/
theorem c08_mode_lexical {σ : Type} [ScopeAlg σ] [LawfulScope σ] (p : Prims) (fuel : Nat) (spec : Spec)
    (target : V) (sc : σ) (st : St) (hno : noRefF fuel spec = true) :
    ∃ evs, (interp p fuel spec target sc st).1.log = st.log ++ evs ∧
      ∀ x ∈ probesOf evs, x ∈ annotF fuel (mode sc) spec :=
  (interp_ok p fuel spec target sc hno).run st

/-- **Checker theorem** (the form evaluated on the implementation's recorded modes too): a
    top-level `glom(target, spec, scope=…)` starts in AUTO mode and records only static modes. -/
theorem c08_model_checks (p : Prims) (fuel : Nat) (spec : Spec) (target : V)
    (callerScope : List (String × V)) (hno : noRefF fuel spec = true) :
    checkModes fuel spec (probesOf (glomTop p fuel spec target callerScope {}).1.log) = true := by
  unfold glomTop
  rcases hroot : rootScope {} callerScope with ⟨root, st0⟩
  have hm : mode root = Mode.auto := by
    have h1 := congrArg Prod.fst hroot
    simp only [rootScope] at h1
    subst h1; rfl
  have hst0 : st0.log = [] := by
    have h2 := congrArg Prod.snd hroot
    simp only [rootScope] at h2
    subst h2; rfl
  obtain ⟨evs, hlog, hall⟩ := c08_mode_lexical p fuel spec target root st0 hno
  rw [hm] at hall
  rw [hst0, List.nil_append] at hlog
  have hfst : ∀ (o : St × Except Err (V × Frames)), (topResult o).1 = o.1 := by
    intro o; rcases o with ⟨st', r⟩; cases r <;> rfl
  simp only [hfst, hlog, checkModes, List.all_eq_true]
  intro x hx
  exact List.elem_eq_true_of_mem (hall x hx)

/-! ### wrappers: one-step laws (what each wrapper does to the mode of its sub-spec) -/

/-- Fill evaluates its sub-spec in FILL mode and hands on its own scope. -/
theorem c08_fill_sets_mode {σ : Type} [ScopeAlg σ] [LawfulScope σ] (p : Prims) (rec : Rec σ) (s : Spec)
    (t : V) (sc : σ) :
    glomit p rec (.fill s) t sc =
      (do let r ← rec s t (setMode sc .fill); pure (r.1, setMode sc .fill)) ∧
    mode (setMode sc .fill) = .fill := ⟨rfl, LawfulScope.mode_setMode ..⟩

/-- The scope a tuple / Pipe / Switch hands to its next link has the owner's mode and the
    previous link's bindings. -/
theorem c08_chain_mode {σ : Type} [ScopeAlg σ] [LawfulScope σ] (owner lastChild : σ) (k : String) :
    mode (chain owner lastChild) = mode owner ∧ argMode (chain owner lastChild) = argMode owner ∧
    lookup (chain owner lastChild) k = lookup lastChild k :=
  ⟨LawfulScope.mode_chain .., LawfulScope.argMode_chain .., LawfulScope.lookup_chain ..⟩

/-- **Lazily evaluated streams.**  `Iter(sub)` built at a scope evaluates `sub` for every item *at
    that scope* (the frame the generator captured, which keeps the mode copied into it when it was
    created), whichever later step consumes the stream; together with `c08_mode_lexical` (whose
    induction covers this construct): every probe inside a stream records the mode of the place
    where the stream is written, not the mode of the place where it is consumed. -/
theorem c08_iter_creation_scope {σ : Type} [ScopeAlg σ] (p : Prims) (rec : Rec σ) (s : Spec) (t : V) (sc : σ) :
    glomit p rec (.iter s false) t sc =
      (do let items ← M.lift (p.iterate t)
          let vs ← listLoop rec s sc items []
          pure (.stream vs, sc)) := rfl

/-! ### Pipe is not a mode wrapper: a plain step of a chain is read in the mode around the chain -/

/-- **A plain object is interpreted by the mode in force where it stands**: `_glom` hands a
    non-spec-like object to `_ArgValuator.mode` in argument position, else to the function stored
    under `scope[MODE]` — AUTO, FILL, `_glom_match` or GROUP — in a new child frame. -/
theorem c08_plain_dispatch {σ : Type} [ScopeAlg σ] [LawfulScope σ] (p : Prims) (fuel : Nat) (s : Spec) (t : V)
    (sc : σ) (hs : s.isSpecLike = false) :
    interp p (fuel + 1) s t sc =
      (do let v ← plainFn p (interp p fuel) (argMode sc) (mode sc) s t (child sc); pure (v, child sc)) := by
  simp only [interp, hs, LawfulScope.argMode_child, LawfulScope.mode_child, plainFn]
  cases argMode sc <;> cases mode sc <;> rfl

/-- **Every step of a tuple / Pipe is evaluated in the mode of the chain's owner** (and with the
    owner's argument flag), at every position and whatever the earlier steps did: the behaviour of
    the evaluator at scopes with another mode cannot influence the chain. -/
theorem c08_chain_steps_owner_mode {σ : Type} [ScopeAlg σ] [LawfulScope σ] (rec1 rec2 : Rec σ) (steps : List Spec)
    (res : V) (cur : σ) (last : Option σ)
    (h : ∀ s t (c : σ), mode c = mode cur → argMode c = argMode cur → rec1 s t c = rec2 s t c) :
    tupleLoop rec1 steps res cur last = tupleLoop rec2 steps res cur last :=
  tupleLoop_mode_congr (mode cur) (argMode cur) h steps res cur last rfl rfl

/-- **A plain step of a chain** — a tuple, a list, a dict, a str … at any position of a tuple / Pipe —
    **is interpreted by the mode function of the mode in force around the chain**: under Fill a
    tuple step is a tuple constructor (`fillFn`, shape kept: `c08_fill_shape`), under Match a tuple
    pattern (`matchFn`), in AUTO mode a nested chain.  A Pipe does not splice it into its own steps. -/
theorem c08_plain_step_of_chain {σ : Type} [ScopeAlg σ] [LawfulScope σ] (p : Prims) (fuel : Nat) (s : Spec) (t : V)
    (cur : σ) (last : Option σ) (hs : s.isSpecLike = false) :
    interp p (fuel + 1) s t (nextScope cur last) =
      (do let v ← plainFn p (interp p fuel) (argMode cur) (mode cur) s t (child (nextScope cur last))
          pure (v, child (nextScope cur last))) := by
  rw [c08_plain_dispatch p fuel s t _ hs, nextScope_mode, nextScope_argMode]

/-! ### Fill mode and argument mode keep shape -/

theorem mapLoop_length {σ : Type} [ScopeAlg σ] (rec : Rec σ) (t : V) (sc : σ) :
    ∀ (xs : List Spec) (acc : List V) (st st' : St) (vs : List V),
      mapLoop rec t sc xs acc st = (st', .ok vs) → vs.length = acc.length + xs.length := by
  intro xs
  induction xs with
  | nil => intro acc st st' vs h; simp [mapLoop, M.pure_apply] at h; simp [← h.2]
  | cons x r ih =>
    intro acc st st' vs h
    simp only [mapLoop, M.bind_apply] at h
    rcases hr : rec x t sc st with ⟨st1, r1⟩
    rw [hr] at h
    cases r1 with
    | error e => simp at h
    | ok v =>
      have := ih _ _ _ _ h
      simp at this ⊢; omega

/-- In Fill mode and in argument mode a list / tuple / set is rebuilt with the same type and
    the same number of items; a dict is rebuilt as a dict. -/
theorem c08_fill_shape {σ : Type} [ScopeAlg σ] (p : Prims) (rec : Rec σ) (xs : List Spec) (t : V) (own : σ)
    (st st' : St) (v : V) :
    (fillFn p rec (.list xs) t own st = (st', .ok v) → ∃ vs, v = .list vs ∧ vs.length = xs.length) ∧
    (fillFn p rec (.tuple xs) t own st = (st', .ok v) → ∃ vs, v = .tuple vs ∧ vs.length = xs.length) ∧
    (argModeFn p rec (.list xs) t own st = (st', .ok v) → ∃ vs, v = .list vs ∧ vs.length = xs.length) ∧
    (argModeFn p rec (.tuple xs) t own st = (st', .ok v) → ∃ vs, v = .tuple vs ∧ vs.length = xs.length) := by
  refine ⟨?_, ?_, ?_, ?_⟩ <;>
  · intro h
    simp only [fillFn, argModeFn, M.bind_apply] at h
    rcases hr : mapLoop rec t own xs [] st with ⟨st1, r1⟩
    rw [hr] at h
    cases r1 with
    | error e => simp at h
    | ok vs =>
      simp [M.pure_apply] at h
      exact ⟨vs, h.2.symm, by simpa using mapLoop_length rec t own xs [] st st1 vs hr⟩

/-- Strings, numbers and other literals are kept in both modes; a callable is *called* with the
    target in Fill mode and *kept* in argument position. -/
theorem c08_literals {σ : Type} [ScopeAlg σ] (p : Prims) (rec : Rec σ) (t : V) (own : σ) (s n k : String)
    (v : V) :
    fillFn p rec (.str s) t own = pure (.str s) ∧ argModeFn p rec (.str s) t own = pure (.str s) ∧
    fillFn p rec (.lit v) t own = pure v ∧ argModeFn p rec (.lit v) t own = pure v ∧
    fillFn p rec (.fn n k) t own = callFn p n k [t] [] ∧ argModeFn p rec (.fn n k) t own = pure (.fn n k) :=
  ⟨rfl, rfl, rfl, rfl, rfl, rfl⟩

/-! ### self-referential containers in argument position: `rebuild` terminates and keeps the shape

`rebuildItem` (`Glom/Spec/C08.lean`) is `recur(val)` of `_ArgValuator.mode` on a heap of spec
containers: lists and dicts are memoised by identity *before* their items are visited, tuples are
rebuilt structurally.  The fuel bounds the recursion depth only. -/

/-- **The fuel is irrelevant**: once a run has enough fuel, every larger fuel gives the same result. -/
theorem c08_rebuild_fuel_irrelevant (ev : Spec → Except Err V) (nodes : List GNode) (item : GItem) (memo : Memo)
    (r : Except Err (GOut × Memo)) (f f' : Nat) (h : rebuildItem ev nodes f item memo = some r) (hle : f ≤ f') :
    rebuildItem ev nodes f' item memo = some r :=
  rebuild_fuel_mono ev nodes item memo r f h f' hle

/-- **`rebuild` terminates on every container heap** — any number of nodes, any cycles through lists
    and dicts, any sharing — provided the tuple-only reference paths are acyclic (which Python
    guarantees: a tuple's items exist before the tuple): the recursion depth `fuelBound nodes`
    suffices, the result is the same for every larger fuel, and `rebuild` never reports `OutOfFuel`
    unless a leaf raised it. -/
theorem c08_rebuild_terminates (ev : Spec → Except Err V) (nodes : List GNode) (hacyc : TupleAcyclic nodes)
    (root : GItem) :
    ∃ r, (∀ fuel, fuelBound nodes ≤ fuel → rebuildItem ev nodes fuel root [] = some r) ∧
      rebuild ev nodes root = r.map (·.1) := by
  obtain ⟨r, hr⟩ := rebuild_terminates ev nodes hacyc root
  refine ⟨r, fun fuel hle => rebuild_fuel_mono ev nodes root [] r _ hr fuel hle, ?_⟩
  simp only [rebuild, hr]

/-- **`rebuild` preserves the shape**: a successful result is isomorphic to the part of the spec heap
    reachable from the root (`RebuildIso`, `Glom/Spec/C08Graph.lean`) — the memo `φ` is a bijection
    between the reachable lists / dicts and the numbers `0 … k-1` in first-visit order; every number is
    defined exactly once in the result, in that order; every rebuilt node has the kind and, item by
    item in order, the items of its spec node, with leaves replaced by their values, references to
    lists / dicts following `φ` (shared nodes stay shared, cycles stay cycles) and tuples rebuilt
    structurally. -/
theorem c08_rebuild_iso (ev : Spec → Except Err V) (nodes : List GNode) (root : GItem) (out : GOut)
    (h : rebuild ev nodes root = .ok out) : ∃ φ, RebuildIso ev nodes root out φ := by
  unfold rebuild at h
  split at h
  · rename_i r hr
    cases r with
    | error e => simp [Except.map] at h
    | ok om =>
      obtain ⟨o, φ⟩ := om
      simp only [Except.map, Except.ok.injEq] at h
      subst h
      exact ⟨φ, rebuild_iso ev nodes _ root o φ hr⟩
  · simp at h

/-- … for every fuel, not only the bound `rebuild` uses -/
theorem c08_rebuild_iso_fuel (ev : Spec → Except Err V) (nodes : List GNode) (fuel : Nat) (root : GItem)
    (out : GOut) (φ : Memo) (h : rebuildItem ev nodes fuel root [] = some (.ok (out, φ))) :
    RebuildIso ev nodes root out φ := rebuild_iso ev nodes fuel root out φ h

/-- what the isomorphism gives, spelled out: `φ` is injective, its numbers are `< φ.length`, only
    lists / dicts are rebuilt -/
theorem c08_rebuild_bijection (ev : Spec → Except Err V) (nodes : List GNode) (root : GItem) (out : GOut)
    (φ : Memo) (h : RebuildIso ev nodes root out φ) :
    (∀ i j n, φ.lookup i = some n → φ.lookup j = some n → i = j) ∧
    (∀ i n, φ.lookup i = some n → n < φ.length ∧ IsMutable nodes i) ∧
    (∀ n, n < φ.length → ∃ d ys, n ∈ out.defNums ∧ DefOK ev nodes φ d n ys) := by
  refine ⟨memoInv_inj nodes φ h.memo_inv, ?_, ?_⟩
  · intro i n hn
    have := memoInv_mem nodes φ h.memo_inv i n (mem_of_lookup φ i n hn)
    exact ⟨this.2, this.1⟩
  · intro n hn
    have hmem : n ∈ out.defNums := by rw [h.def_order]; exact List.mem_range.mpr hn
    obtain ⟨d, ys, hd⟩ := def_of_mem_defNums _ out h.defs_ok n hmem
    exact ⟨d, ys, hmem, hd⟩

/-- **An error of `rebuild` is the error of a leaf**: it was raised by the evaluation of a leaf spec
    reachable from the root (or it is `BadGraph`: a reference pointing outside the heap). -/
theorem c08_rebuild_error_provenance (ev : Spec → Except Err V) (nodes : List GNode) (fuel : Nat) (root : GItem)
    (memo : Memo) (e : Err) (h : rebuildItem ev nodes fuel root memo = some (.error e)) :
    (∃ s, ReachLeaf nodes root s ∧ ev s = .error e) ∨
    (e = ⟨"BadGraph"⟩ ∧ ∃ j, ReachItem nodes root j ∧ nodes[j]? = Option.none) :=
  (rebuild_error ev nodes fuel).1 root memo e h

/-- the generator's heaps (a tuple inside a tuple has a larger index) are in the domain of the theorem -/
theorem c08_forward_tuples_acyclic (nodes : List GNode) (h : tuplesForward nodes = true) : TupleAcyclic nodes := by
  refine ⟨fun i => nodes.length - i, fun i => Nat.sub_le _ _, ?_⟩
  intro i nd j nd' hnd hk hj hnd' hk'
  have hi : i < nodes.length := (List.getElem?_eq_some_iff.mp hnd).1
  have hjl : j < nodes.length := (List.getElem?_eq_some_iff.mp hnd').1
  have h1 := List.all_eq_true.mp h i (List.mem_range.mpr hi)
  simp only [hnd, hk, bne_self_eq_false, Bool.false_or] at h1
  have h2 := List.all_eq_true.mp h1 (.ref j) hj
  simp only [hnd', hk', bne_self_eq_false, Bool.false_or, decide_eq_true_eq] at h2
  show nodes.length - j < nodes.length - i
  omega

/-- **The hypothesis is forced**: on a tuple that contains itself — not constructible in Python —
    the recursion has no end: every fuel is exhausted. -/
theorem c08_rebuild_tuple_cycle_counterexample (ev : Spec → Except Err V) :
    let nodes : List GNode := [⟨.tuple, [.ref 0]⟩]
    ∀ fuel, rebuildItem ev nodes fuel (.ref 0) [] = Option.none := by
  intro nodes
  suffices h : ∀ fuel, rebuildItem ev nodes fuel (.ref 0) [] = Option.none ∧
      rebuildItems ev nodes fuel [.ref 0] [] = Option.none from fun fuel => (h fuel).1
  intro fuel
  induction fuel with
  | zero => exact ⟨rfl, rfl⟩
  | succ fuel ih =>
    constructor
    · simp only [rebuildItem, nodes, List.lookup, List.getElem?_cons_zero, ih.2]
    · simp only [rebuildItems, ih.1]

/-! ### why `chain_child` must reset the mode: the pre-repair scope is *not* lexical -/

/-- the scope as glom had it before the repair of F4: `chain_child` hands on the last child's
    scope with whatever MODE that child had set -/
@[instance_reducible] def leaky : ScopeAlg Frames :=
  { (inferInstance : ScopeAlg Frames) with chain := fun _ lastChild => lastChild }

private def trivialPrims : Prims :=
  { eq := fun _ _ => false, truthy := fun _ => true, hashable := fun _ => true,
    isinstance := fun _ _ => true, iterate := fun _ => .ok [], getSeg := fun v _ => .ok v,
    tEval := fun _ v => .ok v, applyFn := fun _ _ _ => .ok .none, applyTy := fun _ v => .ok v,
    isSub := fun a b => a == b, typeName := fun _ => "" }

/-- `(Fill(probe 1), probe 2)`: with the pre-repair `chain_child` the second step — outside the
    Fill — is evaluated in FILL mode; the static mode of that position is AUTO. -/
theorem c08_F4_counterexample :
    let spec := Spec.tuple [.fill (.probe 1), .probe 2]
    let root : Frames := [{ mode := some .auto, arg := some false }]
    probesOf (@interp Frames leaky trivialPrims 8 spec .none root {}).1.log = [(1, .fill), (2, .fill)] ∧
    checkModes 8 spec [(1, .fill), (2, .fill)] = false ∧
    probesOf (interp (σ := Frames) trivialPrims 8 spec .none root {}).1.log = [(1, .fill), (2, .auto)] := by
  refine ⟨by rfl, by decide, by rfl⟩

private def tyPrims : Prims :=
  { trivialPrims with isinstance := fun v n => match v, n with
      | .int _, "int" => true
      | .tuple _, "tuple" => true
      | _, _ => false }

/-- **Splicing a tuple step into the Pipe is not equivalent.**  `Fill(Pipe((T, T)))` builds the
    pair `(t, t)`; the spliced `Fill(Pipe(T, T))` chains the two items and yields `t`.  Likewise
    under Match: `Match(Pipe((int, int)))` accepts the pair `(1, 2)`, the spliced pipe rejects it
    (the pair is not an int). -/
theorem c08_pipe_splice_counterexample :
    let root : Frames := [{ mode := some .auto, arg := some false }]
    let run := fun (s : Spec) (t : V) =>
      (Except.map Prod.fst (interp (σ := Frames) tyPrims 8 s t root {}).2 : Except Err V)
    run (.fill (.pipe [.tuple [.t [], .t []]])) (.int 1) = .ok (.tuple [.int 1, .int 1]) ∧
    run (.fill (.pipe [.t [], .t []])) (.int 1) = .ok (.int 1) ∧
    run (.mtch (.pipe [.tuple [.ty "int", .ty "int"]]) Option.none) (.tuple [.int 1, .int 2]) =
      .ok (.tuple [.int 1, .int 2]) ∧
    run (.mtch (.pipe [.ty "int", .ty "int"]) Option.none) (.tuple [.int 1, .int 2]) =
      .error ⟨"TypeMatchError"⟩ := by
  refine ⟨by rfl, by rfl, by rfl, by rfl⟩

/-! ### non-vacuity -/

example : noRefF 8 (.tuple [.fill (.probe 1), .probe 2]) = true := by decide
example : (Spec.tuple [.t [], .str "lit"]).isSpecLike = false := rfl
-- a tuple step of a Pipe under Fill, two Specs / a Coalesce below the wrapper, is mode-sensitive for the checker
example : modeSensitiveF 8 .auto false (.fill (.specW (.coalesce [.pipe [.t [], .tuple [.t []]]] Option.none Option.none .never []) [])) = true := by decide
example : modeSensitiveF 8 .auto false (.tuple [.str "a", .pipe [.tuple [.str "b"]], .auto (.fill (.auto (.str "a")))]) = false := by decide
example : annotF 8 .auto (.tuple [.fill (.tuple [.probe 1, .mtch (.probe 3) Option.none]), .probe 2]) =
    [(1, .fill), (3, .mtch), (2, .auto)] := by decide
example : annotF 8 .auto (.switch [(.mtch (.ty "int") Option.none, .probe 1), (.fill (.probe 2), .probe 3)]
    Option.none) = [(1, .auto), (2, .fill), (3, .auto)] := by decide

/-- a stream built under Fill as a non-final link and consumed by the next link: its probe is in
    FILL mode, the probe after the chain link in AUTO mode -/
example : annotF 8 .auto (.tuple [.fill (.iter (.probe 1) false), .ty "list", .probe 2]) =
    [(1, .fill), (2, .auto)] := by decide

private def onePrims : Prims := { trivialPrims with iterate := fun _ => .ok [.none] }

/-- … and the interpreter records exactly that (one item; `list` is the consumer) -/
example :
    let spec := Spec.tuple [.fill (.iter (.probe 1) false), .ty "list", .probe 2]
    let root : Frames := [{ mode := some .auto, arg := some false }]
    probesOf (interp (σ := Frames) onePrims 8 spec .none root {}).1.log = [(1, .fill), (2, .auto)] := by
  rfl

/-! ### `rebuild`: a concrete cyclic heap -/

/-- `a = [ (a, b), T ]`, `b = {'k': a, 'self': b}` with the tuple shared — lists, a dict, a tuple on the
    cycle; leaves evaluate to the target -/
private def demoHeap : List GNode :=
  [⟨.list, [.ref 2, .leaf (.t [])]⟩,
   ⟨.dict, [.leaf (.str "k"), .ref 0, .leaf (.str "self"), .ref 1]⟩,
   ⟨.tuple, [.ref 0, .ref 1]⟩]

private def demoEv (t : V) : Spec → Except Err V
  | .t [] => .ok t
  | .str s => .ok (.str s)
  | _ => .error ⟨"Unsupported"⟩

example : tuplesForward demoHeap = true := by decide
example : TupleAcyclic demoHeap := c08_forward_tuples_acyclic demoHeap (by decide)
-- a tuple nested in a tuple, both on a cycle through a list
example : tuplesForward [⟨.list, [.ref 1]⟩, ⟨.tuple, [.ref 2, .ref 0]⟩, ⟨.tuple, [.ref 0]⟩] = true := by decide

/-- list 0 = [ (ref 0, dict 1 = {k: ref 0, self: ref 1}), 7 ] -/
example : rebuild (demoEv (.int 7)) demoHeap (.ref 0) =
    .ok (.node false 0 [.tuple [.ref 0, .node true 1 [.leaf (.str "k"), .ref 0, .leaf (.str "self"), .ref 1]],
      .leaf (.int 7)]) := by rfl

/-- a failing leaf: its error is the result -/
example : rebuild (demoEv (.int 7)) (demoHeap ++ [⟨.list, [.leaf (.val .none)]⟩]) (.ref 3) =
    .error ⟨"Unsupported"⟩ := by rfl

end Glom.Props.C08
