import Glom.Lemmas.C08Main
import Glom.Model.Frames
/-
  C08 — Modes apply exactly to the wrapped spec; Fill and argument mode keep shape.

  Property theorems only.  The interpreter (`Glom/Model/Interp.lean`) stores the
  mode the way glom does — as an entry of the scope's head frame, copied into
  every new child frame, overwritten by Fill/Auto/Match/Group on their own frame
  and reset by `chain_child` — and `annotF` (`Glom/Spec/C08.lean`) is the
  property: the mode at a position is that of the nearest enclosing wrapper,
  else the mode the call started in.  All theorems are for every spec (any
  nesting depth, any width), every target, every `Prims` (Python's part) and
  every fuel.
-/
namespace Glom.Props.C08
open Glom.Interp ScopeAlg

/-- The ChainMap-of-frames scope glom uses satisfies the lexical-scoping laws; in particular
    `mode (chain owner lastChild) = mode owner`: the next link of a chain is evaluated in the
    owner's mode, whatever mode the previous link switched to (the repair of defect F4). -/
theorem c08_frames_lawful : LawfulScope Frames := inferInstance

/-- **Mode lexicality, generic.**  For every scope representation satisfying the laws, every
    probe event appended by `_glom(target, spec, scope)` carries the static mode of its position:
    the mode of the nearest enclosing Fill/Auto/Match/Group inside `spec`, else `scope[MODE]`. -/
theorem c08_mode_lexical {σ : Type} [ScopeAlg σ] [LawfulScope σ] (p : Prims) (fuel : Nat) (spec : Spec)
    (target : V) (sc : σ) (st : St) (hno : noRefF fuel spec = true) :
    ∃ evs, (interp p fuel spec target sc st).1.log = st.log ++ evs ∧
      ∀ x ∈ probesOf evs, x ∈ annotF fuel (mode sc) spec :=
  (interp_ok p fuel spec target sc hno).run st

/-- **Checker theorem** (the form evaluated on the implementation's recorded modes too): a
    top-level `glom(target, spec, scope=…)` starts in AUTO mode and records only static modes. -/
theorem c08_model_checks (p : Prims) (fuel : Nat) (spec : Spec) (target : V)
    (callerScope : List (String × V)) (hno : noRefF fuel spec = true) :
    checkModes fuel spec (probesOf (glomTop p fuel spec target callerScope {}).1.log) = true := by
  unfold glomTop
  rcases hroot : rootScope {} callerScope with ⟨root, st0⟩
  have hm : mode root = Mode.auto := by
    have h1 := congrArg Prod.fst hroot
    simp only [rootScope] at h1
    subst h1; rfl
  have hst0 : st0.log = [] := by
    have h2 := congrArg Prod.snd hroot
    simp only [rootScope] at h2
    subst h2; rfl
  obtain ⟨evs, hlog, hall⟩ := c08_mode_lexical p fuel spec target root st0 hno
  rw [hm] at hall
  rw [hst0, List.nil_append] at hlog
  have hfst : ∀ (o : St × Except Err (V × Frames)), (topResult o).1 = o.1 := by
    intro o; rcases o with ⟨st', r⟩; cases r <;> rfl
  simp only [hfst, hlog, checkModes, List.all_eq_true]
  intro x hx
  exact List.elem_eq_true_of_mem (hall x hx)

/-! ### wrappers: one-step laws (what each wrapper does to the mode of its sub-spec) -/

/-- Fill evaluates its sub-spec in FILL mode and hands on its own scope. -/
theorem c08_fill_sets_mode {σ : Type} [ScopeAlg σ] [LawfulScope σ] (p : Prims) (rec : Rec σ) (s : Spec)
    (t : V) (sc : σ) :
    glomit p rec (.fill s) t sc =
      (do let r ← rec s t (setMode sc .fill); pure (r.1, setMode sc .fill)) ∧
    mode (setMode sc .fill) = .fill := ⟨rfl, LawfulScope.mode_setMode ..⟩

/-- The scope a tuple / Pipe / Switch hands to its next link has the owner's mode and the
    previous link's bindings. -/
theorem c08_chain_mode {σ : Type} [ScopeAlg σ] [LawfulScope σ] (owner lastChild : σ) (k : String) :
    mode (chain owner lastChild) = mode owner ∧ argMode (chain owner lastChild) = argMode owner ∧
    lookup (chain owner lastChild) k = lookup lastChild k :=
  ⟨LawfulScope.mode_chain .., LawfulScope.argMode_chain .., LawfulScope.lookup_chain ..⟩

/-- **Lazily evaluated streams.**  `Iter(sub)` built at a scope evaluates `sub` for every item *at
    that scope* (the frame the generator captured, which keeps the mode copied into it when it was
    created), whichever later step consumes the stream; together with `c08_mode_lexical` (whose
    induction covers this construct): every probe inside a stream records the mode of the place
    where the stream is written, not the mode of the place where it is consumed. -/
theorem c08_iter_creation_scope {σ : Type} [ScopeAlg σ] (p : Prims) (rec : Rec σ) (s : Spec) (t : V) (sc : σ) :
    glomit p rec (.iter s false) t sc =
      (do let items ← M.lift (p.iterate t)
          let vs ← listLoop rec s sc items []
          pure (.stream vs, sc)) := rfl

/-! ### Fill mode and argument mode keep shape -/

theorem mapLoop_length {σ : Type} [ScopeAlg σ] (rec : Rec σ) (t : V) (sc : σ) :
    ∀ (xs : List Spec) (acc : List V) (st st' : St) (vs : List V),
      mapLoop rec t sc xs acc st = (st', .ok vs) → vs.length = acc.length + xs.length := by
  intro xs
  induction xs with
  | nil => intro acc st st' vs h; simp [mapLoop, M.pure_apply] at h; simp [← h.2]
  | cons x r ih =>
    intro acc st st' vs h
    simp only [mapLoop, M.bind_apply] at h
    rcases hr : rec x t sc st with ⟨st1, r1⟩
    rw [hr] at h
    cases r1 with
    | error e => simp at h
    | ok v =>
      have := ih _ _ _ _ h
      simp at this ⊢; omega

/-- In Fill mode and in argument mode a list / tuple / set is rebuilt with the same type and
    the same number of items; a dict is rebuilt as a dict. -/
theorem c08_fill_shape {σ : Type} [ScopeAlg σ] (p : Prims) (rec : Rec σ) (xs : List Spec) (t : V) (own : σ)
    (st st' : St) (v : V) :
    (fillFn p rec (.list xs) t own st = (st', .ok v) → ∃ vs, v = .list vs ∧ vs.length = xs.length) ∧
    (fillFn p rec (.tuple xs) t own st = (st', .ok v) → ∃ vs, v = .tuple vs ∧ vs.length = xs.length) ∧
    (argModeFn p rec (.list xs) t own st = (st', .ok v) → ∃ vs, v = .list vs ∧ vs.length = xs.length) ∧
    (argModeFn p rec (.tuple xs) t own st = (st', .ok v) → ∃ vs, v = .tuple vs ∧ vs.length = xs.length) := by
  refine ⟨?_, ?_, ?_, ?_⟩ <;>
  · intro h
    simp only [fillFn, argModeFn, M.bind_apply] at h
    rcases hr : mapLoop rec t own xs [] st with ⟨st1, r1⟩
    rw [hr] at h
    cases r1 with
    | error e => simp at h
    | ok vs =>
      simp [M.pure_apply] at h
      exact ⟨vs, h.2.symm, by simpa using mapLoop_length rec t own xs [] st st1 vs hr⟩

/-- Strings, numbers and other literals are kept in both modes; a callable is *called* with the
    target in Fill mode and *kept* in argument position. -/
theorem c08_literals {σ : Type} [ScopeAlg σ] (p : Prims) (rec : Rec σ) (t : V) (own : σ) (s n k : String)
    (v : V) :
    fillFn p rec (.str s) t own = pure (.str s) ∧ argModeFn p rec (.str s) t own = pure (.str s) ∧
    fillFn p rec (.lit v) t own = pure v ∧ argModeFn p rec (.lit v) t own = pure v ∧
    fillFn p rec (.fn n k) t own = callFn p n k [t] [] ∧ argModeFn p rec (.fn n k) t own = pure (.fn n k) :=
  ⟨rfl, rfl, rfl, rfl, rfl, rfl⟩

/-! ### why `chain_child` must reset the mode: the pre-repair scope is *not* lexical -/

/-- the scope as glom had it before the repair of F4: `chain_child` hands on the last child's
    scope with whatever MODE that child had set -/
@[instance_reducible] def leaky : ScopeAlg Frames :=
  { (inferInstance : ScopeAlg Frames) with chain := fun _ lastChild => lastChild }

private def trivialPrims : Prims :=
  { eq := fun _ _ => false, truthy := fun _ => true, hashable := fun _ => true,
    isinstance := fun _ _ => true, iterate := fun _ => .ok [], getSeg := fun v _ => .ok v,
    tEval := fun _ v => .ok v, applyFn := fun _ _ _ => .ok .none, applyTy := fun _ v => .ok v,
    isSub := fun a b => a == b, typeName := fun _ => "" }

/-- `(Fill(probe 1), probe 2)`: with the pre-repair `chain_child` the second step — outside the
    Fill — is evaluated in FILL mode; the static mode of that position is AUTO. -/
theorem c08_F4_counterexample :
    let spec := Spec.tuple [.fill (.probe 1), .probe 2]
    let root : Frames := [{ mode := some .auto, arg := some false }]
    probesOf (@interp Frames leaky trivialPrims 8 spec .none root {}).1.log = [(1, .fill), (2, .fill)] ∧
    checkModes 8 spec [(1, .fill), (2, .fill)] = false ∧
    probesOf (interp (σ := Frames) trivialPrims 8 spec .none root {}).1.log = [(1, .fill), (2, .auto)] := by
  refine ⟨by rfl, by decide, by rfl⟩

/-! ### non-vacuity -/

example : noRefF 8 (.tuple [.fill (.probe 1), .probe 2]) = true := by decide
example : annotF 8 .auto (.tuple [.fill (.tuple [.probe 1, .mtch (.probe 3) Option.none]), .probe 2]) =
    [(1, .fill), (3, .mtch), (2, .auto)] := by decide
example : annotF 8 .auto (.switch [(.mtch (.ty "int") Option.none, .probe 1), (.fill (.probe 2), .probe 3)]
    Option.none) = [(1, .auto), (2, .fill), (3, .auto)] := by decide

/-- a stream built under Fill as a non-final link and consumed by the next link: its probe is in
    FILL mode, the probe after the chain link in AUTO mode -/
example : annotF 8 .auto (.tuple [.fill (.iter (.probe 1) false), .ty "list", .probe 2]) =
    [(1, .fill), (2, .auto)] := by decide

private def onePrims : Prims := { trivialPrims with iterate := fun _ => .ok [.none] }

/-- … and the interpreter records exactly that (one item; `list` is the consumer) -/
example :
    let spec := Spec.tuple [.fill (.iter (.probe 1) false), .ty "list", .probe 2]
    let root : Frames := [{ mode := some .auto, arg := some false }]
    probesOf (interp (σ := Frames) onePrims 8 spec .none root {}).1.log = [(1, .fill), (2, .auto)] := by
  rfl

end Glom.Props.C08
