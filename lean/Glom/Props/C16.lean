import Glom.Lemmas.C16
import Glom.Model.C16Env
/-
  C16 — Group builds exactly the buckets and aggregates of a hand-written loop.

  Property theorems only; helper lemmas are in `Glom/Lemmas/C16.lean`.

  `groupEval g items` is the model of `glom(items, Group(g))`: Group.glomit's item loop
  around the GROUP dispatcher, threading the one accumulator tree whose keys are
  id(spec) ints, spec objects and bucket keys all in one namespace, with the STOP marks
  and the `done` flag (Glom/Model/C16.lean).  `valOfTop g items` is the dictionary a
  hand-written bucketing loop builds (Glom/Spec/C16.lean).  The theorems are for ALL
  spec trees (any number of key levels), ALL item sequences of any length and all key /
  value functions of the catalogue.

  FULL STATEMENT (what the property says):
      ∀ g items, wfRun g items → groupEval g items = .ok (valOfTop g items)
  It is FALSE for the code that exists: `c16_F9_counterexample` and
  `c16_F10_counterexample` disprove it on concrete inputs on which the real glom
  behaves exactly as the model (the correspondence runs both witnesses on every check).
  What is proved is `c16_eq_reference_partial`, under the two hypotheses the proof forces:
      H1' `stopFree`  : no STOP source (First, Limit, a function saying STOP) — the code
                        stops a whole key level when one bucket's leaf says STOP (F9);
      H2  `keysApart` : no bucket key equals id() of its spec dict or is its key-spec
                        object — the tree keeps all three kinds of keys in one dict (F10);
  plus the top-level STOP sources the property names: `c16_top_limit`, `c16_top_first`.
  (H1' is stronger than the H1 of the design — "no STOP-producing leaf under a key level
  whose key takes more than one value": a STOP source under a key level with a single
  key value is not covered by a theorem, only by the correspondence.)
  `wfRun` (no user function raises, keys hashable, aggregators meet operands they
  handle) delimits the runs the property talks about.
-/
namespace Glom.Props.C16
open Glom.C16

/-- **Facts obligation** (re-checked on every run): the 113 statements of Group.glomit, GROUP,
    First/Avg/Max/Min.agg, Limit.glomit/__init__, Fold._agg, Merge._agg and the aggregator entry
    of Fold.glomit, regenerated from /repo's source, are exactly the statements the model
    transcribes; the aggregator classes keep no state of their own (`__slots__`). -/
theorem c16_facts_wf : genWF = true := by decide

/-- **Group = the hand-written bucketing loop** (partial: H1', H2).  For every spec tree, every
    item sequence: keys in order of first occurrence, values in encounter order, SKIP drops
    an item, every leaf equals its Python reference over the items routed to it. -/
theorem c16_eq_reference_partial (g : GSpec) (items : List V)
    (hwf : wfRun g items = true) (h1 : stopFree false g items = true) (h2 : keysApart g items = true) :
    groupEval g items = .ok (valOfTop g items) :=
  groupEval_spec g items ⟨hwf, h1, h2⟩

/-- the step form of the same fact: with the tree the earlier items left, one more item
    yields the reference over all items so far and the tree of all items so far — so a
    sub-tree is exactly the state of the items routed to that bucket (no carry-over
    between buckets) -/
theorem c16_step (g : GSpec) (below : Bool) (its : List V) (x : V)
    (hwf : wfRun g (its ++ [x]) = true) (h1 : stopFree below g (its ++ [x]) = true)
    (h2 : keysApart g (its ++ [x]) = true) :
    gstep g x (treeOf g its) = .ok (valOf g (its ++ [x]), treeOf g (its ++ [x])) :=
  gstep_spec g below its x ⟨hwf, h1, h2⟩

/-- **top-level Limit(n)**: `Group(Limit(n, sub))` equals the reference, which for `n ≥ 1` is
    `sub` over the first `n` items (`c16_top_limit_take`) -/
theorem c16_top_limit (oid n : Nat) (sub : GSpec) (items : List V)
    (hwf : wfRun sub items = true) (h1 : stopFree false sub items = true) (h2 : keysApart sub items = true) :
    groupEval (.limit oid n sub) items = .ok (valOfTop (.limit oid n sub) items) :=
  limit_spec oid n sub items ⟨hwf, h1, h2⟩

theorem c16_top_limit_take (oid n : Nat) (sub : GSpec) (items : List V) (hn : n ≠ 0) (hne : items ≠ []) :
    valOfTop (.limit oid n sub) items = valOfTop sub (items.take n) := by
  have h1 : items.isEmpty = false := by simpa using hne
  have h2 : (items.take n).isEmpty = false := by
    cases items with
    | nil => exact absurd rfl hne
    | cons x xs => cases n with
      | zero => exact absurd rfl hn
      | succ m => simp
  have h3 : (n == 0) = false := by simpa using hn
  simp [valOfTop, emptyOr, valOf, h1, h2, h3]

/-- **top-level First**: the first item (None when there is none) -/
theorem c16_top_first (oid : Nat) (items : List V) (hp : ∀ x ∈ items, isStop x = false) :
    groupEval (.agg oid .first) items = .ok (items.head?.getD .none) := by
  rw [first_spec oid items hp]
  cases items <;> simp [valOfTop, emptyOr, valOf, refAgg, emptyOf]

/-- **fresh tree per evaluation, also when nested**: a Group object in value position
    neither reads nor writes the enclosing evaluation's tree — whatever that tree holds,
    the nested evaluation is the stand-alone evaluation of its spec on the item, and the
    enclosing tree comes back unchanged.  (Re-use: `groupEval` takes no tree at all —
    Group.glomit binds `scope[ACC_TREE] = {}` itself, a statement `c16_facts_wf` pins.) -/
theorem c16_fresh (g : GSpec) (xs : List V) (tree : List (V × V)) :
    gstep (.nested g) (.list xs) tree = (groupEval g xs).map (fun r => (r, tree)) ∧
    gstep (.nested g) (.tuple xs) tree = (groupEval g xs).map (fun r => (r, tree)) := by
  constructor <;>
  · simp only [gstep, iterOf, groupEval, groupLoop]
    cases loopWith (gstep g) xs (emptyOf g) [] <;> rfl

/-- **Checker theorem** — the form in which the property is evaluated on the implementation's
    observations by the correspondence driver: on every run the theorems cover, the model's
    own observation passes (one spec object, any number of runs, in any order). -/
theorem c16_model_checks (g : GSpec) (runs : List (List V))
    (h : ∀ r ∈ runs, wfRun g r = true → covered g r = true) :
    checkC16 g runs (runs.map (fun r => observe (groupEval g r))) = true :=
  check_model g runs h

/-! ### the full statement is false: the two known defects, in the model -/

/-- F9 — `glom([0, 2, 1], Group({T % 2: First()}))`.  A hand-written loop gives `{0: 0, 1: 1}`;
    the code gives `{0: 0}`: when the bucket of key 0 says STOP on its second item, GROUP
    marks the whole KEY-SPEC as stopped, so bucket 1 never sees an item.  H2 holds, H1' fails. -/
theorem c16_F9_counterexample :
    let g : GSpec := .dict 0 1 (.mod 2) (.agg 2 .first)
    let items : List V := [.int 0, .int 2, .int 1]
    wfRun g items = true ∧ keysApart g items = true ∧ stopFree false g items = false ∧
    (observe (groupEval g items) == .ok (.dict [(.int 0, .int 0)])) = true ∧
    (valOfTop g items == .dict [(.int 0, .int 0), (.int 1, .int 1)]) = true ∧
    checkC16 g [items] [observe (groupEval g items)] = false := by
  decide

/-- F10 — `spec = {}; spec[lambda t: id(spec) if t == 2 else t] = [T]; glom([1, 2, 3], Group(spec))`.
    A hand-written loop gives `{1: [1], id(spec): [2], 3: [3]}`; the code gives
    `{id(the [T] list): [2], 3: [3]}`: the bucket key `id(spec)` lands in the tree slot that
    holds the level's own `acc` dict, `tree[key] = {}` replaces it, and from the next item on
    the bucket's SUB-TREE is taken for `acc` (item 1 is lost, a foreign key appears).
    H1' holds, H2 fails.  (The source carries a TODO for it.) -/
theorem c16_F10_counterexample :
    let g : GSpec := .dict 0 1 (.idIf (.int 2) 0) (.list 2 .ident)
    let items : List V := [.int 1, .int 2, .int 3]
    wfRun g items = true ∧ stopFree false g items = true ∧ keysApart g items = false ∧
    (observe (groupEval g items) == .ok (.dict [(idKey 2, .list [.int 2]), (.int 3, .list [.int 3])])) = true ∧
    (valOfTop g items ==
      .dict [(.int 1, .list [.int 1]), (idKey 0, .list [.int 2]), (.int 3, .list [.int 3])]) = true ∧
    checkC16 g [items] [observe (groupEval g items)] = false := by
  decide

/-! ### non-vacuity: concrete non-trivial inputs meet every hypothesis -/

/-- `Group({T % 2: {T % 3: [T]}})`: two key levels -/
private def exSpec : GSpec := .dict 0 1 (.mod 2) (.dict 2 3 (.mod 3) (.list 4 .ident))
private def exItems : List V := [.int 1, .int 2, .int 3, .int 4, .int 7, .int 8]

example : wfRun exSpec exItems = true ∧ stopFree false exSpec exItems = true ∧ keysApart exSpec exItems = true := by
  decide
example : (valOfTop exSpec exItems ==
    .dict [(.int 1, .dict [(.int 1, .list [.int 1, .int 7]), (.int 0, .list [.int 3])]),
           (.int 0, .dict [(.int 2, .list [.int 2, .int 8]), (.int 1, .list [.int 4])])]) = true := by decide
-- SKIP-producing key function, aggregator leaf
example : let g : GSpec := .dict 0 1 (.keySkip 3) (.agg 2 .max)
    wfRun g exItems = true ∧ stopFree false g exItems = true ∧ keysApart g exItems = true ∧
    (valOfTop g exItems == .dict [(.int 1, .int 7), (.int 2, .int 8)]) = true := by decide
-- covered top-level STOP sources
example : covered (.limit 9 2 exSpec) exItems = true ∧ covered (.agg 0 .first) exItems = true := by decide
example : (valOfTop (.limit 9 2 exSpec) exItems ==
    .dict [(.int 1, .dict [(.int 1, .list [.int 1])]), (.int 0, .dict [(.int 2, .list [.int 2])])]) = true := by decide
-- re-use of one spec object on two item lists, and nesting: the checker's hypothesis is met
example : ∀ r ∈ [exItems, [.int 5, .int 6]], wfRun exSpec r = true → covered exSpec r = true := by decide
-- `c16_top_first` needs items that are not the STOP sentinel itself: Group(First()) on [STOP] is None
example : (observe (groupEval (.agg 0 .first) [.stop]) == .ok .none) = true := by decide

end Glom.Props.C16
